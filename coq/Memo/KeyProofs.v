(* The concrete cache keys: decidable equality, and injectivity of LookupOptions.String() on well-formed options.
   Consequence: with the paging offset in the key (after fix F16) two requests with the same key ARE the same request,
   so no assumption about the wrapped store is needed for `key_respected`; with the pre-F16 key the same holds among
   requests with Offset = 0. *)
From Coq Require Import List NArith ZArith Bool Arith Lia DecimalZ.
From Coq.Strings Require Import Byte.
Import ListNotations.
From BWMemo Require Import Memo.

(* ---------------------------------------------------------------- boolean equalities *)
Lemma byte_eqb_eq : forall a b : byte, Byte.eqb a b = true <-> a = b.
Proof.
  intros a b. split; [apply Byte.byte_dec_bl|apply Byte.byte_dec_lb].
Qed.

Lemma list_eqb_eq : forall (A : Type) (eqb : A -> A -> bool),
  (forall a b, eqb a b = true <-> a = b) -> forall l l', list_eqb eqb l l' = true <-> l = l'.
Proof.
  intros A eqb H. induction l as [|x l IH]; destruct l' as [|y l']; cbn; split; intro E; try reflexivity; try discriminate.
  - apply andb_true_iff in E. destruct E as [E1 E2]. apply H in E1. apply IH in E2. subst. reflexivity.
  - inversion E; subst. apply andb_true_iff. split; [apply H; reflexivity|apply IH; reflexivity].
Qed.

Lemma str_eqb_eq : forall a b : str, str_eqb a b = true <-> a = b.
Proof. apply list_eqb_eq. exact byte_eqb_eq. Qed.

Lemma opkind_eqb_eq : forall a b, opkind_eqb a b = true <-> a = b.
Proof.
  intros a b. unfold opkind_eqb. rewrite N.eqb_eq. split; [|intro; subst; reflexivity].
  destruct a, b; cbn; intro E; try reflexivity; discriminate.
Qed.

Lemma ckey_eqb_eq : forall (arg : Type) (arg_eqb : arg -> arg -> bool),
  (forall a b, arg_eqb a b = true <-> a = b) ->
  forall a b : ckey arg, ckey_eqb arg_eqb a b = true <-> a = b.
Proof.
  intros arg arg_eqb H [[[o1 s1] z1] l1] [[[o2 s2] z2] l2]. unfold ckey_eqb.
  rewrite !andb_true_iff, opkind_eqb_eq, str_eqb_eq, Z.eqb_eq, (list_eqb_eq arg arg_eqb H).
  split.
  - intros [[[E1 E2] E3] E4]. subst. reflexivity.
  - intro E. inversion E; subst. auto.
Qed.

(* ---------------------------------------------------------------- well-formed options *)
Lemma split_comma : forall a a' r r',
  no_comma a = true -> no_comma a' = true -> a ++ x2c :: r = a' ++ x2c :: r' -> a = a' /\ r = r'.
Proof.
  induction a as [|x a IH]; intros a' r r' Na Na' E; destruct a' as [|y a']; cbn in *.
  - inversion E. auto.
  - inversion E; subst. apply andb_true_iff in Na'. destruct Na' as [N1 _]. discriminate.
  - inversion E; subst. apply andb_true_iff in Na. destruct Na as [N1 _]. discriminate.
  - inversion E; subst. apply andb_true_iff in Na. apply andb_true_iff in Na'.
    destruct (IH a' r r') as [E1 E2]; try tauto. subst. auto.
Qed.

Lemma no_comma_uint : forall u, no_comma (uint_bytes u) = true.
Proof. induction u; cbn; try reflexivity; exact IHu. Qed.

Lemma uint_bytes_inj : forall u u', uint_bytes u = uint_bytes u' -> u = u'.
Proof.
  induction u; destruct u'; cbn; intro E; try reflexivity; try discriminate;
    inversion E; f_equal; apply IHu; assumption.
Qed.

Lemma uint_bytes_not_minus : forall u r, uint_bytes u <> x2d :: r.
Proof. destruct u; cbn; intros r E; discriminate. Qed.

Lemma no_comma_itoa : forall z, no_comma (itoa z) = true.
Proof. intro z. unfold itoa. destruct (Z.to_int z); cbn; apply no_comma_uint. Qed.

Lemma itoa_inj : forall z z', itoa z = itoa z' -> z = z'.
Proof.
  intros z z' E. rewrite <- (DecimalZ.of_to z), <- (DecimalZ.of_to z'). f_equal.
  unfold itoa in E. destruct (Z.to_int z) as [u|u], (Z.to_int z') as [u'|u'].
  - f_equal. apply uint_bytes_inj. exact E.
  - exfalso. eapply uint_bytes_not_minus. exact E.
  - exfalso. eapply uint_bytes_not_minus. symmetry. exact E.
  - f_equal. apply uint_bytes_inj. inversion E. reflexivity.
Qed.

Lemma anchor_text_inj : forall a b, anchor_wf a = true -> anchor_wf b = true ->
  opt_or a s_nil = opt_or b s_nil -> a = b.
Proof.
  intros [a|] [b|] Wa Wb E; cbn in *; try reflexivity.
  - subst. reflexivity.
  - subst a. apply andb_true_iff in Wa. destruct Wa as [_ W]. cbn in W. discriminate.
  - subst b. apply andb_true_iff in Wb. destruct Wb as [_ W]. cbn in W. discriminate.
Qed.

Lemma anchor_text_no_comma : forall a, anchor_wf a = true -> no_comma (opt_or a s_nil) = true.
Proof.
  intros [a|] W; cbn in *; [|reflexivity]. apply andb_true_iff in W. tauto.
Qed.

Lemma filter_text_inj : forall a b, filter_wf a = true -> filter_wf b = true ->
  opt_or a s_pnil = opt_or b s_pnil -> a = b.
Proof.
  intros [a|] [b|] Wa Wb E; cbn in *; try reflexivity.
  - subst. reflexivity.
  - subst a. cbn in Wa. discriminate.
  - subst b. cbn in Wb. discriminate.
Qed.

Definition bool_text (b : bool) : str := if b then s_true else s_false.

Lemma bool_text_inj : forall a b, bool_text a = bool_text b -> a = b.
Proof. intros [|] [|] E; cbn in E; try reflexivity; discriminate. Qed.

Lemma no_comma_bool : forall b, no_comma (bool_text b) = true.
Proof. intros [|]; reflexivity. Qed.

(* the shape of LookupOptions.String(): fields separated by commas *)
Lemma options_key_shape : forall lo,
  options_key lo =
  s_limit ++ (itoa (lo_max lo) ++ x2c :: (tl s_lower ++ (opt_or (lo_lower lo) s_nil ++ x2c :: (tl s_upper ++
    (opt_or (lo_upper lo) s_nil ++ x2c :: (tl s_latest ++ (bool_text (lo_latest lo) ++ x2c :: (tl s_filter ++
      (opt_or (lo_filter lo) s_pnil ++ s_gt))))))))).
Proof.
  intro lo. unfold options_key, bool_text. repeat rewrite <- app_assoc. reflexivity.
Qed.

(* LookupOptions.String() determines every field it prints *)
Theorem options_key_inj : forall a b, lo_wf a = true -> lo_wf b = true -> options_key a = options_key b ->
  lo_max a = lo_max b /\ lo_lower a = lo_lower b /\ lo_upper a = lo_upper b /\
  lo_latest a = lo_latest b /\ lo_filter a = lo_filter b.
Proof.
  intros a b Wa Wb E. unfold lo_wf in Wa, Wb.
  apply andb_true_iff in Wa. destruct Wa as [Wa Wa3]. apply andb_true_iff in Wa. destruct Wa as [Wa1 Wa2].
  apply andb_true_iff in Wb. destruct Wb as [Wb Wb3]. apply andb_true_iff in Wb. destruct Wb as [Wb1 Wb2].
  rewrite !options_key_shape in E.
  apply app_inv_head in E.
  apply split_comma in E; try apply no_comma_itoa. destruct E as [E1 E].
  apply app_inv_head in E.
  apply split_comma in E; try (apply anchor_text_no_comma; assumption). destruct E as [E2 E].
  apply app_inv_head in E.
  apply split_comma in E; try (apply anchor_text_no_comma; assumption). destruct E as [E3 E].
  apply app_inv_head in E.
  apply split_comma in E; try apply no_comma_bool. destruct E as [E4 E].
  apply app_inv_head in E.
  apply app_inv_tail in E.
  split; [apply itoa_inj; exact E1|].
  split; [apply anchor_text_inj; assumption|].
  split; [apply anchor_text_inj; assumption|].
  split; [apply bool_text_inj; exact E4|].
  apply filter_text_inj; assumption.
Qed.

Section KeyInj.
  Variable arg : Type.

  Definition q_wf (q : cquery arg) : bool := lo_wf (q_lo q).

  (* after F16: equal keys, equal requests *)
  Theorem key_v1_inj : forall q1 q2 : cquery arg, q_wf q1 = true -> q_wf q2 = true -> key_v1 q1 = key_v1 q2 -> q1 = q2.
  Proof.
    intros [o1 lo1 a1] [o2 lo2 a2] W1 W2 E. unfold key_v1 in E. cbn [q_op q_lo q_args] in E.
    pose proof (f_equal (fun k : ckey arg => fst (fst (fst k))) E) as Eo.
    pose proof (f_equal (fun k : ckey arg => snd (fst (fst k))) E) as Ek.
    pose proof (f_equal (fun k : ckey arg => snd (fst k)) E) as Ez.
    pose proof (f_equal (fun k : ckey arg => snd k) E) as Ea.
    cbn [fst snd] in Eo, Ek, Ez, Ea. clear E. subst o1 a1.
    destruct (options_key_inj lo1 lo2 W1 W2 Ek) as [M [L [U [B F]]]].
    destruct lo1, lo2; cbn in *; subst. reflexivity.
  Qed.

  (* before F16: equal keys, requests equal up to the paging offset *)
  Definition with_offset (q : cquery arg) (z : Z) : cquery arg :=
    mkQ (q_op q) (mkLO (lo_max (q_lo q)) (lo_lower (q_lo q)) (lo_upper (q_lo q)) (lo_latest (q_lo q))
                       (lo_filter (q_lo q)) z) (q_args q).

  Theorem key_v0_inj : forall q1 q2 : cquery arg, q_wf q1 = true -> q_wf q2 = true -> key_v0 q1 = key_v0 q2 ->
    with_offset q1 0 = with_offset q2 0.
  Proof.
    intros [o1 lo1 a1] [o2 lo2 a2] W1 W2 E. unfold key_v0 in E. cbn [q_op q_lo q_args] in E.
    pose proof (f_equal (fun k : ckey arg => fst (fst (fst k))) E) as Eo.
    pose proof (f_equal (fun k : ckey arg => snd (fst (fst k))) E) as Ek.
    pose proof (f_equal (fun k : ckey arg => snd k) E) as Ea.
    cbn [fst snd] in Eo, Ek, Ea. clear E. subst o1 a1.
    destruct (options_key_inj lo1 lo2 W1 W2 Ek) as [M [L [U [B F]]]].
    destruct lo1, lo2; cbn in *; subst. reflexivity.
  Qed.

  Lemma with_offset_self : forall q : cquery arg, lo_offset (q_lo q) = 0%Z -> with_offset q 0 = q.
  Proof. intros [o [m l u b f z] a] E. cbn in E. subst. reflexivity. Qed.

  Lemma key_exist : forall q1 q2 : cquery arg, key_v0 q1 = key_v0 q2 -> cq_is_exist q1 = cq_is_exist q2.
  Proof.
    intros q1 q2 E. pose proof (f_equal (fun k : ckey arg => fst (fst (fst k))) E) as Eo.
    cbn in Eo. unfold cq_is_exist. rewrite Eo. reflexivity.
  Qed.
End KeyInj.
