(* Model of /repo/storage/memoization/memoization.go, generic over an ABSTRACT wrapped store.

   What the Go code does (read in full; the eleven lookups are textual copies of one another):
     - storeMemoizer.Graph / NewGraph wrap the inner graph handle in a FRESH graphMemoizer (five empty maps);
     - AddTriples / RemoveTriples: lock, replace the five maps by empty ones, unlock, THEN forward to the inner graph;
     - a lookup computes k = combinedUUID(op, lo, argument UUIDs...), reads its map under RLock;
         v != nil (a non-empty cached slice)  => stream v, return nil                        (hit)
         otherwise                            => forward to the inner graph in a goroutine, relay every element
                                                 to the caller while appending it to a slice, wait, and - when the
                                                 inner lookup returned no error (fix F22) - lock, store the slice
                                                 under k (also when it is empty/nil), unlock; return the inner error
     - Exist: its own map memE; hit = key present (also for a cached `false`); miss = forward, store only when err == nil.
   The model keeps exactly that: per-handle caches, keys, hit test, clear-then-forward, forward-stream-store.
   Everything about the wrapped store is a Section variable (inner_step), so this file depends on no other family. *)
From Coq Require Import List NArith ZArith Bool Arith.
From Coq.Strings Require Import Byte.
Import ListNotations.

Definition str := list byte.

(* ------------------------------------------------------------------------------------------------------------ *)
Section MemoModel.
  Variables (istate gid wreq query elem err K : Type).
  (* which lookups go through memE (Exist) rather than through one of the four slice maps *)
  Variable is_exist : query -> bool.
  (* the cache key the memoizer computes from a lookup request (combinedUUID) *)
  Variable key : query -> K.
  Variable K_eqb : K -> K -> bool.

  Inductive req := Write (w : wreq) | Read (q : query).

  Inductive answer :=
  | AList (l : list elem) (e : option err)   (* what a channel lookup delivered, and the returned error *)
  | ABool (b : bool) (e : option err)        (* Exist *)
  | AAck (e : option err)                    (* AddTriples / RemoveTriples *)
  | ABadHandle.                              (* history refers to a handle that was never opened (model only) *)

  (* the wrapped store: one step of the inner graph `g` of the inner store *)
  Variable inner_step : istate -> gid -> req -> istate * answer.

  (* ---------------------------------------------------------------- one handle (graphMemoizer) *)
  Record handle := mkH {
    h_gid : gid;
    h_list : list (K * list elem);   (* memN, memP, memO, memT: op name is part of the key, so one map *)
    h_exist : list (K * bool)        (* memE *)
  }.

  Fixpoint afind {V : Type} (k : K) (c : list (K * V)) : option V :=
    match c with
    | [] => None
    | (k', v) :: r => if K_eqb k k' then Some v else afind k r
    end.

  Definition fresh (g : gid) : handle := mkH g [] [].
  Definition cleared (h : handle) : handle := mkH (h_gid h) [] [].
  Definition store_list (h : handle) (k : K) (l : list elem) : handle :=
    mkH (h_gid h) ((k, l) :: h_list h) (h_exist h).
  Definition store_exist (h : handle) (k : K) (b : bool) : handle :=
    mkH (h_gid h) (h_list h) ((k, b) :: h_exist h).

  (* cache probe under RLock: Some answer = hit *)
  Definition probe (h : handle) (q : query) : option answer :=
    if is_exist q then
      match afind (key q) (h_exist h) with
      | Some b => Some (ABool b None)
      | None => None
      end
    else
      match afind (key q) (h_list h) with
      | Some (x :: l) => Some (AList (x :: l) None)     (* v != nil *)
      | _ => None
      end.

  (* what the memoizer stores after the forwarded lookup returned `a`: only when err == nil (for the channel lookups
     since fix F22; before it the collected slice was stored whatever the error was, see store_after_f22 below) *)
  Definition store_after (h : handle) (q : query) (a : answer) : handle :=
    if is_exist q then
      match a with
      | ABool b None => store_exist h (key q) b
      | _ => h
      end
    else
      match a with
      | AList l None => store_list h (key q) l
      | _ => h
      end.

  (* the tree BEFORE fix F22 (kept only for the witness C19_truncated_cached_refuted) *)
  Definition store_after_f22 (h : handle) (q : query) (a : answer) : handle :=
    if is_exist q then
      match a with
      | ABool b None => store_exist h (key q) b
      | _ => h
      end
    else
      match a with
      | AList l _ => store_list h (key q) l
      | _ => h
      end.

  (* big-step (sequential) semantics of one request on one handle *)
  Definition handle_step (s : istate) (h : handle) (r : req) : istate * handle * answer :=
    match r with
    | Write w =>
        let '(s', a) := inner_step s (h_gid h) (Write w) in (s', cleared h, a)
    | Read q =>
        match probe h q with
        | Some a => (s, h, a)
        | None =>
            let '(s', a) := inner_step s (h_gid h) (Read q) in (s', store_after h q a, a)
        end
    end.

  Definition handle_step_f22 (s : istate) (h : handle) (r : req) : istate * handle * answer :=
    match r with
    | Write w =>
        let '(s', a) := inner_step s (h_gid h) (Write w) in (s', cleared h, a)
    | Read q =>
        match probe h q with
        | Some a => (s, h, a)
        | None =>
            let '(s', a) := inner_step s (h_gid h) (Read q) in (s', store_after_f22 h q a, a)
        end
    end.

  (* one handle, sequential, pre-F22 *)
  Fixpoint run1_f22 (s : istate) (h : handle) (rs : list req) : istate * handle * list answer :=
    match rs with
    | [] => (s, h, [])
    | r :: rest => let '(s', h', a) := handle_step_f22 s h r in
                   let '(s'', h'', l) := run1_f22 s' h' rest in (s'', h'', a :: l)
    end.

  (* ---------------------------------------------------------------- histories over several handles *)
  Inductive hop := HOpen (g : gid) | HDo (h : nat) (r : req).

  Record mstate := mkM { m_inner : istate; m_handles : list handle }.

  Fixpoint upd_nth {A : Type} (n : nat) (x : A) (l : list A) : list A :=
    match l, n with
    | [], _ => []
    | _ :: r, O => x :: r
    | y :: r, S n' => y :: upd_nth n' x r
    end.

  Definition memo_step (st : mstate) (o : hop) : mstate * answer :=
    match o with
    | HOpen g => (mkM (m_inner st) (m_handles st ++ [fresh g]), AAck None)
    | HDo i r =>
        match nth_error (m_handles st) i with
        | None => (st, ABadHandle)
        | Some h =>
            let '(s', h', a) := handle_step (m_inner st) h r in
            (mkM s' (upd_nth i h' (m_handles st)), a)
        end
    end.

  Fixpoint memo_run (st : mstate) (ops : list hop) : mstate * list answer :=
    match ops with
    | [] => (st, [])
    | o :: r => let '(st', a) := memo_step st o in
                let '(st'', l) := memo_run st' r in (st'', a :: l)
    end.

  (* ---------------------------------------------------------------- lookups whose caller cancels its context
     The caller takes k elements from the result channel, cancels the context and stops receiving.  What the code does:
       hit : `select { case <-ctx.Done(): return nil; case out <- o }`  - the first k cached elements, NO error;
       miss: `select { case <-ctx.Done(): go drain(c); return errors.New("context cancelled"); case out <- o: append }` -
             the first k elements of the forwarded lookup, the error, and NOTHING is stored (the function returns before
             the store).  Since fix F23 the forwarded lookup is drained in the background, so it always returns; before
             the fix it stayed blocked for ever when two or more elements were still undelivered (handle_step_c_f23).
     When the answer has no more than k elements the channel is closed before the caller cancels: an ordinary lookup.
     Exist does not look at the context. *)
  Inductive creq := CPlain (r : req) | CCancel (q : query) (k : nat).

  Definition handle_step_c (cancelled : err) (s : istate) (h : handle) (r : creq) : istate * handle * answer :=
    match r with
    | CPlain r => handle_step s h r
    | CCancel q k =>
        if is_exist q then handle_step s h (Read q)
        else
          match probe h q with
          | Some (AList v e) =>
              if Nat.ltb k (length v) then (s, h, AList (firstn k v) None) else (s, h, AList v e)
          | Some a => (s, h, a)
          | None =>
              let '(s', a) := inner_step s (h_gid h) (Read q) in
              match a with
              | AList l e =>
                  if Nat.ltb k (length l)
                  then (s', h, AList (firstn k l) (Some cancelled))
                  else (s', store_after h q a, a)
              | _ => (s', store_after h q a, a)
              end
          end
    end.

  (* the tree BEFORE fix F23: the same step, plus the flag "the forwarded lookup was left blocked for ever" (one element
     is in the memoizer's hand and is dropped; a second undelivered one blocks the wrapped lookup on its channel) *)
  Definition handle_step_c_f23 (cancelled : err) (s : istate) (h : handle) (r : creq)
    : istate * handle * answer * bool :=
    match r with
    | CCancel q k =>
        if is_exist q then (handle_step_c cancelled s h r, false)
        else
          match probe h q with
          | Some _ => (handle_step_c cancelled s h r, false)
          | None =>
              match snd (inner_step s (h_gid h) (Read q)) with
              | AList l _ => (handle_step_c cancelled s h r, Nat.ltb k (length l) && Nat.leb (k + 2) (length l))
              | _ => (handle_step_c cancelled s h r, false)
              end
          end
    | _ => (handle_step_c cancelled s h r, false)
    end.

  Inductive chop := COpen (g : gid) | CDo (h : nat) (r : creq).

  Definition memo_step_c (cancelled : err) (st : mstate) (o : chop) : mstate * answer :=
    match o with
    | COpen g => (mkM (m_inner st) (m_handles st ++ [fresh g]), AAck None)
    | CDo i r =>
        match nth_error (m_handles st) i with
        | None => (st, ABadHandle)
        | Some h =>
            let '(s', h', a) := handle_step_c cancelled (m_inner st) h r in
            (mkM s' (upd_nth i h' (m_handles st)), a)
        end
    end.

  Fixpoint memo_run_c (cancelled : err) (st : mstate) (ops : list chop) : mstate * list answer :=
    match ops with
    | [] => (st, [])
    | o :: r => let '(st', a) := memo_step_c cancelled st o in
                let '(st'', l) := memo_run_c cancelled st' r in (st'', a :: l)
    end.

  (* what the caller of a cancelled lookup is entitled to: the first k elements of the wrapped store's answer *)
  Definition elems_of (a : answer) : list elem := match a with AList l _ => l | _ => [] end.

  (* the reference: the same history applied to the wrapped store directly, handle = graph id *)
  Record rstate := mkR { r_inner : istate; r_gids : list gid }.

  Definition ref_step (st : rstate) (o : hop) : rstate * answer :=
    match o with
    | HOpen g => (mkR (r_inner st) (r_gids st ++ [g]), AAck None)
    | HDo i r =>
        match nth_error (r_gids st) i with
        | None => (st, ABadHandle)
        | Some g => let '(s', a) := inner_step (r_inner st) g r in (mkR s' (r_gids st), a)
        end
    end.

  Fixpoint ref_run (st : rstate) (ops : list hop) : rstate * list answer :=
    match ops with
    | [] => (st, [])
    | o :: r => let '(st', a) := ref_step st o in
                let '(st'', l) := ref_run st' r in (st'', a :: l)
    end.

  Definition init_m (s : istate) : mstate := mkM s [].
  Definition init_r (s : istate) : rstate := mkR s [].

  (* ---------------------------------------------------------------- small-step semantics (interleavings)
     Atomic steps of one request, separated by the yield points at the inner store's interface:
       read :  [probe cache]  --miss-->  (parked before the forwarded read)
               [inner read]              (parked after the forwarded read returned, before the cache store)
               [store in cache, return]
       write:  [clear caches]            (parked before the forwarded write applies)
               [inner write, return]
     Each bracket is atomic in the Go code: the probe runs under RLock, clear/store under Lock, and the inner
     store's own operations are atomic by its own locking (assumption on the wrapped store, cf. C07). *)
  Inductive pc :=
  | Idle
  | RdFwd (q : query)                 (* miss decided; forwarded read not yet executed *)
  | RdStore (q : query) (a : answer)  (* forwarded read returned a; cache store pending *)
  | WrFwd (w : wreq).                 (* caches cleared; forwarded write not yet applied *)

  Record thread := mkT {
    t_handle : nat;
    t_pc : pc;
    t_todo : list req;
    t_done : list (req * answer)       (* completed requests, most recent first *)
  }.

  Record gstate := mkG { g_inner : istate; g_handles : list handle; g_threads : list thread }.

  Definition finished (t : thread) : bool :=
    match t_pc t, t_todo t with
    | Idle, [] => true
    | _, _ => false
    end.

  (* one atomic step of thread number i; None = not enabled (finished, or no such thread / handle) *)
  Definition step (st : gstate) (i : nat) : option gstate :=
    match nth_error (g_threads st) i with
    | None => None
    | Some t =>
        match nth_error (g_handles st) (t_handle t) with
        | None => None
        | Some h =>
            let set_t t' := upd_nth i t' (g_threads st) in
            let set_h h' := upd_nth (t_handle t) h' (g_handles st) in
            match t_pc t with
            | Idle =>
                match t_todo t with
                | [] => None
                | Write w :: rest =>
                    Some (mkG (g_inner st) (set_h (cleared h))
                              (set_t (mkT (t_handle t) (WrFwd w) rest (t_done t))))
                | Read q :: rest =>
                    match probe h q with
                    | Some a =>
                        Some (mkG (g_inner st) (g_handles st)
                                  (set_t (mkT (t_handle t) Idle rest ((Read q, a) :: t_done t))))
                    | None =>
                        Some (mkG (g_inner st) (g_handles st)
                                  (set_t (mkT (t_handle t) (RdFwd q) rest (t_done t))))
                    end
                end
            | RdFwd q =>
                let '(s', a) := inner_step (g_inner st) (h_gid h) (Read q) in
                Some (mkG s' (g_handles st) (set_t (mkT (t_handle t) (RdStore q a) (t_todo t) (t_done t))))
            | RdStore q a =>
                Some (mkG (g_inner st) (set_h (store_after h q a))
                          (set_t (mkT (t_handle t) Idle (t_todo t) ((Read q, a) :: t_done t))))
            | WrFwd w =>
                let '(s', a) := inner_step (g_inner st) (h_gid h) (Write w) in
                Some (mkG s' (g_handles st)
                          (set_t (mkT (t_handle t) Idle (t_todo t) ((Write w, a) :: t_done t))))
            end
        end
    end.

  Fixpoint run_sched (st : gstate) (sched : list nat) : option gstate :=
    match sched with
    | [] => Some st
    | i :: r => match step st i with
                | None => None
                | Some st' => run_sched st' r
                end
    end.

  Definition all_finished (st : gstate) : bool := forallb finished (g_threads st).

  (* every complete schedule, by depth-first enumeration (fuel bounds the depth: 3 steps per request) *)
  Fixpoint all_scheds (fuel : nat) (st : gstate) : list (list nat) :=
    match fuel with
    | O => if all_finished st then [[]] else []
    | S f =>
        if all_finished st then [[]]
        else flat_map (fun i => match step st i with
                                | None => []
                                | Some st' => map (cons i) (all_scheds f st')
                                end)
                      (seq 0 (length (g_threads st)))
    end.

  Definition sched_fuel (ts : list thread) : nat :=
    fold_right (fun t n => 3 + 3 * length (t_todo t) + n) 0 ts.

  (* observable outcome of a run: per thread, the answers in program order *)
  Definition outcome (st : gstate) : list (list answer) :=
    map (fun t => rev (map snd (t_done t))) (g_threads st).

  Definition mk_thread (h : nat) (ops : list req) : thread := mkT h Idle ops [].

  (* the op-atomic schedule: thread i runs one whole request without interruption (at most three steps) *)
  Definition step_op (st : gstate) (i : nat) : option gstate :=
    match step st i with
    | None => None
    | Some st1 =>
        match nth_error (g_threads st1) i with
        | None => None
        | Some t1 =>
            match t_pc t1 with
            | Idle => Some st1
            | _ =>
                match step st1 i with
                | None => None
                | Some st2 =>
                    match nth_error (g_threads st2) i with
                    | None => None
                    | Some t2 =>
                        match t_pc t2 with
                        | Idle => Some st2
                        | _ => step st2 i
                        end
                    end
                end
            end
        end
    end.

  (* ---------------------------------------------------------------- restricted schedules: no read overlaps a write
     A thread may START a write only when every other thread is idle, and may START a read only when no other
     thread is inside a write.  (What an external readers/writer discipline around the handle would enforce.) *)
  Definition is_idle (t : thread) : bool := match t_pc t with Idle => true | _ => false end.
  Definition in_write (t : thread) : bool := match t_pc t with WrFwd _ => true | _ => false end.

  Fixpoint others {A : Type} (i : nat) (l : list A) : list A :=
    match l, i with
    | [], _ => []
    | _ :: r, O => r
    | x :: r, S i' => x :: others i' r
    end.

  Definition allowed (st : gstate) (i : nat) : bool :=
    match nth_error (g_threads st) i with
    | None => false
    | Some t =>
        match t_pc t, t_todo t with
        | Idle, Write _ :: _ => forallb is_idle (others i (g_threads st))
        | Idle, Read _ :: _ => negb (existsb in_write (others i (g_threads st)))
        | _, _ => true
        end
    end.

  Fixpoint run_excl (st : gstate) (sched : list nat) : option gstate :=
    match sched with
    | [] => Some st
    | i :: r => if allowed st i then
                  match step st i with
                  | None => None
                  | Some st' => run_excl st' r
                  end
                else None
    end.

  (* instrumented run: at the completion of every request, log the answer the client got together with the answer
     the wrapped store gives for the same request in the state of that moment (reads only; for a write the logged
     reference is the write's own answer) *)
  Definition ref_now (st : gstate) (g : gid) (r : req) (a : answer) : answer :=
    match r with
    | Read q => snd (inner_step (g_inner st) g (Read q))
    | Write _ => a
    end.

  Definition completed (st st' : gstate) (i : nat) : option (req * answer) :=
    match nth_error (g_threads st) i, nth_error (g_threads st') i with
    | Some t, Some t' =>
        if Nat.ltb (length (t_done t)) (length (t_done t')) then hd_error (t_done t') else None
    | _, _ => None
    end.

  Definition gid_of_thread (st : gstate) (i : nat) : option gid :=
    match nth_error (g_threads st) i with
    | None => None
    | Some t => option_map h_gid (nth_error (g_handles st) (t_handle t))
    end.

  (* log entries: (thread, request, answer seen by the client, answer of the wrapped store at that moment) *)
  Fixpoint run_log (excl : bool) (st : gstate) (sched : list nat)
    : option (gstate * list (nat * req * answer * answer)) :=
    match sched with
    | [] => Some (st, [])
    | i :: r =>
        if (if excl then allowed st i else true) then
          match step st i with
          | None => None
          | Some st' =>
              match run_log excl st' r with
              | None => None
              | Some (stf, lg) =>
                  match completed st st' i, gid_of_thread st i with
                  | Some (rq, a), Some g => Some (stf, (i, rq, a, ref_now st' g rq a) :: lg)
                  | _, _ => Some (stf, lg)
                  end
              end
          end
        else None
    end.

End MemoModel.

Arguments mkM {istate gid elem K}.
Arguments m_inner {istate gid elem K}.
Arguments m_handles {istate gid elem K}.
Arguments mkR {istate gid}.
Arguments r_inner {istate gid}.
Arguments r_gids {istate gid}.
Arguments mkG {istate gid wreq query elem err K}.
Arguments g_inner {istate gid wreq query elem err K}.
Arguments g_handles {istate gid wreq query elem err K}.
Arguments g_threads {istate gid wreq query elem err K}.
Arguments mkH {gid elem K}.
Arguments h_gid {gid elem K}.
Arguments h_list {gid elem K}.
Arguments h_exist {gid elem K}.
Arguments fresh {gid elem K}.
Arguments cleared {gid elem K}.
Arguments mkT {wreq query elem err}.
Arguments t_handle {wreq query elem err}.
Arguments t_pc {wreq query elem err}.
Arguments t_todo {wreq query elem err}.
Arguments t_done {wreq query elem err}.
Arguments mk_thread {wreq query elem err}.
Arguments finished {wreq query elem err}.
Arguments is_idle {wreq query elem err}.
Arguments in_write {wreq query elem err}.
Arguments sched_fuel {wreq query elem err}.
Arguments all_finished {istate gid wreq query elem err K}.
Arguments outcome {istate gid wreq query elem err K}.
Arguments RdFwd {wreq query elem err}.
Arguments RdStore {wreq query elem err}.
Arguments WrFwd {wreq query elem err}.
Arguments upd_nth {A}.
Arguments others {A}.
Arguments init_m {istate gid elem K}.
Arguments init_r {istate gid}.
Arguments AList {elem err}.
Arguments ABool {elem err}.
Arguments AAck {elem err}.
Arguments ABadHandle {elem err}.
Arguments Write {wreq query}.
Arguments Read {wreq query}.
Arguments HOpen {gid wreq query}.
Arguments COpen {gid wreq query}.
Arguments CDo {gid wreq query}.
Arguments CPlain {wreq query}.
Arguments CCancel {wreq query}.
Arguments elems_of {elem err}.
Arguments HDo {gid wreq query}.
Arguments Idle {wreq query elem err}.

(* ------------------------------------------------------------------------------------------------------------ *)
(* The concrete lookup request as the memoizer sees it.
   Arguments are identified by their UUIDs (SHA-1 oracle: UUID = pre-image), anchors by their RFC3339Nano
   rendering and filter options by their %+v rendering: these renderings are exactly what reaches the key. *)

Inductive opkind :=
| OObjects | OSubjects | OPredicatesForSubject | OPredicatesForObject | OPredicatesForSubjectAndObject
| OTriplesForSubject | OTriplesForPredicate | OTriplesForObject | OTriplesForSubjectAndPredicate
| OTriplesForPredicateAndObject | OExist | OTriples.

Definition opkind_code (o : opkind) : N :=
  match o with
  | OObjects => 0 | OSubjects => 1 | OPredicatesForSubject => 2 | OPredicatesForObject => 3
  | OPredicatesForSubjectAndObject => 4 | OTriplesForSubject => 5 | OTriplesForPredicate => 6
  | OTriplesForObject => 7 | OTriplesForSubjectAndPredicate => 8 | OTriplesForPredicateAndObject => 9
  | OExist => 10 | OTriples => 11
  end%N.

Definition opkind_eqb (a b : opkind) : bool := N.eqb (opkind_code a) (opkind_code b).

Record lopts := mkLO {
  lo_max : Z;                  (* MaxElements *)
  lo_lower : option str;       (* LowerAnchor.Format(time.RFC3339Nano), None = nil *)
  lo_upper : option str;
  lo_latest : bool;
  lo_filter : option str;      (* FilterOptions.String() = fmt %+v of the struct, None = nil pointer *)
  lo_offset : Z                (* Offset: NOT printed by LookupOptions.String *)
}.

Definition default_lo : lopts := mkLO 0 None None false None 0.

Section Concrete.
  Variable arg : Type.
  Variable arg_eqb : arg -> arg -> bool.

  Record cquery := mkQ { q_op : opkind; q_lo : lopts; q_args : list arg }.

  Definition cq_is_exist (q : cquery) : bool := opkind_eqb (q_op q) OExist.

  (* decimal rendering (strconv.Itoa) *)
  Definition digit_byte (d : N) : byte :=
    match d with
    | 0 => x30 | 1 => x31 | 2 => x32 | 3 => x33 | 4 => x34
    | 5 => x35 | 6 => x36 | 7 => x37 | 8 => x38 | _ => x39
    end%N.

  Fixpoint uint_bytes (u : Decimal.uint) : str :=
    match u with
    | Decimal.Nil => []
    | Decimal.D0 r => x30 :: uint_bytes r | Decimal.D1 r => x31 :: uint_bytes r
    | Decimal.D2 r => x32 :: uint_bytes r | Decimal.D3 r => x33 :: uint_bytes r
    | Decimal.D4 r => x34 :: uint_bytes r | Decimal.D5 r => x35 :: uint_bytes r
    | Decimal.D6 r => x36 :: uint_bytes r | Decimal.D7 r => x37 :: uint_bytes r
    | Decimal.D8 r => x38 :: uint_bytes r | Decimal.D9 r => x39 :: uint_bytes r
    end.

  Definition itoa (z : Z) : str :=
    match Z.to_int z with
    | Decimal.Pos u => uint_bytes u
    | Decimal.Neg u => x2d :: uint_bytes u
    end.

  (* byte strings of the fixed pieces of LookupOptions.String *)
  Definition s_limit : str := [x3c;x6c;x69;x6d;x69;x74;x3d].                                  (* "<limit=" *)
  Definition s_lower : str := [x2c;x20;x6c;x6f;x77;x65;x72;x5f;x61;x6e;x63;x68;x6f;x72;x3d]. (* ", lower_anchor=" *)
  Definition s_upper : str := [x2c;x20;x75;x70;x70;x65;x72;x5f;x61;x6e;x63;x68;x6f;x72;x3d]. (* ", upper_anchor=" *)
  Definition s_latest : str := [x2c;x20;x4c;x61;x74;x65;x73;x74;x41;x6e;x63;x68;x6f;x72;x3d]. (* ", LatestAnchor=" *)
  Definition s_filter : str :=
    [x2c;x20;x46;x69;x6c;x74;x65;x72;x4f;x70;x74;x69;x6f;x6e;x73;x3d].                         (* ", FilterOptions=" *)
  Definition s_nil : str := [x6e;x69;x6c].                                                    (* "nil" *)
  Definition s_pnil : str := [x3c;x6e;x69;x6c;x3e].                                           (* "<nil>" *)
  Definition s_true : str := [x74;x72;x75;x65].
  Definition s_false : str := [x66;x61;x6c;x73;x65].
  Definition s_gt : str := [x3e].

  Definition opt_or (o : option str) (d : str) : str := match o with Some s => s | None => d end.

  (* LookupOptions.String(), byte for byte *)
  Definition options_key (lo : lopts) : str :=
    s_limit ++ itoa (lo_max lo) ++ s_lower ++ opt_or (lo_lower lo) s_nil ++ s_upper ++ opt_or (lo_upper lo) s_nil
    ++ s_latest ++ (if lo_latest lo then s_true else s_false) ++ s_filter ++ opt_or (lo_filter lo) s_pnil ++ s_gt.

  (* combinedUUID under the SHA-1 oracle: op name, pre-image of lo.UUID(), argument UUIDs ...          *)
  (* ... as in the tree before fix F16 (no paging offset in the key)                                      *)
  Definition ckey := (opkind * str * Z * list arg)%type.
  Definition key_v0 (q : cquery) : ckey := (q_op q, options_key (q_lo q), 0%Z, q_args q).
  (* ... and after F16: the key additionally carries Offset (suffix ":offset=<n>" when Offset <> 0)       *)
  Definition key_v1 (q : cquery) : ckey := (q_op q, options_key (q_lo q), lo_offset (q_lo q), q_args q).

  Fixpoint list_eqb {A : Type} (eqb : A -> A -> bool) (a b : list A) : bool :=
    match a, b with
    | [], [] => true
    | x :: a', y :: b' => eqb x y && list_eqb eqb a' b'
    | _, _ => false
    end.

  Definition str_eqb : str -> str -> bool := list_eqb Byte.eqb.

  Definition ckey_eqb (a b : ckey) : bool :=
    match a, b with
    | (o1, s1, z1, l1), (o2, s2, z2, l2) =>
        opkind_eqb o1 o2 && str_eqb s1 s2 && Z.eqb z1 z2 && list_eqb arg_eqb l1 l2
    end.
End Concrete.

Arguments mkQ {arg}.
Arguments q_op {arg}.
Arguments q_lo {arg}.
Arguments q_args {arg}.
Arguments cq_is_exist {arg}.
Arguments key_v0 {arg}.
Arguments key_v1 {arg}.
Arguments ckey_eqb {arg}.

(* well-formed renderings: the domain on which LookupOptions.String() determines the fields it prints *)
Definition no_comma (s : str) : bool := forallb (fun b => negb (Byte.eqb b x2c)) s.

(* an anchor rendering contains no comma and is not the text "nil" (RFC3339 renderings satisfy both) *)
Definition anchor_wf (o : option str) : bool :=
  match o with None => true | Some s => no_comma s && negb (str_eqb s s_nil) end.
(* a filter rendering is not the text "<nil>" (a %+v struct rendering starts with an opening brace) *)
Definition filter_wf (o : option str) : bool :=
  match o with None => true | Some s => negb (str_eqb s s_pnil) end.
Definition lo_wf (lo : lopts) : bool :=
  anchor_wf (lo_lower lo) && anchor_wf (lo_upper lo) && filter_wf (lo_filter lo).

(* ------------------------------------------------------------------------------------------------------------ *)
(* A tiny concrete wrapped store (one graph holding a set of numbered triples; listing = ascending order with the
   paging rule of storage/memory's checker; Exist; add / remove).  Used for the executable witnesses and for
   enumerating interleavings; elements and arguments are numbers. *)

Inductive twreq := TAdd (l : list N) | TRemove (l : list N).

Fixpoint tinsert (x : N) (l : list N) : list N :=
  match l with
  | [] => [x]
  | y :: r => if N.ltb x y then x :: l else if N.eqb x y then l else y :: tinsert x r
  end.

Definition tremove (x : N) (l : list N) : list N := filter (fun y => negb (N.eqb x y)) l.

(* memory.checker: paging only when MaxElements > 0; skip MaxElements*Offset (nothing when that is <= 0) *)
Definition page {A : Type} (max off : Z) (l : list A) : list A :=
  if Z.ltb 0 max then firstn (Z.to_nat max) (skipn (Z.to_nat (max * off)) l) else l.

Definition tquery := cquery N.

Definition tiny_step (s : list N) (g : N) (r : @req twreq tquery) : list N * @answer N N :=
  match r with
  | Write (TAdd l) => (fold_left (fun acc x => tinsert x acc) l s, AAck None)
  | Write (TRemove l) => (fold_left (fun acc x => tremove x acc) l s, AAck None)
  | Read q =>
      match q_op q with
      | OTriples => (s, AList (page (lo_max (q_lo q)) (lo_offset (q_lo q)) s) None)
      | OExist => match q_args q with
                  | [x] => (s, ABool (existsb (N.eqb x) s) None)
                  | _ => (s, ABool false (Some 1%N))
                  end
      | _ => (s, AList [] (Some 1%N))
      end
  end.

Definition t_list (max off : Z) : tquery := mkQ OTriples (mkLO max None None false None off) [].
Definition t_exist (x : N) : tquery := mkQ OExist default_lo [x].

(* The key function of the CURRENT tree (follows /repo: key_v0 before fix F16, key_v1 after it). *)
Definition key_cur {arg : Type} : cquery arg -> ckey arg := key_v1.
