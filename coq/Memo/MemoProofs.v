(* Sequential theorems about the memoizer model: the cache-coherence invariant and what follows from it.
   Everything is for ALL histories (induction over operation lists) and for an abstract wrapped store. *)
From Coq Require Import List NArith ZArith Bool Arith Lia.
Import ListNotations.
From BWMemo Require Import Memo.

Section SeqProofs.
  Variables (istate gid wreq query elem err K : Type).
  Variable is_exist : query -> bool.
  Variable key : query -> K.
  Variable K_eqb : K -> K -> bool.
  Hypothesis K_eqb_eq : forall a b, K_eqb a b = true <-> a = b.
  Variable inner_step : istate -> gid -> @req wreq query -> istate * @answer elem err.

  (* the domain of requests the statement is about *)
  Variable D : query -> bool.

  (* assumptions on the wrapped store *)
  Definition reads_pure := forall s g q, fst (inner_step s g (Read q)) = s.
  Definition key_respected :=
    forall s g q1 q2, D q1 = true -> D q2 = true -> key q1 = key q2 -> is_exist q1 = is_exist q2 ->
                      snd (inner_step s g (Read q1)) = snd (inner_step s g (Read q2)).

  Hypothesis Hpure : reads_pure.
  Hypothesis Hkey : key_respected.

  Notation handle := (@handle gid elem K).
  Notation probe := (@probe gid query elem err K is_exist key K_eqb).
  Notation store_after := (@store_after gid query elem err K is_exist key).
  Notation handle_step := (@handle_step istate gid wreq query elem err K is_exist key K_eqb inner_step).
  Notation memo_step := (@memo_step istate gid wreq query elem err K is_exist key K_eqb inner_step).
  Notation memo_run := (@memo_run istate gid wreq query elem err K is_exist key K_eqb inner_step).
  Notation ref_step := (@ref_step istate gid wreq query elem err inner_step).
  Notation ref_run := (@ref_run istate gid wreq query elem err inner_step).
  Notation afind := (@afind K K_eqb).

  Definition inner_read (s : istate) (g : gid) (q : query) : @answer elem err := snd (inner_step s g (Read q)).

  (* THE INVARIANT: every cached entry that can produce a hit equals the wrapped store's current answer *)
  Definition coh (s : istate) (h : handle) : Prop :=
    (forall q x l, D q = true -> is_exist q = false -> afind (key q) (h_list h) = Some (x :: l) ->
                   inner_read s (h_gid h) q = AList (x :: l) None) /\
    (forall q b, D q = true -> is_exist q = true -> afind (key q) (h_exist h) = Some b ->
                 inner_read s (h_gid h) q = ABool b None).

  Lemma coh_fresh : forall s g, coh s (fresh g).
  Proof. intros s g. split; cbn; intros; discriminate. Qed.

  Lemma coh_cleared : forall s h, coh s (cleared h).
  Proof. intros s h. split; cbn; intros; discriminate. Qed.

  Lemma K_eqb_refl : forall k, K_eqb k k = true.
  Proof. intro k. apply K_eqb_eq. reflexivity. Qed.

  Lemma probe_coh : forall s h q a, coh s h -> D q = true -> probe h q = Some a -> a = inner_read s (h_gid h) q.
  Proof.
    intros s h q a [Hl He] Dq Hp. unfold Memo.probe in Hp.
    destruct (is_exist q) eqn:Ex.
    - destruct (afind (key q) (h_exist h)) as [b|] eqn:F; [|discriminate].
      inversion Hp; subst. symmetry. apply He; assumption.
    - destruct (afind (key q) (h_list h)) as [[|x l]|] eqn:F; try discriminate.
      inversion Hp; subst. symmetry. apply Hl; assumption.
  Qed.

  Lemma coh_store_after :
    forall s h q, coh s h -> D q = true -> coh s (store_after h q (inner_read s (h_gid h) q)).
  Proof.
    intros s h q [Hl He] Dq. unfold Memo.store_after.
    destruct (is_exist q) eqn:Ex.
    - destruct (inner_read s (h_gid h) q) as [l e|b [e|]|e|] eqn:A; try (split; assumption).
      split; cbn [h_list h_exist h_gid store_exist]; [exact Hl|].
      intros q' b' Dq' Ex' F. cbn [Memo.afind] in F.
      destruct (K_eqb (key q') (key q)) eqn:KE.
      + inversion F; subst b'. apply K_eqb_eq in KE.
        unfold inner_read. rewrite (Hkey s (h_gid h) q' q Dq' Dq KE); [exact A|congruence].
      + apply He; assumption.
    - destruct (inner_read s (h_gid h) q) as [l [e|]|b e|e|] eqn:A; try (split; assumption).
      split; cbn [h_list h_exist h_gid store_list]; [|exact He].
      intros q' x l' Dq' Ex' F. cbn [Memo.afind] in F.
      destruct (K_eqb (key q') (key q)) eqn:KE.
      + inversion F; subst l. apply K_eqb_eq in KE.
        unfold inner_read. rewrite (Hkey s (h_gid h) q' q Dq' Dq KE); [|congruence].
        fold (inner_read s (h_gid h) q). exact A.
      + apply Hl; assumption.
  Qed.

  Lemma gid_store_after : forall h q a, h_gid (store_after h q a) = h_gid h.
  Proof.
    intros h q a. unfold Memo.store_after.
    destruct (is_exist q); destruct a as [l [e|]|b [e|]|e|]; reflexivity.
  Qed.

  (* one request on a coherent handle: same answer and same inner state as the wrapped store, handle stays coherent *)
  Lemma handle_step_correct :
    forall s h r, coh s h -> (forall q, r = Read q -> D q = true) ->
      let '(s', h', a) := handle_step s h r in
      (s', a) = inner_step s (h_gid h) r /\ coh s' h' /\ h_gid h' = h_gid h.
  Proof.
    intros s h r C Dr. destruct r as [w|q]; cbn [Memo.handle_step].
    - destruct (inner_step s (h_gid h) (Write w)) as [s' a] eqn:E.
      split; [reflexivity|]. split; [apply coh_cleared|reflexivity].
    - specialize (Dr q eq_refl).
      destruct (probe h q) as [a|] eqn:P.
      + pose proof (probe_coh s h q a C Dr P) as Ea.
        split; [|split; [exact C|reflexivity]].
        unfold inner_read in Ea. rewrite Ea. rewrite <- (Hpure s (h_gid h) q) at 1.
        destruct (inner_step s (h_gid h) (Read q)); reflexivity.
      + destruct (inner_step s (h_gid h) (Read q)) as [s' a] eqn:E.
        assert (s' = s) by (pose proof (Hpure s (h_gid h) q) as P1; rewrite E in P1; exact P1). subst s'.
        split; [reflexivity|]. split; [|apply gid_store_after].
        assert (a = inner_read s (h_gid h) q) by (unfold inner_read; rewrite E; reflexivity). subst a.
        apply coh_store_after; assumption.
  Qed.

  (* ---------------------------------------------------------------- one handle, all histories *)
  Definition on0 (rs : list (@req wreq query)) : list (@hop gid wreq query) := map (HDo 0) rs.

  Definition all_in_D (rs : list (@req wreq query)) : Prop := forall q, In (Read q) rs -> D q = true.

  Lemma single_handle_run :
    forall rs s h, coh s h -> all_in_D rs ->
      let '(m, out) := memo_run (mkM s [h]) (on0 rs) in
      let '(r, out') := ref_run (mkR s [h_gid h]) (on0 rs) in
      out = out' /\ m_inner m = r_inner r /\
      exists h', m_handles m = [h'] /\ coh (m_inner m) h' /\ h_gid h' = h_gid h.
  Proof.
    induction rs as [|r rs IH]; intros s h C Dall.
    - cbn. split; [reflexivity|]. split; [reflexivity|]. exists h. auto.
    - cbn [on0 map Memo.memo_run Memo.ref_run Memo.memo_step Memo.ref_step nth_error m_handles m_inner r_gids r_inner].
      pose proof (handle_step_correct s h r C) as HS.
      destruct (handle_step s h r) as [[s' h'] a] eqn:E.
      destruct HS as [E1 [C' G']].
      { intros q Eq. apply Dall. left. exact Eq. }
      rewrite <- E1. cbn [upd_nth].
      assert (Dall' : all_in_D rs) by (intros q Hq; apply Dall; right; exact Hq).
      specialize (IH s' h' C' Dall'). rewrite G' in IH. fold (on0 rs).
      destruct (memo_run (mkM s' [h']) (on0 rs)) as [m out].
      destruct (ref_run (mkR s' [h_gid h]) (on0 rs)) as [rr out'].
      destruct IH as [Eo [Es [h'' [Hh [Ch Gh]]]]].
      split; [f_equal; exact Eo|]. split; [exact Es|].
      exists h''. split; [exact Hh|]. split; [exact Ch|exact Gh].
  Qed.

  (* C19, sequential use of one handle: every answer is the wrapped store's answer at that moment *)
  Theorem sequential_single_handle :
    forall s g rs, all_in_D rs ->
      snd (memo_run (init_m s) (HOpen g :: on0 rs)) = snd (ref_run (init_r s) (HOpen g :: on0 rs)) /\
      m_inner (fst (memo_run (init_m s) (HOpen g :: on0 rs))) = r_inner (fst (ref_run (init_r s) (HOpen g :: on0 rs))).
  Proof.
    intros s g rs Dall.
    cbn [Memo.memo_run Memo.ref_run Memo.memo_step Memo.ref_step init_m init_r m_inner m_handles r_inner r_gids app].
    pose proof (single_handle_run rs s (fresh g) (coh_fresh s g) Dall) as H.
    cbn [h_gid fresh] in H.
    destruct (memo_run (mkM s [fresh g]) (on0 rs)) as [m out].
    destruct (ref_run (mkR s [g]) (on0 rs)) as [r out'].
    destruct H as [Eo [Es _]]. cbn [fst snd]. split; [f_equal; exact Eo|exact Es].
  Qed.

  (* ---------------------------------------------------------------- lookups cancelled by their caller (one handle)
     A cancelled lookup hands over the first k elements of the wrapped store's answer and never disturbs the cache
     invariant (a cancelled miss stores nothing), so every other request keeps getting the wrapped store's answer. *)
  Variable cancelled : err.
  Notation handle_step_c := (@handle_step_c istate gid wreq query elem err K is_exist key K_eqb inner_step cancelled).
  Notation memo_run_c := (@memo_run_c istate gid wreq query elem err K is_exist key K_eqb inner_step cancelled).

  Definition creq_in_D (r : @creq wreq query) : Prop :=
    match r with CPlain (Read q) => D q = true | CCancel q _ => D q = true | _ => True end.

  (* what the wrapped store alone answers to the underlying request *)
  Definition ref_creq (s : istate) (g : gid) (r : @creq wreq query) : istate * @answer elem err :=
    match r with
    | CPlain r => inner_step s g r
    | CCancel q _ => inner_step s g (Read q)
    end.

  (* what the caller must have got *)
  Definition delivers (r : @creq wreq query) (a b : @answer elem err) : Prop :=
    match r with
    | CPlain _ => a = b
    | CCancel q k => if is_exist q then a = b else elems_of a = firstn k (elems_of b)
    end.

  Lemma handle_step_c_correct :
    forall s h r, coh s h -> creq_in_D r ->
      let '(s', h', a) := handle_step_c s h r in
      s' = fst (ref_creq s (h_gid h) r) /\ delivers r a (snd (ref_creq s (h_gid h) r)) /\
      coh s' h' /\ h_gid h' = h_gid h.
  Proof.
    intros s h r C Dr. destruct r as [r|q k]; cbn [Memo.handle_step_c ref_creq delivers].
    - pose proof (handle_step_correct s h r C) as HS.
      destruct (handle_step s h r) as [[s' h'] a].
      destruct HS as [E [C' G]]; [intros q Eq; subst r; exact Dr|].
      rewrite <- E. cbn. auto.
    - cbn in Dr. destruct (is_exist q) eqn:Ex.
      + pose proof (handle_step_correct s h (Read q) C) as HS.
        destruct (handle_step s h (Read q)) as [[s' h'] a].
        destruct HS as [E [C' G]]; [intros q' Eq; inversion Eq; subst; exact Dr|].
        rewrite <- E. cbn. auto.
      + assert (Ps : fst (inner_step s (h_gid h) (Read q)) = s) by apply Hpure.
        destruct (probe h q) as [a0|] eqn:P.
        * pose proof (probe_coh s h q a0 C Dr P) as Ea. unfold inner_read in Ea.
          destruct a0 as [v e|b e|e|].
          -- destruct (Nat.ltb k (length v)) eqn:L; (split; [symmetry; exact Ps|]); (split; [|split; [exact C|reflexivity]]);
               rewrite <- Ea; cbn [elems_of]; [reflexivity|].
             apply Nat.ltb_ge in L. symmetry. apply firstn_all2. exact L.
          -- unfold Memo.probe in P. rewrite Ex in P. destruct (afind (key q) (h_list h)) as [[|x l]|]; discriminate.
          -- unfold Memo.probe in P. rewrite Ex in P. destruct (afind (key q) (h_list h)) as [[|x l]|]; discriminate.
          -- unfold Memo.probe in P. rewrite Ex in P. destruct (afind (key q) (h_list h)) as [[|x l]|]; discriminate.
        * destruct (inner_step s (h_gid h) (Read q)) as [s' a] eqn:E. cbn [fst snd] in *. subst s'.
          assert (Ea : a = inner_read s (h_gid h) q) by (unfold inner_read; rewrite E; reflexivity).
          destruct a as [l e|b e|e|].
          -- destruct (Nat.ltb k (length l)) eqn:L.
             ++ split; [reflexivity|]. split; [reflexivity|]. split; [exact C|reflexivity].
             ++ split; [reflexivity|]. split.
                ** cbn [elems_of]. apply Nat.ltb_ge in L. symmetry. apply firstn_all2. exact L.
                ** split; [rewrite Ea; apply coh_store_after; assumption|apply gid_store_after].
          -- split; [reflexivity|]. split; [cbn; symmetry; apply firstn_nil|].
             split; [rewrite Ea; apply coh_store_after; assumption|apply gid_store_after].
          -- split; [reflexivity|]. split; [cbn; symmetry; apply firstn_nil|].
             split; [rewrite Ea; apply coh_store_after; assumption|apply gid_store_after].
          -- split; [reflexivity|]. split; [cbn; symmetry; apply firstn_nil|].
             split; [rewrite Ea; apply coh_store_after; assumption|apply gid_store_after].
  Qed.

  (* the wrapped store's answers along a list of requests *)
  Fixpoint ref_answers (s : istate) (g : gid) (rs : list (@creq wreq query)) : list (@answer elem err) :=
    match rs with
    | [] => []
    | r :: rest => snd (ref_creq s g r) :: ref_answers (fst (ref_creq s g r)) g rest
    end.

  Fixpoint delivered (rs : list (@creq wreq query)) (out refs : list (@answer elem err)) : Prop :=
    match rs, out, refs with
    | [], [], [] => True
    | r :: rs', a :: out', b :: refs' => delivers r a b /\ delivered rs' out' refs'
    | _, _, _ => False
    end.

  Theorem cancelled_single_handle :
    forall rs s h, coh s h -> Forall creq_in_D rs ->
      delivered rs (snd (memo_run_c (mkM s [h]) (map (CDo 0) rs))) (ref_answers s (h_gid h) rs).
  Proof.
    induction rs as [|r rs IH]; intros s h C DD.
    - cbn. exact I.
    - inversion DD as [|? ? D1 D2]; subst.
      cbn [map Memo.memo_run_c Memo.memo_step_c m_handles m_inner nth_error ref_answers].
      pose proof (handle_step_c_correct s h r C D1) as HS.
      destruct (handle_step_c s h r) as [[s' h'] a] eqn:E.
      destruct HS as [Es [Dl [C' G]]]. cbn [upd_nth].
      specialize (IH s' h' C' D2). rewrite G in IH. rewrite <- Es.
      destruct (memo_run_c (mkM s' [h']) (map (CDo 0) rs)) as [m out].
      cbn [snd delivered] in *. split; assumption.
  Qed.

  (* ---------------------------------------------------------------- several handles: the invariant localises the defect.
     A history is `handle_safe` when, after a write through one handle, no OTHER handle of the same graph is read
     again.  We prove the simpler and still useful special case: any number of handles, reads only after the last
     write (every handle stays coherent because the inner state no longer changes). *)
  Definition coh_all (s : istate) (hs : list handle) : Prop := forall h, In h hs -> coh s h.

  Lemma upd_nth_In : forall (A : Type) (l : list A) i x y, In y (upd_nth i x l) -> y = x \/ In y l.
  Proof.
    induction l as [|z l IH]; intros i x y H; cbn in H.
    - destruct i; contradiction.
    - destruct i; cbn in H.
      + destruct H as [H|H]; [left; auto|right; right; exact H].
      + destruct H as [H|H]; [right; left; exact H|].
        destruct (IH _ _ _ H) as [H1|H1]; [left; exact H1|right; right; exact H1].
  Qed.

  Lemma upd_nth_gids :
    forall (hs : list handle) i h h', nth_error hs i = Some h -> h_gid h' = h_gid h ->
      map h_gid (upd_nth i h' hs) = map h_gid hs.
  Proof.
    induction hs as [|z hs IH]; intros i h h' N G; destruct i; cbn in *; try discriminate.
    - inversion N; subst. rewrite G. reflexivity.
    - f_equal. eapply IH; eassumption.
  Qed.

  Definition is_read_op (o : @hop gid wreq query) : Prop :=
    match o with HDo _ (Write _) => False | _ => True end.

  Definition hop_in_D (o : @hop gid wreq query) : Prop :=
    match o with HDo _ (Read q) => D q = true | _ => True end.

  Lemma reads_only_run :
    forall ops s hs, coh_all s hs -> Forall is_read_op ops -> Forall hop_in_D ops ->
      let '(m, out) := memo_run (mkM s hs) ops in
      let '(r, out') := ref_run (mkR s (map h_gid hs)) ops in
      out = out' /\ m_inner m = s /\ r_inner r = s.
  Proof.
    induction ops as [|o ops IH]; intros s hs C RO DD.
    - cbn. auto.
    - inversion RO as [|? ? RO1 RO2]; subst. inversion DD as [|? ? DD1 DD2]; subst.
      cbn [Memo.memo_run Memo.ref_run].
      destruct o as [g|i r].
      + cbn [Memo.memo_step Memo.ref_step m_inner m_handles r_inner r_gids].
        assert (C' : coh_all s (hs ++ [fresh g])).
        { intros h Hin. apply in_app_or in Hin. destruct Hin as [Hin|[Hin|[]]]; [apply C; exact Hin|subst; apply coh_fresh]. }
        specialize (IH s (hs ++ [fresh g]) C' RO2 DD2).
        rewrite map_app in IH. cbn [map h_gid fresh] in IH.
        destruct (memo_run (mkM s (hs ++ [fresh g])) ops) as [m out].
        destruct (ref_run (mkR s (map h_gid hs ++ [g])) ops) as [rr out'].
        destruct IH as [Eo [E1 E2]]. split; [f_equal; exact Eo|auto].
      + destruct r as [w|q]; [contradiction|]. cbn in DD1.
        cbn [Memo.memo_step Memo.ref_step m_inner m_handles r_inner r_gids].
        rewrite nth_error_map.
        destruct (nth_error hs i) as [h|] eqn:N; cbn [option_map].
        * assert (Ch : coh s h) by (apply C; eapply nth_error_In; exact N).
          pose proof (handle_step_correct s h (Read q) Ch) as HS.
          destruct (handle_step s h (Read q)) as [[s' h'] a] eqn:E.
          destruct HS as [E1 [C' G']]; [intros q' Eq; inversion Eq; subst; exact DD1|].
          rewrite <- E1.
          assert (s' = s).
          { pose proof (Hpure s (h_gid h) q) as P. rewrite <- E1 in P. exact P. } subst s'.
          assert (CA : coh_all s (upd_nth i h' hs)).
          { intros y Hy. apply upd_nth_In in Hy. destruct Hy as [Hy|Hy]; [subst; exact C'|apply C; exact Hy]. }
          specialize (IH s (upd_nth i h' hs) CA RO2 DD2).
          rewrite (upd_nth_gids hs i h h' N G') in IH.
          destruct (memo_run (mkM s (upd_nth i h' hs)) ops) as [m out].
          destruct (ref_run (mkR s (map h_gid hs)) ops) as [rr out'].
          destruct IH as [Eo [E2 E3]]. split; [f_equal; exact Eo|auto].
        * specialize (IH s hs C RO2 DD2).
          destruct (memo_run (mkM s hs) ops) as [m out].
          destruct (ref_run (mkR s (map h_gid hs)) ops) as [rr out'].
          destruct IH as [Eo [E2 E3]]. split; [f_equal; exact Eo|auto].
  Qed.


  (* ---------------------------------------------------------------- several handles, at most one per graph.
     With the wrapped store's graphs independent of one another (a write to graph g does not change what any lookup
     on another graph returns) every history that never opens the same graph twice is answered exactly like the
     wrapped store: the second-handle defect needs two handles OF THE SAME GRAPH. *)
  Definition frame :=
    forall s g w g' q, g <> g' -> inner_read (fst (inner_step s g (Write w))) g' q = inner_read s g' q.

  Hypothesis Hframe : frame.

  Fixpoint opens (ops : list (@hop gid wreq query)) : list gid :=
    match ops with
    | [] => []
    | HOpen g :: r => g :: opens r
    | HDo _ _ :: r => opens r
    end.

  Lemma upd_nth_In_idx : forall (A : Type) (l : list A) i x y,
    In y (upd_nth i x l) -> y = x \/ exists j, j <> i /\ nth_error l j = Some y.
  Proof.
    induction l as [|z l IH]; intros i x y H; cbn in H.
    - destruct i; contradiction.
    - destruct i; cbn in H.
      + destruct H as [H|H]; [left; auto|]. right. apply In_nth_error in H. destruct H as [n Hn].
        exists (S n). split; [discriminate|exact Hn].
      + destruct H as [H|H]; [right; exists 0; split; [discriminate|subst; reflexivity]|].
        destruct (IH _ _ _ H) as [H1|[j [Hj Hn]]]; [left; exact H1|].
        right. exists (S j). split; [congruence|exact Hn].
  Qed.

  Lemma NoDup_app_l : forall (A : Type) (l l' : list A), NoDup (l ++ l') -> NoDup l.
  Proof.
    induction l as [|x l IH]; intros l' H; [constructor|].
    cbn in H. inversion H as [|? ? Hn Hd]; subst. constructor.
    - intro Hin. apply Hn. apply in_or_app. left. exact Hin.
    - eapply IH. exact Hd.
  Qed.

  Lemma coh_frame : forall s g w h, coh s h -> h_gid h <> g -> coh (fst (inner_step s g (Write w))) h.
  Proof.
    intros s g w h [Hl He] Ne. split.
    - intros q x l Dq Ex F. rewrite Hframe by (intro E; apply Ne; symmetry; exact E). apply Hl; assumption.
    - intros q b Dq Ex F. rewrite Hframe by (intro E; apply Ne; symmetry; exact E). apply He; assumption.
  Qed.

  Lemma distinct_graphs_run :
    forall ops s hs, coh_all s hs -> NoDup (map h_gid hs ++ opens ops) -> Forall hop_in_D ops ->
      let '(m, out) := memo_run (mkM s hs) ops in
      let '(r, out') := ref_run (mkR s (map h_gid hs)) ops in
      out = out' /\ m_inner m = r_inner r.
  Proof.
    induction ops as [|o ops IH]; intros s hs C ND DD.
    - cbn. auto.
    - inversion DD as [|? ? DD1 DD2]; subst.
      cbn [Memo.memo_run Memo.ref_run].
      destruct o as [g|i r].
      + cbn [Memo.memo_step Memo.ref_step m_inner m_handles r_inner r_gids].
        assert (C' : coh_all s (hs ++ [fresh g])).
        { intros h Hin. apply in_app_or in Hin. destruct Hin as [Hin|[Hin|[]]]; [apply C; exact Hin|subst; apply coh_fresh]. }
        assert (ND' : NoDup (map h_gid (hs ++ [fresh g]) ++ opens ops)).
        { rewrite map_app. cbn [map h_gid fresh opens] in *. rewrite <- app_assoc. exact ND. }
        specialize (IH s (hs ++ [fresh g]) C' ND' DD2).
        rewrite map_app in IH. cbn [map h_gid fresh] in IH.
        destruct (memo_run (mkM s (hs ++ [fresh g])) ops) as [m out].
        destruct (ref_run (mkR s (map h_gid hs ++ [g])) ops) as [rr out'].
        destruct IH as [Eo E1]. split; [f_equal; exact Eo|exact E1].
      + cbn [Memo.memo_step Memo.ref_step m_inner m_handles r_inner r_gids opens] in *.
        rewrite nth_error_map.
        destruct (nth_error hs i) as [h|] eqn:N; cbn [option_map].
        * assert (Ch : coh s h) by (apply C; eapply nth_error_In; exact N).
          pose proof (handle_step_correct s h r Ch) as HS.
          destruct (handle_step s h r) as [[s' h'] a] eqn:E.
          destruct HS as [E1 [C' G']]; [intros q' Eq; subst r; exact DD1|].
          rewrite <- E1.
          assert (CA : coh_all s' (upd_nth i h' hs)).
          { intros y Hy. apply upd_nth_In_idx in Hy. destruct Hy as [Hy|[j [Hj Hn]]]; [subst; exact C'|].
            assert (Cy : coh s y) by (apply C; eapply nth_error_In; exact Hn).
            destruct r as [w|q].
            - assert (s' = fst (inner_step s (h_gid h) (Write w))) by (rewrite <- E1; reflexivity). subst s'.
              apply coh_frame; [exact Cy|].
              apply NoDup_app_l in ND. rewrite NoDup_nth_error in ND.
              intro Eg. apply Hj. apply ND.
              + rewrite map_length. apply nth_error_Some. rewrite Hn. discriminate.
              + rewrite !nth_error_map, Hn, N. cbn. rewrite Eg. reflexivity.
            - assert (s' = s) by (pose proof (Hpure s (h_gid h) q) as P; rewrite <- E1 in P; exact P).
              subst s'. exact Cy. }
          assert (ND' : NoDup (map h_gid (upd_nth i h' hs) ++ opens ops))
            by (rewrite (upd_nth_gids hs i h h' N G'); exact ND).
          specialize (IH s' (upd_nth i h' hs) CA ND' DD2).
          rewrite (upd_nth_gids hs i h h' N G') in IH.
          destruct (memo_run (mkM s' (upd_nth i h' hs)) ops) as [m out].
          destruct (ref_run (mkR s' (map h_gid hs)) ops) as [rr out'].
          destruct IH as [Eo E2]. split; [f_equal; exact Eo|exact E2].
        * specialize (IH s hs C ND DD2).
          destruct (memo_run (mkM s hs) ops) as [m out].
          destruct (ref_run (mkR s (map h_gid hs)) ops) as [rr out'].
          destruct IH as [Eo E2]. split; [f_equal; exact Eo|exact E2].
  Qed.

End SeqProofs.
