(* Theorems about the small-step (interleaving) model of the memoizer.

   Setting: ONE handle shared by any number of threads.  Schedules are arbitrary interleavings of the atomic steps
   of Memo.step, restricted by Memo.allowed: a write starts only when every other thread is idle, a read starts only
   when no other thread is inside a write (reads may overlap reads freely).  Under that discipline every request
   returns the wrapped store's answer of the moment it completes, and the whole run is the sequential run of the
   wrapped store on the requests in completion order.  Without the discipline this is false (Witness.v). *)
From Coq Require Import List NArith ZArith Bool Arith Lia.
Import ListNotations.
From BWMemo Require Import Memo MemoProofs.

(* ---------------------------------------------------------------- list plumbing *)
Lemma nth_error_upd_eq : forall (A : Type) (l : list A) i x y,
  nth_error l i = Some x -> nth_error (upd_nth i y l) i = Some y.
Proof.
  induction l as [|z l IH]; intros i x y H; destruct i; cbn in *; try discriminate; [reflexivity|].
  eapply IH; exact H.
Qed.

Lemma nth_error_upd_neq : forall (A : Type) (l : list A) i j y,
  i <> j -> nth_error (upd_nth i y l) j = nth_error l j.
Proof.
  induction l as [|z l IH]; intros i j y H; destruct i, j; cbn; try reflexivity; try congruence.
  apply IH. congruence.
Qed.

Lemma nth_error_upd_inv : forall (A : Type) (l : list A) i j y t,
  nth_error (upd_nth i y l) j = Some t -> (i = j /\ t = y) \/ (i <> j /\ nth_error l j = Some t).
Proof.
  intros A l i j y t H. destruct (Nat.eq_dec i j) as [E|E].
  - subst j. left. split; [reflexivity|].
    destruct (nth_error l i) as [x|] eqn:N.
    + rewrite (nth_error_upd_eq A l i x y N) in H. inversion H; reflexivity.
    + exfalso. revert i H N. induction l as [|z l IH]; intros i H N; destruct i; cbn in *; try discriminate.
      eapply IH; eassumption.
  - right. split; [exact E|]. rewrite nth_error_upd_neq in H by exact E. exact H.
Qed.

Lemma others_forallb : forall (A : Type) (P : A -> bool) (l : list A) i,
  forallb P (others i l) = true -> forall j t, j <> i -> nth_error l j = Some t -> P t = true.
Proof.
  induction l as [|z l IH]; intros i H j t Ne N.
  - destruct j; discriminate.
  - destruct i, j; cbn in *; try congruence.
    + rewrite forallb_forall in H. apply H. eapply nth_error_In; exact N.
    + apply andb_true_iff in H. destruct H as [H1 H2]. inversion N; subst. exact H1.
    + apply andb_true_iff in H. destruct H as [H1 H2]. eapply IH; [exact H2| |exact N]. congruence.
Qed.

Lemma others_existsb : forall (A : Type) (P : A -> bool) (l : list A) i,
  existsb P (others i l) = false -> forall j t, j <> i -> nth_error l j = Some t -> P t = false.
Proof.
  induction l as [|z l IH]; intros i H j t Ne N.
  - destruct j; discriminate.
  - destruct i, j; cbn in *; try congruence.
    + destruct (P t) eqn:Pt; [|reflexivity].
      assert (existsb P l = true) by (apply existsb_exists; exists t; split; [eapply nth_error_In; exact N|exact Pt]).
      congruence.
    + apply orb_false_iff in H. destruct H as [H1 H2]. inversion N; subst. exact H1.
    + apply orb_false_iff in H. destruct H as [H1 H2]. eapply IH; [exact H2| |exact N]. congruence.
Qed.

(* ---------------------------------------------------------------- the invariant *)
Section StepProofs.
  Variables (istate gid wreq query elem err K : Type).
  Variable is_exist : query -> bool.
  Variable key : query -> K.
  Variable K_eqb : K -> K -> bool.
  Hypothesis K_eqb_eq : forall a b, K_eqb a b = true <-> a = b.
  Variable inner_step : istate -> gid -> @req wreq query -> istate * @answer elem err.
  Variable D : query -> bool.
  Hypothesis Hpure : reads_pure istate gid wreq query elem err inner_step.
  Hypothesis Hkey : key_respected istate gid wreq query elem err K is_exist key inner_step D.

  Notation handle := (@handle gid elem K).
  Notation thread := (@thread wreq query elem err).
  Notation gstate := (@gstate istate gid wreq query elem err K).
  Notation step := (@step istate gid wreq query elem err K is_exist key K_eqb inner_step).
  Notation allowed := (@allowed istate gid wreq query elem err K).
  Notation run_log := (@run_log istate gid wreq query elem err K is_exist key K_eqb inner_step).
  Notation completed := (@completed istate gid wreq query elem err K).
  Notation gid_of_thread := (@gid_of_thread istate gid wreq query elem err K).
  Notation ref_now := (@ref_now istate gid wreq query elem err K inner_step).
  Notation probe := (@probe gid query elem err K is_exist key K_eqb).
  Notation store_after := (@store_after gid query elem err K is_exist key).
  Notation coh := (@coh istate gid wreq query elem err K is_exist key K_eqb inner_step D).
  Notation inner_read := (@inner_read istate gid wreq query elem err inner_step).
  Notation ref_run := (@ref_run istate gid wreq query elem err inner_step).

  Definition todo_in_D (t : thread) : Prop := forall q, In (Read q) (t_todo t) -> D q = true.

  Definition pc_ok (s : istate) (g : gid) (t : thread) : Prop :=
    match t_pc t with
    | Idle => True
    | RdFwd q => D q = true
    | RdStore q a => D q = true /\ a = inner_read s g q
    | WrFwd _ => True
    end.

  Definition thr_ok (s : istate) (g : gid) (t : thread) : Prop :=
    t_handle t = 0 /\ todo_in_D t /\ pc_ok s g t.

  (* a thread inside a write excludes everybody else, and the caches are empty for as long as it is there *)
  Definition excl (ths : list thread) (h : handle) : Prop :=
    forall i ti, nth_error ths i = Some ti -> in_write ti = true ->
      (h_list h = [] /\ h_exist h = []) /\
      forall j tj, j <> i -> nth_error ths j = Some tj -> is_idle tj = true.

  Definition Inv (g : gid) (st : gstate) : Prop :=
    exists h, g_handles st = [h] /\ h_gid h = g /\ coh (g_inner st) h /\
              (forall j tj, nth_error (g_threads st) j = Some tj -> thr_ok (g_inner st) g tj) /\
              excl (g_threads st) h.

  Lemma coh_empty : forall s h, h_list h = [] -> h_exist h = [] -> coh s h.
  Proof.
    intros s h E1 E2. split; intros; [rewrite E1 in *|rewrite E2 in *]; cbn in *; discriminate.
  Qed.

  Lemma ltb_cons : forall (A : Type) (x : A) d, Nat.ltb (length d) (length (x :: d)) = true.
  Proof. intros. apply Nat.ltb_lt. cbn. lia. Qed.

  (* what one allowed step does: invariant kept; inner state moves only when a write completes; a completed request
     got the wrapped store's answer of that moment *)
  Lemma step_inv :
    forall g st i st', Inv g st -> allowed st i = true -> step st i = Some st' ->
      Inv g st' /\
      match completed st st' i with
      | Some (Write w, a) => (g_inner st', a) = inner_step (g_inner st) g (Write w)
      | Some (Read q, a) => g_inner st' = g_inner st /\ a = inner_read (g_inner st') g q
      | None => g_inner st' = g_inner st
      end /\
      gid_of_thread st i = Some g.
  Proof.
    intros g st i st' [h [Hh [Hg [Hc [Ht Hx]]]]] Hal Hs.
    unfold Memo.step in Hs. unfold Memo.allowed in Hal.
    destruct (nth_error (g_threads st) i) as [t|] eqn:Nt; [|discriminate].
    destruct (Ht i t Nt) as [H0 [Htodo Hpc]].
    rewrite Hh, H0 in Hs. cbn [nth_error] in Hs.
    assert (Gid : gid_of_thread st i = Some g).
    { unfold Memo.gid_of_thread. rewrite Nt, Hh, H0. cbn. rewrite Hg. reflexivity. }
    unfold Memo.completed. rewrite Nt.
    destruct (t_pc t) as [|q|q a|w] eqn:Pc.
    - (* Idle: start a request *)
      destruct (t_todo t) as [|[w|q] rest] eqn:Td; [discriminate| |].
      + (* write: clear the caches *)
        inversion Hs; subst st'; clear Hs; unfold Inv. cbn [g_threads g_inner g_handles upd_nth].
        rewrite (nth_error_upd_eq _ _ _ _ _ Nt). cbn [t_done]. rewrite Nat.ltb_irrefl.
        split; [|split; [reflexivity|exact Gid]].
        exists (cleared h). split; [reflexivity|]. split; [exact Hg|]. split; [apply coh_cleared|]. split.
        * intros j tj Nj. apply nth_error_upd_inv in Nj. destruct Nj as [[E1 E2]|[E1 E2]].
          -- subst j tj. split; [reflexivity|]. split; [|exact I].
             intros q Hq. apply Htodo. rewrite Td. right. exact Hq.
          -- apply Ht with j. exact E2.
        * intros j tj Nj Wj. apply nth_error_upd_inv in Nj. destruct Nj as [[E1 E2]|[E1 E2]].
          -- subst j tj. split; [split; reflexivity|].
             intros k tk Nk Nk'. cbn [g_threads] in Nk'. rewrite nth_error_upd_neq in Nk' by congruence.
             eapply others_forallb; [exact Hal|exact Nk|exact Nk'].
          -- exfalso. pose proof (others_forallb _ _ _ _ Hal j tj (not_eq_sym E1) E2) as Idl.
             unfold in_write in Wj. unfold is_idle in Idl. destruct (t_pc tj); discriminate.
      + (* read: probe *)
        assert (Dq : D q = true) by (apply Htodo; rewrite Td; left; reflexivity).
        assert (NoW : forall j tj, j <> i -> nth_error (g_threads st) j = Some tj -> in_write tj = false).
        { intros j tj Nj Nj'. apply negb_true_iff in Hal. eapply others_existsb; eassumption. }
        destruct (probe h q) as [a|] eqn:P.
        * (* hit *)
          inversion Hs; subst st'; clear Hs; unfold Inv. cbn [g_threads g_inner g_handles].
          rewrite (nth_error_upd_eq _ _ _ _ _ Nt). cbn [t_done]. rewrite ltb_cons. cbn [hd_error].
          split; [|split; [|exact Gid]].
          -- exists h. split; [reflexivity|]. split; [exact Hg|]. split; [exact Hc|]. split.
             ++ intros j tj Nj. apply nth_error_upd_inv in Nj. destruct Nj as [[E1 E2]|[E1 E2]].
                ** subst j tj. split; [reflexivity|]. split; [|exact I].
                   intros q' Hq. apply Htodo. rewrite Td. right. exact Hq.
                ** apply Ht with j. exact E2.
             ++ intros j tj Nj Wj. apply nth_error_upd_inv in Nj. destruct Nj as [[E1 E2]|[E1 E2]].
                ** subst tj. discriminate.
                ** rewrite (NoW j tj (not_eq_sym E1) E2) in Wj. discriminate.
          -- split; [reflexivity|]. rewrite <- Hg. eapply probe_coh; eassumption.
        * (* miss *)
          inversion Hs; subst st'; clear Hs; unfold Inv. cbn [g_threads g_inner g_handles].
          rewrite (nth_error_upd_eq _ _ _ _ _ Nt). cbn [t_done]. rewrite Nat.ltb_irrefl.
          split; [|split; [reflexivity|exact Gid]].
          exists h. split; [reflexivity|]. split; [exact Hg|]. split; [exact Hc|]. split.
          -- intros j tj Nj. apply nth_error_upd_inv in Nj. destruct Nj as [[E1 E2]|[E1 E2]].
             ++ subst j tj. split; [reflexivity|]. split; [|exact Dq].
                intros q' Hq. apply Htodo. rewrite Td. right. exact Hq.
             ++ apply Ht with j. exact E2.
          -- intros j tj Nj Wj. apply nth_error_upd_inv in Nj. destruct Nj as [[E1 E2]|[E1 E2]].
             ++ subst tj. discriminate.
             ++ rewrite (NoW j tj (not_eq_sym E1) E2) in Wj. discriminate.
    - (* RdFwd: the forwarded read *)
      unfold pc_ok in Hpc. rewrite Pc in Hpc.
      destruct (inner_step (g_inner st) (h_gid h) (Read q)) as [s' a] eqn:E.
      assert (s' = g_inner st) by (pose proof (Hpure (g_inner st) (h_gid h) q) as P1; rewrite E in P1; exact P1).
      subst s'. inversion Hs; subst st'; clear Hs; unfold Inv. cbn [g_threads g_inner g_handles].
      rewrite (nth_error_upd_eq _ _ _ _ _ Nt). cbn [t_done]. rewrite Nat.ltb_irrefl.
      split; [|split; [reflexivity|exact Gid]].
      exists h. split; [reflexivity|]. split; [exact Hg|]. split; [exact Hc|]. split.
      + intros j tj Nj. apply nth_error_upd_inv in Nj. destruct Nj as [[E1 E2]|[E1 E2]].
        * subst j tj. split; [reflexivity|]. split; [exact Htodo|]. unfold pc_ok. cbn [t_pc].
          split; [exact Hpc|]. unfold MemoProofs.inner_read. rewrite <- Hg, E. reflexivity.
        * apply Ht with j. exact E2.
      + intros j tj Nj Wj. apply nth_error_upd_inv in Nj. destruct Nj as [[E1 E2]|[E1 E2]].
        * subst tj. discriminate.
        * exfalso. destruct (Hx j tj E2 Wj) as [_ Hid]. specialize (Hid i t E1 Nt).
          unfold is_idle in Hid. rewrite Pc in Hid. discriminate.
    - (* RdStore: store in the cache, return *)
      unfold pc_ok in Hpc. rewrite Pc in Hpc. destruct Hpc as [Dq Ea].
      inversion Hs; subst st'; clear Hs; unfold Inv. cbn [g_threads g_inner g_handles upd_nth].
      rewrite (nth_error_upd_eq _ _ _ _ _ Nt). cbn [t_done]. rewrite ltb_cons. cbn [hd_error].
      split; [|split; [|exact Gid]].
      + exists (store_after h q a). split; [reflexivity|]. split; [rewrite gid_store_after; exact Hg|]. split.
        * subst a. rewrite <- Hg. apply coh_store_after; assumption.
        * split.
          -- intros j tj Nj. apply nth_error_upd_inv in Nj. destruct Nj as [[E1 E2]|[E1 E2]].
             ++ subst j tj. split; [reflexivity|]. split; [exact Htodo|exact I].
             ++ apply Ht with j. exact E2.
          -- intros j tj Nj Wj. apply nth_error_upd_inv in Nj. destruct Nj as [[E1 E2]|[E1 E2]].
             ++ subst tj. discriminate.
             ++ exfalso. destruct (Hx j tj E2 Wj) as [_ Hid]. specialize (Hid i t E1 Nt).
                unfold is_idle in Hid. rewrite Pc in Hid. discriminate.
      + split; [reflexivity|exact Ea].
    - (* WrFwd: the forwarded write *)
      destruct (inner_step (g_inner st) (h_gid h) (Write w)) as [s' a] eqn:E.
      inversion Hs; subst st'; clear Hs; unfold Inv. cbn [g_threads g_inner g_handles].
      rewrite (nth_error_upd_eq _ _ _ _ _ Nt). cbn [t_done]. rewrite ltb_cons. cbn [hd_error].
      assert (Wt : in_write t = true) by (unfold in_write; rewrite Pc; reflexivity).
      destruct (Hx i t Nt Wt) as [[Em1 Em2] Hid].
      split; [|split; [rewrite <- Hg, E; reflexivity|exact Gid]].
      exists h. split; [reflexivity|]. split; [exact Hg|]. split; [apply coh_empty; assumption|]. split.
      + intros j tj Nj. apply nth_error_upd_inv in Nj. destruct Nj as [[E1 E2]|[E1 E2]].
        * subst j tj. split; [reflexivity|]. split; [exact Htodo|exact I].
        * destruct (Ht j tj E2) as [A1 [A2 A3]]. split; [exact A1|]. split; [exact A2|].
          specialize (Hid j tj (not_eq_sym E1) E2). unfold is_idle in Hid. unfold pc_ok.
          destruct (t_pc tj); try discriminate. exact I.
      + intros j tj Nj Wj. apply nth_error_upd_inv in Nj. destruct Nj as [[E1 E2]|[E1 E2]].
        * subst tj. discriminate.
        * exfalso. specialize (Hid j tj (not_eq_sym E1) E2). unfold is_idle in Hid. unfold in_write in Wj.
          destruct (t_pc tj); discriminate.
  Qed.

  (* ---------------------------------------------------------------- whole runs *)
  Definition log_entry := (nat * @req wreq query * @answer elem err * @answer elem err)%type.
  Definition le_req (e : log_entry) := snd (fst (fst e)).
  Definition le_ans (e : log_entry) := snd (fst e).
  Definition le_ref (e : log_entry) := snd e.

  (* every request returns what the wrapped store answers at the moment the request completes *)
  Theorem excl_answers_current :
    forall sched g st stf lg, Inv g st -> run_log true st sched = Some (stf, lg) ->
      Inv g stf /\ forall e, In e lg -> le_ans e = le_ref e.
  Proof.
    induction sched as [|i sched IH]; intros g st stf lg HI HR; cbn [Memo.run_log] in HR.
    - inversion HR; subst. split; [exact HI|]. intros e [].
    - destruct (allowed st i) eqn:Al; [|discriminate].
      destruct (step st i) as [st'|] eqn:St; [|discriminate].
      destruct (step_inv g st i st' HI Al St) as [HI' [HC HG]].
      destruct (run_log true st' sched) as [[stf' lg']|] eqn:RL; [|discriminate].
      destruct (IH g st' stf' lg' HI' RL) as [HIf Hlg].
      rewrite HG in HR.
      destruct (completed st st' i) as [[rq a]|] eqn:Cm.
      + inversion HR; subst stf lg. split; [exact HIf|].
        intros e [He|He]; [|apply Hlg; exact He]. subst e. unfold le_ans, le_ref. cbn [fst snd].
        destruct rq as [w|q]; cbn [Memo.ref_now]; [reflexivity|]. destruct HC as [_ HC]. exact HC.
      + inversion HR; subst stf lg. split; [exact HIf|exact Hlg].
  Qed.

  (* ... and the run as a whole IS the sequential run of the wrapped store on the requests in completion order *)
  Theorem excl_linearizable :
    forall sched g st stf lg, Inv g st -> run_log true st sched = Some (stf, lg) ->
      ref_run (mkR (g_inner st) [g]) (map (fun e => HDo 0 (le_req e)) lg)
      = (mkR (g_inner stf) [g], map le_ans lg).
  Proof.
    induction sched as [|i sched IH]; intros g st stf lg HI HR; cbn [Memo.run_log] in HR.
    - inversion HR; subst. reflexivity.
    - destruct (allowed st i) eqn:Al; [|discriminate].
      destruct (step st i) as [st'|] eqn:St; [|discriminate].
      destruct (step_inv g st i st' HI Al St) as [HI' [HC HG]].
      destruct (run_log true st' sched) as [[stf' lg']|] eqn:RL; [|discriminate].
      specialize (IH g st' stf' lg' HI' RL).
      rewrite HG in HR.
      destruct (completed st st' i) as [[rq a]|] eqn:Cm.
      + inversion HR; subst stf lg.
        cbn [map Memo.ref_run Memo.ref_step le_req le_ans fst snd r_gids r_inner nth_error].
        destruct rq as [w|q].
        * rewrite <- HC. rewrite IH. reflexivity.
        * destruct HC as [HC1 HC2].
          pose proof (Hpure (g_inner st) g q) as P1.
          destruct (inner_step (g_inner st) g (Read q)) as [s1 a1] eqn:E. cbn [fst] in P1. subst s1.
          assert (a1 = a).
          { rewrite HC2. unfold MemoProofs.inner_read. rewrite HC1, E. reflexivity. }
          subst a1. rewrite <- HC1, IH. reflexivity.
      + inversion HR; subst stf lg. rewrite <- HC. exact IH.
  Qed.

  (* the hypotheses are satisfiable: every initial state (fresh handle, idle threads, requests in D) satisfies Inv *)
  Lemma Inv_init :
    forall s g (progs : list (list (@req wreq query))),
      (forall p q, In p progs -> In (Read q) p -> D q = true) ->
      Inv g (mkG s [fresh g] (map (mk_thread 0) progs)).
  Proof.
    intros s g progs HD. exists (fresh g). cbn [g_handles g_inner g_threads].
    split; [reflexivity|]. split; [reflexivity|]. split; [apply coh_fresh|]. split.
    - intros j tj Nj. apply nth_error_In in Nj. apply in_map_iff in Nj. destruct Nj as [p [Ep Hp]]. subst tj.
      split; [reflexivity|]. split; [|exact I]. intros q Hq. cbn in Hq. eapply HD; eassumption.
    - intros i ti Ni Wi. apply nth_error_In in Ni. apply in_map_iff in Ni. destruct Ni as [p [Ep Hp]]. subst ti.
      discriminate.
  Qed.

End StepProofs.
