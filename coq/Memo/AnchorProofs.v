(* Discharges the well-formedness premise `lo_wf` of the key-injectivity theorems for options whose anchors are rendered
   the way storage.LookupOptions.String() renders them: `l.LowerAnchor.Format(time.RFC3339Nano)` (read in storage.go:
   Format with the RFC3339Nano layout, not %v of the *time.Time).  The rendering function and its alphabet / injectivity
   lemmas come from the Values family (coq/Values/TimeCodec.v, TimeCodecProofs.v; Props: C05_rfc3339nano_alphabet,
   C05_rfc3339nano_injective).  The filter is rendered by fmt %+v of the struct, which starts with an opening brace. *)
From Coq Require Import List NArith ZArith Bool.
From Coq.Strings Require Import Byte.
Import ListNotations.
From BWValues Require Values TimeCodec TimeCodecProofs.
From BWMemo Require Import Memo KeyProofs.

Notation time := BWValues.Values.time.
Notation fmt_rfc3339nano := BWValues.TimeCodec.fmt_rfc3339nano.
Notation ns_dom := BWValues.TimeCodecProofs.ns_dom.

Lemma talpha_no_comma : forall x, In x BWValues.TimeCodecProofs.talpha -> negb (Byte.eqb x x2c) = true.
Proof. intros x H. cbn in H. repeat (destruct H as [H|H]; [subst x; reflexivity|]). contradiction. Qed.

Lemma talpha_no_n : ~ In x6e BWValues.TimeCodecProofs.talpha.
Proof. intro H. cbn in H. repeat (destruct H as [H|H]; [discriminate|]). contradiction. Qed.

(* an RFC3339Nano rendering contains no comma and is not the text "nil" - for EVERY instant and zone offset *)
Lemma anchor_wf_rfc3339 : forall t : time, anchor_wf (Some (fmt_rfc3339nano t)) = true.
Proof.
  intro t. cbn [anchor_wf]. apply andb_true_iff. split.
  - unfold no_comma. apply forallb_forall. intros x Hx. apply talpha_no_comma.
    exact (BWValues.TimeCodecProofs.fmt_alphabet t x Hx).
  - apply negb_true_iff. destruct (Memo.str_eqb (fmt_rfc3339nano t) s_nil) eqn:E; [|reflexivity].
    exfalso. apply str_eqb_eq in E. apply talpha_no_n.
    apply (BWValues.TimeCodecProofs.fmt_alphabet t). rewrite E. left. reflexivity.
Qed.

Lemma filter_wf_brace : forall body, filter_wf (Some (x7b :: body)) = true.
Proof. intro body. reflexivity. Qed.

(* lookup options as values: anchors are instants with a zone offset, the filter is the text after the opening brace *)
Record topts := mkTO {
  to_max : Z; to_lower : option time; to_upper : option time; to_latest : bool;
  to_filter : option Memo.str; to_offset : Z
}.

(* ... and how LookupOptions.String() renders their pieces *)
Definition render (o : topts) : lopts :=
  mkLO (to_max o) (option_map (fun t => fmt_rfc3339nano t) (to_lower o)) (option_map (fun t => fmt_rfc3339nano t) (to_upper o))
       (to_latest o) (option_map (cons x7b) (to_filter o)) (to_offset o).

Theorem render_wf : forall o, lo_wf (render o) = true.
Proof.
  intros [m l u b f z]. unfold lo_wf, render. cbn [lo_lower lo_upper lo_filter to_lower to_upper to_filter].
  repeat (apply andb_true_iff; split).
  - destruct l; [apply anchor_wf_rfc3339|reflexivity].
  - destruct u; [apply anchor_wf_rfc3339|reflexivity].
  - destruct f; reflexivity.
Qed.

Definition anchor_dom (o : option time) : Prop := match o with Some t => ns_dom t | None => True end.

(* LookupOptions.String() determines every field it prints - no premise about the renderings is left; the anchors
   are recovered as VALUES when they lie in the domain on which Format is injective (years 0000-9999, whole-minute zone) *)
Theorem options_key_inj_rendered : forall a b,
  options_key (render a) = options_key (render b) ->
  to_max a = to_max b /\ to_latest a = to_latest b /\ to_filter a = to_filter b /\
  option_map (fun t => fmt_rfc3339nano t) (to_lower a) = option_map (fun t => fmt_rfc3339nano t) (to_lower b) /\
  option_map (fun t => fmt_rfc3339nano t) (to_upper a) = option_map (fun t => fmt_rfc3339nano t) (to_upper b) /\
  (anchor_dom (to_lower a) -> anchor_dom (to_lower b) -> to_lower a = to_lower b) /\
  (anchor_dom (to_upper a) -> anchor_dom (to_upper b) -> to_upper a = to_upper b).
Proof.
  intros a b E.
  destruct (options_key_inj (render a) (render b) (render_wf a) (render_wf b) E) as [M [L [U [B F]]]].
  clear E. destruct a as [m1 l1 u1 b1 f1 z1], b as [m2 l2 u2 b2 f2 z2].
  change (m1 = m2) in M. change (b1 = b2) in B.
  change (option_map (fun t => fmt_rfc3339nano t) l1 = option_map (fun t => fmt_rfc3339nano t) l2) in L.
  change (option_map (fun t => fmt_rfc3339nano t) u1 = option_map (fun t => fmt_rfc3339nano t) u2) in U.
  change (option_map (cons x7b) f1 = option_map (cons x7b) f2) in F.
  change (m1 = m2 /\ b1 = b2 /\ f1 = f2 /\
          option_map (fun t => fmt_rfc3339nano t) l1 = option_map (fun t => fmt_rfc3339nano t) l2 /\
          option_map (fun t => fmt_rfc3339nano t) u1 = option_map (fun t => fmt_rfc3339nano t) u2 /\
          (anchor_dom l1 -> anchor_dom l2 -> l1 = l2) /\ (anchor_dom u1 -> anchor_dom u2 -> u1 = u2)).
  assert (Hopt : forall x y : option time,
             option_map (fun t => fmt_rfc3339nano t) x = option_map (fun t => fmt_rfc3339nano t) y ->
             anchor_dom x -> anchor_dom y -> x = y).
  { intros [x|] [y|] Exy Dx Dy; try discriminate; [|reflexivity].
    f_equal. apply BWValues.TimeCodecProofs.fmt_injective; [exact Dx|exact Dy|].
    change (Some (fmt_rfc3339nano x) = Some (fmt_rfc3339nano y)) in Exy. congruence. }
  split; [exact M|]. split; [exact B|]. split.
  - destruct f1, f2; try discriminate; [|reflexivity].
    change (Some (x7b :: s) = Some (x7b :: s0)) in F. congruence.
  - split; [exact L|]. split; [exact U|]. split; [apply Hopt; exact L|apply Hopt; exact U].
Qed.

(* requests whose options are rendered values: with the offset in the key (current tree) equal keys are equal requests *)
Theorem key_v1_inj_rendered : forall (arg : Type) o1 o2 (a1 a2 : list arg) op1 op2,
  key_v1 (mkQ op1 (render o1) a1) = key_v1 (mkQ op2 (render o2) a2) ->
  mkQ op1 (render o1) a1 = mkQ op2 (render o2) a2.
Proof.
  intros arg o1 o2 a1 a2 op1 op2 E. apply (key_v1_inj arg); [apply render_wf|apply render_wf|exact E].
Qed.
