(* The sequential theorem instantiated with the two concrete key functions, and the executable witnesses
   (counterexamples replayed on the real memoizer by checks/c19.py). *)
From Coq Require Import List NArith ZArith Bool Arith Lia.
From Coq.Strings Require Import Byte.
Import ListNotations.
From BWMemo Require Import Memo MemoProofs MemoStepProofs KeyProofs.

Section ConcreteSeq.
  Variables (istate gid wreq arg elem err : Type).
  Variable arg_eqb : arg -> arg -> bool.
  Hypothesis arg_eqb_eq : forall a b, arg_eqb a b = true <-> a = b.
  Variable inner_step : istate -> gid -> @req wreq (cquery arg) -> istate * @answer elem err.

  Notation memo_run_v1 := (@memo_run istate gid wreq (cquery arg) elem err (ckey arg) cq_is_exist key_v1 (ckey_eqb arg_eqb) inner_step).
  Notation memo_run_v0 := (@memo_run istate gid wreq (cquery arg) elem err (ckey arg) cq_is_exist key_v0 (ckey_eqb arg_eqb) inner_step).
  Notation ref_run := (@ref_run istate gid wreq (cquery arg) elem err inner_step).

  Hypothesis Hpure : forall s g q, fst (inner_step s g (Read q)) = s.

  (* key with the offset (after F16): every request with well-formed options, any page *)
  Theorem seq_v1 :
    forall s g rs, (forall q, In (Read q) rs -> q_wf arg q = true) ->
      snd (memo_run_v1 (init_m s) (HOpen g :: map (HDo 0) rs)) = snd (ref_run (init_r s) (HOpen g :: map (HDo 0) rs)) /\
      m_inner (fst (memo_run_v1 (init_m s) (HOpen g :: map (HDo 0) rs))) =
      r_inner (fst (ref_run (init_r s) (HOpen g :: map (HDo 0) rs))).
  Proof.
    intros s g rs HD.
    apply (sequential_single_handle istate gid wreq (cquery arg) elem err (ckey arg) cq_is_exist key_v1
             (ckey_eqb arg_eqb) (ckey_eqb_eq arg arg_eqb arg_eqb_eq) inner_step (q_wf arg)).
    - exact Hpure.
    - intros s0 g0 q1 q2 D1 D2 Ek _. rewrite (key_v1_inj arg q1 q2 D1 D2 Ek). reflexivity.
    - exact HD.
  Qed.

  (* key without the offset (the tree before F16): first pages only, or no paging at all *)
  Definition D0 (q : cquery arg) : bool :=
    q_wf arg q && (Z.eqb (lo_offset (q_lo q)) 0 || Z.leb (lo_max (q_lo q)) 0).

  Theorem seq_v0 :
    (* the wrapped store pages only when MaxElements > 0 (storage/memory's checker does) *)
    (forall s g q, (lo_max (q_lo q) <= 0)%Z ->
                   snd (inner_step s g (Read q)) = snd (inner_step s g (Read (with_offset arg q 0)))) ->
    forall s g rs, (forall q, In (Read q) rs -> D0 q = true) ->
      snd (memo_run_v0 (init_m s) (HOpen g :: map (HDo 0) rs)) = snd (ref_run (init_r s) (HOpen g :: map (HDo 0) rs)) /\
      m_inner (fst (memo_run_v0 (init_m s) (HOpen g :: map (HDo 0) rs))) =
      r_inner (fst (ref_run (init_r s) (HOpen g :: map (HDo 0) rs))).
  Proof.
    intros Hpage s g rs HD.
    apply (sequential_single_handle istate gid wreq (cquery arg) elem err (ckey arg) cq_is_exist key_v0
             (ckey_eqb arg_eqb) (ckey_eqb_eq arg arg_eqb arg_eqb_eq) inner_step D0).
    - exact Hpure.
    - intros s0 g0 q1 q2 D1 D2 Ek _.
      assert (N : forall q, D0 q = true ->
                  snd (inner_step s0 g0 (Read q)) = snd (inner_step s0 g0 (Read (with_offset arg q 0)))).
      { intros q Dq. unfold D0 in Dq. apply andb_true_iff in Dq. destruct Dq as [_ Dq].
        apply orb_true_iff in Dq. destruct Dq as [Dq|Dq].
        - apply Z.eqb_eq in Dq. rewrite with_offset_self by exact Dq. reflexivity.
        - apply Z.leb_le in Dq. apply Hpage. exact Dq. }
      rewrite (N q1 D1), (N q2 D2).
      unfold D0 in D1, D2. apply andb_true_iff in D1. apply andb_true_iff in D2.
      rewrite (key_v0_inj arg q1 q2 (proj1 D1) (proj1 D2) Ek). reflexivity.
    - exact HD.
  Qed.
End ConcreteSeq.

(* ---------------------------------------------------------------- the tiny wrapped store satisfies the assumptions *)
Lemma tiny_reads_pure : forall s g q, fst (tiny_step s g (Read q)) = s.
Proof.
  intros s g q. cbn. destruct (q_op q); try reflexivity. destruct (q_args q) as [|x [|y r]]; reflexivity.
Qed.

Lemma tiny_err_empty : forall s g q l e, snd (tiny_step s g (Read q)) = AList l (Some e) -> l = [].
Proof.
  intros s g q l e. cbn. destruct (q_op q); cbn; intro E; try (inversion E; reflexivity).
  destruct (q_args q) as [|x [|y r]]; discriminate.
Qed.

(* ---------------------------------------------------------------- executable instances over the tiny store *)
Definition tm_run (key : tquery -> ckey N) :=
  @memo_run (list N) N twreq tquery N N (ckey N) cq_is_exist key (ckey_eqb N.eqb) tiny_step.
Definition tr_run := @ref_run (list N) N twreq tquery N N tiny_step.
Definition tlog (key : tquery -> ckey N) :=
  @run_log (list N) N twreq tquery N N (ckey N) cq_is_exist key (ckey_eqb N.eqb) tiny_step.
Definition tstate (init : list N) (nh : nat) (progs : list (nat * list (@req twreq tquery)))
  : @gstate (list N) N twreq tquery N N (ckey N) :=
  mkG init (repeat (fresh 0%N) nh) (map (fun p => mk_thread (fst p) (snd p)) progs).

Definition rd_list (max off : Z) : @req twreq tquery := Read (t_list max off).
Definition rd_exist (x : N) : @req twreq tquery := Read (t_exist x).
Definition wr_add (l : list N) : @req twreq tquery := Write (TAdd l).
Definition wr_remove (l : list N) : @req twreq tquery := Write (TRemove l).

(* a wrapped store that fails once in the middle of a stream: state = (content, armed?) *)
Definition flaky_step (s : list N * bool) (g : N) (r : @req twreq tquery) : (list N * bool) * @answer N N :=
  match r, s with
  | Read q, (c, true) =>
      match q_op q with
      | OTriples => ((c, false), AList (firstn 1 (page (lo_max (q_lo q)) (lo_offset (q_lo q)) c)) (Some 1%N))
      | _ => let '(c', a) := tiny_step c g r in ((c', true), a)
      end
  | _, (c, b) => let '(c', a) := tiny_step c g r in ((c', b), a)
  end.

(* current model and the model of the tree before fix F22, one handle *)
Definition fm_run :=
  @memo_run (list N * bool) N twreq tquery N N (ckey N) cq_is_exist key_v1 (ckey_eqb N.eqb) flaky_step.
Definition fm_run_f22 :=
  @run1_f22 (list N * bool) N twreq tquery N N (ckey N) cq_is_exist key_v1 (ckey_eqb N.eqb) flaky_step.
