(* Executable comparison of the memoizer model with observations of the real memoizer (written by the check).

   Two instances of the generic model:
   (1) REPLAY store: the wrapped store is the recorded sequence of calls that reached the real wrapped store, with
       their answers.  The model must forward exactly those calls in that order (so its hit/miss decisions are the
       real ones) and, given the recorded inner answers, return exactly the answers the real memoizer returned.
   (2) TINY store (Memo.tiny_step): numbered triples; the model predicts everything from the initial content.
       Used for the witness histories and for every interleaving enumerated with the gating inner store. *)
From Coq Require Import List NArith ZArith Bool Arith.
From Coq.Strings Require Import Byte.
Import ListNotations.
From BWMemo Require Import Memo.

(* ---------------------------------------------------------------- answers *)
Definition oN_eqb (a b : option N) : bool :=
  match a, b with
  | None, None => true
  | Some x, Some y => N.eqb x y
  | _, _ => false
  end.

Definition ans := @answer N N.

Definition ans_eqb (a b : ans) : bool :=
  match a, b with
  | AList l e, AList l' e' => list_eqb N.eqb l l' && oN_eqb e e'
  | ABool x e, ABool x' e' => Bool.eqb x x' && oN_eqb e e'
  | AAck e, AAck e' => oN_eqb e e'
  | ABadHandle, ABadHandle => true
  | _, _ => false
  end.

(* ---------------------------------------------------------------- (1) replay store *)
Definition rq := cquery N.
Inductive rw := RW (kind : N) (ids : list N).       (* 0 = AddTriples, 1 = RemoveTriples; interned triples *)
Definition rreq := @req rw rq.

Definition rreq_eqb (a b : rreq) : bool :=
  match a, b with
  | Write (RW k l), Write (RW k' l') => N.eqb k k' && list_eqb N.eqb l l'
  | Read q, Read q' => ckey_eqb N.eqb (key_v1 q) (key_v1 q')   (* full identity of the request incl. Offset *)
  | _, _ => false
  end.

Definition rlog := list (N * rreq * ans).            (* graph, request as received by the wrapped store, answer *)
Definition desync : ans := AAck (Some 99%N).

Definition replay_step (s : rlog) (g : N) (r : rreq) : rlog * ans :=
  match s with
  | [] => ([], desync)
  | (g', r', a) :: rest => if N.eqb g g' && rreq_eqb r r' then (rest, a) else ([], desync)
  end.

Definition cancelled_err : N := 7%N.
Definition r_memo_run_c :=
  @memo_run_c rlog N rw rq N N (ckey N) cq_is_exist key_cur (ckey_eqb N.eqb) replay_step cancelled_err.
Definition r_memo_run :=
  @memo_run rlog N rw rq N N (ckey N) cq_is_exist key_cur (ckey_eqb N.eqb) replay_step.

(* one observed history: operations (incl. lookups cancelled after k elements), the answers the real memoizer gave,
   whether the history ended with a forwarded lookup left blocked, the calls that reached the inner store *)
Definition rchop := @chop N rw rq.
Definition rcase := (list rchop * list ans * bool * rlog)%type.

(* errors are compared as a class: the harness maps every error to 1, the model's "context cancelled" included *)
Definition err_class (a : ans) : ans :=
  match a with
  | AList l (Some _) => AList l (Some 1%N)
  | ABool b (Some _) => ABool b (Some 1%N)
  | AAck (Some _) => AAck (Some 1%N)
  | _ => a
  end.

(* `leak` = the harness saw a forwarded lookup still blocked after the memoizer had returned: never, since fix F23 *)
Definition r_agrees (c : rcase) : bool :=
  match c with
  | (ops, obs, leak, lg) =>
      match r_memo_run_c (mkM lg []) ops with
      | (st, out) =>
          list_eqb ans_eqb (map err_class out) obs && negb leak &&
          match m_inner st with [] => true | _ => false end
      end
  end.

Fixpoint mismatches_from {A : Type} (f : A -> bool) (i : N) (l : list A) : list N :=
  match l with
  | [] => []
  | c :: r => if f c then mismatches_from f (i + 1) r else i :: mismatches_from f (i + 1) r
  end.

Definition r_mismatches (l : list rcase) : list N := mismatches_from r_agrees 0 l.

(* what the model returns on a case (for diagnostics) *)
Definition r_model (c : rcase) : list ans :=
  match c with (ops, _, _, lg) => snd (r_memo_run_c (mkM lg []) ops) end.

(* LookupOptions.String(): observed text vs options_key; and the renderings are well formed (domain of C19_offset) *)
Definition lo_agrees (p : lopts * str) : bool := str_eqb (options_key (fst p)) (snd p) && lo_wf (fst p).
Definition lo_mismatches (l : list (lopts * str)) : list N := mismatches_from lo_agrees 0 l.

(* ---------------------------------------------------------------- (2) tiny store *)
Definition treq := @req twreq tquery.
Definition thop := @hop N twreq tquery.

Definition t_memo_run :=
  @memo_run (list N) N twreq tquery N N (ckey N) cq_is_exist key_cur (ckey_eqb N.eqb) tiny_step.
Definition t_ref_run :=
  @ref_run (list N) N twreq tquery N N tiny_step.

(* sequential tiny history: initial content, operations, observed memoizer answers, observed plain-store answers *)
Definition tcase := (list N * list thop * list ans * list ans)%type.

Definition t_agrees (c : tcase) : bool :=
  match c with
  | (init, ops, obs, obs_plain) =>
      list_eqb ans_eqb (snd (t_memo_run (mkM init []) ops)) obs &&
      list_eqb ans_eqb (snd (t_ref_run (mkR init []) ops)) obs_plain
  end.
Definition t_mismatches (l : list tcase) : list N := mismatches_from t_agrees 0 l.

(* interleavings *)
Definition tgstate := @gstate (list N) N twreq tquery N N (ckey N).
Definition tthread := @thread twreq tquery N N.
Definition thandle := @handle N N (ckey N).

Definition t_step : tgstate -> nat -> option tgstate :=
  @step (list N) N twreq tquery N N (ckey N) cq_is_exist key_cur (ckey_eqb N.eqb) tiny_step.
Definition t_run_sched : tgstate -> list nat -> option tgstate :=
  @run_sched (list N) N twreq tquery N N (ckey N) cq_is_exist key_cur (ckey_eqb N.eqb) tiny_step.
Definition t_all_scheds : nat -> tgstate -> list (list nat) :=
  @all_scheds (list N) N twreq tquery N N (ckey N) cq_is_exist key_cur (ckey_eqb N.eqb) tiny_step.

(* a scenario: initial content, number of handles (all of graph 0), threads = (handle, program) *)
Definition scenario := (list N * nat * list (nat * list treq))%type.

Definition scn_state (s : scenario) : tgstate :=
  match s with
  | (init, nh, ths) =>
      mkG init (repeat (fresh 0%N) nh)
          (map (fun p => mk_thread (fst p) (snd p)) ths)
  end.

Definition scn_count (s : scenario) : N :=
  let st := scn_state s in N.of_nat (length (t_all_scheds (sched_fuel (g_threads st)) st)).

(* one observed complete schedule: schedule, per-thread answers, final content of the wrapped store *)
Definition sobs := (list nat * list (list ans) * list N)%type.

Definition s_agrees (s : scenario) (o : sobs) : bool :=
  match o with
  | (sched, out, final) =>
      match t_run_sched (scn_state s) sched with
      | None => false
      | Some st =>
          all_finished st &&
          list_eqb (list_eqb ans_eqb) (outcome st) out &&
          list_eqb N.eqb (g_inner st) final
      end
  end.

Definition s_mismatches (s : scenario) (l : list sobs) : list N := mismatches_from (s_agrees s) 0 l.

Definition s_model (s : scenario) (sched : list nat) : option (list (list ans)) :=
  option_map outcome (t_run_sched (scn_state s) sched).

(* ---------------------------------------------------------------- monomorphic constructors for generated case files
   (elaborating thousands of polymorphic constructors with implicit arguments is what makes a case file slow) *)
Definition aL (l : list N) (e : option N) : ans := AList l e.
Definition aB (b : bool) (e : option N) : ans := ABool b e.
Definition aK (e : option N) : ans := AAck e.
Definition e0 : option N := None.
Definition e1 : option N := Some 1%N.
Definition rO (g : N) : rchop := COpen g.
Definition rR (h : N) (q : rq) : rchop := CDo (N.to_nat h) (CPlain (Read q)).
Definition rC (h : N) (q : rq) (k : N) : rchop := CDo (N.to_nat h) (CCancel q (N.to_nat k)).
Definition rWr (h : N) (k : N) (ids : list N) : rchop := CDo (N.to_nat h) (CPlain (Write (RW k ids))).
Definition lR (g : N) (q : rq) (a : ans) : N * rreq * ans := (g, Read q, a).
Definition lW (g : N) (k : N) (ids : list N) (a : ans) : N * rreq * ans := (g, Write (RW k ids), a).
Definition mkRC (ops : list rchop) (obs : list ans) (leak : bool) (lg : rlog) : rcase := (ops, obs, leak, lg).
Definition tO : thop := HOpen 0%N.
Definition tD (h : N) (r : treq) : thop := HDo (N.to_nat h) r.
Definition tAdd (l : list N) : treq := Write (TAdd l).
Definition tRem (l : list N) : treq := Write (TRemove l).
Definition tList (max off : Z) : treq := Read (t_list max off).
Definition tEx (x : N) : treq := Read (t_exist x).
Definition mkTC (init : list N) (ops : list thop) (obs obsp : list ans) : tcase := (init, ops, obs, obsp).
Definition mkTh (h : N) (ops : list treq) : nat * list treq := (N.to_nat h, ops).
Definition mkScn (init : list N) (nh : N) (ths : list (nat * list treq)) : scenario := (init, N.to_nat nh, ths).
Definition mkSO (sched : list N) (out : list (list ans)) (final : list N) : sobs := (map N.to_nat sched, out, final).
