(* C19 — the memoizing store (storage/memoization) is observationally identical to the store it wraps.

   Model: coq/Memo/Memo.v (generic over an abstract wrapped store `inner_step`).  What is proved, for ALL histories:
     full     C19_sequential_single_handle      one handle, sequential use, any key function the wrapped store respects
     full     C19_offset                        the same with the concrete key that carries the paging offset (fix F16):
                                                no assumption relating keys and the wrapped store is left
     partial  C19_sequential_single_handle_partial   the pre-F16 key: requests with Offset = 0 or MaxElements <= 0
     full     C19_cancelled_lookups             one handle, histories with lookups cancelled by the caller after k elements
     full     C19_read_only_any_handles         any number of handles as long as nothing is written through the wrapper
     full     C19_one_handle_per_graph          any number of handles, reads and writes, at most one handle per graph
     full     C19_no_overlap_answers_current / C19_no_overlap_linearizable
                                                small-step model, one shared handle, any number of threads, every
                                                interleaving in which no read overlaps a write
     refuted  C19_offset_refuted (pre-F16 key; fixed), C19_truncated_cached_refuted (pre-F22 store rule; fixed),
              C19_cancelled_miss_leaks_refuted (pre-F23 step; fixed),
              C19_second_handle_refuted, C19_stale_after_write_refuted, C19_late_store_refuted
              (witnesses replayed on the real code) *)
From Coq Require Import List NArith ZArith Bool Arith.
From Coq.Strings Require Import Byte.
Import ListNotations.
From BWMemo Require Import Memo MemoProofs MemoStepProofs KeyProofs Concrete AnchorProofs.

(* which key function the current tree has (the correspondence run of checks/c19.py evaluates the model with key_cur) *)
Theorem C19_model_follows_tree : forall arg : Type, @key_cur arg = @key_v1 arg.
Proof. reflexivity. Qed.
Print Assumptions C19_model_follows_tree.

(* ------------------------------------------------------------------------------------------------ sequential, one handle *)
Theorem C19_sequential_single_handle :
  forall (istate gid wreq query elem err K : Type)
         (is_exist : query -> bool) (key : query -> K) (K_eqb : K -> K -> bool)
         (inner_step : istate -> gid -> @req wreq query -> istate * @answer elem err)
         (D : query -> bool),
    (* the key comparison decides equality of keys *)
    (forall a b, K_eqb a b = true <-> a = b) ->
    (* the wrapped store: lookups do not change it *)
    (forall s g q, fst (inner_step s g (Read q)) = s) ->
    (* ... requests (in D) with the same cache key get the same answer from it *)
    (forall s g q1 q2, D q1 = true -> D q2 = true -> key q1 = key q2 -> is_exist q1 = is_exist q2 ->
                       snd (inner_step s g (Read q1)) = snd (inner_step s g (Read q2))) ->
    forall (s : istate) (g : gid) (rs : list (@req wreq query)),
      (forall q, In (Read q) rs -> D q = true) ->
      (* every answer through the memoizer = the wrapped store's answer at that moment; same final inner state *)
      snd (memo_run istate gid wreq query elem err K is_exist key K_eqb inner_step (init_m s) (HOpen g :: map (HDo 0) rs))
      = snd (ref_run istate gid wreq query elem err inner_step (init_r s) (HOpen g :: map (HDo 0) rs)) /\
      m_inner (fst (memo_run istate gid wreq query elem err K is_exist key K_eqb inner_step (init_m s) (HOpen g :: map (HDo 0) rs)))
      = r_inner (fst (ref_run istate gid wreq query elem err inner_step (init_r s) (HOpen g :: map (HDo 0) rs))).
Proof.
  intros istate gid wreq query elem err K is_exist key K_eqb inner_step D HK Hp Hk s g rs HD.
  exact (sequential_single_handle istate gid wreq query elem err K is_exist key K_eqb HK inner_step D Hp Hk s g rs HD).
Qed.
Print Assumptions C19_sequential_single_handle.

(* with the paging offset in the key (fix F16) equal keys mean equal requests: every page, every option combination
   whose renderings are well formed (anchor text without comma and not "nil", filter text not "<nil>") *)
Theorem C19_offset :
  forall (istate gid wreq arg elem err : Type) (arg_eqb : arg -> arg -> bool)
         (inner_step : istate -> gid -> @req wreq (cquery arg) -> istate * @answer elem err),
    (forall a b, arg_eqb a b = true <-> a = b) ->
    (forall s g q, fst (inner_step s g (Read q)) = s) ->
    forall s g rs, (forall q, In (Read q) rs -> lo_wf (q_lo q) = true) ->
      snd (memo_run istate gid wreq (cquery arg) elem err (ckey arg) cq_is_exist key_v1 (ckey_eqb arg_eqb) inner_step
             (init_m s) (HOpen g :: map (HDo 0) rs))
      = snd (ref_run istate gid wreq (cquery arg) elem err inner_step (init_r s) (HOpen g :: map (HDo 0) rs)).
Proof.
  intros istate gid wreq arg elem err arg_eqb inner_step HA Hp s g rs HD.
  exact (proj1 (seq_v1 istate gid wreq arg elem err arg_eqb HA inner_step Hp s g rs HD)).
Qed.
Print Assumptions C19_offset.

(* The premise `lo_wf` of C19_offset is a theorem for options rendered as storage.LookupOptions.String() renders them:
   anchors by Time.Format(time.RFC3339Nano) - the Values family's Go-faithful `fmt_rfc3339nano` (alphabet 0-9 T : . Z + -,
   hence no comma and never the text "nil", for EVERY instant and zone) - and the filter by fmt %+v (opening brace first). *)
Theorem C19_rendered_options_wf : forall o : topts, lo_wf (render o) = true.
Proof. exact render_wf. Qed.
Print Assumptions C19_rendered_options_wf.

(* LookupOptions.String() is injective on such options, with no hypothesis on the renderings; the anchors come back as
   values on the domain where Format itself is injective (C05_rfc3339nano_injective: years 0000-9999, whole-minute zone) *)
Theorem C19_options_key_injective :
  forall a b : topts,
    options_key (render a) = options_key (render b) ->
    to_max a = to_max b /\ to_latest a = to_latest b /\ to_filter a = to_filter b /\
    option_map (fun t => BWValues.TimeCodec.fmt_rfc3339nano t) (to_lower a)
      = option_map (fun t => BWValues.TimeCodec.fmt_rfc3339nano t) (to_lower b) /\
    option_map (fun t => BWValues.TimeCodec.fmt_rfc3339nano t) (to_upper a)
      = option_map (fun t => BWValues.TimeCodec.fmt_rfc3339nano t) (to_upper b) /\
    (anchor_dom (to_lower a) -> anchor_dom (to_lower b) -> to_lower a = to_lower b) /\
    (anchor_dom (to_upper a) -> anchor_dom (to_upper b) -> to_upper a = to_upper b).
Proof. exact options_key_inj_rendered. Qed.
Print Assumptions C19_options_key_injective.

(* so, for requests over rendered options, equal cache keys (current tree) are equal requests - unconditionally *)
Theorem C19_key_injective_rendered :
  forall (arg : Type) (o1 o2 : topts) (a1 a2 : list arg) (op1 op2 : opkind),
    key_v1 (mkQ op1 (render o1) a1) = key_v1 (mkQ op2 (render o2) a2) ->
    mkQ op1 (render o1) a1 = mkQ op2 (render o2) a2.
Proof. exact key_v1_inj_rendered. Qed.
Print Assumptions C19_key_injective_rendered.

(* the key of the tree before F16 (no offset): the property holds on the domain D0 = first pages or no paging *)
Theorem C19_sequential_single_handle_partial :
  forall (istate gid wreq arg elem err : Type) (arg_eqb : arg -> arg -> bool)
         (inner_step : istate -> gid -> @req wreq (cquery arg) -> istate * @answer elem err),
    (forall a b, arg_eqb a b = true <-> a = b) ->
    (forall s g q, fst (inner_step s g (Read q)) = s) ->
    (* the wrapped store pages only when MaxElements > 0 *)
    (forall s g q, (lo_max (q_lo q) <= 0)%Z ->
                   snd (inner_step s g (Read q)) = snd (inner_step s g (Read (with_offset arg q 0)))) ->
    forall s g rs,
      (forall q, In (Read q) rs ->
                 (lo_wf (q_lo q) && (Z.eqb (lo_offset (q_lo q)) 0 || Z.leb (lo_max (q_lo q)) 0)) = true) ->
      snd (memo_run istate gid wreq (cquery arg) elem err (ckey arg) cq_is_exist key_v0 (ckey_eqb arg_eqb) inner_step
             (init_m s) (HOpen g :: map (HDo 0) rs))
      = snd (ref_run istate gid wreq (cquery arg) elem err inner_step (init_r s) (HOpen g :: map (HDo 0) rs)).
Proof.
  intros istate gid wreq arg elem err arg_eqb inner_step HA Hp Hpg s g rs HD.
  exact (proj1 (seq_v0 istate gid wreq arg elem err arg_eqb HA inner_step Hp Hpg s g rs HD)).
Qed.
Print Assumptions C19_sequential_single_handle_partial.

(* the domain of the partial theorem is inhabited by a non-trivial request: a window, a filter, and a page size
   with Offset 0; and by a request with an Offset but no page size *)
Example C19_partial_domain_example :
  let anchor := [x32;x30;x31;x32;x2d;x30;x34;x2d;x31;x30;x54;x30;x34;x3a;x32;x31;x3a;x30;x30;x5a] in
  D0 N (mkQ OObjects (mkLO 2 (Some anchor) None false (Some [x7b;x7d]) 0) [1%N; 2%N]) = true /\
  D0 N (mkQ OTriples (mkLO 0 None None true None 3) []) = true /\
  D0 N (mkQ OTriples (mkLO 2 None None false None 1) []) = false.
Proof. vm_compute. repeat split. Qed.

(* ------------------------------------------------------------------------------------------------ lookups cancelled by the caller *)
(* Memo.handle_step_c: the caller takes k elements, cancels its context and stops receiving.  One handle, all histories
   mixing ordinary requests and cancelled lookups: a cancelled lookup hands over exactly the first k elements of the wrapped
   store's answer of that moment (all of it when it has no more than k), and every other request gets the wrapped store's
   answer - a cancelled miss stores nothing.  (`delivered` relates the answers position by position; lists of equal length.) *)
Theorem C19_cancelled_lookups :
  forall (istate gid wreq query elem err K : Type)
         (is_exist : query -> bool) (key : query -> K) (K_eqb : K -> K -> bool)
         (inner_step : istate -> gid -> @req wreq query -> istate * @answer elem err)
         (D : query -> bool) (cancelled : err),
    (forall a b, K_eqb a b = true <-> a = b) ->
    (forall s g q, fst (inner_step s g (Read q)) = s) ->
    (forall s g q1 q2, D q1 = true -> D q2 = true -> key q1 = key q2 -> is_exist q1 = is_exist q2 ->
                       snd (inner_step s g (Read q1)) = snd (inner_step s g (Read q2))) ->
    forall (s : istate) (g : gid) (rs : list (@creq wreq query)),
      Forall (fun r => match r with CPlain (Read q) => D q = true | CCancel q _ => D q = true | _ => True end) rs ->
      delivered wreq query elem err is_exist rs
                (snd (memo_run_c istate gid wreq query elem err K is_exist key K_eqb inner_step cancelled
                                 (mkM s [fresh g]) (map (CDo 0) rs)))
                (ref_answers istate gid wreq query elem err inner_step s g rs).
Proof.
  intros istate gid wreq query elem err K is_exist key K_eqb inner_step D cancelled HK Hp Hk s g rs HD.
  exact (cancelled_single_handle istate gid wreq query elem err K is_exist key K_eqb HK inner_step D Hp Hk cancelled
           rs s (fresh g) (coh_fresh istate gid wreq query elem err K is_exist key K_eqb inner_step D s g) HD).
Qed.
Print Assumptions C19_cancelled_lookups.

(* BEFORE fix F23 (repo 6374439) a cancelled MISS was not drained: with four triples and a caller that stops after one,
   the forwarded lookup was left blocked for ever (flag of the pre-fix step function) - with storage/memory it kept the
   graph's read lock and later writes blocked *)
Theorem C19_cancelled_miss_leaks_refuted :
  exists (init : list N) (k : nat),
    snd (handle_step_c_f23 (list N) N twreq tquery N N (ckey N) cq_is_exist key_v1 (ckey_eqb N.eqb) tiny_step 7%N
                           init (fresh 0%N) (CCancel (t_list 0 0) k)) = true.
Proof. exists [1;2;3;4]%N, 1. vm_compute. reflexivity. Qed.
Print Assumptions C19_cancelled_miss_leaks_refuted.

(* the cancelled lookup and the same lookup afterwards, on the model: prefix + error, then the complete answer *)
Example C19_cancelled_then_again_example :
  memo_run_c (list N) N twreq tquery N N (ckey N) cq_is_exist key_v1 (ckey_eqb N.eqb) tiny_step 7%N
             (mkM [1;2]%N [fresh 0%N])
             [CDo 0 (CCancel (t_list 0 0) 1); CDo 0 (CPlain (rd_list 0 0)); CDo 0 (CCancel (t_list 0 0) 1)]
  = (mkM [1;2]%N [store_list N N (ckey N) (fresh 0%N) (key_v1 (t_list 0 0)) [1;2]%N],
     [AList [1%N] (Some 7%N); AList [1;2]%N None; AList [1%N] None]).
Proof. vm_compute. reflexivity. Qed.

(* ------------------------------------------------------------------------------------------------ several handles, reads only *)
Theorem C19_read_only_any_handles :
  forall (istate gid wreq query elem err K : Type)
         (is_exist : query -> bool) (key : query -> K) (K_eqb : K -> K -> bool)
         (inner_step : istate -> gid -> @req wreq query -> istate * @answer elem err)
         (D : query -> bool),
    (forall a b, K_eqb a b = true <-> a = b) ->
    (forall s g q, fst (inner_step s g (Read q)) = s) ->
    (forall s g q1 q2, D q1 = true -> D q2 = true -> key q1 = key q2 -> is_exist q1 = is_exist q2 ->
                       snd (inner_step s g (Read q1)) = snd (inner_step s g (Read q2))) ->
    forall (s : istate) (ops : list (@hop gid wreq query)),
      Forall (fun o => match o with HDo _ (Write _) => False | _ => True end) ops ->
      Forall (fun o => match o with HDo _ (Read q) => D q = true | _ => True end) ops ->
      snd (memo_run istate gid wreq query elem err K is_exist key K_eqb inner_step (init_m s) ops)
      = snd (ref_run istate gid wreq query elem err inner_step (init_r s) ops).
Proof.
  intros istate gid wreq query elem err K is_exist key K_eqb inner_step D HK Hp Hk s ops H1 H2.
  pose proof (reads_only_run istate gid wreq query elem err K is_exist key K_eqb HK inner_step D Hp Hk ops s []
                (fun h Hin => match Hin with end) H1 H2) as R.
  unfold init_m, init_r. cbn [map] in R.
  destruct (memo_run istate gid wreq query elem err K is_exist key K_eqb inner_step (mkM s []) ops).
  destruct (ref_run istate gid wreq query elem err inner_step (mkR s []) ops).
  exact (proj1 R).
Qed.
Print Assumptions C19_read_only_any_handles.

(* any number of handles, at most one per graph, reads and writes in any order: needs the wrapped store's graphs to
   be independent (a write to one graph changes no lookup on another).  So the second-handle defect below needs two
   handles OF THE SAME GRAPH. *)
Theorem C19_one_handle_per_graph :
  forall (istate gid wreq query elem err K : Type)
         (is_exist : query -> bool) (key : query -> K) (K_eqb : K -> K -> bool)
         (inner_step : istate -> gid -> @req wreq query -> istate * @answer elem err)
         (D : query -> bool),
    (forall a b, K_eqb a b = true <-> a = b) ->
    (forall s g q, fst (inner_step s g (Read q)) = s) ->
    (forall s g q1 q2, D q1 = true -> D q2 = true -> key q1 = key q2 -> is_exist q1 = is_exist q2 ->
                       snd (inner_step s g (Read q1)) = snd (inner_step s g (Read q2))) ->
    (forall s g w g' q, g <> g' -> snd (inner_step (fst (inner_step s g (Write w))) g' (Read q))
                                   = snd (inner_step s g' (Read q))) ->
    forall (s : istate) (ops : list (@hop gid wreq query)),
      NoDup (opens gid wreq query ops) ->
      Forall (fun o => match o with HDo _ (Read q) => D q = true | _ => True end) ops ->
      snd (memo_run istate gid wreq query elem err K is_exist key K_eqb inner_step (init_m s) ops)
      = snd (ref_run istate gid wreq query elem err inner_step (init_r s) ops).
Proof.
  intros istate gid wreq query elem err K is_exist key K_eqb inner_step D HK Hp Hk Hf s ops H1 H2.
  pose proof (distinct_graphs_run istate gid wreq query elem err K is_exist key K_eqb HK inner_step D Hp Hk Hf ops s []
                (fun h Hin => match Hin with end) H1 H2) as R.
  unfold init_m, init_r. cbn [map] in R.
  destruct (memo_run istate gid wreq query elem err K is_exist key K_eqb inner_step (mkM s []) ops).
  destruct (ref_run istate gid wreq query elem err inner_step (mkR s []) ops).
  exact (proj1 R).
Qed.
Print Assumptions C19_one_handle_per_graph.

(* ------------------------------------------------------------------------------------------------ interleavings *)
(* Small-step model (Memo.step): threads share ONE handle; a schedule is any sequence of thread numbers; Memo.run_log
   with excl = true accepts exactly the schedules in which a write starts only when all other threads are idle and a
   read starts only when no thread is inside a write.  For every such schedule, from every initial state: *)
Theorem C19_no_overlap_answers_current :
  forall (istate gid wreq query elem err K : Type)
         (is_exist : query -> bool) (key : query -> K) (K_eqb : K -> K -> bool)
         (inner_step : istate -> gid -> @req wreq query -> istate * @answer elem err)
         (D : query -> bool),
    (forall a b, K_eqb a b = true <-> a = b) ->
    (forall s g q, fst (inner_step s g (Read q)) = s) ->
    (forall s g q1 q2, D q1 = true -> D q2 = true -> key q1 = key q2 -> is_exist q1 = is_exist q2 ->
                       snd (inner_step s g (Read q1)) = snd (inner_step s g (Read q2))) ->
    forall (s : istate) (g : gid) (progs : list (list (@req wreq query))) (sched : list nat) stf lg,
      (forall p q, In p progs -> In (Read q) p -> D q = true) ->
      run_log istate gid wreq query elem err K is_exist key K_eqb inner_step true
              (mkG s [fresh g] (map (mk_thread 0) progs)) sched = Some (stf, lg) ->
      (* every completed request returned what the wrapped store answers in the state of that moment *)
      forall i rq a ref, In (i, rq, a, ref) lg -> a = ref.
Proof.
  intros istate gid wreq query elem err K is_exist key K_eqb inner_step D HK Hp Hk s g progs sched stf lg HD HR i rq a ref Hin.
  pose proof (Inv_init istate gid wreq query elem err K is_exist key K_eqb inner_step D s g progs HD) as HI.
  destruct (excl_answers_current istate gid wreq query elem err K is_exist key K_eqb HK inner_step D Hp Hk
              sched g _ stf lg HI HR) as [_ H].
  exact (H (i, rq, a, ref) Hin).
Qed.
Print Assumptions C19_no_overlap_answers_current.

Theorem C19_no_overlap_linearizable :
  forall (istate gid wreq query elem err K : Type)
         (is_exist : query -> bool) (key : query -> K) (K_eqb : K -> K -> bool)
         (inner_step : istate -> gid -> @req wreq query -> istate * @answer elem err)
         (D : query -> bool),
    (forall a b, K_eqb a b = true <-> a = b) ->
    (forall s g q, fst (inner_step s g (Read q)) = s) ->
    (forall s g q1 q2, D q1 = true -> D q2 = true -> key q1 = key q2 -> is_exist q1 = is_exist q2 ->
                       snd (inner_step s g (Read q1)) = snd (inner_step s g (Read q2))) ->
    forall (s : istate) (g : gid) (progs : list (list (@req wreq query))) (sched : list nat) stf lg,
      (forall p q, In p progs -> In (Read q) p -> D q = true) ->
      run_log istate gid wreq query elem err K is_exist key K_eqb inner_step true
              (mkG s [fresh g] (map (mk_thread 0) progs)) sched = Some (stf, lg) ->
      (* the run is the sequential run of the WRAPPED STORE ALONE on the requests in completion order *)
      ref_run istate gid wreq query elem err inner_step (mkR s [g])
              (map (fun e : nat * @req wreq query * @answer elem err * @answer elem err => HDo 0 (snd (fst (fst e)))) lg)
      = (mkR (g_inner stf) [g], map (fun e : nat * @req wreq query * @answer elem err * @answer elem err => snd (fst e)) lg).
Proof.
  intros istate gid wreq query elem err K is_exist key K_eqb inner_step D HK Hp Hk s g progs sched stf lg HD HR.
  pose proof (Inv_init istate gid wreq query elem err K is_exist key K_eqb inner_step D s g progs HD) as HI.
  exact (excl_linearizable istate gid wreq query elem err K is_exist key K_eqb HK inner_step D Hp Hk
           sched g _ stf lg HI HR).
Qed.
Print Assumptions C19_no_overlap_linearizable.

(* the hypotheses of the theorems above are satisfiable: the tiny wrapped store (numbered triples, paging) has pure
   reads; and a restricted schedule with overlapping READS exists *)
Example C19_hypotheses_example :
  (forall s g q, fst (tiny_step s g (Read q)) = s) /\
  exists stf lg,
    tlog key_v1 true (tstate [1%N] 1 [(0, [wr_add [2%N]]); (0, [rd_list 0 0; rd_list 0 0]); (0, [rd_list 0 0])])
         [1; 2; 1; 2; 2; 1; 0; 0; 1; 1; 1] = Some (stf, lg) /\ length lg = 4.
Proof.
  split; [exact tiny_reads_pure|].
  eexists. eexists. split; [vm_compute; reflexivity|reflexivity].
Qed.

(* ------------------------------------------------------------------------------------------------ refutations *)
(* pre-F16 key: three pages of a three-element listing through one handle all come back as page 0 *)
Theorem C19_offset_refuted :
  exists (init : list N) (rs : list (@req twreq tquery)),
    snd (tm_run key_v0 (init_m init) (HOpen 0%N :: map (HDo 0) rs))
    <> snd (tr_run (init_r init) (HOpen 0%N :: map (HDo 0) rs)).
Proof.
  exists [1;2;3]%N, [rd_list 1 0; rd_list 1 1; rd_list 1 2]. vm_compute. discriminate.
Qed.
Print Assumptions C19_offset_refuted.

(* ... precisely: the memoizer answers [1],[1],[1] where the wrapped store answers [1],[2],[3] *)
Example C19_offset_refuted_example :
  snd (tm_run key_v0 (init_m [1;2;3]%N) (HOpen 0%N :: map (HDo 0) [rd_list 1 0; rd_list 1 1; rd_list 1 2]))
  = [AAck None; AList [1%N] None; AList [1%N] None; AList [1%N] None] /\
  snd (tr_run (init_r [1;2;3]%N) (HOpen 0%N :: map (HDo 0) [rd_list 1 0; rd_list 1 1; rd_list 1 2]))
  = [AAck None; AList [1%N] None; AList [2%N] None; AList [3%N] None].
Proof. vm_compute. split; reflexivity. Qed.

(* a second handle of the same graph is not invalidated by a write through the first (whatever the key) *)
Theorem C19_second_handle_refuted :
  exists (init : list N) (ops : list (@hop N twreq tquery)),
    snd (tm_run key_v1 (init_m init) ops) <> snd (tr_run (init_r init) ops) /\
    snd (tm_run key_v0 (init_m init) ops) <> snd (tr_run (init_r init) ops).
Proof.
  exists [1%N], [HOpen 0%N; HOpen 0%N; HDo 1 (rd_list 0 0); HDo 0 (wr_add [2%N]); HDo 1 (rd_list 0 0)].
  split; vm_compute; discriminate.
Qed.
Print Assumptions C19_second_handle_refuted.

(* one handle, one writer, one reader: the reader runs a whole lookup between the writer's cache clear and its
   forwarded write; the entry it stores survives, and its next lookup - started AFTER AddTriples has returned
   (log order) - is served the old listing [1] while the wrapped store holds [1;2] *)
Theorem C19_stale_after_write_refuted :
  exists stf,
    tlog key_v1 false (tstate [1%N] 1 [(0, [wr_add [2%N]]); (0, [rd_list 0 0; rd_list 0 0])]) [0; 1; 1; 1; 0; 1]
    = Some (stf, [ (1, rd_list 0 0, AList [1%N] None, AList [1%N] None);
                   (0, wr_add [2%N], AAck None, AAck None);
                   (1, rd_list 0 0, AList [1%N] None, AList [1;2]%N None) ]).
Proof. eexists. vm_compute. reflexivity. Qed.
Print Assumptions C19_stale_after_write_refuted.

(* the same staleness without the reader ever running between clear and write: its forwarded read happens before
   the clear, its cache store after it *)
Theorem C19_late_store_refuted :
  exists stf,
    tlog key_v1 false (tstate [1%N] 1 [(0, [wr_add [2%N]]); (0, [rd_list 0 0; rd_list 0 0])]) [1; 1; 0; 0; 1; 1]
    = Some (stf, [ (0, wr_add [2%N], AAck None, AAck None);
                   (1, rd_list 0 0, AList [1%N] None, AList [1;2]%N None);
                   (1, rd_list 0 0, AList [1%N] None, AList [1;2]%N None) ]).
Proof. eexists. vm_compute. reflexivity. Qed.
Print Assumptions C19_late_store_refuted.

(* both schedules are rejected by the no-overlap discipline (so they do not contradict the positive theorems) *)
Example C19_refuting_schedules_overlap_example :
  tlog key_v1 true (tstate [1%N] 1 [(0, [wr_add [2%N]]); (0, [rd_list 0 0; rd_list 0 0])]) [0; 1; 1; 1; 0; 1] = None /\
  tlog key_v1 true (tstate [1%N] 1 [(0, [wr_add [2%N]]); (0, [rd_list 0 0; rd_list 0 0])]) [1; 1; 0; 0; 1; 1] = None.
Proof. vm_compute. split; reflexivity. Qed.

(* BEFORE fix F22 (repo 441b3d7): a wrapped store that fails after delivering one element - the truncated list was cached
   and the next lookup returned it WITHOUT an error although the wrapped store (healthy again) would deliver [1;2;3] *)
Theorem C19_truncated_cached_refuted :
  exists s h,
    fm_run_f22 ([1;2;3]%N, true) (fresh 0%N) [rd_list 0 0; rd_list 0 0]
    = (s, h, [AList [1%N] (Some 1%N); AList [1%N] None]) /\
    snd (flaky_step s 0%N (rd_list 0 0)) = AList [1;2;3]%N None.
Proof. eexists. eexists. vm_compute. split; reflexivity. Qed.
Print Assumptions C19_truncated_cached_refuted.

(* AFTER the fix the same history gets the error and then the complete answer *)
Example C19_truncated_not_cached_example :
  snd (fm_run (init_m ([1;2;3]%N, true)) [HOpen 0%N; HDo 0 (rd_list 0 0); HDo 0 (rd_list 0 0)])
  = [AAck None; AList [1%N] (Some 1%N); AList [1;2;3]%N None].
Proof. vm_compute. reflexivity. Qed.
