From Coq Require Import List NArith ZArith Bool.
Import ListNotations.
From BWMemo Require Import Memo Corr.
Open Scope N_scope.
Example C19_placeholder_example : True. Proof. exact I. Qed.
