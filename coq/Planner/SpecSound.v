(* The computable reference only returns solutions: every row of spec_solutions (patterns without OPTIONAL) satisfies the
   declarative is_solution. *)
From Coq Require Import List Bool ZArith.
Import ListNotations.
From BWPlanner Require Import Terms Rows Clause Store PatternSpec RowsProofs FetchProofs PlanProofs.

(* ---------- cell_equiv is an equivalence *)
Lemma t_equal_refl : forall a, t_equal a a = true.
Proof. intros. unfold t_equal. apply Z.eqb_refl. Qed.

Lemma t_equal_trans : forall a b c, t_equal a b = true -> t_equal b c = true -> t_equal a c = true.
Proof. unfold t_equal. intros a b c H1 H2. apply Z.eqb_eq in H1. apply Z.eqb_eq in H2. apply Z.eqb_eq. congruence. Qed.

Lemma pred_key_refl : forall p, pred_key_eqb p p = true.
Proof. intros p. unfold pred_key_eqb. rewrite str_eqb_refl. destruct (panchor p); [apply t_equal_refl|reflexivity]. Qed.

Lemma pred_key_trans : forall a b c, pred_key_eqb a b = true -> pred_key_eqb b c = true -> pred_key_eqb a c = true.
Proof.
  unfold pred_key_eqb. intros a b c H1 H2.
  apply andb_prop in H1. destruct H1 as [I1 A1]. apply andb_prop in H2. destruct H2 as [I2 A2].
  apply str_eqb_true in I1. apply str_eqb_true in I2. rewrite I1, I2, str_eqb_refl. cbn.
  destruct (panchor a), (panchor b), (panchor c); try discriminate; auto. eapply t_equal_trans; eauto.
Qed.

Lemma cell_equiv_refl : forall v, cell_equiv v v = true.
Proof.
  destruct v; cbn; auto.
  - apply str_eqb_refl.
  - apply node_eqb_true. reflexivity.
  - apply pred_key_refl.
  - apply lit_eqb_true. reflexivity.
  - apply t_equal_refl.
Qed.

Lemma cell_equiv_trans : forall a b c, cell_equiv a b = true -> cell_equiv b c = true -> cell_equiv a c = true.
Proof.
  intros a b c H1 H2. destruct a, b; cbn in H1; try discriminate; destruct c; cbn in H2; try discriminate; cbn; auto.
  - apply str_eqb_true in H1. apply str_eqb_true in H2. apply str_eqb_true. congruence.
  - apply node_eqb_true in H1. apply node_eqb_true in H2. apply node_eqb_true. congruence.
  - eapply pred_key_trans; eauto.
  - apply lit_eqb_true in H1. apply lit_eqb_true in H2. apply lit_eqb_true. congruence.
  - eapply t_equal_trans; eauto.
Qed.

(* ---------- spec_bind: every binder has its extraction, up to equivalence; earlier cells are kept *)
Lemma spec_bind_sound : forall bs t r0 r,
  spec_bind false bs t r0 = Some r ->
  (forall k x, In (k, x) bs -> exists v w, xspec x t = Some v /\ get r k = Some w /\ cell_equiv w v = true) /\
  sub_row r0 r.
Proof.
  intros bs t. induction bs as [|[k x] bs IH]; intros r0 r H.
  - cbn in H. inversion H; subst. split; [intros k x []|intros k v G; exact G].
  - cbn [spec_bind] in H. destruct (xspec x t) as [v|] eqn:Xv; [|discriminate].
    destruct (get r0 k) as [v0|] eqn:G.
    + destruct (cell_equiv v0 v) eqn:Ce; [|discriminate].
      destruct (IH _ _ H) as [Hb Hs]. split; [|exact Hs].
      intros k0 x0 [E|Hin]; [|apply Hb; exact Hin]. inversion E; subst.
      exists v, v0. split; [exact Xv|]. split; [apply Hs; exact G|exact Ce].
    + destruct (IH _ _ H) as [Hb Hs]. split.
      * intros k0 x0 [E|Hin]; [|apply Hb; exact Hin]. inversion E; subst.
        exists v, v. split; [exact Xv|]. split; [apply Hs; apply get_set_same|apply cell_equiv_refl].
      * intros k0 v1 G0. apply Hs. destruct (str_eq_dec k0 k) as [->|Hne]; [congruence|].
        rewrite get_set_other by exact Hne. exact G0.
Qed.

Lemma get_In : forall r k v, get r k = Some v -> In (k, v) r.
Proof.
  induction r as [|[k' v'] r IH]; intros k v H; cbn in H; [discriminate|].
  destruct (str_eqb k k') eqn:E.
  - apply str_eqb_true in E. subst. inversion H; subst. left. reflexivity.
  - right. apply IH. exact H.
Qed.

Lemma compat_equiv_get : forall mu r k w w',
  compat_equiv mu r = true -> get r k = Some w -> get mu k = Some w' -> cell_equiv w' w = true.
Proof.
  intros mu r k w w' Hc Hr Hm. unfold compat_equiv in Hc. rewrite forallb_forall in Hc.
  specialize (Hc (k, w) (get_In _ _ _ Hr)). cbn in Hc. rewrite Hm in Hc. exact Hc.
Qed.

(* ---------- clause_match is kept by extending the assignment *)
Lemma clause_match_sub : forall c glo t mu mu', sub_row mu mu' -> clause_match c glo t mu -> clause_match c glo t mu'.
Proof.
  intros c glo t mu mu' Hs [Hc Hb]. split; [exact Hc|].
  intros k x Hin. destruct (Hb k x Hin) as [v [w [A [B C]]]]. exists v, w. split; [exact A|]. split; [apply Hs; exact B|exact C].
Qed.

Lemma spec_row_match : forall c glo t mu r,
  c_opt c = false -> spec_row c glo t = Some r -> compat_equiv mu r = true ->
  clause_match c glo t (merge_rows mu r).
Proof.
  intros c glo t mu r Hopt Hr Hc. unfold spec_row in Hr. destruct (consts_ok c glo t) eqn:Ck; [|discriminate].
  rewrite Hopt in Hr. destruct (spec_bind_sound _ _ _ _ Hr) as [Hb _].
  split; [exact Ck|]. intros k x Hin. destruct (Hb k x Hin) as [v [w [A [B C]]]].
  rewrite get_merge. destruct (get mu k) as [w'|] eqn:G.
  - exists v, w'. split; [exact A|]. split; [reflexivity|].
    eapply cell_equiv_trans; [eapply compat_equiv_get; eauto|exact C].
  - exists v, w. split; [exact A|]. split; [exact B|exact C].
Qed.

Definition solves (done : list clause) (glo : lopts) (gs : list graph) (mu : row) : Prop :=
  forall c, In c done -> exists g t, In g gs /\ In t g /\ clause_match c glo t mu.

Lemma spec_step_solves : forall glo gs c done mus,
  c_opt c = false ->
  (forall mu, In mu mus -> solves done glo gs mu) ->
  forall mu', In mu' (spec_step glo gs c mus) -> solves (c :: done) glo gs mu'.
Proof.
  intros glo gs c done mus Hopt Hinv mu' H. unfold spec_step in H. rewrite Hopt in H.
  apply in_flat_map in H. destruct H as [mu [Hmu H]].
  assert (He : In mu' (spec_extend c glo gs mu)) by (destruct (spec_extend c glo gs mu); [destruct H|exact H]).
  clear H. unfold spec_extend in He.
  apply in_flat_map in He. destruct He as [g [Hg He]]. apply in_flat_map in He. destruct He as [t [Ht He]].
  destruct (spec_row c glo t) as [r|] eqn:Er; [|destruct He].
  destruct (row_bounds_ok c mu t && compat_equiv mu r) eqn:Ec0; [|destruct He]. destruct He as [<-|[]].
  apply andb_prop in Ec0. destruct Ec0 as [_ Ec].
  intros c0 [<-|Hin].
  - exists g, t. split; [exact Hg|]. split; [exact Ht|]. apply spec_row_match; assumption.
  - destruct (Hinv mu Hmu c0 Hin) as [g0 [t0 [A [B C]]]]. exists g0, t0. split; [exact A|]. split; [exact B|].
    eapply clause_match_sub; [apply sub_row_merge|exact C].
Qed.

Theorem spec_solutions_sound : forall glo gs cs mu,
  forallb (fun c => negb (c_opt c)) cs = true ->
  In mu (spec_solutions glo gs cs) -> is_solution cs glo gs mu.
Proof.
  intros glo gs cs mu Hno H. unfold spec_solutions in H.
  assert (G : forall cs done mus,
            forallb (fun c => negb (c_opt c)) cs = true ->
            (forall m, In m mus -> solves done glo gs m) ->
            forall m, In m (fold_left (fun mus c => spec_step glo gs c mus) cs mus) -> solves (rev cs ++ done) glo gs m).
  { clear. induction cs as [|c cs IH]; intros done mus Hno Hinv m Hm; cbn in *.
    - apply Hinv. exact Hm.
    - apply andb_prop in Hno. destruct Hno as [Hc Hcs]. apply negb_true_iff in Hc.
      rewrite <- app_assoc. cbn. apply (IH (c :: done) (spec_step glo gs c mus) Hcs); [|exact Hm].
      intros m0 Hm0. eapply spec_step_solves; eauto. }
  specialize (G cs [] [[]] Hno). rewrite app_nil_r in G.
  assert (S0 : forall m, In m [[]] -> solves [] glo gs m) by (intros m _ c []).
  intros c Hin. apply (G S0 mu H c). apply in_rev in Hin. exact Hin.
Qed.
