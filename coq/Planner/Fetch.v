(* bql/planner/data_access.go: updateTimeBounds, updateTimeBoundsForRow, shouldIgnoreTriple, tripleToRow, addTriples,
   simpleExist, simpleFetch (eight driver shapes). *)
From Coq Require Import List Bool.
Import ListNotations.
From BWPlanner Require Import Terms Rows Clause Store.

Definition update_time_bounds (lo : lopts) (c : clause) : lopts :=
  mkLopts
    (match cPLo c with
     | Some b => match lo_lower lo with
                 | None => Some b
                 | Some l => if t_after b l then Some b else Some l
                 end
     | None => lo_lower lo
     end)
    (match cPUp c with
     | Some b => match lo_upper lo with
                 | None => Some b
                 | Some u => if t_before b u then Some b else Some u
                 end
     | None => lo_upper lo
     end).

(* updateTimeBoundsForRow.  Unfixed: `v, ok := r[alias]`; a missing cell is dereferenced (nil pointer) and the upper bound
   is replaced when the row's value is AFTER it.  Fixed (F15): a missing cell leaves the bound alone, Before is used. *)
Definition bound_from_row (e : cfg) (r : row) (alias : str) (cur : option time) (upper : bool) : outcome (option time) :=
  if is_empty alias then Ok cur
  else match get r alias with
       | None => if fix15 e then Ok cur else Panic SiteBoundsRow
       | Some (CTime t) =>
           match cur with
           | None => Ok (Some t)
           | Some b =>
               let replace := if upper then (if fix15 e then t_before t b else t_after t b) else t_after t b in
               Ok (Some (if replace then t else b))
           end
       | Some _ => Err EBound
       end.

Definition update_time_bounds_for_row (e : cfg) (lo : lopts) (c : clause) (r : row) : outcome lopts :=
  let lo1 := update_time_bounds lo c in
  bind (bound_from_row e r (cPLoA c) (lo_lower lo1) false) (fun l =>
  bind (bound_from_row e r (cPUpA c) (lo_upper lo1) true) (fun u =>
  Ok (update_time_bounds (mkLopts l u) c))).

(* bounds test of shouldIgnoreTriple: ignore when lower.After(ta) or upper.Before(ta) *)
Definition outside (lo up : option time) (ta : time) : bool :=
  (match lo with Some l => t_after l ta | None => false end) ||
  (match up with Some u => t_before u ta | None => false end).

Definition ignore_pred (id : str) (temporal : bool) (ancb : str) (lo up : option time) (p : pred) : bool :=
  negb (str_eqb (pid p) id) ||
  (temporal && is_empty ancb &&
   match panchor p with
   | None => true
   | Some ta => outside lo up ta
   end).

Definition should_ignore (c : clause) (t : triple) : bool :=
  (if is_empty (cPID c) then false
   else ignore_pred (cPID c) (cPTemporal c) (cPAncB c) (cPLo c) (cPUp c) (tpred t))
  ||
  (if is_empty (cOID c) then false
   else match tobj t with
        | OPred p => ignore_pred (cOID c) (cOTemporal c) (cOAncB c) (cOLo c) (cOUp c) p
        | _ => false
        end).

Definition object_to_cell (o : obj) : cell :=
  match o with
  | ONode n => CNode n
  | OPred p => CPred p
  | OLit l => CLit l
  end.

(* result of one extraction *)
Inductive xres :=
| XVal (v : cell)        (* r[k] = v, then validBinding(k, v) *)
| XUnchecked (v : cell)  (* r[k] = v without the validBinding test (OIDAlias on a node object) *)
| XSkip                  (* skippableError: the triple yields no row *)
| XFail.                 (* plain error: addTriples returns it and the whole query fails *)

Definition nullable (opt : bool) : xres := if opt then XVal CNull else XSkip.

Definition extract (e : cfg) (opt : bool) (x : extractor) (t : triple) : xres :=
  match x with
  | XSubj => XVal (CNode (tsub t))
  | XSType => XVal (CStr (ntype (tsub t)))
  | XSId => XVal (CStr (nid (tsub t)))
  | XPred => XVal (CPred (tpred t))
  | XPId => XVal (CStr (pid (tpred t)))
  | XPAnchor => match panchor (tpred t) with
                | Some ta => XVal (CTime ta)
                | None => nullable opt
                end
  | XObj => XVal (object_to_cell (tobj t))
  | XOType => match tobj t with
              | ONode n => XVal (CStr (ntype n))
              | _ => nullable opt
              end
  | XOId => match tobj t with
            | ONode n => XUnchecked (CStr (nid n))   (* pinned by TestPlannerQuery (`?gc ID ?gc`): stays as it is *)
            | OPred p => XVal (CStr (pid p))
            | OLit _ => if fixoid e then nullable opt else XFail
            end
  | XOAnchor => match tobj t with
                | OPred p => match panchor p with
                             | Some ta => XVal (CTime ta)
                             | None => nullable opt
                             end
                | _ => nullable opt
                end
  end.

(* tripleToRow: r is the row being built, bnd the map of the validBinding closure *)
Fixpoint ttr (e : cfg) (opt : bool) (bs : list (str * extractor)) (t : triple) (r bnd : row) : outcome (option row) :=
  match bs with
  | [] => Ok (Some r)
  | (k, x) :: rest =>
      match extract e opt x t with
      | XFail => Err EObjId
      | XSkip => Ok None
      | XUnchecked v => ttr e opt rest t (set r k v) bnd
      | XVal v =>
          match get bnd k with
          | None => ttr e opt rest t (set r k v) (set bnd k v)
          | Some v0 => if same_value e v0 v then ttr e opt rest t (set r k v) (set bnd k v) else Ok None
          end
      end
  end.

Definition triple_to_row (e : cfg) (c : clause) (t : triple) : outcome (option row) :=
  ttr e (c_opt c) (binders c) t [] [].

(* addTriples: filter, convert, AddRow (which drops rows without cells) *)
Fixpoint add_triples (e : cfg) (c : clause) (ts : list triple) (rows : list row) : outcome (list row) :=
  match ts with
  | [] => Ok rows
  | t :: rest =>
      if should_ignore c t then add_triples e c rest rows
      else match triple_to_row e c t with
           | Ok (Some r) => add_triples e c rest (add_row rows r)
           | Ok None => add_triples e c rest rows
           | Err x => Err x
           | Panic s => Panic s
           end
  end.

(* the per-graph loop shared by simpleExist and simpleFetch *)
Fixpoint over_graphs (gs : list graph) (f : graph -> list row -> outcome (list row)) (rows : list row) : outcome (list row) :=
  match gs with
  | [] => Ok rows
  | g :: rest => bind (f g rows) (fun rows' => over_graphs rest f rows')
  end.

(* outsideTimeBounds: a temporal predicate whose anchor lies outside [lower, upper] *)
Definition outside_bounds (lo : lopts) (p : pred) : bool :=
  match panchor p with
  | None => false
  | Some ta => (match lo_lower lo with Some l => t_before ta l | None => false end) ||
               (match lo_upper lo with Some u => t_after ta u | None => false end)
  end.

(* simpleExist: unfeasible?, rows.  After the repair processClause hands it no graphs when the clause's predicate lies
   outside the statement's time bounds. *)
Definition simple_exist (e : cfg) (gs0 : list graph) (c : clause) (t : triple) (lo : lopts) : outcome (bool * list row) :=
  let gs := if fixsb e && outside_bounds lo (tpred t) then [] else gs0 in
  bind (over_graphs gs (fun g rows => if g_exist g t then add_triples e c [t] rows else Ok rows) [])
       (fun rows => Ok (negb (existsb (fun g => g_exist g t) gs), rows)).

Definition simple_fetch (e : cfg) (gs : list graph) (c : clause) (lo0 : lopts) : outcome (list row) :=
  let lo := update_time_bounds lo0 c in
  match cS c, cP c, cO c with
  | Some s, Some p, Some o =>
      let t := mkTriple s p o in
      if fixsb e && outside_bounds lo p then Ok []
      else over_graphs gs (fun g rows => if g_exist g t then add_triples e c [t] rows else Ok rows) []
  | Some s, Some p, None =>
      over_graphs gs (fun g rows => add_triples e c (map (fun o => mkTriple s p o) (g_objects e g s p lo)) rows) []
  | Some s, None, Some o =>
      over_graphs gs (fun g rows => add_triples e c (map (fun p => mkTriple s p o) (g_preds_so e g s o lo)) rows) []
  | None, Some p, Some o =>
      over_graphs gs (fun g rows => add_triples e c (map (fun s => mkTriple s p o) (g_subjects e g p o lo)) rows) []
  | Some s, None, None =>
      over_graphs gs (fun g rows => add_triples e c (g_triples_s e g s lo) rows) []
  | None, Some p, None =>
      over_graphs gs (fun g rows => add_triples e c (g_triples_p e g p lo) rows) []
  | None, None, Some o =>
      over_graphs gs (fun g rows => add_triples e c (g_triples_o e g o lo) rows) []
  | None, None, None =>
      over_graphs gs (fun g rows => add_triples e c (g_triples e g lo) rows) []
  end.
