(* C03 — SELECT returns exactly the solutions of its graph pattern (conjunctive fragment).
   Model: coq/Planner/{Terms,Rows,Clause,Store,Fetch,Plan}.v follow bql/planner/{planner,data_access}.go and
   bql/table/table.go; `current ks strlit` is the tree with this family's repairs (F9 ecd016d, F14 b974631, F15 cd0ad98,
   Foid 80d28a9); `original` the tree before them.  Specification: PatternSpec.v.
   Layered theorems (full statements over all clauses / triples / graphs) and their composition over whole patterns on
   the domain D3 (C03_select_is_solutions_partial, C03_rows_are_solutions_partial, C03_no_solution_missing_partial). *)
From Coq Require Import List ZArith NArith Bool.
Import ListNotations.
From BWPlanner Require Import Terms Rows Clause Store Fetch Plan PatternSpec Current Domain Corr Witnesses RowsProofs FetchProofs PlanProofs SpecSound Equiv Uniform Compose Compose2 Compose3.

(* ---- layer 1 (tripleToRow + shouldIgnoreTriple = the declarative reading of one clause on one triple).
   xval opt x t: the part of t that extractor x denotes (NULL inside an OPTIONAL clause when it does not apply).
   Domain: binders_checked = the clause has no ID alias on a node-valued object (that cell is written without the
   validBinding test; see C03_oid_unchecked_refuted). *)
Theorem C03_clause_row_sound_partial :
  forall e c t r, fixoid e = true -> binders_checked (binders c) t ->
    row_of e c t = Ok (Some r) ->
    should_ignore c t = false /\
    (forall k x, In (k, x) (binders c) -> exists v w, xval (c_opt c) x t = Some v /\ get r k = Some w /\ cell_equiv w v = true) /\
    (forall k, get r k <> None -> In k (map fst (binders c))).
Proof. exact clause_row_sound. Qed.
Print Assumptions C03_clause_row_sound_partial.

(* ... and every assignment mu that gives each binding of the clause (a value equivalent to) the corresponding part of the
   triple extends the row the planner builds: no match is lost, one value per binding (values are compared up to the zone in
   which an instant is written, the way joins compare them: repair F25) *)
Theorem C03_clause_row_complete_partial :
  forall e c t mu, fixoid e = true -> fixzone e = true -> binders_checked (binders c) t ->
    should_ignore c t = false ->
    (forall k x, In (k, x) (binders c) -> exists v w, xval (c_opt c) x t = Some v /\ get mu k = Some w /\ cell_equiv w v = true) ->
    exists r, row_of e c t = Ok (Some r) /\ row_matches c t r /\ sub_equiv r mu.
Proof. exact clause_row_complete. Qed.
Print Assumptions C03_clause_row_complete_partial.

(* shouldIgnoreTriple = the id / kind / interval part of the clause, for all clauses and triples (full) *)
Theorem C03_should_ignore_spec :
  forall c t,
    should_ignore c t = false <->
    (id_part_ok (cPID c) (cPTemporal c) (cPAncB c) (cPLo c) (cPUp c) (tpred t) /\
     (forall p, tobj t = OPred p -> id_part_ok (cOID c) (cOTemporal c) (cOAncB c) (cOLo c) (cOUp c) p)).
Proof. exact should_ignore_false. Qed.
Print Assumptions C03_should_ignore_spec.

(* extractions: ID / TYPE / AT / AS cells are the parts of the matched triple; an extraction that does not apply yields no
   row in a non-optional clause (xval false = xspec) *)
Theorem C03_extractions :
  forall e x t, fixoid e = true -> oid_checked x t ->
    extract e false x t = match xspec x t with Some v => XVal v | None => XSkip end.
Proof. exact extract_xspec. Qed.
Print Assumptions C03_extractions.

(* ---- layer 2 (simpleFetch, all eight driver shapes): the rows are, graph by graph, one row per stored triple whose fixed
   components match (fixed_match: the lookup's specification), computed from the triple the driver rebuilds.
   Domain: clauses without an ID alias on the object. *)
Theorem C03_fetch_spec_partial :
  forall e gs c lo0, fixoid e = true -> cOIdA c = [] ->
    simple_fetch e gs c lo0 =
    Ok (match cS c, cP c, cO c with
        | Some s, Some p, Some o =>
            if fixsb e && outside_bounds (update_time_bounds lo0 c) p then [] else flat_map (fetch_rows_spo e c (mkTriple s p o)) gs
        | _, _, _ => flat_map (fetch_rows e c (update_time_bounds lo0 c)) gs
        end).
Proof. intros. apply fetch_spec; assumption. Qed.
Print Assumptions C03_fetch_spec_partial.

(* a fetch never fails and never panics on that domain *)
Theorem C03_row_total_partial :
  forall e c t, fixoid e = true -> binders_checked (binders c) t -> exists o, row_of e c t = Ok o.
Proof. exact row_of_total. Qed.
Print Assumptions C03_row_total_partial.

(* ---- the oracle: the computable reference used by the check (nested-loop join, PatternSpec.spec_solutions) only returns
   solutions in the declarative sense - every clause is matched by a triple of a listed graph under the row's assignment,
   constants, kinds, clause and global time bounds included (patterns without OPTIONAL) *)
Theorem C03_reference_sound :
  forall glo gs cs mu, forallb (fun c => negb (c_opt c)) cs = true ->
    In mu (spec_solutions glo gs cs) -> is_solution cs glo gs mu.
Proof. exact spec_solutions_sound. Qed.
Print Assumptions C03_reference_sound.

(* the domains are inhabited: the second clause of the join witness has no object ID alias, and on it the fetch really
   produces a row *)
Example C03_domain_example :
  exists c gs, In c (q_clauses (w_join_kind (current true false))) /\ gs = q_graphs (w_join_kind (current true false)) /\
    cOIdA c = [] /\ (forall t, binders_checked (binders c) t) /\
    exists r rows, simple_fetch (current true false) gs c (mkLopts None None) = Ok (r :: rows).
Proof.
  eexists (nth 0 (q_clauses (w_join_kind (current true false))) _), _.
  split; [left; reflexivity|]. split; [reflexivity|]. split; [reflexivity|].
  split; [intros t; apply no_oid_alias_checked; reflexivity|].
  vm_compute. eexists _, _. reflexivity.
  Unshelve. exact (nth 0 (q_clauses (w_kind (current true false))) (mkClause false None [] [] [] [] None [] [] [] [] [] [] None None [] [] false None [] [] [] [] [] [] [] None None [] [] false)).
Qed.

(* ---- layer 3: the composition.  D3 (boolean; Compose.d3_clause, Compose3.D3):
     environment: the store compares predicate kinds (F6), literal.Parse rejects unknown types (F3), repairs F9, F14, Foid, F24, F25 in;
     graphs hold no two triples with the same key (as the store guarantees);
     at least one clause, and every clause: not OPTIONAL, not fully specified, no interval `"id"@[lb,ub]` / bound alias, no ID alias
       on the object, a predicate / object id only together with an anchor binding, pairwise different binding names inside the
       clause, at least one binding;
     output bindings pairwise different.
   Cells are compared by `cequiv` = equal up to the zone in which an instant is written (orow_equiv lifts it to output rows). *)
Theorem C03_select_is_solutions_partial :
  forall e gs glo cs outs projs, D3 e gs cs outs = true ->
    exists bs rows, execute e gs glo cs outs projs = Ok (bs, rows) /\
                    Forall2 orow_equiv rows (spec_select glo gs cs outs projs).
Proof. exact execute_is_spec_select. Qed.
Print Assumptions C03_select_is_solutions_partial.

(* the same as multisets (the order of rows is not part of the property) *)
Theorem C03_select_multiset_partial :
  forall e gs glo cs outs projs, D3 e gs cs outs = true ->
    exists bs rows, execute e gs glo cs outs projs = Ok (bs, rows) /\
                    exists rows', Permutation.Permutation (spec_select glo gs cs outs projs) rows' /\ Forall2 orow_equiv rows rows'.
Proof. exact execute_multiset. Qed.
Print Assumptions C03_select_multiset_partial.

(* against the DECLARATIVE statement, before projection: every row the planner builds is a solution of the pattern (every
   clause is matched by a stored triple of a listed graph under the row's values: constants, kinds, time bounds, one value per
   binding, extractions = parts of the matched triple), and no solution is missing: every solution extends some returned row *)
Theorem C03_rows_are_solutions_partial :
  forall e gs glo cs outs, D3 e gs cs outs = true ->
    exists t, process_pattern e gs glo cs empty_table = Ok t /\
      (forall r, In r (trows t) -> is_solution cs glo gs r) /\
      (forall mu, is_solution cs glo gs mu -> exists r, In r (trows t) /\ sub_equiv r mu).
Proof. exact pattern_sound_complete. Qed.
Print Assumptions C03_rows_are_solutions_partial.

(* the oracle is complete as well as sound (any pattern without OPTIONAL clauses and without windows given by bindings
   `"id"@[?lo,?hi]`, whose bounds are read from the row built so far and are not part of the declarative reading) *)
Theorem C03_reference_complete :
  forall glo gs cs mu, forallb (fun c => negb (c_opt c) && no_window c) cs = true -> is_solution cs glo gs mu ->
    exists r, In r (spec_solutions glo gs cs) /\ sub_equiv r mu.
Proof. exact spec_solutions_complete. Qed.
Print Assumptions C03_reference_complete.

(* the step behind the composition, for ONE row and ALL graphs / clauses in the fragment: addSpecifiedData returns the
   specification's extensions of the row *)
Theorem C03_add_specified_data_spec :
  forall e gs glo c mu mu',
    d3_clause c = true -> ks e = true -> strlit_invalid e = false -> fix14 e = true -> fixoid e = true -> fixsb e = true ->
    fixzone e = true -> forallb graph_nodup gs = true -> get mu [] = None -> row_equiv mu mu' ->
    exists rows, add_specified_data e gs glo c mu = Ok rows /\ Forall2 row_equiv rows (spec_extend c glo gs mu').
Proof.
  intros e gs glo c mu mu' D Hks Hsl H14 Hoid Hsb Hz Hg Hn Hm. destruct (d3_clause_d3c c D) as [Dc Hopt].
  destruct (asd_spec e gs glo c mu mu' Dc Hks Hsl H14 Hoid Hsb Hz Hg Hn Hm) as [rows [E F]]. exists rows. split; [exact E|].
  unfold spec_one in F. rewrite Hopt in F. destruct (spec_extend c glo gs mu'); exact F.
Qed.
Print Assumptions C03_add_specified_data_spec.

(* D3 is inhabited by a non-trivial case: a two-clause join with an anchor binding and a TYPE extraction over a graph with a
   literal that must not join; the planner returns the one solution *)
Example C03_D3_example :
  let q := w_d3_example (current true false) in
  D3 (q_cfg q) (q_graphs q) (q_clauses q) (q_outs q) = true /\
  length (q_clauses q) = 2%nat /\ exists bs row, run_model q = Ok (bs, [row]).
Proof. vm_compute. split; [reflexivity|]. split; [reflexivity|]. eexists _, _. reflexivity. Qed.

(* ... and by a clause that uses a name twice (predicate binding and object binding: the predicate-valued object must be the
   predicate, here the same instant written in two zones): inside D3 since repair F25 *)
Example C03_D3_repeated_name_example :
  let q := w_zone_repeated_binding (current true false) in
  D3 (q_cfg q) (q_graphs q) (q_clauses q) (q_outs q) = true /\ exists bs row, run_model q = Ok (bs, [row]).
Proof. vm_compute. split; [reflexivity|]. eexists _, _. reflexivity. Qed.

(* ---- refutations: the full statement "the rows are exactly the solutions, for every conjunctive pattern" is false of the
   faithful model; each witness is replayed on the real planner by checks/c03.py (corpus/C03/witnesses.jsonl). *)

(* an interval clause `"t"@[lb,ub]` without anchor binding: two rows for ONE assignment of the bindings *)
Theorem C03_bound_dup_refuted :
  exists q outs x, q_cfg q = current true false /\ length (q_graphs q) = 1%nat /\ run_model q = Ok (outs, [x; x]).
Proof. exists (w_interval_dup (current true false)). vm_compute. eexists _, _. repeat split. Qed.
Print Assumptions C03_bound_dup_refuted.

(* an interval clause without any binding is dropped as "no rows": a pattern whose two clauses both match returns nothing *)
Theorem C03_interval_nobinding_refuted :
  exists q outs, q_cfg q = current true false /\ run_model q = Ok (outs, []) /\ run_spec q <> [].
Proof. exists (w_interval_nobinding (current true false)). vm_compute. eexists. repeat split; discriminate. Qed.
Print Assumptions C03_interval_nobinding_refuted.

(* `?s "p"@[] ?o ID ?s`: the ID cell overwrites the subject cell without the validBinding test: a row that is no solution
   (pinned by TestPlannerQuery's `?gc ID ?gc`, therefore a finding and not a repair) *)
Theorem C03_oid_unchecked_refuted :
  exists q outs row, q_cfg q = current true false /\ run_model q = Ok (outs, [row]) /\ run_spec q = [].
Proof. exists (w_oid_node_unchecked (current true false)). vm_compute. eexists _, _. repeat split. Qed.
Print Assumptions C03_oid_unchecked_refuted.

(* ---- the defects that were repaired: false of the ORIGINAL tree's model (witnesses replayed on the real planner before the
   repair, see evidence history), true of the current one on the same witness *)
Theorem C03_join_kind_original_refuted :
  exists q, (exists outs row, run_model (q (original false true)) = Ok (outs, [row]) /\ run_spec (q (original false true)) = []) /\
            (exists outs, run_model (q (current true false)) = Ok (outs, [])).
Proof. exists w_join_kind. vm_compute. split; [eexists _, _; split; reflexivity|eexists; reflexivity]. Qed.
Print Assumptions C03_join_kind_original_refuted.

Theorem C03_kind_original_refuted :
  exists q, (exists outs row, run_model (q (original false true)) = Ok (outs, [row]) /\ run_spec (q (original false true)) = []) /\
            (exists outs, run_model (q (current true false)) = Ok (outs, [])).
Proof. exists w_kind. vm_compute. split; [eexists _, _; split; reflexivity|eexists; reflexivity]. Qed.
Print Assumptions C03_kind_original_refuted.

Theorem C03_bound_alias_nil_original_refuted :
  exists q, run_model (q (original false true)) = Panic SiteBoundsRow /\
            (exists res, run_model (q (current true false)) = Ok res).
Proof. exists w_bound_alias_nil. vm_compute. split; [reflexivity|eexists; reflexivity]. Qed.
Print Assumptions C03_bound_alias_nil_original_refuted.

Theorem C03_oid_literal_original_refuted :
  exists q, run_model (q (original false true)) = Err EObjId /\
            (exists outs row, run_model (q (current true false)) = Ok (outs, [row]) /\ length (run_spec (q (current true false))) = 1%nat).
Proof. exists w_oid_literal_error. vm_compute. split; [reflexivity|eexists _, _; split; reflexivity]. Qed.
Print Assumptions C03_oid_literal_original_refuted.

Theorem C03_string_object_original_refuted :
  exists q, run_model (q (original false true)) = Panic SiteStrObject.
Proof. exists w_string_cell_object. vm_compute. reflexivity. Qed.
Print Assumptions C03_string_object_original_refuted.

(* repaired (eb88d1d): a fully specified clause with a temporal predicate was an existence test that ignored the global BEFORE /
   AFTER / BETWEEN (found by the driver-shape x global-bound generator group) *)
Theorem C03_spec3_global_bounds_original_refuted :
  exists q, (exists outs row, run_model (q (original true false)) = Ok (outs, [row]) /\ run_spec (q (original true false)) = []) /\
            (exists outs, run_model (q (current true false)) = Ok (outs, [])).
Proof. exists w_spec3_global_bounds. vm_compute. split; [eexists _, _; split; reflexivity|eexists; reflexivity]. Qed.
Print Assumptions C03_spec3_global_bounds_original_refuted.

(* repaired (87509de, F25): one value per binding inside a clause was tested with reflect.DeepEqual, so the same instant written in two
   zones did not count as one value although joins and the store identify them *)
Theorem C03_zone_binding_original_refuted :
  exists q, (exists outs, run_model (q (mkCfg true false true true true true true false false false)) = Ok (outs, []) /\
                          run_spec (q (mkCfg true false true true true true true false false false)) <> []) /\
            (exists outs row, run_model (q (current true false)) = Ok (outs, [row]) /\ length (run_spec (q (current true false))) = 1%nat).
Proof.
  exists w_zone_repeated_binding. vm_compute. split.
  - eexists. split; [reflexivity|discriminate].
  - eexists _, _. split; reflexivity.
Qed.
Print Assumptions C03_zone_binding_original_refuted.

(* repaired (F26): a fully specified clause after clauses that bound something made AppendTable refuse (error), although the
   pattern has a solution; now it is a condition on the rows found so far *)
Theorem C03_spec3_original_refuted :
  exists q, (run_model (q (mkCfg true false true true true true true true false false)) = Err EAppend /\ run_spec (q (mkCfg true false true true true true true true false false)) <> []) /\
            (exists outs row, run_model (q (current true false)) = Ok (outs, [row]) /\ run_spec (q (current true false)) = [row]).
Proof.
  exists w_spec3_after_bound. vm_compute. split; [split; [reflexivity|discriminate]|]. eexists _, _. split; reflexivity.
Qed.
Print Assumptions C03_spec3_original_refuted.
