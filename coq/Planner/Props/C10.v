(* C10 — OPTIONAL is a left outer join: it never removes rows.
   Model: the optional branches of Plan.process_clause (LeftOptionalJoin for disjoint bindings, NULL extension in
   addSpecifiedData) and Rows.left_optional_join; `current` = the tree with repairs F9 (ecd016d) and F14 (b974631).
   Specification: PatternSpec.spec_step for a clause with c_opt = true.
   OPEN (design-notes/C10.md): the composition "model step = specification step" over whole patterns is only covered by
   the correspondence run. *)
From Coq Require Import List ZArith NArith Bool.
Import ListNotations.
From BWPlanner Require Import Terms Rows Clause Store Fetch Plan PatternSpec Current Domain Corr Witnesses RowsProofs FetchProofs PlanProofs SpecProofs Equiv Compose Compose2 Compose3.

(* ---- the specification's optional step is the left outer join of the property text: per row, its extensions by the
   matches that agree on the shared bindings, or exactly one extension in which the clause's new bindings are NULL *)
Theorem C10_left_join :
  forall glo gs c mus,
    spec_step glo gs c mus =
    flat_map (fun mu => match spec_extend c glo gs mu with
                        | [] => if c_opt c
                                then [merge_rows mu (map (fun k => (k, CNull)) (filter (fun k => negb (has mu k)) (clause_bindings c)))]
                                else []
                        | ext => ext
                        end) mus.
Proof. exact spec_step_left_join. Qed.
Print Assumptions C10_left_join.

Theorem C10_null_extension :
  forall mu c k, In k (clause_bindings c) -> get mu k = None ->
    get (merge_rows mu (map (fun k => (k, CNull)) (filter (fun k => negb (has mu k)) (clause_bindings c)))) k = Some CNull.
Proof. exact spec_null_extension. Qed.
Print Assumptions C10_null_extension.

Theorem C10_spec_never_removes :
  forall glo gs c mus, c_opt c = true ->
    (length mus <= length (spec_step glo gs c mus))%nat /\
    forall mu, In mu mus -> exists r, In r (spec_step glo gs c mus) /\ sub_row mu r.
Proof. exact spec_step_optional_never_removes. Qed.
Print Assumptions C10_spec_never_removes.

(* ---- the model (for ALL graphs, clauses, rows): an OPTIONAL clause that shares bindings with the table
   (specifyClauseWithTable / addSpecifiedData, after F14) keeps every row: each old row is a restriction of a new row *)
Theorem C10_never_removes :
  forall e gs lo c rows out, c_opt c = true -> fix14 e = true ->
    specify_rows e gs lo c rows = Ok out ->
    (length rows <= length out)%nat /\ forall r, In r rows -> exists r', In r' out /\ sub_row r r'.
Proof. exact specify_optional_never_removes. Qed.
Print Assumptions C10_never_removes.

Theorem C10_row_kept_or_null_extended :
  forall e gs lo c r rows, c_opt c = true -> fix14 e = true ->
    add_specified_data e gs lo c r = Ok rows -> rows <> [] /\ forall r', In r' rows -> sub_row r r'.
Proof. exact add_specified_optional_keeps. Qed.
Print Assumptions C10_row_kept_or_null_extended.

(* an OPTIONAL clause that shares no binding (Table.LeftOptionalJoin, after F9): all combinations, or every left row
   NULL-extended when the clause matched nothing; never fewer rows *)
Theorem C10_disjoint_left_join :
  forall t t2, disjoint (tb t) (tb t2) = true -> same_set (tb t) (tb t2) = false -> tb t2 <> [] ->
    left_optional_join true t t2 =
    Ok (LojTable (mkTable (add_all (tb t) (tb t2))
          (match trows t2 with
           | [] => map (fun r => extend_row r (add_all (tb t) (tb t2))) (trows t)
           | _ => flat_map (fun r1 => map (fun r2 => merge_rows r1 r2) (trows t2)) (trows t)
           end))).
Proof. exact left_optional_join_disjoint. Qed.
Print Assumptions C10_disjoint_left_join.

Theorem C10_disjoint_never_removes :
  forall t t2 t', left_optional_join true t t2 = Ok (LojTable t') -> (length (trows t) <= length (trows t'))%nat.
Proof. exact left_optional_join_never_removes. Qed.
Print Assumptions C10_disjoint_never_removes.

(* the planner calls LeftOptionalJoin only when no binding of the clause is in the table: the joinWithRange branch (not
   modelled here: it sorts with rowLess, Table family) is never taken from processClause *)
Theorem C10_join_range_unreachable :
  forall (e : cfg) (c : clause) (t : table),
    filter (fun b => mem b (tb t)) (clause_bindings c) = [] ->
    forall rows, left_optional_join (fix9 e) t (mkTable (clause_bindings c) rows) <> Ok LojRange.
Proof. exact process_clause_join_disjoint. Qed.
Print Assumptions C10_join_range_unreachable.

(* ---- the composition over whole patterns.  D10 (boolean; Domain.d10_clause, Domain.D10) = D3 of C03 with OPTIONAL allowed:
     environment: store compares predicate kinds, literal.Parse rejects unknown types, repairs F9, F14, Foid, F24, F25 in;
     graphs without key-duplicates; output bindings pairwise different;
     at least one clause, the first not OPTIONAL (the grammar guarantees it), every clause - OPTIONAL or not, sharing 0, 1 or more
       bindings with the rows built so far - not fully specified, no interval / bound binding, no ID alias on the object, an id only
       with an anchor binding, at least one binding (binding names may repeat inside a clause).
   On D10 the planner's result is the specification's sequence of steps (spec_step: conjunctive step for a plain clause, left outer
   join with NULL extension for an OPTIONAL one), row by row, cells up to the zone in which an instant is written. *)
Theorem C10_select_is_left_join_partial :
  forall e gs glo cs outs projs, D10 e gs cs outs = true ->
    exists bs rows, execute e gs glo cs outs projs = Ok (bs, rows) /\
                    Forall2 orow_equiv rows (spec_select glo gs cs outs projs).
Proof. exact execute_is_spec_select10. Qed.
Print Assumptions C10_select_is_left_join_partial.

(* the same before projection: the table after the pattern = fold of the specification's steps over the clauses *)
Theorem C10_pattern_is_steps_partial :
  forall e gs glo cs outs, D10 e gs cs outs = true ->
    exists t, process_pattern e gs glo cs empty_table = Ok t /\
              Forall2 row_equiv (trows t) (fold_left (fun mus c => spec_step glo gs c mus) cs [[]]).
Proof. exact pattern_is_steps10. Qed.
Print Assumptions C10_pattern_is_steps_partial.

(* corollary over whole patterns: appending an OPTIONAL clause to a pattern never removes a row - every row of the shorter
   pattern is a restriction (up to instant equality) of a row of the longer one, and there are at least as many rows *)
Theorem C10_never_removes_pattern_partial :
  forall e gs glo cs c outs t1 t2,
    D10 e gs cs outs = true -> D10 e gs (cs ++ [c]) outs = true -> c_opt c = true ->
    process_pattern e gs glo cs empty_table = Ok t1 ->
    process_pattern e gs glo (cs ++ [c]) empty_table = Ok t2 ->
    (length (trows t1) <= length (trows t2))%nat /\
    forall r, In r (trows t1) -> exists r', In r' (trows t2) /\ sub_equiv r r'.
Proof. exact optional_never_removes_pattern. Qed.
Print Assumptions C10_never_removes_pattern_partial.

(* D10 is inhabited by a pattern with two OPTIONAL clauses in sequence: the first shares a binding with the rows built so far
   (and matches for one row only), the second is disjoint and matches nothing: both rows survive, NULL-extended *)
Example C10_D10_example :
  let q := w_d10_example (current true false) in
  D10 (q_cfg q) (q_graphs q) (q_clauses q) (q_outs q) = true /\
  map c_opt (q_clauses q) = [false; true; true] /\
  exists bs r1 r2, run_model q = Ok (bs, [r1; r2]) /\ In (Some CNull) r1 /\ In (Some CNull) r2 /\ length (run_spec q) = 2%nat.
Proof.
  vm_compute. split; [reflexivity|]. split; [reflexivity|]. eexists _, _, _. split; [reflexivity|].
  split; [|split; [|reflexivity]]; cbn; auto 10.
Qed.

(* hypotheses are satisfiable: on the F9 witness the current model keeps the row and NULL-extends it *)
Example C10_example :
  exists outs row, run_model (w_optional_disjoint_empty (current true false)) = Ok (outs, [row]) /\
                   In (Some CNull) row /\ run_spec (w_optional_disjoint_empty (current true false)) = [row].
Proof. vm_compute. eexists _, _. split; [reflexivity|]. split; [right; right; left; reflexivity|reflexivity]. Qed.

(* ---- refutations (replayed on the real planner by checks/c10.py, corpus/C10/witnesses.jsonl) *)

(* repaired (F9): before, an OPTIONAL clause sharing no binding and matching nothing dropped ALL rows *)
Theorem C10_disjoint_empty_original_refuted :
  exists q, (exists outs, run_model (q (original false true)) = Ok (outs, []) /\ run_spec (q (original false true)) <> []) /\
            (exists outs row, run_model (q (current true false)) = Ok (outs, [row]) /\ run_spec (q (current true false)) = [row]).
Proof.
  exists w_optional_disjoint_empty. vm_compute. split.
  - eexists. split; [reflexivity|discriminate].
  - eexists _, _. split; reflexivity.
Qed.
Print Assumptions C10_disjoint_empty_original_refuted.

(* repaired (F14): a NULL produced by one OPTIONAL clause "joined" with anything in the next one *)
Theorem C10_join_null_original_refuted :
  exists q, (exists outs row, run_model (q (original false true)) = Ok (outs, [row]) /\ run_spec (q (original false true)) <> [row]) /\
            (exists outs row, run_model (q (current true false)) = Ok (outs, [row]) /\ run_spec (q (current true false)) = [row]).
Proof.
  exists w_optional_join_null. vm_compute. split.
  - eexists _, _. split; [reflexivity|discriminate].
  - eexists _, _. split; reflexivity.
Qed.
Print Assumptions C10_join_null_original_refuted.

(* repaired (F26): a fully specified OPTIONAL clause with an alias after bound rows: AppendTable error instead of the rows *)
Theorem C10_spec3_alias_original_refuted :
  exists q, (run_model (q (mkCfg true false true true true true true true false false)) = Err EAppend /\ run_spec (q (mkCfg true false true true true true true true false false)) <> []) /\
            (exists outs row, run_model (q (current true false)) = Ok (outs, [row]) /\ run_spec (q (current true false)) = [row]).
Proof.
  exists w_optional_spec3_alias. vm_compute. split; [split; [reflexivity|discriminate]|]. eexists _, _. split; reflexivity.
Qed.
Print Assumptions C10_spec3_alias_original_refuted.

(* repaired (F27): an OPTIONAL clause processed while the table has no bindings yet (only fully specified clauses before it) was
   appended, not left-joined: when it matched nothing the result was empty instead of one NULL row; likewise a fully specified
   OPTIONAL clause with alias whose triple is absent made the whole pattern "unresolvable" *)
Theorem C10_optional_unbound_original_refuted :
  exists q, (exists outs, run_model (q (mkCfg true false true true true true true true true false)) = Ok (outs, []) /\ run_spec (q (mkCfg true false true true true true true true true false)) <> []) /\
            (exists outs row, run_model (q (current true false)) = Ok (outs, [row]) /\ run_spec (q (current true false)) = [row]).
Proof.
  exists w_optional_unbound. vm_compute. split; [eexists; split; [reflexivity|discriminate]|]. eexists _, _. split; reflexivity.
Qed.
Print Assumptions C10_optional_unbound_original_refuted.

Theorem C10_spec3_alias_absent_original_refuted :
  exists q, (exists outs, run_model (q (mkCfg true false true true true true true true true false)) = Ok (outs, []) /\ run_spec (q (mkCfg true false true true true true true true true false)) <> []) /\
            (exists outs row, run_model (q (current true false)) = Ok (outs, [row]) /\ run_spec (q (current true false)) = [row]).
Proof.
  exists w_optional_spec3_alias_absent. vm_compute. split; [eexists; split; [reflexivity|discriminate]|]. eexists _, _. split; reflexivity.
Qed.
Print Assumptions C10_spec3_alias_absent_original_refuted.
