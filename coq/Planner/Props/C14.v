(* C14 — query results depend only on data and query meaning, not on order or scheduling.
   PARTIAL: goroutine scheduling, channel / bulk sizes and GOMAXPROCS are only exercised by the correspondence run
   (checks/c14.py); the model has no such parameter.  What is proved: the model's statement of scheduler independence
   (the per-row fan-out is a fold whose result multiset is invariant under permutation of the work list), and the
   invariances of the specification (clause order, data partitioning, monotonicity).
   and their transfer to the planner model on D3 (corollaries of the C03 composition theorem).
   Renaming invariance: C14_rename (specification, every pattern) and C14_model_rename (planner model on D3). *)
From Coq Require Import List ZArith NArith Bool Permutation.
Import ListNotations.
From BWPlanner Require Import Terms Rows Clause Store Fetch Plan PatternSpec Current Domain Corr Witnesses RowsProofs FetchProofs PlanProofs SpecProofs Equiv Compose Compose2 Compose3 Rename.

(* ---- scheduler independence, as far as the model can state it: specifyClauseWithTable starts one addSpecifiedData per row
   and appends in completion order; whatever the completion order, the table holds the same multiset of rows ... *)
Theorem C14_completion_order :
  forall e gs lo c rows rows' out, Permutation rows rows' ->
    specify_rows e gs lo c rows = Ok out ->
    exists out', specify_rows e gs lo c rows' = Ok out' /\ Permutation out out'.
Proof. exact specify_rows_perm. Qed.
Print Assumptions C14_completion_order.

(* ... and a failure (error / panic of some row) is a failure in every order *)
Theorem C14_completion_order_failure :
  forall e gs lo c rows rows', Permutation rows rows' ->
    (forall out, specify_rows e gs lo c rows <> Ok out) -> (forall out, specify_rows e gs lo c rows' <> Ok out).
Proof. exact specify_rows_perm_fail. Qed.
Print Assumptions C14_completion_order_failure.

(* ---- the specification: an assignment is a solution whatever the order in which the clauses are written ... *)
Theorem C14_clause_order :
  forall cs cs' glo gs mu, Permutation cs cs' -> (is_solution cs glo gs mu <-> is_solution cs' glo gs mu).
Proof. exact is_solution_clause_order. Qed.
Print Assumptions C14_clause_order.

(* ... however the triples are distributed over the graphs listed in FROM ... *)
Theorem C14_partition :
  forall cs glo gs gs' mu, same_data gs gs' -> (is_solution cs glo gs mu <-> is_solution cs glo gs' mu).
Proof. exact is_solution_partition. Qed.
Print Assumptions C14_partition.

Theorem C14_partition_reference :
  forall glo gs gs' cs r, forallb (fun c => negb (c_opt c)) cs = true -> same_data gs gs' ->
    (In r (spec_solutions glo gs cs) <-> In r (spec_solutions glo gs' cs)).
Proof. exact spec_solutions_partition. Qed.
Print Assumptions C14_partition_reference.

(* ... and adding triples never removes a row of a query without OPTIONAL *)
Theorem C14_monotone :
  forall cs glo gs gs' mu, more_data gs gs' -> is_solution cs glo gs mu -> is_solution cs glo gs' mu.
Proof. exact is_solution_monotone. Qed.
Print Assumptions C14_monotone.

Theorem C14_monotone_reference :
  forall glo gs gs' cs r, forallb (fun c => negb (c_opt c)) cs = true -> more_data gs gs' ->
    In r (spec_solutions glo gs cs) -> In r (spec_solutions glo gs' cs).
Proof. exact spec_solutions_monotone. Qed.
Print Assumptions C14_monotone_reference.

(* ---- transferred to the PLANNER MODEL on D3 (C03 composition): whenever two (pattern, data) pairs in D3 have the same
   solutions, each row returned for the first is matched by a row returned for the second that agrees with it on all its
   bindings (values up to the zone of an instant) ... *)
Theorem C14_model_clause_order :
  forall e gs glo cs cs' outs t, Permutation cs cs' ->
    D3 e gs cs outs = true -> D3 e gs cs' outs = true ->
    process_pattern e gs glo cs empty_table = Ok t ->
    exists t', process_pattern e gs glo cs' empty_table = Ok t' /\
               forall r, In r (trows t) -> exists r', In r' (trows t') /\ sub_equiv r' r /\ is_solution cs' glo gs r'.
Proof.
  intros e gs glo cs cs' outs t HP H H' Et. apply (model_transfer e gs gs glo cs cs' outs outs t H H'); [|exact Et].
  intros mu Hs. apply (is_solution_clause_order cs cs' glo gs mu HP). exact Hs.
Qed.
Print Assumptions C14_model_clause_order.

Theorem C14_model_partition :
  forall e gs gs' glo cs outs t, same_data gs gs' ->
    D3 e gs cs outs = true -> D3 e gs' cs outs = true ->
    process_pattern e gs glo cs empty_table = Ok t ->
    exists t', process_pattern e gs' glo cs empty_table = Ok t' /\
               forall r, In r (trows t) -> exists r', In r' (trows t') /\ sub_equiv r' r /\ is_solution cs glo gs' r'.
Proof.
  intros e gs gs' glo cs outs t HS H H' Et. apply (model_transfer e gs gs' glo cs cs outs outs t H H'); [|exact Et].
  intros mu Hs. apply (is_solution_partition cs glo gs gs' mu HS). exact Hs.
Qed.
Print Assumptions C14_model_partition.

(* ... and adding triples never removes a row *)
Theorem C14_model_monotone :
  forall e gs gs' glo cs outs t, more_data gs gs' ->
    D3 e gs cs outs = true -> D3 e gs' cs outs = true ->
    process_pattern e gs glo cs empty_table = Ok t ->
    exists t', process_pattern e gs' glo cs empty_table = Ok t' /\
               forall r, In r (trows t) -> exists r', In r' (trows t') /\ sub_equiv r' r /\ is_solution cs glo gs' r'.
Proof.
  intros e gs gs' glo cs outs t HM H H' Et. apply (model_transfer e gs gs' glo cs cs outs outs t H H'); [|exact Et].
  intros mu. apply is_solution_monotone. exact HM.
Qed.
Print Assumptions C14_model_monotone.

(* ---- a consistent renaming of the bindings (f injective, keeping "no name" = the empty string): the reference returns the
   renamed rows, for EVERY pattern (OPTIONAL clauses included) ... *)
Theorem C14_rename :
  forall (f : str -> str), (forall a b, f a = f b -> a = b) -> f [] = [] ->
    forall glo gs cs, spec_solutions glo gs (map (ren_clause f) cs) = map (ren_row f) (spec_solutions glo gs cs).
Proof. exact spec_solutions_rename. Qed.
Print Assumptions C14_rename.

(* ... and so does the planner model on D10 (patterns with OPTIONAL clauses included), row by row (up to the zone of an instant) *)
Theorem C14_model_rename :
  forall (f : str -> str), (forall a b, f a = f b -> a = b) -> f [] = [] ->
    forall e gs glo cs outs outs' t,
      D10 e gs cs outs = true -> D10 e gs (map (ren_clause f) cs) outs' = true ->
      process_pattern e gs glo cs empty_table = Ok t ->
      exists t', process_pattern e gs glo (map (ren_clause f) cs) empty_table = Ok t' /\
                 Forall2 row_equiv (trows t') (map (ren_row f) (trows t)).
Proof. exact model_rename. Qed.
Print Assumptions C14_model_rename.

(* non-vacuity: the hypotheses hold of real cases (a two-clause pattern, a two-row work list) *)
Example C14_example :
  forallb (fun c => negb (c_opt c)) (q_clauses (w_join_kind (current true false))) = true /\
  length (q_clauses (w_join_kind (current true false))) = 2%nat.
Proof. vm_compute. split; reflexivity. Qed.

(* ---- repaired (F26): clause order mattered - the same two clauses gave an error in one order (fully specified clause after a
   bound one) and the solution in the other; now both orders give the solution *)
Theorem C14_clause_order_original_refuted :
  exists q q' : cfg -> qcase,
    (forall e, Permutation (q_clauses (q e)) (q_clauses (q' e)) /\ q_graphs (q e) = q_graphs (q' e)) /\
    run_model (q (mkCfg true false true true true true true true false false)) = Err EAppend /\
    (exists res, run_model (q' (mkCfg true false true true true true true true false false)) = Ok res /\ snd res <> []) /\
    (exists res, run_model (q (current true false)) = Ok res /\ run_model (q' (current true false)) = Ok res /\ snd res <> []).
Proof.
  exists w_spec3_after_bound.
  exists (fun e => let q := w_spec3_after_bound e in mkCase (q_cfg q) (q_graphs q) (rev (q_clauses q)) (q_lo q) (q_outs q) (q_projs q)).
  split; [intros e; split; [apply Permutation_rev|reflexivity]|].
  vm_compute. split; [reflexivity|]. split; [eexists; split; [reflexivity|discriminate]|].
  eexists. split; [reflexivity|]. split; [reflexivity|discriminate].
Qed.
Print Assumptions C14_clause_order_original_refuted.
