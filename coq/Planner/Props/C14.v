(* C14 — placeholder until the proofs land (statements are added only when proved). *)
From BWPlanner Require Import Terms.
