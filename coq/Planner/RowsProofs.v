(* Lemmas about rows as association lists. *)
From Coq Require Import List Bool.
Import ListNotations.
From BWPlanner Require Import Terms Rows.

Lemma get_set_same : forall r k v, get (set r k v) k = Some v.
Proof.
  induction r as [|[k' v'] r IH]; intros k v; cbn.
  - rewrite str_eqb_refl. reflexivity.
  - destruct (str_eqb k k') eqn:E; cbn; rewrite E; auto.
Qed.

Lemma get_set_other : forall r k k' v, k' <> k -> get (set r k v) k' = get r k'.
Proof.
  induction r as [|[k0 v0] r IH]; intros k k' v Hne; cbn.
  - destruct (str_eqb k' k) eqn:E; auto. apply str_eqb_true in E. congruence.
  - destruct (str_eqb k k0) eqn:E; cbn.
    + apply str_eqb_true in E. subst k0.
      destruct (str_eqb k' k) eqn:E'; auto. apply str_eqb_true in E'. congruence.
    + destruct (str_eqb k' k0); auto.
Qed.

Lemma get_set : forall r k k' v, get (set r k v) k' = if str_eqb k' k then Some v else get r k'.
Proof.
  intros r k k' v. destruct (str_eqb k' k) eqn:E.
  - apply str_eqb_true in E. subst. apply get_set_same.
  - apply get_set_other. apply str_eqb_false. exact E.
Qed.

Lemma get_app : forall r1 r2 k, get (r1 ++ r2) k = match get r1 k with Some v => Some v | None => get r2 k end.
Proof.
  induction r1 as [|[k' v'] r1 IH]; intros r2 k; cbn; auto.
  destruct (str_eqb k k'); auto.
Qed.

Lemma get_filter_not_in : forall (f : str -> bool) r k,
  f k = true -> get (filter (fun kv => f (fst kv)) r) k = get r k.
Proof.
  intros f. induction r as [|[k' v'] r IH]; intros k Hf; cbn; auto.
  destruct (f k') eqn:Fk; cbn.
  - destruct (str_eqb k k'); auto.
  - destruct (str_eqb k k') eqn:E; auto. apply str_eqb_true in E. subst. congruence.
Qed.

Lemma get_filter_out : forall (f : str -> bool) r k,
  f k = false -> get (filter (fun kv => f (fst kv)) r) k = None.
Proof.
  intros f. induction r as [|[k' v'] r IH]; intros k Hf; cbn; auto.
  destruct (f k') eqn:Fk; cbn; auto.
  destruct (str_eqb k k') eqn:E; auto. apply str_eqb_true in E. subst. congruence.
Qed.

(* MergeRows: the first row wins, the second fills the rest *)
Lemma get_merge : forall r1 r2 k,
  get (merge_rows r1 r2) k = match get r1 k with Some v => Some v | None => get r2 k end.
Proof.
  intros r1 r2 k. unfold merge_rows. rewrite get_app.
  destruct (get r1 k) eqn:G; auto.
  apply (get_filter_not_in (fun k => negb (has r1 k))). unfold has. rewrite G. reflexivity.
Qed.

Lemma get_merge_left : forall r1 r2 k v, get r1 k = Some v -> get (merge_rows r1 r2) k = Some v.
Proof. intros. rewrite get_merge, H. reflexivity. Qed.

Lemma has_get : forall r k, has r k = true <-> get r k <> None.
Proof. intros r k. unfold has. destruct (get r k); split; congruence. Qed.

Lemma get_in_keys : forall r k v, get r k = Some v -> In k (keys r).
Proof.
  induction r as [|[k' v'] r IH]; intros k v; cbn; [discriminate|].
  destruct (str_eqb k k') eqn:E.
  - apply str_eqb_true in E. subst. auto.
  - intros H. right. eapply IH; eauto.
Qed.

Lemma mem_In : forall k l, mem k l = true <-> In k l.
Proof.
  intros k l. unfold mem. rewrite existsb_exists. split.
  - intros [x [Hin E]]. apply str_eqb_true in E. subst. exact Hin.
  - intros H. exists k. split; auto. apply str_eqb_refl.
Qed.

Lemma get_null_map : forall l k, get (map (fun k => (k, CNull)) l) k = if mem k l then Some CNull else None.
Proof.
  induction l as [|x l IH]; intros k; cbn; auto.
  destruct (str_eqb k x) eqn:E; cbn; auto.
  rewrite IH. reflexivity.
Qed.
