(* The store as the planner sees it: a list of graphs, each a list of triples, and the lookups the planner calls, each
   given by its specification "all stored triples whose fixed components match" (storage/memory is the Store family's
   subject).  Matching is by UUID: predicate buckets by id only (PartialUUID), then checker.CheckGlobalTimeBounds with
   the query predicate (Objects, Subjects, TriplesForPredicate) or without it. *)
From Coq Require Import List Bool.
Import ListNotations.
From BWPlanner Require Import Terms.

Definition graph := list triple.

Record lopts := mkLopts { lo_lower : option time; lo_upper : option time }.

(* CheckGlobalTimeBounds for a stored predicate p, query predicate op (when the lookup has one).
   Unfixed tree (ks = false): an immutable stored predicate always passes; a temporal one must equal the query's anchor
   when the query predicate is temporal, and lie inside [lower, upper].  With F6 (ks = true) the kinds must agree. *)
Definition check_time (e : cfg) (op : option pred) (lo : lopts) (p : pred) : bool :=
  (match op with
   | Some q => negb (ks e) || Bool.eqb (is_temporal q) (is_temporal p)
   | None => true
   end) &&
  match panchor p with
  | None => true
  | Some t =>
      (match op with
       | Some q => match panchor q with Some ta => t_equal ta t | None => true end
       | None => true
       end) &&
      (match lo_lower lo with Some l => negb (t_before t l) | None => true end) &&
      (match lo_upper lo with Some u => negb (t_after t u) | None => true end)
  end.

Definition g_exist (g : graph) (t : triple) : bool := existsb (triple_key_eqb t) g.

Definition id_match (q p : pred) : bool := str_eqb (pid q) (pid p).

Definition g_objects (e : cfg) (g : graph) (s : node) (p : pred) (lo : lopts) : list obj :=
  map tobj (filter (fun t => node_eqb s (tsub t) && id_match p (tpred t) && check_time e (Some p) lo (tpred t)) g).

Definition g_subjects (e : cfg) (g : graph) (p : pred) (o : obj) (lo : lopts) : list node :=
  map tsub (filter (fun t => id_match p (tpred t) && obj_key_eqb o (tobj t) && check_time e (Some p) lo (tpred t)) g).

Definition g_preds_so (e : cfg) (g : graph) (s : node) (o : obj) (lo : lopts) : list pred :=
  map tpred (filter (fun t => node_eqb s (tsub t) && obj_key_eqb o (tobj t) && check_time e None lo (tpred t)) g).

Definition g_triples_s (e : cfg) (g : graph) (s : node) (lo : lopts) : list triple :=
  filter (fun t => node_eqb s (tsub t) && check_time e None lo (tpred t)) g.

Definition g_triples_p (e : cfg) (g : graph) (p : pred) (lo : lopts) : list triple :=
  filter (fun t => id_match p (tpred t) && check_time e (Some p) lo (tpred t)) g.

Definition g_triples_o (e : cfg) (g : graph) (o : obj) (lo : lopts) : list triple :=
  filter (fun t => obj_key_eqb o (tobj t) && check_time e None lo (tpred t)) g.

Definition g_triples (e : cfg) (g : graph) (lo : lopts) : list triple :=
  filter (fun t => check_time e None lo (tpred t)) g.
