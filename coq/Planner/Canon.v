(* With pairwise different binding names inside a clause, tripleToRow and the specification's spec_bind both compute
   `brow` (every binder gets its extraction, in order); shouldIgnoreTriple respects triple equivalence. *)
From Coq Require Import List Bool ZArith.
Import ListNotations.
From BWPlanner Require Import Terms Rows Clause Store Fetch Plan PatternSpec RowsProofs FetchProofs PlanProofs SpecSound Equiv.

Lemma set_fresh : forall r k v, get r k = None -> set r k v = r ++ [(k, v)].
Proof.
  induction r as [|[k' v'] r IH]; intros k v H; cbn in *; [reflexivity|].
  destruct (str_eqb k k'); [discriminate|]. rewrite IH by exact H. reflexivity.
Qed.

Lemma xval_false : forall x t, xval false x t = xspec x t.
Proof. intros. unfold xval. destruct (xspec x t); reflexivity. Qed.

Lemma get_snoc_other : forall r k v k', get r k' = None -> k' <> k -> get (r ++ [(k, v)]) k' = None.
Proof.
  intros r k v k' H Hne. rewrite get_app, H. cbn. destruct (str_eqb k' k) eqn:E; auto.
  apply str_eqb_true in E. contradiction.
Qed.

Lemma ttr_nodup : forall e opt bs t r, fixoid e = true -> binders_checked bs t -> NoDup (map fst bs) ->
  (forall k, In k (map fst bs) -> get r k = None) ->
  ttr e opt bs t r r = Ok (option_map (fun r0 => r ++ r0) (brow opt bs t)).
Proof.
  intros e opt bs t. induction bs as [|[k x] bs IH]; intros r Hf Hbc Hnd Hfresh.
  - cbn. rewrite app_nil_r. reflexivity.
  - cbn [ttr brow]. rewrite (extract_xval e opt x t Hf (Hbc k x (or_introl eq_refl))).
    destruct (xval opt x t) as [v|]; [|reflexivity].
    rewrite (Hfresh k (or_introl eq_refl)). rewrite set_fresh by (apply Hfresh; left; reflexivity).
    cbn in Hnd. inversion Hnd as [|? ? Hnotin Hnd']; subst.
    rewrite IH; try assumption.
    + destruct (brow opt bs t); cbn; [rewrite <- app_assoc; reflexivity|reflexivity].
    + eapply binders_checked_tail; eauto.
    + intros k' Hk'. apply get_snoc_other; [apply Hfresh; right; exact Hk'|]. intro; subst. contradiction.
Qed.

Lemma spec_bind_nodup : forall opt bs t r, NoDup (map fst bs) ->
  (forall k, In k (map fst bs) -> get r k = None) ->
  spec_bind opt bs t r = option_map (fun r0 => r ++ r0) (brow opt bs t).
Proof.
  intros opt. induction bs as [|[k x] bs IH]; intros t r Hnd Hfresh.
  - cbn. rewrite app_nil_r. reflexivity.
  - cbn [spec_bind brow]. fold (xval opt x t). destruct (xval opt x t) as [v|]; [|reflexivity].
    rewrite (Hfresh k (or_introl eq_refl)). rewrite set_fresh by (apply Hfresh; left; reflexivity).
    cbn in Hnd. inversion Hnd as [|? ? Hnotin Hnd']; subst.
    rewrite IH; try assumption.
    + destruct (brow opt bs t); cbn; [rewrite <- app_assoc; reflexivity|reflexivity].
    + intros k' Hk'. apply get_snoc_other; [apply Hfresh; right; exact Hk'|]. intro; subst. contradiction.
Qed.

Lemma nodup_str_NoDup : forall l, nodup_str l = true -> NoDup l.
Proof.
  induction l as [|x l IH]; intros H; [constructor|]. cbn in H. apply andb_prop in H. destruct H as [A B].
  constructor; [|apply IH; exact B]. apply negb_true_iff in A. apply mem_false_not_In. exact A.
Qed.

(* ---------- shouldIgnoreTriple respects triple equivalence *)
Lemma outside_equal : forall lo up a b, t_equal a b = true -> outside lo up a = outside lo up b.
Proof.
  intros lo up a b H. unfold t_equal in H. apply Z.eqb_eq in H. unfold outside, t_after, t_before. rewrite H. reflexivity.
Qed.

Lemma ignore_pred_equiv : forall id tm ancb lo up p p', pred_key_eqb p p' = true ->
  ignore_pred id tm ancb lo up p = ignore_pred id tm ancb lo up p'.
Proof.
  intros id tm ancb lo up p p' H. destruct (pred_key_parts _ _ H) as [I A]. unfold ignore_pred. rewrite I.
  destruct A; [reflexivity|]. rewrite (outside_equal lo up a b H0). reflexivity.
Qed.

Lemma should_ignore_equiv : forall c t t', tequiv t t' -> should_ignore c t = should_ignore c t'.
Proof.
  intros c t t' H. destruct (tequiv_parts _ _ H) as [_ [Hp Ho]]. unfold should_ignore.
  rewrite (ignore_pred_equiv _ _ _ _ _ _ _ Hp). f_equal.
  destruct (is_empty (cOID c)); [reflexivity|].
  destruct (tobj t), (tobj t'); cbn in Ho; try discriminate; try reflexivity.
  apply ignore_pred_equiv. exact Ho.
Qed.
