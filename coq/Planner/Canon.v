(* With pairwise different binding names inside a clause, tripleToRow and the specification's spec_bind both compute
   `brow` (every binder gets its extraction, in order); shouldIgnoreTriple respects triple equivalence. *)
From Coq Require Import List Bool ZArith.
Import ListNotations.
From BWPlanner Require Import Terms Rows Clause Store Fetch Plan PatternSpec RowsProofs FetchProofs PlanProofs SpecSound Equiv.

Lemma set_fresh : forall r k v, get r k = None -> set r k v = r ++ [(k, v)].
Proof.
  induction r as [|[k' v'] r IH]; intros k v H; cbn in *; [reflexivity|].
  destruct (str_eqb k k'); [discriminate|]. rewrite IH by exact H. reflexivity.
Qed.

Lemma xval_false : forall x t, xval false x t = xspec x t.
Proof. intros. unfold xval. destruct (xspec x t); reflexivity. Qed.

Lemma get_snoc_other : forall r k v k', get r k' = None -> k' <> k -> get (r ++ [(k, v)]) k' = None.
Proof.
  intros r k v k' H Hne. rewrite get_app, H. cbn. destruct (str_eqb k' k) eqn:E; auto.
  apply str_eqb_true in E. contradiction.
Qed.

(* ---------- the row of a triple for a clause: the specification's spec_bind (first value kept for a repeated name) and the
   planner's tripleToRow (last value kept) agree up to zone equivalence, repeated names included (after repair F25) *)
Lemma set_equiv_existing : forall r r' k v w, row_equiv r r' -> get r' k = Some w -> cell_equiv v w = true ->
  row_equiv (set r k v) r'.
Proof.
  intros r r' k v w H. induction H as [|[k1 v1] [k2 v2] r r' [A B] H IH]; intros G C; cbn in *; [discriminate|].
  subst k2. destruct (str_eqb k k1) eqn:E.
  - inversion G; subst. constructor; [split; auto|exact H].
  - constructor; [split; auto|apply IH; assumption].
Qed.

Lemma opt_rel_trans_row : forall a b c, opt_rel row_equiv a b -> opt_rel row_equiv b c -> opt_rel row_equiv a c.
Proof.
  intros a b c H1 H2. inversion H1; subst; inversion H2; subst; constructor. eapply row_equiv_trans; eauto.
Qed.

Lemma spec_bind_equiv : forall opt bs t t' r r', tequiv t t' -> row_equiv r r' ->
  opt_rel row_equiv (spec_bind opt bs t r) (spec_bind opt bs t' r').
Proof.
  intros opt bs t t' r r' Ht. revert r r'. induction bs as [|[k x] bs IH]; intros r r' Hr; cbn [spec_bind]; [constructor; exact Hr|].
  fold (xval opt x t). fold (xval opt x t').
  destruct (xval_equiv opt x t t' Ht) as [|v v' Hv]; [constructor|].
  destruct (get_equiv r r' k Hr) as [|v0 v0' Hv0].
  - apply IH. apply set_equiv; assumption.
  - rewrite (cell_equiv_cong v0 v0' v v' Hv0 Hv). destruct (cell_equiv v0' v'); [apply IH; exact Hr|constructor].
Qed.

Lemma ttr_spec_bind : forall e opt bs t r r', fixoid e = true -> fixzone e = true -> binders_checked bs t -> row_equiv r r' ->
  exists o, ttr e opt bs t r r = Ok o /\ opt_rel row_equiv o (spec_bind opt bs t r').
Proof.
  intros e opt bs t. induction bs as [|[k x] bs IH]; intros r r' Hf Hz Hbc Hr.
  - exists (Some r). split; [reflexivity|constructor; exact Hr].
  - pose proof (binders_checked_tail _ _ _ Hbc) as Hbc'.
    cbn [ttr spec_bind]. rewrite (extract_xval e opt x t Hf (Hbc k x (or_introl eq_refl))). fold (xval opt x t).
    destruct (xval opt x t) as [v|]; [|exists None; split; [reflexivity|constructor]].
    pose proof (get_equiv r r' k Hr) as Ge.
    destruct (get r k) as [v0|] eqn:G1; destruct (get r' k) as [v0'|] eqn:G2; inversion Ge as [|? ? Hv0]; subst.
    + unfold same_value. rewrite Hz. rewrite (cell_equiv_cong v0 v0' v v Hv0 (cell_equiv_refl v)).
      destruct (cell_equiv v0' v) eqn:C; [|exists None; split; [reflexivity|constructor]].
      apply IH; try assumption.
      eapply set_equiv_existing; [exact Hr|exact G2|]. rewrite cell_equiv_sym. exact C.
    + apply IH; try assumption. apply set_equiv; [exact Hr|apply cell_equiv_refl].
Qed.

(* cells, domain and monotonicity of spec_bind *)
Lemma spec_bind_facts : forall opt bs t r0 r, spec_bind opt bs t r0 = Some r ->
  (forall k x, In (k, x) bs -> exists v w, xval opt x t = Some v /\ get r k = Some w /\ cell_equiv w v = true) /\
  sub_row r0 r /\
  (forall k, get r k <> None -> get r0 k <> None \/ In k (map fst bs)).
Proof.
  intros opt bs t. induction bs as [|[k x] bs IH]; intros r0 r H.
  - cbn in H. inversion H; subst. split; [intros k x []|]. split; [intros k v G; exact G|]. intros k G. left. exact G.
  - cbn [spec_bind] in H. fold (xval opt x t) in H. destruct (xval opt x t) as [v|] eqn:Xv; [|discriminate].
    destruct (get r0 k) as [v0|] eqn:G.
    + destruct (cell_equiv v0 v) eqn:Ce; [|discriminate].
      destruct (IH _ _ H) as [Hb [Hs Hd]]. split; [|split].
      * intros k0 x0 [E|Hin]; [|apply Hb; exact Hin]. inversion E; subst.
        exists v, v0. split; [exact Xv|]. split; [apply Hs; exact G|exact Ce].
      * exact Hs.
      * intros k0 G0. destruct (Hd k0 G0) as [X|X]; [left; exact X|right; right; exact X].
    + destruct (IH _ _ H) as [Hb [Hs Hd]]. split; [|split].
      * intros k0 x0 [E|Hin]; [|apply Hb; exact Hin]. inversion E; subst.
        exists v, v. split; [exact Xv|]. split; [apply Hs; apply get_set_same|apply cell_equiv_refl].
      * intros k0 v1 G0. apply Hs. destruct (str_eq_dec k0 k) as [->|Hne]; [congruence|].
        rewrite get_set_other by exact Hne. exact G0.
      * intros k0 G0. destruct (Hd k0 G0) as [X|X]; [|right; right; exact X].
        destruct (str_eq_dec k0 k) as [->|Hne]; [right; left; reflexivity|]. rewrite get_set_other in X by exact Hne. left. exact X.
Qed.

Lemma nodup_str_NoDup : forall l, nodup_str l = true -> NoDup l.
Proof.
  induction l as [|x l IH]; intros H; [constructor|]. cbn in H. apply andb_prop in H. destruct H as [A B].
  constructor; [|apply IH; exact B]. apply negb_true_iff in A. apply mem_false_not_In. exact A.
Qed.

(* ---------- shouldIgnoreTriple respects triple equivalence *)
Lemma outside_equal : forall lo up a b, t_equal a b = true -> outside lo up a = outside lo up b.
Proof.
  intros lo up a b H. unfold t_equal in H. apply Z.eqb_eq in H. unfold outside, t_after, t_before. rewrite H. reflexivity.
Qed.

Lemma ignore_pred_equiv : forall id tm ancb lo up p p', pred_key_eqb p p' = true ->
  ignore_pred id tm ancb lo up p = ignore_pred id tm ancb lo up p'.
Proof.
  intros id tm ancb lo up p p' H. destruct (pred_key_parts _ _ H) as [I A]. unfold ignore_pred. rewrite I.
  destruct A; [reflexivity|]. rewrite (outside_equal lo up a b H0). reflexivity.
Qed.

Lemma should_ignore_equiv : forall c t t', tequiv t t' -> should_ignore c t = should_ignore c t'.
Proof.
  intros c t t' H. destruct (tequiv_parts _ _ H) as [_ [Hp Ho]]. unfold should_ignore.
  rewrite (ignore_pred_equiv _ _ _ _ _ _ _ Hp). f_equal.
  destruct (is_empty (cOID c)); [reflexivity|].
  destruct (tobj t), (tobj t'); cbn in Ho; try discriminate; try reflexivity.
  apply ignore_pred_equiv. exact Ho.
Qed.
