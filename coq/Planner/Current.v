(* Which repairs of /repo the model describes right now (edited in the same step as each "fix:" commit of this family).
   ks / strlit_invalid belong to other families' fixes (F6, F3) and are observed by the harness on every run. *)
From BWPlanner Require Import Terms.

Definition current (ks strlit_invalid : bool) : cfg :=
  mkCfg ks strlit_invalid
        true  (* fix9:   /repo ecd016d *)
        true  (* fix14:  /repo b974631 *)
        true  (* fix15:  /repo cd0ad98 *)
        true  (* fixoid: /repo 80d28a9 (literal part; the node part is pinned by TestPlannerQuery) *)
        true  (* fixsb:  /repo eb88d1d *)
        true  (* fixzone: /repo 87509de *)
        true  (* fixs3:  /repo 592dce7 *)
        true. (* fixou:  /repo 4d3926a *)

(* the tree as it was before any repair of this family *)
Definition original (ks strlit_invalid : bool) : cfg := mkCfg ks strlit_invalid false false false false false false false false.
(* the tree with every repair of this family *)
Definition repaired (ks strlit_invalid : bool) : cfg := mkCfg ks strlit_invalid true true true true true true true true.
