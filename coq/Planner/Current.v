(* Which repairs of /repo the model describes right now (edited in the same step as each "fix:" commit of this family).
   ks / strlit_invalid belong to other families' fixes (F6, F3) and are observed by the harness on every run. *)
From BWPlanner Require Import Terms.

Definition current (ks strlit_invalid : bool) : cfg :=
  mkCfg ks strlit_invalid
        false  (* fix9  *)
        false  (* fix14 *)
        false  (* fix15 *)
        false. (* fixoid *)

(* the tree as it was before any repair of this family *)
Definition original (ks strlit_invalid : bool) : cfg := mkCfg ks strlit_invalid false false false false.
(* the tree with every repair of this family *)
Definition repaired (ks strlit_invalid : bool) : cfg := mkCfg ks strlit_invalid true true true true.
