(* Rows (table.Row = map binding -> *Cell) as association lists with unique keys, and the table operations the planner
   uses: AddRow, AddBindings, AppendTable, MergeRows, DotProduct, LeftOptionalJoin (table.go). *)
From Coq Require Import List Bool.
From Coq.Strings Require Import Byte.
Import ListNotations.
From BWPlanner Require Import Terms.

Definition row := list (str * cell).

Fixpoint get (r : row) (k : str) : option cell :=
  match r with
  | [] => None
  | (k', v) :: rest => if str_eqb k k' then Some v else get rest k
  end.

Definition has (r : row) (k : str) : bool := match get r k with Some _ => true | None => false end.

(* r[k] = v *)
Fixpoint set (r : row) (k : str) (v : cell) : row :=
  match r with
  | [] => [(k, v)]
  | (k', v') :: rest => if str_eqb k k' then (k', v) :: rest else (k', v') :: set rest k v
  end.

Fixpoint del (r : row) (k : str) : row :=
  match r with
  | [] => []
  | (k', v') :: rest => if str_eqb k k' then del rest k else (k', v') :: del rest k
  end.

Definition keys (r : row) : list str := map fst r.

(* MergeRows([r1, r2]): the first row wins for every shared key *)
Definition merge_rows (r1 r2 : row) : row :=
  r1 ++ filter (fun kv => negb (has r1 (fst kv))) r2.

(* string sets (binding lists) *)
Definition mem (k : str) (l : list str) : bool := existsb (str_eqb k) l.

Fixpoint dedup (l : list str) : list str :=
  match l with
  | [] => []
  | x :: rest => if mem x rest then dedup rest else x :: dedup rest
  end.

(* keeps the first occurrence (order of unsafeAddBindings) *)
Fixpoint add_all (acc : list str) (l : list str) : list str :=
  match l with
  | [] => acc
  | x :: rest => if mem x acc then add_all acc rest else add_all (acc ++ [x]) rest
  end.

Definition subset (a b : list str) : bool := forallb (fun k => mem k b) a.
Definition same_set (a b : list str) : bool := subset a b && subset b a.
Definition disjoint (a b : list str) : bool := forallb (fun k => negb (mem k b)) a.

(* table.Table: AvailableBindings (a set; its order is map-iteration order in Go and never observed before projection)
   and the rows *)
Record table := mkTable { tb : list str; trows : list row }.

Definition empty_table : table := mkTable [] [].

(* AddRow drops rows without cells *)
Definition add_row (rows : list row) (r : row) : list row :=
  match r with [] => rows | _ => rows ++ [r] end.

Definition add_bindings (t : table) (bs : list str) : table := mkTable (add_all (tb t) bs) (trows t).

(* equalBindings compares the two binding sets *)
Definition append_table (t t2 : table) : outcome table :=
  match tb t with
  | [] => Ok (mkTable (tb t2) (trows t ++ trows t2))
  | _ => if same_set (tb t) (tb t2) then Ok (mkTable (tb t) (trows t ++ trows t2)) else Err EAppend
  end.

Definition dot_product (t t2 : table) : outcome table :=
  if disjoint (tb t) (tb t2) then
    Ok (mkTable (add_all (tb t) (tb t2))
                (flat_map (fun r1 => map (fun r2 => merge_rows r1 r2) (trows t2)) (trows t)))
  else Err EDotProduct.

(* extendRow: missing bindings become NULL cells *)
Definition extend_row (r : row) (bs : list str) : row :=
  r ++ map (fun k => (k, CNull)) (filter (fun k => negb (has r k)) (dedup bs)).

(* LeftOptionalJoin.  The branch for partially overlapping bindings (joinWithRange) sorts both tables with rowLess, a
   comparison of printed cells that belongs to the Table family; it is modelled separately in TableOps.v with the
   comparison as a parameter.  The planner only calls LeftOptionalJoin with disjoint bindings
   (Plan.process_clause_join_disjoint), so here that branch is an explicit outcome, not a default. *)
Inductive loj_result :=
| LojTable (t : table)
| LojRange.   (* joinWithRange would run *)

Definition left_optional_join (fix9 : bool) (t t2 : table) : outcome loj_result :=
  if same_set (tb t) (tb t2) || (match tb t2 with [] => true | _ => false end) then Ok (LojTable t)
  else if disjoint (tb t) (tb t2) then
    match fix9, trows t2 with
    | true, [] =>
        (* after fix F9: with an empty right table every left row is NULL-extended instead of being multiplied away *)
        Ok (LojTable (mkTable (add_all (tb t) (tb t2)) (map (fun r => extend_row r (add_all (tb t) (tb t2))) (trows t))))
    | _, _ => match dot_product t t2 with
              | Ok t' => Ok (LojTable t')
              | Err e => Err e
              | Panic s => Panic s
              end
    end
  else Ok LojRange.
