(* C03 composition, part 2: processClause = spec_step, processGraphPattern = spec_solutions, Execute = spec_select,
   for patterns in the supported fragment D3, row by row up to zone equivalence. *)
From Coq Require Import List Bool ZArith.
Import ListNotations.
From BWPlanner Require Import Terms Rows Clause Store Fetch Plan PatternSpec RowsProofs FetchProofs PlanProofs SpecSound Equiv Canon Domain Uniform Compose.

(* ---------- binding names *)
Lemma dedup_In : forall l k, In k (dedup l) <-> In k l.
Proof.
  induction l as [|x l IH]; intros k; cbn; [tauto|].
  destruct (mem x l) eqn:E.
  - rewrite IH. split; [auto|]. intros [<-|H]; [apply mem_In; exact E|exact H].
  - cbn. rewrite IH. tauto.
Qed.

Lemma add_all_In : forall l acc k, In k (add_all acc l) <-> In k acc \/ In k l.
Proof.
  induction l as [|x l IH]; intros acc k; cbn; [tauto|].
  destruct (mem x acc) eqn:E.
  - rewrite IH. split; [tauto|]. intros [H|[<-|H]]; auto. left. apply mem_In. exact E.
  - rewrite IH, in_app_iff. cbn. tauto.
Qed.

Lemma binder_names : forall c k, In k (map fst (binders c)) -> In k (clause_bindings c) /\ k <> [].
Proof.
  intros c k H. apply in_map_iff in H. destruct H as [[k' x] [E H]]. cbn in E. subst k'.
  unfold binders in H. apply filter_In in H. destruct H as [Hin Hne]. cbn in Hne. apply negb_true_iff in Hne.
  apply is_empty_false in Hne. split; [|exact Hne].
  unfold clause_bindings. apply dedup_In. unfold nonempty. apply filter_In. split.
  - cbn in Hin. cbn.
    repeat (destruct Hin as [E|Hin]; [inversion E; subst; auto 25|]). destruct Hin.
  - apply negb_true_iff. apply is_empty_false. exact Hne.
Qed.

Lemma clause_binding_nonempty : forall c k, In k (clause_bindings c) -> k <> [].
Proof.
  intros c k H. unfold clause_bindings in H. apply (proj1 (dedup_In _ _)) in H. unfold nonempty in H. apply filter_In in H.
  destruct H as [_ H]. apply negb_true_iff in H. apply is_empty_false. exact H.
Qed.

(* without bound aliases every binding of a clause is filled by tripleToRow *)
Lemma clause_bindings_binders : forall c k, d3c c -> In k (clause_bindings c) -> In k (map fst (binders c)).
Proof.
  intros c k D H. pose proof (clause_binding_nonempty c k H) as Hne.
  unfold clause_bindings in H. apply (proj1 (dedup_In _ _)) in H. unfold nonempty in H. apply filter_In in H. destruct H as [Hin _].
  pose proof (d_nb c D) as Hnb. unfold no_bounds in Hnb.
  apply andb_prop in Hnb. destruct Hnb as [Hnb _]. apply andb_prop in Hnb. destruct Hnb as [Hnb _].
  apply andb_prop in Hnb. destruct Hnb as [Hlo Hup]. apply is_empty_true in Hlo. apply is_empty_true in Hup.
  destruct (d_onb c D) as [Holo Houp].
  assert (G : forall x, In (k, x) [(cSB c, XSubj); (cSA c, XSubj); (cSTy c, XSType); (cSId c, XSId);
             (cPB c, XPred); (cPA c, XPred); (cPIdA c, XPId); (cPAncB c, XPAnchor); (cPAncA c, XPAnchor);
             (cOB c, XObj); (cOA c, XObj); (cOTy c, XOType); (cOIdA c, XOId); (cOAncB c, XOAnchor); (cOAncA c, XOAnchor)] ->
            In k (map fst (binders c))).
  { intros x Hx. apply in_map_iff. exists (k, x). split; [reflexivity|]. apply in_binders; assumption. }
  cbn in Hin. rewrite Hlo, Hup, Holo, Houp in Hin.
  repeat (destruct Hin as [E|Hin]; [try (subst k; congruence); subst k; eapply G; cbn; eauto 20|]). destruct Hin.
Qed.

(* ---------- keys of the specification's rows: exactly the bindings seen so far *)
Definition keys_in (bs : list str) (r : row) : Prop :=
  (forall k, get r k <> None -> In k bs) /\ get r [] = None /\ (forall k, In k bs -> get r k <> None).

Lemma keys_get : forall r k, In k (keys r) -> get r k <> None.
Proof.
  induction r as [|[k' v'] r IH]; intros k H; [destruct H|]. cbn. destruct (str_eqb k k') eqn:Ek; [discriminate|].
  destruct H as [H|H]; [cbn in H; subst; rewrite str_eqb_refl in Ek; discriminate|]. apply IH. exact H.
Qed.

Lemma spec_row_keys : forall c glo t r k, d3c c -> spec_row c glo t = Some r -> get r k <> None -> In k (map fst (binders c)).
Proof.
  intros c glo t r k D H G. rewrite (spec_row_brow c glo t) in H. destruct (consts_ok c glo t); [|discriminate].
  unfold sbrow in H. destruct (spec_bind_facts _ _ _ _ _ H) as [_ [_ Hd]]. destruct (Hd k G) as [X|X]; [cbn in X; congruence|exact X].
Qed.

Lemma spec_row_full : forall c glo t r k, d3c c -> spec_row c glo t = Some r -> In k (map fst (binders c)) -> get r k <> None.
Proof.
  intros c glo t r k D H G. rewrite (spec_row_brow c glo t) in H. destruct (consts_ok c glo t); [|discriminate].
  unfold sbrow in H. destruct (spec_bind_facts _ _ _ _ _ H) as [Hb _].
  apply in_map_iff in G. destruct G as [[k' x] [E Hin]]. cbn in E. subst k'.
  destruct (Hb k x Hin) as [v [w [_ [Gw _]]]]. congruence.
Qed.

Lemma spec_extend_in : forall c glo gs mu x, In x (spec_extend c glo gs mu) ->
  exists t r, spec_row c glo t = Some r /\ compat_equiv mu r = true /\ x = merge_rows mu r.
Proof.
  intros c glo gs mu x H. unfold spec_extend in H.
  apply in_flat_map in H. destruct H as [g [_ H]]. apply in_flat_map in H. destruct H as [t [_ H]].
  destruct (spec_row c glo t) as [r|] eqn:E; [|destruct H].
  destruct (row_bounds_ok c mu t && compat_equiv mu r) eqn:C0; [|destruct H]. destruct H as [<-|[]].
  apply andb_prop in C0. destruct C0 as [_ C]. exists t, r. auto.
Qed.

Lemma spec_extend_keys : forall c glo gs mu bs x, d3c c -> keys_in bs mu -> In x (spec_extend c glo gs mu) ->
  keys_in (add_all bs (clause_bindings c)) x.
Proof.
  intros c glo gs mu bs x D [Hk [Hn Hf]] H. destruct (spec_extend_in _ _ _ _ _ H) as [t [r [Hr [_ ->]]]]. split; [|split].
  - intros k G. rewrite get_merge in G. apply add_all_In. destruct (get mu k) eqn:Gm.
    + left. apply Hk. congruence.
    + right. apply binder_names. eapply spec_row_keys; eauto.
  - rewrite get_merge, Hn. destruct (get r []) eqn:G; [|reflexivity].
    exfalso. assert (In [] (map fst (binders c))) as I by (eapply spec_row_keys; eauto; congruence).
    apply binder_names in I. destruct I as [_ I]. congruence.
  - intros k Hin. apply add_all_In in Hin. rewrite get_merge. destruct (get mu k) eqn:Gm; [discriminate|].
    destruct Hin as [Hin|Hin]; [exfalso; apply (Hf k Hin); exact Gm|].
    eapply spec_row_full; eauto. apply clause_bindings_binders; assumption.
Qed.

Lemma null_ext_keys : forall c mu bs, keys_in bs mu ->
  keys_in (add_all bs (clause_bindings c))
          (merge_rows mu (map (fun k => (k, CNull)) (filter (fun k => negb (has mu k)) (clause_bindings c)))).
Proof.
  intros c mu bs [Hk [Hn Hf]]. split; [|split].
  - intros k G. rewrite get_merge in G. apply add_all_In. destruct (get mu k) eqn:Gm; [left; apply Hk; congruence|].
    right. rewrite get_null_map in G. destruct (mem k _) eqn:M; [|congruence]. apply mem_In in M. apply filter_In in M. apply M.
  - rewrite get_merge, Hn, get_null_map. destruct (mem [] _) eqn:M; [|reflexivity].
    apply mem_In in M. apply filter_In in M. destruct M as [M _]. apply clause_binding_nonempty in M. congruence.
  - intros k Hin. apply add_all_In in Hin. rewrite get_merge. destruct (get mu k) eqn:Gm; [discriminate|].
    destruct Hin as [Hin|Hin]; [exfalso; apply (Hf k Hin); exact Gm|].
    rewrite get_null_map.
    assert (mem k (filter (fun k0 => negb (has mu k0)) (clause_bindings c)) = true) as ->; [|discriminate].
    apply mem_In. apply filter_In. split; [exact Hin|]. unfold has. rewrite Gm. reflexivity.
Qed.

Lemma spec_one_keys : forall glo gs c mu bs x, d3c c -> keys_in bs mu -> In x (spec_one glo gs c mu) ->
  keys_in (add_all bs (clause_bindings c)) x.
Proof.
  intros glo gs c mu bs x D K H. unfold spec_one in H. destruct (spec_extend c glo gs mu) as [|y l] eqn:E.
  - destruct (c_opt c); [|destruct H]. destruct H as [<-|[]]. apply null_ext_keys. exact K.
  - eapply spec_extend_keys; eauto. rewrite E. exact H.
Qed.

(* ---------- an empty row specialises nothing *)
Lemma specialise_nil : forall e c, specialise e c [] = c.
Proof.
  intros e c. unfold specialise, spec_S, spec_P, spec_P_anchor, spec_O, spec_O_anchor, bound_value. cbn [get].
  destruct c as [opt s sb sa sty sid p pid_ pb pa pida pancb panca plo pup ploa pupa ptemp o ob oa oid_ oty oida oancb oanca olo oup oloa oupa otemp].
  unfold with_SPO. cbn.
  destruct s, p, o; cbn; try reflexivity;
    repeat match goal with |- context [if ?b then _ else _] => destruct b end; reflexivity.
Qed.

Lemma merge_nil_l : forall r, merge_rows [] r = r.
Proof.
  intros r. unfold merge_rows. cbn. induction r as [|kv r IH]; cbn; [reflexivity|]. f_equal. exact IH.
Qed.

Lemma compatible_nil : forall r, compatible [] r = true.
Proof. intros r. unfold compatible. apply forallb_forall. intros kv _. reflexivity. Qed.

Lemma filter_true : forall {A} (f : A -> bool) l, (forall x, f x = true) -> filter f l = l.
Proof. intros A f l H. induction l as [|x l IH]; cbn; [reflexivity|]. rewrite H, IH. reflexivity. Qed.

Lemma Forall2_in_l : forall {A B} (R : A -> B -> Prop) l l' x, Forall2 R l l' -> In x l -> exists y, In y l' /\ R x y.
Proof.
  intros A B R l l' x H. induction H; intros Hin; [destruct Hin|].
  destruct Hin as [<-|Hin]; [exists y; split; [left; reflexivity|assumption]|].
  destruct (IHForall2 Hin) as [y' [A1 A2]]. exists y'. split; [right; assumption|assumption].
Qed.

Lemma Forall2_map2 : forall {A B} (R : B -> B -> Prop) (f g : A -> B) (S : A -> A -> Prop) l l',
  Forall2 S l l' -> (forall a b, S a b -> R (f a) (g b)) -> Forall2 R (map f l) (map g l').
Proof. intros A B R f g S l l' H Hfg. induction H; cbn; constructor; auto. Qed.

(* ---------- list facts behind the NULL extension of LeftOptionalJoin *)
Lemma dedup_NoDup : forall l, NoDup (dedup l).
Proof.
  induction l as [|x l IH]; cbn; [constructor|]. destruct (mem x l) eqn:E; [exact IH|].
  constructor; [|exact IH]. intro H. apply (proj1 (dedup_In _ _)) in H. apply (proj2 (mem_In _ _)) in H. congruence.
Qed.

Lemma dedup_id : forall l, NoDup l -> dedup l = l.
Proof.
  induction l as [|x l IH]; intros H; [reflexivity|]. inversion H; subst. cbn.
  destruct (mem x l) eqn:E; [apply (proj1 (mem_In _ _)) in E; contradiction|]. rewrite IH by assumption. reflexivity.
Qed.

Lemma add_all_disjoint : forall l acc, NoDup l -> (forall x, In x l -> ~ In x acc) -> add_all acc l = acc ++ l.
Proof.
  induction l as [|x l IH]; intros acc Hnd Hdis; cbn; [rewrite app_nil_r; reflexivity|]. inversion Hnd; subst.
  destruct (mem x acc) eqn:E; [apply (proj1 (mem_In _ _)) in E; exfalso; apply (Hdis x); [left; reflexivity|exact E]|].
  rewrite IH; [rewrite <- app_assoc; reflexivity|assumption|].
  intros y Hy Hin. apply in_app_iff in Hin. destruct Hin as [Hin|[<-|[]]]; [apply (Hdis y); [right; exact Hy|exact Hin]|contradiction].
Qed.

Lemma filter_dedup_app : forall (p : str -> bool) a b, (forall x, In x a -> p x = false) -> NoDup b ->
  filter p (dedup (a ++ b)) = filter p b.
Proof.
  intros p a b Hp Hb. induction a as [|x a IH]; cbn [app].
  - rewrite dedup_id by exact Hb. reflexivity.
  - cbn [dedup]. destruct (mem x (a ++ b)).
    + apply IH. intros y Hy. apply Hp. right. exact Hy.
    + cbn [filter]. rewrite (Hp x (or_introl eq_refl)). apply IH. intros y Hy. apply Hp. right. exact Hy.
Qed.

Lemma filter_null_idem : forall (mu : row) l,
  filter (fun kv : str * cell => negb (has mu (fst kv))) (map (fun k => (k, CNull)) (filter (fun k => negb (has mu k)) l)) =
  map (fun k => (k, CNull)) (filter (fun k => negb (has mu k)) l).
Proof.
  intros mu l. induction l as [|x l IH]; cbn; [reflexivity|]. destruct (has mu x) eqn:E; cbn; [exact IH|].
  rewrite E. cbn. rewrite IH. reflexivity.
Qed.

Section Step.
  Variables (e : cfg) (gs : list graph) (glo : lopts).
  Hypotheses (Hks : ks e = true) (Hsl : strlit_invalid e = false) (H9 : fix9 e = true) (H14 : fix14 e = true)
             (Hoid : fixoid e = true) (Hsb : fixsb e = true) (Hz : fixzone e = true) (Hs3 : fixs3 e = true)
             (Hnd : forallb graph_nodup gs = true).

  (* the unspecialised fetch *)
  Lemma fetch_spec_extend : forall c, d3c c ->
    exists F, simple_fetch e gs c glo = Ok F /\ Forall2 row_equiv F (spec_extend c glo gs []).
  Proof.
    intros c D.
    destruct (fetch_filtered e gs glo c [] [] D Hks Hoid Hsb Hz Hnd eq_refl (row_equiv_refl [])) as [F [EF HF]].
    rewrite specialise_nil in EF. exists F. split; [exact EF|].
    rewrite (filter_true (compatible []) F compatible_nil) in HF.
    rewrite (map_ext (merge_rows []) (fun r => r) merge_nil_l), map_id in HF. exact HF.
  Qed.

  (* rows whose keys avoid the clause's names: every match is compatible *)
  Lemma spec_extend_disjoint : forall c mu, d3c c -> (forall k, get mu k <> None -> ~ In k (map fst (binders c))) ->
    spec_extend c glo gs mu = map (merge_rows mu) (spec_extend c glo gs []).
  Proof.
    intros c mu D Hdis. unfold spec_extend. rewrite !flat_map_concat_map, concat_map, map_map. f_equal.
    apply map_ext. intros g. rewrite !flat_map_concat_map, concat_map, map_map. f_equal. apply map_ext. intros t.
    destruct (spec_row c glo t) as [r|] eqn:E; [|reflexivity].
    assert (C1 : compat_equiv mu r = true).
    { unfold compat_equiv. apply forallb_forall. intros [k w] Hin. cbn.
      destruct (get mu k) eqn:G; [|reflexivity]. exfalso. apply (Hdis k); [congruence|].
      eapply spec_row_keys; eauto. apply keys_get. apply in_map_iff. exists (k, w). auto. }
    assert (C0 : compat_equiv [] r = true) by (apply compatible_nil).
    rewrite C1, C0, !(rbo_true c _ t D). cbn -[merge_rows]. rewrite merge_nil_l. reflexivity.
  Qed.

  Definition inv (bs : list str) (mus : list row) : Prop := forall mu, In mu mus -> keys_in bs mu.

  (* specifyClauseWithTable over related tables *)
  Lemma specify_spec : forall c rows mus bs, d3c c -> Forall2 row_equiv rows mus -> inv bs mus ->
    exists out, specify_rows e gs glo c rows = Ok out /\ Forall2 row_equiv out (flat_map (spec_one glo gs c) mus).
  Proof.
    intros c rows mus bs D H. induction H as [|r mu rows mus Hr H IH]; intros Hinv.
    - exists []. split; [reflexivity|constructor].
    - assert (Hn : get r [] = None).
      { destruct (Hinv mu (or_introl eq_refl)) as [_ [Hn' _]]. pose proof (get_equiv r mu [] Hr) as G. rewrite Hn' in G.
        inversion G. reflexivity. }
      destruct (asd_spec e gs glo c r mu D Hks Hsl H14 Hoid Hsb Hz Hnd Hn Hr) as [rs [E1 F1]].
      destruct IH as [out [E2 F2]]; [intros m Hm; apply Hinv; right; exact Hm|].
      cbn [specify_rows]. rewrite E1. cbn [bind]. rewrite E2. cbn [bind]. eexists. split; [reflexivity|].
      cbn. apply Forall2_app; assumption.
  Qed.

  (* LeftOptionalJoin's NULL extension of a row = the specification's *)
  Lemma extend_row_spec : forall c t r mu, d3c c -> tb t <> [] ->
    filter (fun b => mem b (tb t)) (clause_bindings c) = [] ->
    row_equiv r mu -> keys_in (tb t) mu ->
    row_equiv (extend_row r (add_all (tb t) (clause_bindings c)))
              (merge_rows mu (map (fun k => (k, CNull)) (filter (fun k => negb (has mu k)) (clause_bindings c)))).
  Proof.
    intros c t r mu D Hne Eex Hr [Hk [Hn Hf]]. unfold extend_row, merge_rows. apply Forall2_app; [exact Hr|].
    rewrite filter_null_idem.
    assert (Hcb : NoDup (clause_bindings c)) by (apply dedup_NoDup).
    assert (Hdis : forall x, In x (clause_bindings c) -> ~ In x (tb t)).
    { intros x Hx Hin. pose proof (filter_nil_forall _ _ Eex x Hx) as Hfx. cbn in Hfx. apply mem_false_not_In in Hfx. contradiction. }
    rewrite (add_all_disjoint _ _ Hcb Hdis).
    rewrite (filter_dedup_app (fun k => negb (has r k)) (tb t) (clause_bindings c)); [|intros x Hx|exact Hcb].
    - rewrite (filter_ext (fun k => negb (has r k)) (fun k => negb (has mu k))) by (intros k; rewrite (has_equiv r mu k Hr); reflexivity).
      apply row_equiv_refl.
    - rewrite (has_equiv r mu x Hr). unfold has. destruct (get mu x) eqn:G; [reflexivity|]. exfalso. apply (Hf x Hx). exact G.
  Qed.

  (* ---------- processClause on a table that already has bindings *)
  Lemma process_clause_spec : forall c t mus, d3c c -> tb t <> [] ->
    Forall2 row_equiv (trows t) mus -> inv (tb t) mus ->
    exists t', process_clause e gs glo c t = Ok (false, t') /\
               Forall2 row_equiv (trows t') (spec_step glo gs c mus) /\
               inv (tb t') (spec_step glo gs c mus) /\ tb t' <> [].
  Proof.
    intros c t mus D Hne Hrows Hinv.
    assert (Hgen : process_clause e gs glo c t = process_general e gs glo c t).
    { unfold process_clause. destruct (specificity3 c) eqn:E3; [|reflexivity].
      destruct (d_spec3 c D) as [X|Ha]; [congruence|]. rewrite Ha, Hs3. cbn [negb andb orb]. rewrite andb_false_r. cbn [orb].
      destruct (tb t); [congruence|reflexivity]. }
    rewrite Hgen. unfold process_general.
    rewrite (spec_step_one glo gs c mus).
    assert (Hinv' : inv (add_all (tb t) (clause_bindings c)) (flat_map (spec_one glo gs c) mus)).
    { intros x Hx. apply in_flat_map in Hx. destruct Hx as [mu [Hmu Hx]]. eapply spec_one_keys; eauto. }
    assert (Hne' : add_all (tb t) (clause_bindings c) <> []).
    { destruct (tb t) as [|b0 bs0] eqn:Eb; [congruence|]. intro X.
      assert (In b0 (add_all (b0 :: bs0) (clause_bindings c))) by (apply add_all_In; left; left; reflexivity).
      rewrite X in H. destruct H. }
    destruct (filter (fun b => mem b (tb t)) (clause_bindings c)) as [|b1 ex] eqn:Eex.
    - (* no binding of the clause is in the table: fetch, then the product / the left optional join *)
      destruct (fetch_spec_extend c D) as [F [EF HF]]. rewrite EF. cbn [bind].
      assert (Hdisj : disjoint (tb t) (clause_bindings c) = true) by (apply disjoint_sym_from_filter; exact Eex).
      assert (Hkeys : forall mu, In mu mus -> forall k, get mu k <> None -> ~ In k (map fst (binders c))).
      { intros mu Hmu k G Hin. destruct (Hinv mu Hmu) as [Hk _].
        pose proof (Hk k G) as Hin_tb. apply binder_names in Hin. destruct Hin as [Hcb _].
        pose proof (filter_nil_forall _ _ Eex k Hcb) as Hf. cbn in Hf. apply mem_false_not_In in Hf. contradiction. }
      (* the product rows, shared by both branches *)
      assert (Hprod : F <> [] ->
                Forall2 row_equiv (flat_map (fun r1 => map (fun r2 => merge_rows r1 r2) F) (trows t))
                                  (flat_map (spec_one glo gs c) mus)).
      { intros HFne. clear Hinv' Hne'. revert Hinv Hkeys. induction Hrows as [|r mu rows mus Hr Hrows IH]; intros Hinv Hkeys; cbn; [constructor|].
        apply Forall2_app; [|apply IH; [intros m Hm; apply Hinv; right; exact Hm|intros m Hm; apply Hkeys; right; exact Hm]].
        unfold spec_one. rewrite (spec_extend_disjoint c mu D (Hkeys mu (or_introl eq_refl))).
        assert (Hm : Forall2 row_equiv (map (merge_rows r) F) (map (merge_rows mu) (spec_extend c glo gs []))).
        { apply (Forall2_map2 row_equiv (merge_rows r) (merge_rows mu) row_equiv F _ HF). intros a b Hab. apply merge_equiv; assumption. }
        destruct (map (merge_rows mu) (spec_extend c glo gs [])) as [|y l] eqn:E0; [|exact Hm].
        inversion Hm as [Em|]. destruct F; [congruence|discriminate Em]. }
      destruct (tb t) as [|b0 bs0] eqn:Eb; [congruence|]. rewrite <- Eb in *.
      destruct (c_opt c) eqn:Eopt.
      + (* OPTIONAL: Table.LeftOptionalJoin *)
        unfold left_optional_join. cbn [tb trows].
        assert (Hss : same_set (tb t) (clause_bindings c) = false).
        { unfold same_set. apply andb_false_iff. left. unfold subset. rewrite Eb. cbn [forallb].
          unfold disjoint in Hdisj. rewrite Eb in Hdisj. cbn [forallb] in Hdisj. apply andb_prop in Hdisj. destruct Hdisj as [Hd _].
          apply negb_true_iff in Hd. rewrite Hd. reflexivity. }
        rewrite Hss, Hdisj, H9.
        destruct (clause_bindings c) as [|cb0 cbs] eqn:Ecb.
        { exfalso. pose proof (d_ne c D) as Hb. destruct (binders c) as [|[k x] bs] eqn:Ebs; [congruence|].
          assert (In k (clause_bindings c)) as I by (apply binder_names; rewrite Ebs; left; reflexivity). rewrite Ecb in I. destruct I. }
        rewrite <- Ecb in *. cbn [orb].
        destruct F as [|f0 F'] eqn:EF0.
        * (* the clause matched nothing: every row is NULL-extended *)
          eexists. split; [reflexivity|]. cbn [tb trows]. split; [|split; assumption].
          assert (E0 : spec_extend c glo gs [] = []) by (inversion HF; reflexivity).
          clear Hinv' Hne' Hprod. revert Hinv Hkeys. induction Hrows as [|r mu rows mus Hr Hrows IH]; intros Hinv Hkeys; cbn; [constructor|].
          unfold spec_one at 1. rewrite (spec_extend_disjoint c mu D (Hkeys mu (or_introl eq_refl))), E0, Eopt. cbn [map app].
          constructor; [|apply IH; [intros m Hm; apply Hinv; right; exact Hm|intros m Hm; apply Hkeys; right; exact Hm]].
          apply (extend_row_spec c t r mu D Hne Eex Hr). apply Hinv. left. reflexivity.
        * unfold dot_product. cbn [tb trows]. rewrite Hdisj.
          eexists. split; [reflexivity|]. cbn [tb trows]. split; [|split; assumption].
          apply Hprod. discriminate.
      + unfold dot_product, lift_table. cbn [tb trows]. rewrite Hdisj.
        eexists. split; [reflexivity|]. cbn [tb trows]. split; [|split; assumption].
        destruct F as [|f0 F'] eqn:EF0; [|apply Hprod; discriminate].
        (* no match at all: the product is empty, and so is the conjunctive step *)
        assert (E0 : spec_extend c glo gs [] = []) by (inversion HF; reflexivity).
        assert (Z : flat_map (fun _ : row => @nil row) (trows t) = []) by (apply flat_map_nil).
        cbn [map]. rewrite Z.
        assert (Z' : flat_map (spec_one glo gs c) mus = []).
        { clear -E0 Eopt Hkeys D. induction mus as [|mu mus IH]; [reflexivity|]. cbn.
          unfold spec_one at 1. rewrite (spec_extend_disjoint c mu D (Hkeys mu (or_introl eq_refl))), E0, Eopt. cbn.
          apply IH. intros m Hm. apply Hkeys. right. exact Hm. }
        rewrite Z'. constructor.
    - (* some binding is shared: one addSpecifiedData per row *)
      destruct (specify_spec c (trows t) mus (tb t) D Hrows Hinv) as [out [Eo Fo]].
      unfold lift_table. rewrite Eo. eexists. split; [reflexivity|]. cbn [tb trows]. split; [exact Fo|].
      destruct (trows t) as [|r0 rs0] eqn:Er.
      + inversion Hrows; subst. cbn. split; [intros x []|exact Hne].
      + split; assumption.
  Qed.

  (* ---------- the first clause (never OPTIONAL; empty table, unit of the join on the specification side) *)
  Lemma first_clause_spec : forall c, d3c c -> c_opt c = false -> specificity3 c = false ->
    exists t', process_clause e gs glo c empty_table = Ok (false, t') /\
               Forall2 row_equiv (trows t') (spec_step glo gs c [[]]) /\
               inv (tb t') (spec_step glo gs c [[]]) /\ tb t' <> [].
  Proof.
    intros c D Hopt H3. unfold process_clause. rewrite H3. unfold process_general. cbn [tb trows empty_table filter].
    assert (E0 : filter (fun b => mem b []) (clause_bindings c) = []).
    { induction (clause_bindings c) as [|x l IH]; cbn; auto. }
    rewrite E0. destruct (fetch_spec_extend c D) as [F [EF HF]]. rewrite EF. cbn [bind].
    rewrite Hopt, andb_false_r. cbn [andb].
    unfold append_table, lift_table. cbn [tb trows app].
    rewrite (spec_step_one glo gs c [[]]). cbn [flat_map]. rewrite app_nil_r.
    assert (Hone : spec_one glo gs c [] = spec_extend c glo gs []).
    { unfold spec_one. rewrite Hopt. destruct (spec_extend c glo gs []); reflexivity. }
    rewrite Hone.
    eexists. split; [reflexivity|]. cbn [tb trows]. split; [exact HF|]. split.
    - intros x Hx. assert (keys_in (add_all [] (clause_bindings c)) x) as [K1 [K2 K3]].
      { eapply spec_extend_keys; eauto. split; [intros k G; cbn in G; congruence|split; [reflexivity|intros k []]]. }
      split; [|split; [exact K2|]].
      + intros k G. apply K1 in G. apply add_all_In in G. destruct G as [[]|G]. exact G.
      + intros k Hk. apply K3. apply add_all_In. right. exact Hk.
    - pose proof (d_ne c D) as Hb. destruct (binders c) as [|[k x] bs] eqn:Eb; [congruence|].
      assert (In k (clause_bindings c)) as I by (apply binder_names; rewrite Eb; left; reflexivity).
      intro X. rewrite X in I. destruct I.
  Qed.

  (* ---------- processGraphPattern *)
  Lemma process_pattern_spec : forall cs t mus, Forall d3c cs -> tb t <> [] ->
    Forall2 row_equiv (trows t) mus -> inv (tb t) mus ->
    exists t', process_pattern e gs glo cs t = Ok t' /\
               Forall2 row_equiv (trows t') (fold_left (fun m c => spec_step glo gs c m) cs mus).
  Proof.
    induction cs as [|c cs IH]; intros t mus HD Hne Hrows Hinv.
    - exists t. split; [reflexivity|exact Hrows].
    - inversion HD as [|? ? Dc Dcs]; subst.
      destruct (process_clause_spec c t mus Dc Hne Hrows Hinv) as [t1 [E1 [R1 [I1 N1]]]].
      cbn [process_pattern fold_left]. rewrite E1. cbn [bind fst snd].
      apply IH; assumption.
  Qed.

  (* the planner's table after the whole pattern = the specification's sequence of steps: conjunctive step for plain
     clauses, left outer join with NULL extension for OPTIONAL ones *)
  Theorem pattern_is_solutions : forall c cs, Forall d3c (c :: cs) -> c_opt c = false -> specificity3 c = false ->
    exists t', process_pattern e gs glo (c :: cs) empty_table = Ok t' /\
               Forall2 row_equiv (trows t') (spec_solutions glo gs (c :: cs)).
  Proof.
    intros c cs HD Hopt H3. inversion HD as [|? ? Dc Dcs]; subst.
    destruct (first_clause_spec c Dc Hopt H3) as [t1 [E1 [R1 [I1 N1]]]].
    cbn [process_pattern]. rewrite E1. cbn [bind fst snd].
    unfold spec_solutions. cbn [fold_left]. apply process_pattern_spec; assumption.
  Qed.
End Step.
