(* C03 composition, part 2: processClause = spec_step, processGraphPattern = spec_solutions, Execute = spec_select,
   for patterns in the supported fragment D3, row by row up to zone equivalence. *)
From Coq Require Import List Bool ZArith.
Import ListNotations.
From BWPlanner Require Import Terms Rows Clause Store Fetch Plan PatternSpec RowsProofs FetchProofs PlanProofs SpecSound Equiv Canon Domain Uniform Compose.

(* ---------- binding names *)
Lemma dedup_In : forall l k, In k (dedup l) <-> In k l.
Proof.
  induction l as [|x l IH]; intros k; cbn; [tauto|].
  destruct (mem x l) eqn:E.
  - rewrite IH. split; [auto|]. intros [<-|H]; [apply mem_In; exact E|exact H].
  - cbn. rewrite IH. tauto.
Qed.

Lemma add_all_In : forall l acc k, In k (add_all acc l) <-> In k acc \/ In k l.
Proof.
  induction l as [|x l IH]; intros acc k; cbn; [tauto|].
  destruct (mem x acc) eqn:E.
  - rewrite IH. split; [tauto|]. intros [H|[<-|H]]; auto. left. apply mem_In. exact E.
  - rewrite IH, in_app_iff. cbn. tauto.
Qed.

Lemma binder_names : forall c k, In k (map fst (binders c)) -> In k (clause_bindings c) /\ k <> [].
Proof.
  intros c k H. apply in_map_iff in H. destruct H as [[k' x] [E H]]. cbn in E. subst k'.
  unfold binders in H. apply filter_In in H. destruct H as [Hin Hne]. cbn in Hne. apply negb_true_iff in Hne.
  apply is_empty_false in Hne. split; [|exact Hne].
  unfold clause_bindings. apply dedup_In. unfold nonempty. apply filter_In. split.
  - cbn in Hin. cbn.
    repeat (destruct Hin as [E|Hin]; [inversion E; subst; auto 25|]). destruct Hin.
  - apply negb_true_iff. apply is_empty_false. exact Hne.
Qed.

(* ---------- keys of the specification's rows *)
Definition keys_in (bs : list str) (r : row) : Prop := (forall k, get r k <> None -> In k bs) /\ get r [] = None.

Lemma brow_get_none : forall bs t r k, brow bs t = Some r -> ~ In k (map fst bs) -> get r k = None.
Proof.
  intros bs t r k B H. destruct (get r k) eqn:G; [|reflexivity]. exfalso. apply H.
  rewrite <- (brow_keys bs t r B). eapply get_in_keys. exact G.
Qed.

Lemma spec_row_keys : forall c glo t r k, d3c c -> spec_row c glo t = Some r -> get r k <> None -> In k (map fst (binders c)).
Proof.
  intros c glo t r k D H G. rewrite (spec_row_brow c glo t D) in H. destruct (consts_ok c glo t); [|discriminate].
  destruct (in_dec str_eq_dec k (map fst (binders c))) as [I|I]; [exact I|].
  exfalso. apply G. eapply brow_get_none; eauto.
Qed.

Lemma spec_extend_in : forall c glo gs mu x, In x (spec_extend c glo gs mu) ->
  exists t r, spec_row c glo t = Some r /\ compat_equiv mu r = true /\ x = merge_rows mu r.
Proof.
  intros c glo gs mu x H. unfold spec_extend in H.
  apply in_flat_map in H. destruct H as [g [_ H]]. apply in_flat_map in H. destruct H as [t [_ H]].
  destruct (spec_row c glo t) as [r|] eqn:E; [|destruct H].
  destruct (compat_equiv mu r) eqn:C; [|destruct H]. destruct H as [<-|[]]. exists t, r. auto.
Qed.

Lemma spec_extend_keys : forall c glo gs mu bs x, d3c c -> keys_in bs mu -> In x (spec_extend c glo gs mu) ->
  keys_in (add_all bs (clause_bindings c)) x.
Proof.
  intros c glo gs mu bs x D [Hk Hn] H. destruct (spec_extend_in _ _ _ _ _ H) as [t [r [Hr [_ ->]]]]. split.
  - intros k G. rewrite get_merge in G. apply add_all_In. destruct (get mu k) eqn:Gm.
    + left. apply Hk. congruence.
    + right. apply binder_names. eapply spec_row_keys; eauto.
  - rewrite get_merge, Hn. destruct (get r []) eqn:G; [|reflexivity].
    exfalso. assert (In [] (map fst (binders c))) as I by (eapply spec_row_keys; eauto; congruence).
    apply binder_names in I. destruct I as [_ I]. congruence.
Qed.

Lemma spec_step_flat : forall glo gs c mus, c_opt c = false ->
  spec_step glo gs c mus = flat_map (spec_extend c glo gs) mus.
Proof.
  intros glo gs c mus H. unfold spec_step. rewrite H. apply flat_map_ext. intros mu.
  destruct (spec_extend c glo gs mu); reflexivity.
Qed.

(* ---------- an empty row specialises nothing *)
Lemma specialise_nil : forall e c, specialise e c [] = c.
Proof.
  intros e c. unfold specialise, spec_S, spec_P, spec_P_anchor, spec_O, spec_O_anchor, bound_value. cbn [get].
  destruct c as [opt s sb sa sty sid p pid_ pb pa pida pancb panca plo pup ploa pupa ptemp o ob oa oid_ oty oida oancb oanca olo oup oloa oupa otemp].
  unfold with_SPO. cbn.
  destruct s, p, o; cbn; try reflexivity;
    repeat match goal with |- context [if ?b then _ else _] => destruct b end; reflexivity.
Qed.

Lemma merge_nil_l : forall r, merge_rows [] r = r.
Proof.
  intros r. unfold merge_rows. cbn. induction r as [|kv r IH]; cbn; [reflexivity|]. f_equal. exact IH.
Qed.

Lemma compatible_nil : forall r, compatible [] r = true.
Proof. intros r. unfold compatible. apply forallb_forall. intros kv _. reflexivity. Qed.

Lemma filter_true : forall {A} (f : A -> bool) l, (forall x, f x = true) -> filter f l = l.
Proof. intros A f l H. induction l as [|x l IH]; cbn; [reflexivity|]. rewrite H, IH. reflexivity. Qed.

Section Step.
  Variables (e : cfg) (gs : list graph) (glo : lopts).
  Hypotheses (Hks : ks e = true) (Hsl : strlit_invalid e = false) (H14 : fix14 e = true) (Hoid : fixoid e = true)
             (Hsb : fixsb e = true) (Hnd : forallb graph_nodup gs = true).

  (* the unspecialised fetch *)
  Lemma fetch_spec_extend : forall c, d3c c ->
    exists F, simple_fetch e gs c glo = Ok F /\ Forall2 row_equiv F (spec_extend c glo gs []).
  Proof.
    intros c D.
    destruct (asd_spec e gs glo c [] [] D Hks Hsl H14 Hoid Hsb Hnd eq_refl (row_equiv_refl [])) as [rows [Hr Hf]].
    rewrite (asd_eq e gs glo c [] (d_opt c D) (d_nb c D) Hsl H14), specialise_nil in Hr.
    destruct (simple_fetch e gs c glo) as [F|?|?]; cbn in Hr; try discriminate.
    exists F. split; [reflexivity|]. inversion Hr; subst.
    rewrite (filter_true (compatible []) F compatible_nil) in Hf.
    rewrite (map_ext (merge_rows []) (fun r => r) merge_nil_l), map_id in Hf. exact Hf.
  Qed.

  (* rows whose keys avoid the clause's names: every match is compatible *)
  Lemma spec_extend_disjoint : forall c mu, d3c c -> (forall k, get mu k <> None -> ~ In k (map fst (binders c))) ->
    spec_extend c glo gs mu = map (merge_rows mu) (spec_extend c glo gs []).
  Proof.
    intros c mu D Hdis. unfold spec_extend. rewrite !flat_map_concat_map, concat_map, map_map. f_equal.
    apply map_ext. intros g. rewrite !flat_map_concat_map, concat_map, map_map. f_equal. apply map_ext. intros t.
    destruct (spec_row c glo t) as [r|] eqn:E; [|reflexivity].
    assert (C1 : compat_equiv mu r = true).
    { unfold compat_equiv. apply forallb_forall. intros [k w] Hin. cbn.
      destruct (get mu k) eqn:G; [|reflexivity]. exfalso. apply (Hdis k); [congruence|].
      eapply spec_row_keys; eauto. intro X.
      assert (In k (keys r)) by (apply in_map_iff; exists (k, w); auto).
      (* k is a key of r, so get r k is defined *)
      clear -H X. induction r as [|[k' v'] r IH]; [destruct H|]. cbn in X. destruct (str_eqb k k') eqn:Ek; [discriminate|].
      destruct H as [H|H]; [cbn in H; subst; rewrite str_eqb_refl in Ek; discriminate|]. apply IH; assumption. }
    assert (C0 : compat_equiv [] r = true) by (apply compatible_nil).
    rewrite C1, C0. cbn -[merge_rows]. rewrite merge_nil_l. reflexivity.
  Qed.

  Definition inv (bs : list str) (mus : list row) : Prop := forall mu, In mu mus -> keys_in bs mu.

  Lemma Forall2_in_l : forall {A B} (R : A -> B -> Prop) l l' x, Forall2 R l l' -> In x l -> exists y, In y l' /\ R x y.
  Proof.
    intros A B R l l' x H. induction H; intros Hin; [destruct Hin|].
    destruct Hin as [<-|Hin]; [exists y; split; [left; reflexivity|assumption]|].
    destruct (IHForall2 Hin) as [y' [A1 A2]]. exists y'. split; [right; assumption|assumption].
  Qed.

  (* specifyClauseWithTable over related tables *)
  Lemma specify_spec : forall c rows mus bs, d3c c -> Forall2 row_equiv rows mus -> inv bs mus ->
    exists out, specify_rows e gs glo c rows = Ok out /\ Forall2 row_equiv out (flat_map (spec_extend c glo gs) mus).
  Proof.
    intros c rows mus bs D H. induction H as [|r mu rows mus Hr H IH]; intros Hinv.
    - exists []. split; [reflexivity|constructor].
    - assert (Hn : get r [] = None).
      { destruct (Hinv mu (or_introl eq_refl)) as [_ Hn']. pose proof (get_equiv r mu [] Hr) as G. rewrite Hn' in G.
        inversion G. reflexivity. }
      destruct (asd_spec e gs glo c r mu D Hks Hsl H14 Hoid Hsb Hnd Hn Hr) as [rs [E1 F1]].
      destruct IH as [out [E2 F2]]; [intros m Hm; apply Hinv; right; exact Hm|].
      cbn [specify_rows]. rewrite E1. cbn [bind]. rewrite E2. cbn [bind]. eexists. split; [reflexivity|].
      cbn. apply Forall2_app; assumption.
  Qed.

  Lemma Forall2_map2 : forall {A B} (R : B -> B -> Prop) (f g : A -> B) (S : A -> A -> Prop) l l',
    Forall2 S l l' -> (forall a b, S a b -> R (f a) (g b)) -> Forall2 R (map f l) (map g l').
  Proof. intros A B R f g S l l' H Hfg. induction H; cbn; constructor; auto. Qed.

  (* ---------- processClause on a table that already has bindings *)
  Lemma process_clause_spec : forall c t mus, d3c c -> tb t <> [] ->
    Forall2 row_equiv (trows t) mus -> inv (tb t) mus ->
    exists t', process_clause e gs glo c t = Ok (false, t') /\
               Forall2 row_equiv (trows t') (spec_step glo gs c mus) /\
               inv (tb t') (spec_step glo gs c mus) /\ tb t' <> [].
  Proof.
    intros c t mus D Hne Hrows Hinv. unfold process_clause. rewrite (d_spec3 c D).
    rewrite (spec_step_flat glo gs c mus (d_opt c D)).
    assert (Hinv' : inv (add_all (tb t) (clause_bindings c)) (flat_map (spec_extend c glo gs) mus)).
    { intros x Hx. apply in_flat_map in Hx. destruct Hx as [mu [Hmu Hx]].
      eapply spec_extend_keys; eauto. }
    assert (Hne' : add_all (tb t) (clause_bindings c) <> []).
    { destruct (tb t) as [|b0 bs0] eqn:Eb; [congruence|]. intro X.
      assert (In b0 (add_all (b0 :: bs0) (clause_bindings c))) by (apply add_all_In; left; left; reflexivity).
      rewrite X in H. destruct H. }
    destruct (filter (fun b => mem b (tb t)) (clause_bindings c)) as [|b1 ex] eqn:Eex.
    - (* no binding of the clause is in the table: fetch, then the product *)
      destruct (fetch_spec_extend c D) as [F [EF HF]]. rewrite EF. cbn [bind].
      destruct (tb t) as [|b0 bs0] eqn:Eb; [congruence|]. rewrite <- Eb in *.
      rewrite (d_opt c D). unfold dot_product, lift_table. cbn [tb trows].
      rewrite (disjoint_sym_from_filter _ _ Eex).
      eexists. split; [reflexivity|]. cbn [tb trows]. split; [|split; assumption].
      (* rows *)
      clear Hinv' Hne'. revert Hinv. induction Hrows as [|r mu rows mus Hr Hrows IH]; intros Hinv; cbn; [constructor|].
      apply Forall2_app; [|apply IH; intros m Hm; apply Hinv; right; exact Hm].
      rewrite (spec_extend_disjoint c mu D).
      + apply (Forall2_map2 row_equiv (merge_rows r) (merge_rows mu) row_equiv F _ HF).
        intros a b Hab. apply merge_equiv; assumption.
      + intros k G Hin. destruct (Hinv mu (or_introl eq_refl)) as [Hk _].
        pose proof (Hk k G) as Hin_tb. apply binder_names in Hin. destruct Hin as [Hcb _].
        pose proof (filter_nil_forall _ _ Eex k Hcb) as Hf. cbn in Hf. apply mem_false_not_In in Hf. contradiction.
    - (* some binding is shared: one addSpecifiedData per row *)
      destruct (specify_spec c (trows t) mus (tb t) D Hrows Hinv) as [out [Eo Fo]].
      unfold lift_table. rewrite Eo. eexists. split; [reflexivity|]. cbn [tb trows]. split; [exact Fo|].
      destruct (trows t) as [|r0 rs0] eqn:Er.
      + inversion Hrows; subst. cbn. split; [intros x []|exact Hne].
      + split; assumption.
  Qed.

  (* ---------- the first clause (empty table, unit of the join on the specification side) *)
  Lemma first_clause_spec : forall c, d3c c ->
    exists t', process_clause e gs glo c empty_table = Ok (false, t') /\
               Forall2 row_equiv (trows t') (spec_step glo gs c [[]]) /\
               inv (tb t') (spec_step glo gs c [[]]) /\ tb t' <> [].
  Proof.
    intros c D. unfold process_clause. rewrite (d_spec3 c D). cbn [tb trows empty_table filter].
    assert (E0 : filter (fun b => mem b []) (clause_bindings c) = []).
    { induction (clause_bindings c) as [|x l IH]; cbn; auto. }
    rewrite E0. destruct (fetch_spec_extend c D) as [F [EF HF]]. rewrite EF. cbn [bind].
    unfold append_table, lift_table. cbn [tb trows app].
    rewrite (spec_step_flat glo gs c [[]] (d_opt c D)). cbn [flat_map]. rewrite app_nil_r.
    eexists. split; [reflexivity|]. cbn [tb trows]. split; [exact HF|]. split.
    - intros x Hx. assert (keys_in (add_all [] (clause_bindings c)) x) as [K1 K2].
      { eapply spec_extend_keys; eauto. split; [intros k G; cbn in G; congruence|reflexivity]. }
      split; [|exact K2]. intros k G. apply K1 in G. apply add_all_In in G. destruct G as [[]|G]. exact G.
    - pose proof (d_ne c D) as Hb. destruct (binders c) as [|[k x] bs] eqn:Eb; [congruence|].
      assert (In k (clause_bindings c)) as I by (apply binder_names; rewrite Eb; left; reflexivity).
      intro X. rewrite X in I. destruct I.
  Qed.

  (* ---------- processGraphPattern *)
  Lemma process_pattern_spec : forall cs t mus, Forall d3c cs -> tb t <> [] ->
    Forall2 row_equiv (trows t) mus -> inv (tb t) mus ->
    exists t', process_pattern e gs glo cs t = Ok t' /\
               Forall2 row_equiv (trows t') (fold_left (fun m c => spec_step glo gs c m) cs mus).
  Proof.
    induction cs as [|c cs IH]; intros t mus HD Hne Hrows Hinv.
    - exists t. split; [reflexivity|exact Hrows].
    - inversion HD as [|? ? Dc Dcs]; subst.
      destruct (process_clause_spec c t mus Dc Hne Hrows Hinv) as [t1 [E1 [R1 [I1 N1]]]].
      cbn [process_pattern fold_left]. rewrite E1. cbn [bind fst snd].
      apply IH; assumption.
  Qed.

  Theorem pattern_is_solutions : forall c cs, Forall d3c (c :: cs) ->
    exists t', process_pattern e gs glo (c :: cs) empty_table = Ok t' /\
               Forall2 row_equiv (trows t') (spec_solutions glo gs (c :: cs)).
  Proof.
    intros c cs HD. inversion HD as [|? ? Dc Dcs]; subst.
    destruct (first_clause_spec c Dc) as [t1 [E1 [R1 [I1 N1]]]].
    cbn [process_pattern]. rewrite E1. cbn [bind fst snd].
    unfold spec_solutions. cbn [fold_left]. apply process_pattern_spec; assumption.
  Qed.
End Step.
