(* bql/planner/planner.go: processClause (three strategies), getBoundValueForComponent, addSpecifiedData,
   specifyClauseWithTable, cellToObject, processGraphPattern, projection and Execute for SELECT statements without
   GROUP BY / ORDER BY / HAVING / LIMIT / FILTER. *)
From Coq Require Import List Bool.
Import ListNotations.
From BWPlanner Require Import Terms Rows Clause Store Fetch.

(* getBoundValueForComponent(r, [b1, b2]) *)
Definition bound_value (e : cfg) (r : row) (b1 b2 : str) : option cell :=
  match get r b1, get r b2 with
  | Some v, None => Some v
  | None, Some v => Some v
  | Some v1, Some v2 => if same_value e v1 v2 then Some v1 else None
  | None, None => None
  end.

(* cellToObject; a string cell goes through literal.Parse(`"%s"^^type:string`): an error once F3 is fixed, an invalid
   object (all fields nil) before, which is dereferenced by the first lookup that hashes it *)
Inductive objres := ObjOk (o : obj) | ObjNone | ObjInvalid.

Definition cell_to_object (e : cfg) (v : cell) : objres :=
  match v with
  | CNode n => ObjOk (ONode n)
  | CPred p => ObjOk (OPred p)
  | CLit l => ObjOk (OLit l)
  | CStr _ => if strlit_invalid e then ObjInvalid else ObjNone
  | CNull => ObjNone
  | CTime _ => ObjNone
  end.

(* rows agree on every binding they share (compatibleRows / sameValue, added by fix F14) *)
Definition compatible (r nr : row) : bool :=
  forallb (fun kv => match get r (fst kv) with Some v => cell_equiv v (snd kv) | None => true end) nr.

Definition null_row (bs : list str) (r : row) : row :=
  map (fun k => (k, CNull)) (filter (fun k => negb (has r k)) bs).

(* addSpecifiedData works on a private copy of the clause and assigns S, P, O from the row, in this order:
   S from the subject binding / alias (a node);
   P from the anchor binding (a time, giving a temporal predicate with the clause's id), else from the predicate binding /
     alias (a predicate), and - only when the anchor did not give it - the time bounds are updated from the row;
   O likewise (anchor binding, else cellToObject of the object binding / alias), then the bounds again.
   updateTimeBoundsForRow reads only the bound fields of the clause, which are never assigned. *)
Definition spec_S (e : cfg) (c : clause) (r : row) : option node :=
  match cS c with
  | Some s => Some s
  | None => match bound_value e r (cSB c) (cSA c) with
            | Some (CNode n) => Some n
            | _ => None
            end
  end.

Definition spec_P_anchor (c : clause) (r : row) : option pred :=
  match cP c with
  | Some p => Some p
  | None => if negb (is_empty (cPID c)) && negb (is_empty (cPAncB c))
            then match get r (cPAncB c) with
                 | Some (CTime t) => Some (mkPred (cPID c) (Some t))
                 | _ => None
                 end
            else None
  end.

Definition spec_P (e : cfg) (c : clause) (r : row) (pa : option pred) : option pred :=
  match pa with
  | Some p => Some p
  | None => match bound_value e r (cPB c) (cPA c) with
            | Some (CPred p) => Some p
            | _ => None
            end
  end.

Definition spec_O_anchor (c : clause) (r : row) : option obj :=
  match cO c with
  | Some o => Some o
  | None => if negb (is_empty (cOID c)) && negb (is_empty (cOAncB c))
            then match get r (cOAncB c) with
                 | Some (CTime t) => Some (OPred (mkPred (cOID c) (Some t)))
                 | _ => None
                 end
            else None
  end.

Definition spec_O (e : cfg) (c : clause) (r : row) (oa : option obj) : objres :=
  match oa with
  | Some o => ObjOk o
  | None => match bound_value e r (cOB c) (cOA c) with
            | Some v => cell_to_object e v
            | None => ObjNone
            end
  end.

Definition objres_opt (x : objres) : option obj := match x with ObjOk o => Some o | _ => None end.

(* addSpecifiedData: returns the rows appended to the plan's table *)
Definition add_specified_data (e : cfg) (gs : list graph) (lo : lopts) (c : clause) (r : row) : outcome (list row) :=
  let pa := spec_P_anchor c r in
  bind (match pa with
        | None => update_time_bounds_for_row e lo c r
        | Some _ => Ok lo
        end)
  (fun lo3 =>
   let oa := spec_O_anchor c r in
   let ores := spec_O e c r oa in
   bind (match oa with
         | None => update_time_bounds_for_row e lo3 c r
         | Some _ => Ok lo3
         end)
   (fun lo5 =>
    match ores with
    | ObjInvalid => Panic SiteStrObject
    | _ =>
      let c5 := with_SPO c (spec_S e c r) (spec_P e c r pa) (objres_opt ores) in
      bind (simple_fetch e gs c5 lo5) (fun rows =>
        let rows' := if fix14 e then filter (compatible r) rows else rows in
        match rows' with
        | [] => if c_opt c
                then (if fix14 e then Ok [merge_rows r (null_row (clause_bindings c) r)]
                      else match rows with
                           | [] => Ok [merge_rows r (null_row (clause_bindings c) r)]
                           | _ => Ok []
                           end)
                else Ok []
        | _ => Ok (map (fun nr => merge_rows r nr) rows')
        end)
    end)).

(* specifyClauseWithTable: one addSpecifiedData per row. The Go code runs them concurrently and appends in completion
   order; the model folds in row order (see C14: the resulting multiset does not depend on the order). *)
Fixpoint specify_rows (e : cfg) (gs : list graph) (lo : lopts) (c : clause) (rows : list row) : outcome (list row) :=
  match rows with
  | [] => Ok []
  | r :: rest =>
      bind (add_specified_data e gs lo c r) (fun rs =>
      bind (specify_rows e gs lo c rest) (fun rs' => Ok (rs ++ rs')))
  end.

Definition lift_table {A} (o : outcome A) (f : A -> table) : outcome (bool * table) :=
  match o with
  | Ok v => Ok (false, f v)
  | Err x => Err x
  | Panic s => Panic s
  end.

(* processClause, the part for clauses that are not handled as an existence test: fresh fetch + product / left optional
   join when no binding of the clause is in the table, per-row specialisation otherwise *)
Definition process_general (e : cfg) (gs : list graph) (lo : lopts) (c : clause) (t : table) : outcome (bool * table) :=
  let existing := filter (fun b => mem b (tb t)) (clause_bindings c) in
  match existing with
  | [] =>
      bind (simple_fetch e gs c lo) (fun rows =>
        let t2 := mkTable (clause_bindings c) rows in
        match tb t with
        | [] =>
            (* after repair F27 an OPTIONAL clause that matches nothing extends the unit row with NULLs *)
            let t2' := if fixou e && c_opt c && (match rows with [] => true | _ => false end)
                       then mkTable (clause_bindings c) (add_row [] (null_row (clause_bindings c) []))
                       else t2 in
            lift_table (append_table t t2') (fun x => x)
        | _ => if c_opt c
               then match left_optional_join (fix9 e) t t2 with
                    | Ok (LojTable t') => Ok (false, t')
                    | Ok LojRange => Err EOther
                    | Err x => Err x
                    | Panic s => Panic s
                    end
               else lift_table (dot_product t t2) (fun x => x)
        end)
  | _ =>
      lift_table (specify_rows e gs lo c (trows t))
        (fun rows => mkTable (match trows t with [] => tb t | _ => add_all (tb t) (clause_bindings c) end) rows)
  end.

(* processClause: (unresolvable, table).  A fully specified clause is an existence test; after repair F26 only while the
   table has no bindings or the clause has no alias (then it is a condition on the rows found so far), otherwise it is
   processed like any other clause. *)
Definition process_clause (e : cfg) (gs : list graph) (lo : lopts) (c : clause) (t : table) : outcome (bool * table) :=
  if specificity3 c then
    if c_opt c && negb (has_alias c) then Ok (false, t)
    else if negb (fixs3 e) || (match tb t with [] => true | _ => false end) || negb (has_alias c) then
      match cS c, cP c, cO c with
      | Some s, Some p, Some o =>
          bind (simple_exist e gs c (mkTriple s p o) lo) (fun ur =>
            if fixs3 e && negb (match tb t with [] => true | _ => false end)
            then Ok (fst ur, t)
            else
              (* after repair F27 an OPTIONAL clause (with alias) whose triple is absent NULL-extends the unit row *)
              if fixou e && c_opt c && fst ur
              then lift_table (append_table t (mkTable (clause_bindings c) (add_row [] (null_row (clause_bindings c) [])))) (fun x => x)
              else match append_table t (mkTable (clause_bindings c) (snd ur)) with
                   | Ok t' => Ok (fst ur, t')
                   | Err x => Err x
                   | Panic s => Panic s
                   end)
      | _, _, _ => Err EOther
      end
    else process_general e gs lo c t
  else process_general e gs lo c t.

(* processGraphPattern: clauses in textual order; an unresolvable clause truncates the table and stops *)
Fixpoint process_pattern (e : cfg) (gs : list graph) (lo : lopts) (cs : list clause) (t : table) : outcome table :=
  match cs with
  | [] => Ok t
  | c :: rest =>
      bind (process_clause e gs lo c t) (fun ut =>
        if fst ut then Ok (mkTable (tb (snd ut)) [])
        else process_pattern e gs lo rest (snd ut))
  end.

(* projectAndGroupBy without GROUP BY: for every row, all projected values are read first, then every alias is written
   (an alias may carry the name of a binding another projection still reads); then the output bindings are kept.
   Execute replaces an empty table by table.New(OutputBindings), which rejects duplicates. *)
Definition write_alias (acc : row) (pv : (str * str) * option cell) : row :=
  let a := snd (fst pv) in
  if is_empty a then acc
  else match snd pv with
       | Some v => set acc a v
       | None => del acc a
       end.

Definition project_row (projs : list (str * str)) (r : row) : row :=
  fold_left write_alias (map (fun p => (p, get r (fst p))) projs) r.

Fixpoint nodup_str (l : list str) : bool :=
  match l with
  | [] => true
  | x :: rest => negb (mem x rest) && nodup_str rest
  end.

Definition project (outs : list str) (projs : list (str * str)) (t : table) : outcome (list str * list (list (option cell))) :=
  let rows := map (project_row projs) (trows t) in
  match rows with
  | [] => if nodup_str outs then Ok (outs, []) else Err EOther
  | _ => let bs := add_all [] outs in Ok (bs, map (fun r => map (get r) bs) rows)
  end.

Definition execute (e : cfg) (gs : list graph) (lo : lopts) (cs : list clause) (outs : list str) (projs : list (str * str))
  : outcome (list str * list (list (option cell))) :=
  bind (process_pattern e gs lo cs empty_table) (project outs projs).
