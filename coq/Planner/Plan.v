(* bql/planner/planner.go: processClause (three strategies), getBoundValueForComponent, addSpecifiedData,
   specifyClauseWithTable, cellToObject, processGraphPattern, projection and Execute for SELECT statements without
   GROUP BY / ORDER BY / HAVING / LIMIT / FILTER. *)
From Coq Require Import List Bool.
Import ListNotations.
From BWPlanner Require Import Terms Rows Clause Store Fetch.

(* getBoundValueForComponent(r, [b1, b2]) *)
Definition bound_value (r : row) (b1 b2 : str) : option cell :=
  match get r b1, get r b2 with
  | Some v, None => Some v
  | None, Some v => Some v
  | Some v1, Some v2 => if cell_eqb v1 v2 then Some v1 else None
  | None, None => None
  end.

(* cellToObject; a string cell goes through literal.Parse(`"%s"^^type:string`): an error once F3 is fixed, an invalid
   object (all fields nil) before, which is dereferenced by the first lookup that hashes it *)
Inductive objres := ObjOk (o : obj) | ObjNone | ObjInvalid.

Definition cell_to_object (e : cfg) (v : cell) : objres :=
  match v with
  | CNode n => ObjOk (ONode n)
  | CPred p => ObjOk (OPred p)
  | CLit l => ObjOk (OLit l)
  | CStr _ => if strlit_invalid e then ObjInvalid else ObjNone
  | CNull => ObjNone
  | CTime _ => ObjNone
  end.

(* rows agree on every binding they share (compatibleRows / sameValue, added by fix F14) *)
Definition compatible (r nr : row) : bool :=
  forallb (fun kv => match get r (fst kv) with Some v => cell_equiv v (snd kv) | None => true end) nr.

Definition null_row (bs : list str) (r : row) : row :=
  map (fun k => (k, CNull)) (filter (fun k => negb (has r k)) bs).

(* addSpecifiedData: returns the rows appended to the plan's table *)
Definition add_specified_data (e : cfg) (gs : list graph) (lo : lopts) (c : clause) (r : row) : outcome (list row) :=
  let c1 := match cS c with
            | None => match bound_value r (cSB c) (cSA c) with
                      | Some (CNode n) => with_S c n
                      | _ => c
                      end
            | Some _ => c
            end in
  let c2 := match cP c1 with
            | None => if negb (is_empty (cPID c1)) && negb (is_empty (cPAncB c1))
                      then match get r (cPAncB c1) with
                           | Some (CTime t) => with_P c1 (mkPred (cPID c1) (Some t))
                           | _ => c1
                           end
                      else c1
            | Some _ => c1
            end in
  bind (match cP c2 with
        | None =>
            let c3 := match bound_value r (cPB c2) (cPA c2) with
                      | Some (CPred p) => with_P c2 p
                      | _ => c2
                      end in
            bind (update_time_bounds_for_row e lo c3 r) (fun lo' => Ok (c3, lo'))
        | Some _ => Ok (c2, lo)
        end)
  (fun cl3 =>
   let c3 := fst cl3 in
   let lo3 := snd cl3 in
   let c4 := match cO c3 with
             | None => if negb (is_empty (cOID c3)) && negb (is_empty (cOAncB c3))
                       then match get r (cOAncB c3) with
                            | Some (CTime t) => with_O c3 (OPred (mkPred (cOID c3) (Some t)))
                            | _ => c3
                            end
                       else c3
             | Some _ => c3
             end in
   bind (match cO c4 with
         | None =>
             let res := match bound_value r (cOB c4) (cOA c4) with
                        | Some v => cell_to_object e v
                        | None => ObjNone
                        end in
             let c5 := match res with ObjOk o => with_O c4 o | _ => c4 end in
             let inv := match res with ObjInvalid => true | _ => false end in
             bind (update_time_bounds_for_row e lo3 c5 r) (fun lo' => Ok (c5, lo', inv))
         | Some _ => Ok (c4, lo3, false)
         end)
   (fun x =>
    let c5 := fst (fst x) in
    let lo5 := snd (fst x) in
    let inv := snd x in
    if inv then Panic SiteStrObject
    else
      bind (simple_fetch e gs c5 lo5) (fun rows =>
        let rows' := if fix14 e then filter (compatible r) rows else rows in
        match rows' with
        | [] => if c_opt c
                then (if fix14 e then Ok [merge_rows r (null_row (clause_bindings c) r)]
                      else match rows with
                           | [] => Ok [merge_rows r (null_row (clause_bindings c) r)]
                           | _ => Ok []
                           end)
                else Ok []
        | _ => Ok (map (fun nr => merge_rows r nr) rows')
        end))).

(* specifyClauseWithTable: one addSpecifiedData per row. The Go code runs them concurrently and appends in completion
   order; the model folds in row order (see C14: the resulting multiset does not depend on the order). *)
Fixpoint specify_rows (e : cfg) (gs : list graph) (lo : lopts) (c : clause) (rows : list row) : outcome (list row) :=
  match rows with
  | [] => Ok []
  | r :: rest =>
      bind (add_specified_data e gs lo c r) (fun rs =>
      bind (specify_rows e gs lo c rest) (fun rs' => Ok (rs ++ rs')))
  end.

Definition lift_table {A} (o : outcome A) (f : A -> table) : outcome (bool * table) :=
  match o with
  | Ok v => Ok (false, f v)
  | Err x => Err x
  | Panic s => Panic s
  end.

(* processClause: (unresolvable, table) *)
Definition process_clause (e : cfg) (gs : list graph) (lo : lopts) (c : clause) (t : table) : outcome (bool * table) :=
  if specificity3 c then
    if c_opt c && negb (has_alias c) then Ok (false, t)
    else
      match cS c, cP c, cO c with
      | Some s, Some p, Some o =>
          bind (simple_exist e gs c (mkTriple s p o) lo) (fun ur =>
            match append_table t (mkTable (clause_bindings c) (snd ur)) with
            | Ok t' => Ok (fst ur, t')
            | Err x => Err x
            | Panic s => Panic s
            end)
      | _, _, _ => Err EOther
      end
  else
    let existing := filter (fun b => mem b (tb t)) (clause_bindings c) in
    match existing with
    | [] =>
        bind (simple_fetch e gs c lo) (fun rows =>
          let t2 := mkTable (clause_bindings c) rows in
          match tb t with
          | [] => lift_table (append_table t t2) (fun x => x)
          | _ => if c_opt c
                 then match left_optional_join (fix9 e) t t2 with
                      | Ok (LojTable t') => Ok (false, t')
                      | Ok LojRange => Err EOther
                      | Err x => Err x
                      | Panic s => Panic s
                      end
                 else lift_table (dot_product t t2) (fun x => x)
          end)
    | _ =>
        lift_table (specify_rows e gs lo c (trows t))
          (fun rows => mkTable (match trows t with [] => tb t | _ => add_all (tb t) (clause_bindings c) end) rows)
    end.

(* processGraphPattern: clauses in textual order; an unresolvable clause truncates the table and stops *)
Fixpoint process_pattern (e : cfg) (gs : list graph) (lo : lopts) (cs : list clause) (t : table) : outcome table :=
  match cs with
  | [] => Ok t
  | c :: rest =>
      bind (process_clause e gs lo c t) (fun ut =>
        if fst ut then Ok (mkTable (tb (snd ut)) [])
        else process_pattern e gs lo rest (snd ut))
  end.

(* projectAndGroupBy without GROUP BY: copy binding -> alias for every projection in order, then keep the output
   bindings; Execute replaces an empty table by table.New(OutputBindings), which rejects duplicates *)
Definition apply_proj (rows : list row) (p : str * str) : list row :=
  if is_empty (snd p) then rows
  else map (fun r => match get r (fst p) with Some v => set r (snd p) v | None => del r (snd p) end) rows.

Fixpoint nodup_str (l : list str) : bool :=
  match l with
  | [] => true
  | x :: rest => negb (mem x rest) && nodup_str rest
  end.

Definition project (outs : list str) (projs : list (str * str)) (t : table) : outcome (list str * list (list (option cell))) :=
  let rows := fold_left apply_proj projs (trows t) in
  match rows with
  | [] => if nodup_str outs then Ok (outs, []) else Err EOther
  | _ => let bs := add_all [] outs in Ok (bs, map (fun r => map (get r) bs) rows)
  end.

Definition execute (e : cfg) (gs : list graph) (lo : lopts) (cs : list clause) (outs : list str) (projs : list (str * str))
  : outcome (list str * list (list (option cell))) :=
  bind (process_pattern e gs lo cs empty_table) (project outs projs).
