(* Planner family (C03, C10, C14): abstract values.
   Nodes (type, id), predicates (id, optional anchor), literals, objects, triples, table cells.
   Independent of every byte codec: strings are opaque byte lists, time is (instant, zone). *)
From Coq Require Import List ZArith NArith Bool.
From Coq.Strings Require Import Byte.
Import ListNotations.

Definition str := list byte.

Definition str_eq_dec : forall a b : str, {a = b} + {a <> b} := list_eq_dec Byte.byte_eq_dec.
Definition str_eqb (a b : str) : bool := if str_eq_dec a b then true else false.
Definition is_empty (s : str) : bool := match s with [] => true | _ => false end.

(* time.Time: the instant in nanoseconds and the zone offset in seconds. Equal/Before/After compare the instant only;
   reflect.DeepEqual (used by validBinding, getBoundValueForComponent, joinable) compares both fields. *)
Record time := mkTime { ns : Z; zone : Z }.

Definition time_eq_dec : forall a b : time, {a = b} + {a <> b}.
Proof. decide equality; apply Z.eq_dec. Defined.

Definition t_equal (a b : time) : bool := Z.eqb (ns a) (ns b).
Definition t_before (a b : time) : bool := Z.ltb (ns a) (ns b).
Definition t_after (a b : time) : bool := Z.ltb (ns b) (ns a).

Record node := mkNode { ntype : str; nid : str }.

Definition node_eq_dec : forall a b : node, {a = b} + {a <> b}.
Proof. decide equality; apply str_eq_dec. Defined.

(* predicate: immutable (no anchor) or temporal *)
Record pred := mkPred { pid : str; panchor : option time }.

Definition pred_eq_dec : forall a b : pred, {a = b} + {a <> b}.
Proof. decide equality; [decide equality; apply time_eq_dec | apply str_eq_dec]. Defined.

Definition is_temporal (p : pred) : bool := match panchor p with Some _ => true | None => false end.

Inductive lit :=
| LBool (b : bool)
| LInt (z : Z)
| LFloat (bits : N)
| LText (s : str)
| LBlob (s : str).

Definition lit_eq_dec : forall a b : lit, {a = b} + {a <> b}.
Proof. decide equality; try apply str_eq_dec; try apply Z.eq_dec; try apply N.eq_dec; apply bool_dec. Defined.

Inductive obj :=
| ONode (n : node)
| OPred (p : pred)
| OLit (l : lit).

Definition obj_eq_dec : forall a b : obj, {a = b} + {a <> b}.
Proof. decide equality; [apply node_eq_dec | apply pred_eq_dec | apply lit_eq_dec]. Defined.

Record triple := mkTriple { tsub : node; tpred : pred; tobj : obj }.

Definition triple_eq_dec : forall a b : triple, {a = b} + {a <> b}.
Proof. decide equality; [apply obj_eq_dec | apply pred_eq_dec | apply node_eq_dec]. Defined.

(* table.Cell: at most one of S, N, P, L, T is set by the planner; the empty cell prints as <NULL> *)
Inductive cell :=
| CNull
| CStr (s : str)
| CNode (n : node)
| CPred (p : pred)
| CLit (l : lit)
| CTime (t : time).

Definition cell_eq_dec : forall a b : cell, {a = b} + {a <> b}.
Proof. decide equality; [apply str_eq_dec | apply node_eq_dec | apply pred_eq_dec | apply lit_eq_dec | apply time_eq_dec]. Defined.

(* reflect.DeepEqual on two cells *)
Definition cell_eqb (a b : cell) : bool := if cell_eq_dec a b then true else false.

Lemma cell_eqb_true : forall a b, cell_eqb a b = true <-> a = b.
Proof. intros a b. unfold cell_eqb. destruct (cell_eq_dec a b); split; congruence. Qed.

Lemma cell_eqb_refl : forall a, cell_eqb a a = true.
Proof. intros a. apply cell_eqb_true. reflexivity. Qed.

Lemma str_eqb_true : forall a b, str_eqb a b = true <-> a = b.
Proof. intros a b. unfold str_eqb. destruct (str_eq_dec a b); split; congruence. Qed.

Lemma str_eqb_refl : forall a, str_eqb a a = true.
Proof. intros a. apply str_eqb_true. reflexivity. Qed.

Lemma str_eqb_false : forall a b, str_eqb a b = false <-> a <> b.
Proof. intros a b. unfold str_eqb. destruct (str_eq_dec a b); split; congruence. Qed.

(* ---- identity as the store sees it (UUIDs): predicate anchors by instant only, zone-insensitive.
   Node and literal UUID collisions (type++id concatenation, untagged literal bytes) are property C06; this family
   assumes a collision-free vocabulary and uses structural equality for them. *)
Definition pred_key_eqb (a b : pred) : bool :=
  str_eqb (pid a) (pid b) &&
  match panchor a, panchor b with
  | None, None => true
  | Some x, Some y => t_equal x y
  | _, _ => false
  end.

Definition node_eqb (a b : node) : bool := if node_eq_dec a b then true else false.
Definition lit_eqb (a b : lit) : bool := if lit_eq_dec a b then true else false.

Definition obj_key_eqb (a b : obj) : bool :=
  match a, b with
  | ONode x, ONode y => node_eqb x y
  | OPred x, OPred y => pred_key_eqb x y
  | OLit x, OLit y => lit_eqb x y
  | _, _ => false
  end.

Definition triple_key_eqb (a b : triple) : bool :=
  node_eqb (tsub a) (tsub b) && pred_key_eqb (tpred a) (tpred b) && obj_key_eqb (tobj a) (tobj b).

Lemma node_eqb_true : forall a b, node_eqb a b = true <-> a = b.
Proof. intros a b. unfold node_eqb. destruct (node_eq_dec a b); split; congruence. Qed.

Lemma lit_eqb_true : forall a b, lit_eqb a b = true <-> a = b.
Proof. intros a b. unfold lit_eqb. destruct (lit_eq_dec a b); split; congruence. Qed.


(* ---- value equivalence: equal up to the zone in which an instant is written (planner.sameValue after fix F14; the
   comparison the specification uses everywhere) *)
Definition cell_equiv (a b : cell) : bool :=
  match a, b with
  | CNull, CNull => true
  | CStr x, CStr y => str_eqb x y
  | CNode x, CNode y => node_eqb x y
  | CPred x, CPred y => pred_key_eqb x y
  | CLit x, CLit y => lit_eqb x y
  | CTime x, CTime y => t_equal x y
  | _, _ => false
  end.

(* Outcomes of model entry points: errors as a small enum, panics with their site *)
Inductive errclass := EAppend | EDotProduct | EBound | EObjId | EOther.
Inductive site := SiteBoundsRow | SiteStrObject | SiteJoinRange.

Inductive outcome (A : Type) :=
| Ok (v : A)
| Err (e : errclass)
| Panic (s : site).
Arguments Ok {A} v.
Arguments Err {A} e.
Arguments Panic {A} s.

Definition bind {A B} (o : outcome A) (f : A -> outcome B) : outcome B :=
  match o with
  | Ok v => f v
  | Err e => Err e
  | Panic s => Panic s
  end.

(* What the model depends on outside this family / which repairs of /repo are in the tree it describes.
   ks, strlit_invalid are observed by the harness on every run (store: fix F6; literal.Parse: fix F3);
   the fix_* flags are set in Current.v when the corresponding "fix:" commit lands. *)
Record cfg := mkCfg {
  ks : bool;              (* lookups with a predicate argument compare the predicate kind (F6 fixed) *)
  strlit_invalid : bool;  (* literal.Parse returns (nil, nil) for an unknown type (F3 unfixed) *)
  fix9 : bool;            (* LeftOptionalJoin NULL-extends when the right table is empty *)
  fix14 : bool;           (* addSpecifiedData skips fetched rows that disagree with the row on a shared binding *)
  fix15 : bool;           (* updateTimeBoundsForRow guards the missing cell and uses Before for the upper bound *)
  fixoid : bool;          (* tripleToRow: ID alias on a literal object skips the triple (NULL if optional) instead of failing *)
  fixsb : bool;           (* a fully specified clause / lookup applies the time bounds to its own temporal predicate *)
  fixzone : bool;         (* validBinding / getBoundValueForComponent compare with sameValue (instants), not DeepEqual *)
  fixs3 : bool;           (* a fully specified clause met when the table has bindings: a condition (no alias) / an ordinary clause *)
  fixou : bool            (* an OPTIONAL clause met when the table has no bindings yet NULL-extends the unit row when it matches nothing *)
}.

(* the comparison of two cells bound to the same name inside one clause *)
Definition same_value (e : cfg) (a b : cell) : bool := if fixzone e then cell_equiv a b else cell_eqb a b.
