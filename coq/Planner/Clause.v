(* semantic.GraphClause, field by field (the harness serialises the parsed clause through its exported fields), and the
   uniform view used by the model and the specification: per position an optional constant and a list of
   (binding name, extractor). An empty name means "not set", as in Go. *)
From Coq Require Import List Bool.
From Coq.Strings Require Import Byte.
Import ListNotations.
From BWPlanner Require Import Terms Rows.

Record clause := mkClause {
  c_opt : bool;
  cS : option node; cSB : str; cSA : str; cSTy : str; cSId : str;
  cP : option pred; cPID : str; cPB : str; cPA : str; cPIdA : str; cPAncB : str; cPAncA : str;
  cPLo : option time; cPUp : option time; cPLoA : str; cPUpA : str; cPTemporal : bool;
  cO : option obj; cOB : str; cOA : str; cOID : str; cOTy : str; cOIdA : str; cOAncB : str; cOAncA : str;
  cOLo : option time; cOUp : option time; cOLoA : str; cOUpA : str; cOTemporal : bool
}.

Definition nonempty (l : list str) : list str := filter (fun s => negb (is_empty s)) l.

(* GraphClause.Bindings(): the set of non-empty names, bound aliases included (BindingsMap) *)
Definition clause_bindings (c : clause) : list str :=
  dedup (nonempty [cSB c; cSA c; cSTy c; cSId c; cPA c; cPAncB c; cPB c; cPLoA c; cPUpA c; cPIdA c; cPAncA c;
                   cOB c; cOA c; cOTy c; cOIdA c; cOAncA c; cOAncB c; cOLoA c; cOUpA c]).

Definition has_alias (c : clause) : bool :=
  negb (forallb is_empty [cSA c; cSTy c; cSId c; cPA c; cPAncA c; cPIdA c; cPLoA c; cPUpA c; cOA c; cOAncA c;
                          cOIdA c; cOTy c; cOLoA c; cOUpA c]).

Definition is_some {A} (o : option A) : bool := match o with Some _ => true | None => false end.

Definition specificity3 (c : clause) : bool := is_some (cS c) && is_some (cP c) && is_some (cO c).

(* what a binding of a clause extracts from the matched triple *)
Inductive extractor := XSubj | XSType | XSId | XPred | XPId | XPAnchor | XObj | XOType | XOId | XOAnchor.

(* the bindings tripleToRow fills, in its order *)
Definition binders (c : clause) : list (str * extractor) :=
  filter (fun b => negb (is_empty (fst b)))
    [(cSB c, XSubj); (cSA c, XSubj); (cSTy c, XSType); (cSId c, XSId);
     (cPB c, XPred); (cPA c, XPred); (cPIdA c, XPId); (cPAncB c, XPAnchor); (cPAncA c, XPAnchor);
     (cOB c, XObj); (cOA c, XObj); (cOTy c, XOType); (cOIdA c, XOId); (cOAncB c, XOAnchor); (cOAncA c, XOAnchor)].

(* the private copy of the clause addSpecifiedData works on: only S, P and O are ever assigned *)
Definition with_SPO (c : clause) (s : option node) (p : option pred) (o : option obj) : clause :=
  mkClause (c_opt c) s (cSB c) (cSA c) (cSTy c) (cSId c)
           p (cPID c) (cPB c) (cPA c) (cPIdA c) (cPAncB c) (cPAncA c) (cPLo c) (cPUp c) (cPLoA c) (cPUpA c) (cPTemporal c)
           o (cOB c) (cOA c) (cOID c) (cOTy c) (cOIdA c) (cOAncB c) (cOAncA c) (cOLo c) (cOUp c) (cOLoA c) (cOUpA c) (cOTemporal c).
