(* Properties of the specification itself: the optional step is a left outer join that never removes rows (C10); the
   declarative reading is invariant under clause order and data partitioning and monotone in the data (C14); every row of
   the computable reference keeps what earlier clauses bound. *)
From Coq Require Import List Bool Permutation Lia.
Import ListNotations.
From BWPlanner Require Import Terms Rows Clause Store PatternSpec RowsProofs FetchProofs PlanProofs.

(* ---------- C10 on the specification *)
Lemma spec_extend_sub : forall c glo gs mu r, In r (spec_extend c glo gs mu) -> sub_row mu r.
Proof.
  intros c glo gs mu r H. unfold spec_extend in H.
  apply in_flat_map in H. destruct H as [g [_ H]]. apply in_flat_map in H. destruct H as [t [_ H]].
  destruct (spec_row c glo t) as [r0|]; [|destruct H].
  destruct (row_bounds_ok c mu t && compat_equiv mu r0); [|destruct H]. destruct H as [<-|[]]. apply sub_row_merge.
Qed.

Theorem spec_step_optional_never_removes : forall glo gs c mus,
  c_opt c = true ->
  (length mus <= length (spec_step glo gs c mus))%nat /\
  forall mu, In mu mus -> exists r, In r (spec_step glo gs c mus) /\ sub_row mu r.
Proof.
  intros glo gs c mus Hopt. unfold spec_step. rewrite Hopt. split.
  - apply flat_map_length_ge. intros mu _. destruct (spec_extend c glo gs mu); cbn; lia.
  - intros mu Hin. destruct (spec_extend c glo gs mu) as [|x ext] eqn:E.
    + eexists. split; [apply in_flat_map; exists mu; split; [exact Hin|rewrite E; left; reflexivity]|apply sub_row_merge].
    + exists x. split.
      * apply in_flat_map. exists mu. split; [exact Hin|rewrite E; left; reflexivity].
      * apply (spec_extend_sub c glo gs mu). rewrite E. left. reflexivity.
Qed.

(* the left outer join, row by row: the extensions by agreeing matches, or exactly one NULL extension *)
Theorem spec_step_left_join : forall glo gs c mus,
  spec_step glo gs c mus =
  flat_map (fun mu => match spec_extend c glo gs mu with
                      | [] => if c_opt c
                              then [merge_rows mu (map (fun k => (k, CNull)) (filter (fun k => negb (has mu k)) (clause_bindings c)))]
                              else []
                      | ext => ext
                      end) mus.
Proof. reflexivity. Qed.

Theorem spec_null_extension : forall mu c k,
  In k (clause_bindings c) -> get mu k = None ->
  get (merge_rows mu (map (fun k => (k, CNull)) (filter (fun k => negb (has mu k)) (clause_bindings c)))) k = Some CNull.
Proof.
  intros mu c k Hin Hg. rewrite get_merge, Hg, get_null_map.
  assert (mem k (filter (fun k0 => negb (has mu k0)) (clause_bindings c)) = true) as ->; [|reflexivity].
  apply mem_In. apply filter_In. split; [exact Hin|]. unfold has. rewrite Hg. reflexivity.
Qed.

(* ---------- C14 on the declarative specification: clause order, partition of the data, more data *)
Theorem is_solution_clause_order : forall cs cs' glo gs mu,
  Permutation cs cs' -> (is_solution cs glo gs mu <-> is_solution cs' glo gs mu).
Proof.
  intros cs cs' glo gs mu HP. unfold is_solution. split; intros H c Hin; apply H.
  - eapply Permutation_in; [apply Permutation_sym; exact HP|exact Hin].
  - eapply Permutation_in; [exact HP|exact Hin].
Qed.

Definition same_data (gs gs' : list graph) : Prop := forall t, In t (concat gs) <-> In t (concat gs').
Definition more_data (gs gs' : list graph) : Prop := forall t, In t (concat gs) -> In t (concat gs').

Lemma in_concat_graph : forall (gs : list graph) t, In t (concat gs) <-> exists g, In g gs /\ In t g.
Proof.
  intros gs t. induction gs as [|g gs IH]; cbn.
  - split; [intros []|intros [g [[] _]]].
  - rewrite in_app_iff, IH. split.
    + intros [H|[g' [A B]]]; [exists g; split; auto|exists g'; split; auto].
    + intros [g' [[<-|A] B]]; [left; exact B|right; exists g'; split; assumption].
Qed.

Theorem is_solution_monotone : forall cs glo gs gs' mu,
  more_data gs gs' -> is_solution cs glo gs mu -> is_solution cs glo gs' mu.
Proof.
  intros cs glo gs gs' mu Hm H c Hin. destruct (H c Hin) as [g [t [Hg [Ht Hc]]]].
  assert (In t (concat gs')) as Hc' by (apply Hm; apply in_concat_graph; exists g; split; assumption).
  apply in_concat_graph in Hc'. destruct Hc' as [g' [Hg' Ht']]. exists g', t. split; [exact Hg'|split; [exact Ht'|exact Hc]].
Qed.

Theorem is_solution_partition : forall cs glo gs gs' mu,
  same_data gs gs' -> (is_solution cs glo gs mu <-> is_solution cs glo gs' mu).
Proof.
  intros cs glo gs gs' mu Hs. split; apply is_solution_monotone; intros t Ht; apply Hs; exact Ht.
Qed.

(* ---------- monotonicity of the computable reference (set level, patterns without OPTIONAL):
   more data never removes a row *)
Lemma spec_extend_monotone : forall c glo gs gs' mu r,
  more_data gs gs' -> In r (spec_extend c glo gs mu) -> In r (spec_extend c glo gs' mu).
Proof.
  intros c glo gs gs' mu r Hm H. unfold spec_extend in *.
  apply in_flat_map in H. destruct H as [g [Hg H]]. apply in_flat_map in H. destruct H as [t [Ht H]].
  assert (In t (concat gs')) as Hc' by (apply Hm; apply in_concat_graph; exists g; split; assumption).
  apply in_concat_graph in Hc'. destruct Hc' as [g' [Hg' Ht']].
  apply in_flat_map. exists g'. split; [exact Hg'|]. apply in_flat_map. exists t. split; [exact Ht'|exact H].
Qed.

Lemma spec_step_monotone : forall glo gs gs' c mus mus' r,
  c_opt c = false -> more_data gs gs' -> incl mus mus' ->
  In r (spec_step glo gs c mus) -> In r (spec_step glo gs' c mus').
Proof.
  intros glo gs gs' c mus mus' r Hopt Hm Hi H. unfold spec_step in *. rewrite Hopt in *.
  apply in_flat_map in H. destruct H as [mu [Hmu H]].
  apply in_flat_map. exists mu. split; [apply Hi; exact Hmu|].
  destruct (spec_extend c glo gs mu) as [|x ext] eqn:E; [destruct H|].
  assert (In r (spec_extend c glo gs' mu)) as H' by (apply (spec_extend_monotone c glo gs gs' mu r Hm); rewrite E; exact H).
  destruct (spec_extend c glo gs' mu); [destruct H'|exact H'].
Qed.

Theorem spec_solutions_monotone : forall glo gs gs' cs r,
  forallb (fun c => negb (c_opt c)) cs = true -> more_data gs gs' ->
  In r (spec_solutions glo gs cs) -> In r (spec_solutions glo gs' cs).
Proof.
  intros glo gs gs' cs r Hno Hm. unfold spec_solutions.
  assert (G : forall mus mus', incl mus mus' ->
             In r (fold_left (fun mus c => spec_step glo gs c mus) cs mus) ->
             In r (fold_left (fun mus c => spec_step glo gs' c mus) cs mus')).
  { induction cs as [|c cs IH]; intros mus mus' Hi H; cbn in *.
    - apply Hi. exact H.
    - apply andb_prop in Hno. destruct Hno as [Hc Hcs]. apply negb_true_iff in Hc.
      apply (IH Hcs (spec_step glo gs c mus) (spec_step glo gs' c mus')); [|exact H].
      intros x Hx. eapply spec_step_monotone; eauto. }
  apply G. apply incl_refl.
Qed.

(* partition invariance of the computable reference (set level, any pattern without OPTIONAL) *)
Theorem spec_solutions_partition : forall glo gs gs' cs r,
  forallb (fun c => negb (c_opt c)) cs = true -> same_data gs gs' ->
  (In r (spec_solutions glo gs cs) <-> In r (spec_solutions glo gs' cs)).
Proof.
  intros glo gs gs' cs r Hno Hs. split; apply spec_solutions_monotone; auto; intros t Ht; apply Hs; exact Ht.
Qed.
