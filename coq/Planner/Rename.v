(* C14: a consistent renaming of the bindings of a pattern commutes with the specification (all patterns, OPTIONAL
   included), and - through the C03 composition - with the planner model on D3. *)
From Coq Require Import List Bool ZArith.
Import ListNotations.
From BWPlanner Require Import Terms Rows Clause Store Fetch Plan PatternSpec RowsProofs FetchProofs PlanProofs SpecSound Equiv Canon Domain Uniform Compose Compose2 Compose3.

Section Rename.
  Variable f : str -> str.
  Hypothesis f_inj : forall a b, f a = f b -> a = b.
  Hypothesis f_nil : f [] = [].

  Lemma f_empty : forall k, is_empty (f k) = is_empty k.
  Proof.
    intros k. destruct (is_empty k) eqn:E.
    - apply is_empty_true in E. subst. rewrite f_nil. reflexivity.
    - apply is_empty_false. intro X. rewrite <- f_nil in X. apply f_inj in X. subst. discriminate.
  Qed.

  Lemma f_eqb : forall a b, str_eqb (f a) (f b) = str_eqb a b.
  Proof.
    intros a b. destruct (str_eqb a b) eqn:E.
    - apply str_eqb_true in E. subst. apply str_eqb_refl.
    - apply str_eqb_false. intro X. apply f_inj in X. subst. rewrite str_eqb_refl in E. discriminate.
  Qed.

  Definition ren_row (r : row) : row := map (fun kv => (f (fst kv), snd kv)) r.

  Definition ren_clause (c : clause) : clause :=
    mkClause (c_opt c) (cS c) (f (cSB c)) (f (cSA c)) (f (cSTy c)) (f (cSId c))
             (cP c) (cPID c) (f (cPB c)) (f (cPA c)) (f (cPIdA c)) (f (cPAncB c)) (f (cPAncA c)) (cPLo c) (cPUp c)
             (f (cPLoA c)) (f (cPUpA c)) (cPTemporal c)
             (cO c) (f (cOB c)) (f (cOA c)) (cOID c) (f (cOTy c)) (f (cOIdA c)) (f (cOAncB c)) (f (cOAncA c)) (cOLo c) (cOUp c)
             (f (cOLoA c)) (f (cOUpA c)) (cOTemporal c).

  Lemma get_ren : forall r k, get (ren_row r) (f k) = get r k.
  Proof. induction r as [|[k' v] r IH]; intros k; cbn; [reflexivity|]. rewrite f_eqb, IH. reflexivity. Qed.

  Lemma has_ren : forall r k, has (ren_row r) (f k) = has r k.
  Proof. intros. unfold has. rewrite get_ren. reflexivity. Qed.

  Lemma set_ren : forall r k v, set (ren_row r) (f k) v = ren_row (set r k v).
  Proof.
    induction r as [|[k' v'] r IH]; intros k v; cbn; [reflexivity|]. rewrite f_eqb.
    destruct (str_eqb k k'); cbn; [reflexivity|]. rewrite IH. reflexivity.
  Qed.

  Lemma filter_ren : forall a b,
    filter (fun kv => negb (has (ren_row a) (fst kv))) (ren_row b) = ren_row (filter (fun kv => negb (has a (fst kv))) b).
  Proof.
    intros a b. induction b as [|[k v] b IH]; [reflexivity|].
    unfold ren_row at 2. cbn [map filter fst snd]. fold (ren_row b). rewrite has_ren, IH.
    destruct (has a k); reflexivity.
  Qed.

  Lemma merge_ren : forall a b, merge_rows (ren_row a) (ren_row b) = ren_row (merge_rows a b).
  Proof.
    intros a b. unfold merge_rows. rewrite filter_ren. unfold ren_row. rewrite map_app. reflexivity.
  Qed.

  Lemma compat_ren : forall mu r, compat_equiv (ren_row mu) (ren_row r) = compat_equiv mu r.
  Proof.
    intros mu r. unfold compat_equiv. induction r as [|[k v] r IH]; [reflexivity|].
    unfold ren_row at 2. cbn [map forallb fst snd]. fold (ren_row r). rewrite get_ren, IH. reflexivity.
  Qed.

  Definition ren_binders (bs : list (str * extractor)) := map (fun b => (f (fst b), snd b)) bs.

  Lemma filter_binders_ren : forall (l : list (str * extractor)),
    filter (fun b => negb (is_empty (fst b))) (map (fun b => (f (fst b), snd b)) l) =
    map (fun b => (f (fst b), snd b)) (filter (fun b => negb (is_empty (fst b))) l).
  Proof.
    induction l as [|[k x] l IH]; cbn [map filter fst snd]; [reflexivity|]. rewrite f_empty.
    destruct (is_empty k); cbn [negb map]; rewrite IH; reflexivity.
  Qed.

  Lemma binders_ren : forall c, binders (ren_clause c) = ren_binders (binders c).
  Proof.
    intros c. unfold binders, ren_binders.
    change [(cSB (ren_clause c), XSubj); (cSA (ren_clause c), XSubj); (cSTy (ren_clause c), XSType); (cSId (ren_clause c), XSId);
            (cPB (ren_clause c), XPred); (cPA (ren_clause c), XPred); (cPIdA (ren_clause c), XPId); (cPAncB (ren_clause c), XPAnchor);
            (cPAncA (ren_clause c), XPAnchor); (cOB (ren_clause c), XObj); (cOA (ren_clause c), XObj); (cOTy (ren_clause c), XOType);
            (cOIdA (ren_clause c), XOId); (cOAncB (ren_clause c), XOAnchor); (cOAncA (ren_clause c), XOAnchor)]
      with (map (fun b : str * extractor => (f (fst b), snd b))
              [(cSB c, XSubj); (cSA c, XSubj); (cSTy c, XSType); (cSId c, XSId);
               (cPB c, XPred); (cPA c, XPred); (cPIdA c, XPId); (cPAncB c, XPAnchor); (cPAncA c, XPAnchor);
               (cOB c, XObj); (cOA c, XObj); (cOTy c, XOType); (cOIdA c, XOId); (cOAncB c, XOAnchor); (cOAncA c, XOAnchor)]).
    apply filter_binders_ren.
  Qed.

  Lemma spec_bind_ren : forall opt bs t r,
    spec_bind opt (ren_binders bs) t (ren_row r) = option_map ren_row (spec_bind opt bs t r).
  Proof.
    intros opt bs t. induction bs as [|[k x] bs IH]; intros r; cbn; [reflexivity|].
    destruct (match xspec x t with Some v => Some v | None => if opt then Some CNull else None end) as [v|]; [|reflexivity].
    rewrite get_ren. destruct (get r k) as [v0|].
    - destruct (cell_equiv v0 v); [apply IH|reflexivity].
    - rewrite set_ren. apply IH.
  Qed.

  Lemma consts_ren : forall c glo t, consts_ok (ren_clause c) glo t = consts_ok c glo t.
  Proof. intros. unfold consts_ok, pred_part_ok. cbn. rewrite !f_empty. reflexivity. Qed.

  Lemma spec_row_ren : forall c glo t, spec_row (ren_clause c) glo t = option_map ren_row (spec_row c glo t).
  Proof.
    intros. unfold spec_row. rewrite consts_ren, binders_ren. destruct (consts_ok c glo t); [|reflexivity].
    change (@nil (str * cell)) with (ren_row []) at 1. apply spec_bind_ren.
  Qed.

  Lemma row_bounds_ren : forall c mu t, row_bounds_ok (ren_clause c) (ren_row mu) t = row_bounds_ok c mu t.
  Proof.
    intros. unfold row_bounds_ok, row_bound. cbn [cPLoA cPUpA ren_clause]. rewrite !f_empty, !get_ren. reflexivity.
  Qed.

  Lemma spec_extend_ren : forall c glo gs mu,
    spec_extend (ren_clause c) glo gs (ren_row mu) = map ren_row (spec_extend c glo gs mu).
  Proof.
    intros. unfold spec_extend. rewrite !flat_map_concat_map, concat_map, map_map. f_equal. apply map_ext. intros g.
    rewrite !flat_map_concat_map, concat_map, map_map. f_equal. apply map_ext. intros t.
    rewrite spec_row_ren. destruct (spec_row c glo t) as [r|]; cbn; [|reflexivity].
    rewrite compat_ren, row_bounds_ren. destruct (row_bounds_ok c mu t && compat_equiv mu r); cbn; [rewrite merge_ren|]; reflexivity.
  Qed.

  Lemma mem_ren : forall k l, mem (f k) (map f l) = mem k l.
  Proof. intros k l. unfold mem. induction l as [|x l IH]; cbn; [reflexivity|]. rewrite f_eqb, IH. reflexivity. Qed.

  Lemma dedup_ren : forall l, dedup (map f l) = map f (dedup l).
  Proof. induction l as [|x l IH]; cbn; [reflexivity|]. rewrite mem_ren. destruct (mem x l); cbn; rewrite IH; reflexivity. Qed.

  Lemma nonempty_ren : forall l, nonempty (map f l) = map f (nonempty l).
  Proof. unfold nonempty. induction l as [|x l IH]; cbn; [reflexivity|]. rewrite f_empty. destruct (is_empty x); cbn; rewrite IH; reflexivity. Qed.

  Lemma clause_bindings_ren : forall c, clause_bindings (ren_clause c) = map f (clause_bindings c).
  Proof. intros c. unfold clause_bindings. rewrite <- dedup_ren, <- nonempty_ren. reflexivity. Qed.

  Lemma null_ext_ren : forall mu bs,
    map (fun k => (k, CNull)) (filter (fun k => negb (has (ren_row mu) k)) (map f bs)) =
    ren_row (map (fun k => (k, CNull)) (filter (fun k => negb (has mu k)) bs)).
  Proof.
    intros mu bs. induction bs as [|b bs IH]; cbn; [reflexivity|]. rewrite has_ren.
    destruct (has mu b); cbn; rewrite IH; reflexivity.
  Qed.

  Lemma spec_step_ren : forall glo gs c mus,
    spec_step glo gs (ren_clause c) (map ren_row mus) = map ren_row (spec_step glo gs c mus).
  Proof.
    intros. unfold spec_step. rewrite !flat_map_concat_map, concat_map, !map_map. f_equal. apply map_ext. intros mu.
    rewrite spec_extend_ren. destruct (spec_extend c glo gs mu); cbn [map]; [|reflexivity].
    change (c_opt (ren_clause c)) with (c_opt c). destruct (c_opt c); [|reflexivity].
    cbn [map]. rewrite clause_bindings_ren, null_ext_ren, merge_ren. reflexivity.
  Qed.

  (* renaming commutes with the reference, for every pattern (OPTIONAL clauses included) *)
  Theorem spec_solutions_rename : forall glo gs cs,
    spec_solutions glo gs (map ren_clause cs) = map ren_row (spec_solutions glo gs cs).
  Proof.
    intros glo gs cs. unfold spec_solutions.
    change [@nil (str * cell)] with (map ren_row [[]]) at 1. generalize [@nil (str * cell)] as mus.
    induction cs as [|c cs IH]; intros mus; cbn; [reflexivity|]. rewrite spec_step_ren. apply IH.
  Qed.

  (* ... and with the planner model on D3: the rows for the renamed pattern are the renamed rows, row by row *)
  Lemma ren_row_equiv : forall r r', row_equiv r r' -> row_equiv (ren_row r) (ren_row r').
  Proof.
    intros r r' H. induction H as [|[k v] [k' v'] r r' [A B] H IH]; cbn; constructor; [|exact IH].
    cbn in *. subst. split; auto.
  Qed.

  Lemma Forall2_row_equiv_trans : forall a b c, Forall2 row_equiv a b -> Forall2 row_equiv b c -> Forall2 row_equiv a c.
  Proof.
    intros a b c H. revert c. induction H; intros c Hc; inversion Hc; subst; constructor.
    - eapply row_equiv_trans; eauto.
    - apply IHForall2. assumption.
  Qed.

  Theorem model_rename : forall e gs glo cs outs outs' t,
    D10 e gs cs outs = true -> D10 e gs (map ren_clause cs) outs' = true ->
    process_pattern e gs glo cs empty_table = Ok t ->
    exists t', process_pattern e gs glo (map ren_clause cs) empty_table = Ok t' /\
               Forall2 row_equiv (trows t') (map ren_row (trows t)).
  Proof.
    intros e gs glo cs outs outs' t H H' Et.
    destruct (pattern_is_steps10 e gs glo cs outs H) as [t0 [Et0 R0]]. rewrite Et in Et0. inversion Et0; subst t0.
    destruct (pattern_is_steps10 e gs glo (map ren_clause cs) outs' H') as [t' [Et' R']].
    exists t'. split; [exact Et'|]. rewrite spec_solutions_rename in R'.
    eapply Forall2_row_equiv_trans; [exact R'|].
    clear -R0 f_inj f_nil. induction R0; cbn; constructor; [|assumption]. apply row_equiv_sym. apply ren_row_equiv. exact H.
  Qed.
End Rename.
