(* simpleFetch in one formula for all eight driver shapes (the fully specified shape included, on graphs without
   key-equal duplicates and with the repairs in): rows of the rebuilt triples of the stored triples selected by `fm`,
   a component-wise matching predicate. *)
From Coq Require Import List Bool ZArith Btauto.
Import ListNotations.
From BWPlanner Require Import Terms Rows Clause Store Fetch Plan PatternSpec RowsProofs FetchProofs PlanProofs SpecSound Equiv Canon Domain.

(* global time bounds on a stored predicate *)
Definition gw (lo : lopts) (tp : pred) : bool :=
  match panchor tp with
  | None => true
  | Some a => (match lo_lower lo with Some l => negb (t_before a l) | None => true end) &&
              (match lo_upper lo with Some u => negb (t_after a u) | None => true end)
  end.

(* a predicate handed to a lookup against a stored predicate *)
Definition pp (e : cfg) (p tp : pred) : bool :=
  id_match p tp && (negb (ks e) || Bool.eqb (is_temporal p) (is_temporal tp)) &&
  match panchor tp with
  | Some t => match panchor p with Some ta => t_equal ta t | None => true end
  | None => true
  end.

Definition fm (e : cfg) (c : clause) (lo : lopts) (t : triple) : bool :=
  (match cS c with Some s => node_eqb s (tsub t) | None => true end) &&
  (match cP c with Some p => pp e p (tpred t) | None => true end) &&
  (match cO c with Some o => obj_key_eqb o (tobj t) | None => true end) &&
  gw lo (tpred t).

Lemma check_time_none : forall e lo tp, check_time e None lo tp = gw lo tp.
Proof. intros. unfold check_time, gw. destruct (panchor tp); reflexivity. Qed.

Lemma check_time_some : forall e p lo tp, id_match p tp && check_time e (Some p) lo tp = pp e p tp && gw lo tp.
Proof.
  intros. unfold check_time, pp, gw. destruct (panchor tp); [|btauto].
  destruct (panchor p); btauto.
Qed.

Lemma fixed_match_fm : forall e c lo t, specificity3 c = false -> fixed_match e c lo t = fm e c lo t.
Proof.
  intros e c lo t H. unfold fixed_match, fm, specificity3 in *.
  destruct (cS c) as [s|], (cP c) as [p|], (cO c) as [o|]; cbn in H; try discriminate; rewrite ?check_time_none.
  - rewrite <- andb_assoc, check_time_some. btauto.
  - btauto.
  - btauto.
  - replace (id_match p (tpred t) && obj_key_eqb o (tobj t) && check_time e (Some p) lo (tpred t))
      with (obj_key_eqb o (tobj t) && (id_match p (tpred t) && check_time e (Some p) lo (tpred t))) by btauto.
    rewrite check_time_some. btauto.
  - rewrite check_time_some. btauto.
  - btauto.
  - btauto.
Qed.

Lemma pp_key : forall e p tp, ks e = true -> pp e p tp = pred_key_eqb p tp.
Proof.
  intros e p tp H. unfold pp, pred_key_eqb, id_match, is_temporal. rewrite H. cbn.
  destruct (panchor p), (panchor tp); cbn; btauto.
Qed.

Lemma filter_key_unique : forall q g, graph_nodup g = true ->
  filter (triple_key_eqb q) g = [] \/ exists x, filter (triple_key_eqb q) g = [x].
Proof.
  intros q g. induction g as [|t r IH]; intros H; [left; reflexivity|].
  cbn in H. apply andb_prop in H. destruct H as [Hn Hr]. apply negb_true_iff in Hn. cbn.
  destruct (triple_key_eqb q t) eqn:E.
  - right. exists t. f_equal.
    assert (forall x, In x r -> triple_key_eqb q x = false) as Hall.
    { intros x Hx. destruct (triple_key_eqb q x) eqn:Ex; auto.
      assert (triple_key_eqb t x = true) by (apply (triple_key_trans t q x); [rewrite triple_key_sym; exact E|exact Ex]).
      assert (existsb (triple_key_eqb t) r = true) by (apply existsb_exists; exists x; auto). congruence. }
    clear -Hall. induction r as [|y r IH]; [reflexivity|]. cbn. rewrite (Hall y (or_introl eq_refl)). apply IH.
    intros x Hx. apply Hall. right. exact Hx.
  - apply IH. exact Hr.
Qed.

Lemma existsb_filter_nil : forall {A} (f : A -> bool) l, existsb f l = false <-> filter f l = [].
Proof.
  intros A f l. induction l as [|x l IH]; cbn; [split; auto|].
  destruct (f x); cbn; [split; discriminate|exact IH].
Qed.

Lemma gw_equal : forall lo p p', pred_key_eqb p p' = true -> gw lo p = gw lo p'.
Proof.
  intros lo p p' H. destruct (pred_key_parts _ _ H) as [_ A]. unfold gw. destruct A; [reflexivity|].
  unfold t_equal in H0. apply Z.eqb_eq in H0. unfold t_before, t_after. rewrite H0. reflexivity.
Qed.

Lemma gw_outside : forall lo p, gw lo p = negb (outside_bounds lo p).
Proof.
  intros. unfold gw, outside_bounds. destruct (panchor p); [|reflexivity].
  destruct (lo_lower lo), (lo_upper lo); btauto.
Qed.

Definition fetch_rows_u (e : cfg) (c : clause) (lo : lopts) (g : graph) : list row :=
  rows_of e c (map (rebuilt c) (filter (fm e c lo) g)).

Lemma spo_uniform : forall e c lo g s p o, ks e = true -> fixsb e = true -> graph_nodup g = true ->
  cS c = Some s -> cP c = Some p -> cO c = Some o ->
  (if fixsb e && outside_bounds lo p then [] else fetch_rows_spo e c (mkTriple s p o) g) = fetch_rows_u e c lo g.
Proof.
  intros e c lo g s p o Hks Hsb Hnd ES EP EO. rewrite Hsb. cbn [andb].
  unfold fetch_rows_u, fetch_rows_spo.
  assert (Hfm : forall t, fm e c lo t = triple_key_eqb (mkTriple s p o) t && negb (outside_bounds lo p)).
  { intros t. unfold fm. rewrite ES, EP, EO, (pp_key e p (tpred t) Hks). unfold triple_key_eqb. cbn [tsub tpred tobj].
    destruct (pred_key_eqb p (tpred t)) eqn:Ep.
    - rewrite <- (gw_equal lo p (tpred t) Ep), gw_outside. btauto.
    - btauto. }
  assert (Hf : filter (fm e c lo) g = if outside_bounds lo p then [] else filter (triple_key_eqb (mkTriple s p o)) g).
  { clear Hnd. induction g as [|t r IH]; cbn [filter]; [destruct (outside_bounds lo p); reflexivity|].
    rewrite IH, Hfm. destruct (outside_bounds lo p); cbn.
    - rewrite andb_false_r. reflexivity.
    - rewrite andb_true_r. reflexivity. }
  rewrite Hf. destruct (outside_bounds lo p); [reflexivity|].
  unfold g_exist. destruct (filter_key_unique (mkTriple s p o) g Hnd) as [E|[x E]].
  - rewrite E. apply existsb_filter_nil in E. rewrite E. reflexivity.
  - rewrite E. destruct (existsb (triple_key_eqb (mkTriple s p o)) g) eqn:Ex.
    + cbn. unfold rebuilt. rewrite ES, EP, EO. reflexivity.
    + apply existsb_filter_nil in Ex. congruence.
Qed.

Lemma flat_map_ext_in : forall {A B} (f g : A -> list B) l, (forall x, In x l -> f x = g x) -> flat_map f l = flat_map g l.
Proof.
  intros A B f g l H. induction l as [|x l IH]; cbn; [reflexivity|].
  rewrite (H x (or_introl eq_refl)), IH; [reflexivity|]. intros y Hy. apply H. right. exact Hy.
Qed.

Lemma flat_map_nil : forall {A B} (l : list A), flat_map (fun _ => @nil B) l = [].
Proof. induction l; cbn; auto. Qed.

Theorem fetch_uniform : forall e gs c lo0, fixoid e = true -> ks e = true -> fixsb e = true -> cOIdA c = [] ->
  forallb graph_nodup gs = true ->
  simple_fetch e gs c lo0 = Ok (flat_map (fetch_rows_u e c (update_time_bounds lo0 c)) gs).
Proof.
  intros e gs c lo0 Hf Hks Hsb Hno Hnd. rewrite (fetch_spec e gs c lo0 Hf Hno). cbv zeta. f_equal.
  set (lo := update_time_bounds lo0 c).
  assert (Hgen : specificity3 c = false -> flat_map (fetch_rows e c lo) gs = flat_map (fetch_rows_u e c lo) gs).
  { intros H3. apply flat_map_ext_in. intros g _. unfold fetch_rows, fetch_rows_u. do 2 f_equal.
    apply filter_ext. intros t. apply fixed_match_fm. exact H3. }
  destruct (cS c) as [s|] eqn:ES; destruct (cP c) as [p|] eqn:EP; destruct (cO c) as [o|] eqn:EO;
    try (apply Hgen; unfold specificity3; rewrite ES, EP, EO; reflexivity).
  transitivity (flat_map (fun g => if fixsb e && outside_bounds lo p then [] else fetch_rows_spo e c (mkTriple s p o) g) gs).
  - destruct (fixsb e && outside_bounds lo p); [rewrite flat_map_nil; reflexivity|reflexivity].
  - apply flat_map_ext_in. intros g Hg. apply spo_uniform; auto.
    rewrite forallb_forall in Hnd. apply Hnd. exact Hg.
Qed.
