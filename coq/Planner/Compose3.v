(* C03 composition, part 3: Execute = spec_select on D3; every returned row is a solution and no solution is missing
   (through the soundness and completeness of the computable reference). *)
From Coq Require Import List Bool ZArith Permutation.
Import ListNotations.
From BWPlanner Require Import Terms Rows Clause Store Fetch Plan PatternSpec RowsProofs FetchProofs PlanProofs SpecProofs SpecSound Equiv Canon Domain Uniform Compose Compose2.

(* ---------- projection *)
Lemma write_alias_equiv : forall l l' a a',
  Forall2 (fun pv pv' => fst pv = fst pv' /\ opt_rel cequiv (snd pv) (snd pv')) l l' -> row_equiv a a' ->
  row_equiv (fold_left write_alias l a) (fold_left write_alias l' a').
Proof.
  intros l l' a a' H. revert a a'. induction H as [|[p v] [p' v'] l l' [E Hv] H IH]; intros a a' Ha; cbn [fold_left]; [exact Ha|].
  cbn in E, Hv. subst p'. apply IH. unfold write_alias. cbn [fst snd].
  destruct (is_empty (snd p)); [exact Ha|].
  destruct Hv as [|w w' Hw]; [apply del_equiv; exact Ha|apply set_equiv; assumption].
Qed.

Lemma project_row_equiv : forall projs r mu, row_equiv r mu -> row_equiv (project_row projs r) (project_row projs mu).
Proof.
  intros projs r mu H. unfold project_row. apply write_alias_equiv; [|exact H].
  induction projs as [|p projs IH]; cbn; constructor; [|exact IH]. split; [reflexivity|]. apply get_equiv. exact H.
Qed.

Lemma fold_proj_equiv : forall projs rows mus, Forall2 row_equiv rows mus ->
  Forall2 row_equiv (map (project_row projs) rows) (map (project_row projs) mus).
Proof. intros projs rows mus H. induction H; cbn; constructor; [apply project_row_equiv; assumption|assumption]. Qed.

Definition orow_equiv (a b : list (option cell)) : Prop := Forall2 (opt_rel cequiv) a b.

Lemma out_equiv : forall bs r mu, row_equiv r mu -> orow_equiv (map (get r) bs) (map (get mu) bs).
Proof. intros bs r mu H. induction bs; cbn; constructor; [apply get_equiv; exact H|assumption]. Qed.

Lemma spec_project_eq : forall outs projs mus,
  spec_project outs projs mus = map (fun r => map (get r) (add_all [] outs)) (map (project_row projs) mus).
Proof. reflexivity. Qed.

Lemma forallb_d10 : forall cs, forallb d10_clause cs = true -> Forall d3c cs.
Proof.
  induction cs as [|c cs IH]; intros H; constructor; cbn in H; apply andb_prop in H; destruct H as [A B].
  - apply d10_clause_d3c. exact A.
  - apply IH. exact B.
Qed.

Lemma D10_parts : forall e gs cs outs, D10 e gs cs outs = true ->
  ks e = true /\ strlit_invalid e = false /\ fix9 e = true /\ fix14 e = true /\ fixoid e = true /\ fixsb e = true /\
  fixzone e = true /\ fixs3 e = true /\
  forallb graph_nodup gs = true /\ Forall d3c cs /\
  (exists c cs', cs = c :: cs' /\ c_opt c = false /\ specificity3 c = false) /\ nodup_str outs = true.
Proof.
  intros e gs cs outs H. unfold D10 in H.
  apply andb_prop in H. destruct H as [H Hout].
  apply andb_prop in H. destruct H as [H Hfirst].
  apply andb_prop in H. destruct H as [H Hcl].
  apply andb_prop in H. destruct H as [H Hg].
  apply andb_prop in H. destruct H as [H Hs3].
  apply andb_prop in H. destruct H as [H Hz].
  apply andb_prop in H. destruct H as [H Hsb].
  apply andb_prop in H. destruct H as [H Hoid].
  apply andb_prop in H. destruct H as [H H14].
  apply andb_prop in H. destruct H as [H H9].
  apply andb_prop in H. destruct H as [Hks Hsl].
  apply negb_true_iff in Hsl.
  repeat split; try assumption.
  - apply forallb_d10. exact Hcl.
  - destruct cs as [|c cs']; [discriminate|]. exists c, cs'. split; [reflexivity|].
    apply andb_prop in Hfirst. destruct Hfirst as [F1 F2]. split; apply negb_true_iff; assumption.
Qed.

(* D3 is the part of D10 without OPTIONAL clauses *)
Lemma D3_D10 : forall e gs cs outs, D3 e gs cs outs = true ->
  D10 e gs cs outs = true /\ forallb (fun c => negb (c_opt c)) cs = true.
Proof.
  intros e gs cs outs H. unfold D3 in H. unfold D10.
  apply andb_prop in H. destruct H as [H Hout].
  apply andb_prop in H. destruct H as [H Hne].
  apply andb_prop in H. destruct H as [H Hcl].
  assert (Hcl' : forallb d10_clause cs = true /\ forallb (fun c => negb (c_opt c)) cs = true).
  { clear -Hcl. induction cs as [|c cs IH]; [split; reflexivity|]. cbn in *. apply andb_prop in Hcl. destruct Hcl as [A B].
    unfold d3_clause in A. apply andb_prop in A. destruct A as [A1 A2]. destruct (IH B) as [I1 I2]. rewrite A1, A2, I1, I2. split; reflexivity. }
  destruct Hcl' as [C1 C2]. split; [|exact C2].
  rewrite H, C1, Hout. cbn. destruct cs as [|c cs']; [discriminate|]. cbn in C2. apply andb_prop in C2. destruct C2 as [C2 _]. rewrite C2, Hne. reflexivity.
Qed.

Lemma D3_parts : forall e gs cs outs, D3 e gs cs outs = true ->
  ks e = true /\ strlit_invalid e = false /\ fix14 e = true /\ fixoid e = true /\ fixsb e = true /\
  forallb graph_nodup gs = true /\ Forall d3c cs /\ cs <> [] /\ nodup_str outs = true.
Proof.
  intros e gs cs outs H. destruct (D3_D10 _ _ _ _ H) as [H10 _].
  destruct (D10_parts _ _ _ _ H10) as [Hks [Hsl [H9 [H14 [Hoid [Hsb [Hz [Hs3 [Hg [HD [[c [cs' [E _]]] Ho]]]]]]]]]]].
  repeat split; try assumption. subst. discriminate.
Qed.

(* ---------- C10 / C03: Execute = the specification's sequence of steps, on D10 *)
Theorem execute_is_spec_select10 : forall e gs glo cs outs projs, D10 e gs cs outs = true ->
  exists bs rows, execute e gs glo cs outs projs = Ok (bs, rows) /\
                  Forall2 orow_equiv rows (spec_select glo gs cs outs projs).
Proof.
  intros e gs glo cs outs projs H.
  destruct (D10_parts _ _ _ _ H) as [Hks [Hsl [H9 [H14 [Hoid [Hsb [Hz [Hs3 [Hg [HD [[c [cs' [E [Hopt H3]]]] H0]]]]]]]]]]]. subst cs.
  destruct (pattern_is_solutions e gs glo Hks Hsl H9 H14 Hoid Hsb Hz Hs3 Hg c cs' HD Hopt H3) as [t [Et Rt]].
  unfold execute. rewrite Et. cbn [bind]. unfold spec_select. rewrite spec_project_eq.
  pose proof (fold_proj_equiv projs _ _ Rt) as Rp. unfold project.
  destruct (map (project_row projs) (trows t)) as [|r0 rs0] eqn:Er.
  - rewrite H0. inversion Rp; subst. eexists _, _. split; [reflexivity|constructor].
  - eexists _, _. split; [reflexivity|].
    apply (Forall2_map2 orow_equiv _ _ row_equiv _ _ Rp). intros a b Hab. apply out_equiv. exact Hab.
Qed.

Theorem pattern_is_steps10 : forall e gs glo cs outs, D10 e gs cs outs = true ->
  exists t, process_pattern e gs glo cs empty_table = Ok t /\ Forall2 row_equiv (trows t) (spec_solutions glo gs cs).
Proof.
  intros e gs glo cs outs H.
  destruct (D10_parts _ _ _ _ H) as [Hks [Hsl [H9 [H14 [Hoid [Hsb [Hz [Hs3 [Hg [HD [[c [cs' [E [Hopt H3]]]] H0]]]]]]]]]]]. subst cs.
  apply (pattern_is_solutions e gs glo Hks Hsl H9 H14 Hoid Hsb Hz Hs3 Hg c cs' HD Hopt H3).
Qed.

Theorem execute_is_spec_select : forall e gs glo cs outs projs, D3 e gs cs outs = true ->
  exists bs rows, execute e gs glo cs outs projs = Ok (bs, rows) /\
                  Forall2 orow_equiv rows (spec_select glo gs cs outs projs).
Proof. intros. apply execute_is_spec_select10. apply D3_D10. assumption. Qed.

(* as multisets *)
Definition orows_equiv (a b : list (list (option cell))) : Prop :=
  exists b', Permutation b b' /\ Forall2 orow_equiv a b'.

Corollary execute_multiset : forall e gs glo cs outs projs, D3 e gs cs outs = true ->
  exists bs rows, execute e gs glo cs outs projs = Ok (bs, rows) /\ orows_equiv rows (spec_select glo gs cs outs projs).
Proof.
  intros. destruct (execute_is_spec_select e gs glo cs outs projs H) as [bs [rows [A B]]].
  exists bs, rows. split; [exact A|]. exists (spec_select glo gs cs outs projs). split; [apply Permutation_refl|exact B].
Qed.

(* ---------- completeness of the computable reference *)

Fixpoint nodup_keys (r : row) : Prop :=
  match r with
  | [] => True
  | (k, _) :: rest => get rest k = None /\ nodup_keys rest
  end.

Lemma nodup_keys_in_get : forall r k v, nodup_keys r -> In (k, v) r -> get r k = Some v.
Proof.
  induction r as [|[k0 v0] r IH]; intros k v Hnd Hin; [destruct Hin|]. cbn in Hnd. destruct Hnd as [Hn Hnd].
  cbn. destruct Hin as [E|Hin].
  - inversion E; subst. rewrite str_eqb_refl. reflexivity.
  - destruct (str_eqb k k0) eqn:Ek; [|apply IH; assumption].
    apply str_eqb_true in Ek. subst. rewrite (IH k0 v Hnd Hin) in Hn. discriminate.
Qed.

Lemma nodup_keys_set : forall r k v, nodup_keys r -> nodup_keys (set r k v).
Proof.
  induction r as [|[k0 v0] r IH]; intros k v H; cbn; [auto|]. cbn in H. destruct H as [Hn H].
  destruct (str_eqb k k0) eqn:Ek; cbn; [auto|]. split; [|apply IH; exact H].
  rewrite get_set. rewrite str_eqb_sym, Ek. exact Hn.
Qed.

Lemma spec_bind_nodup_keys : forall bs t r0 r, spec_bind false bs t r0 = Some r -> nodup_keys r0 -> nodup_keys r.
Proof.
  induction bs as [|[k x] bs IH]; intros t r0 r H Hnd; cbn in H; [inversion H; subst; exact Hnd|].
  destruct (xspec x t) as [v|]; [|discriminate]. destruct (get r0 k) as [v0|].
  - destruct (cell_equiv v0 v); [|discriminate]. eapply IH; eauto.
  - eapply IH; [exact H|]. apply nodup_keys_set. exact Hnd.
Qed.

Lemma spec_bind_complete : forall bs t mu r0,
  (forall k x, In (k, x) bs -> exists v w, xspec x t = Some v /\ get mu k = Some w /\ cell_equiv w v = true) ->
  sub_equiv r0 mu ->
  exists r, spec_bind false bs t r0 = Some r /\ sub_equiv r mu.
Proof.
  induction bs as [|[k x] bs IH]; intros t mu r0 Hall Hsub.
  - exists r0. split; [reflexivity|exact Hsub].
  - destruct (Hall k x (or_introl eq_refl)) as [v [w [X [G C]]]]. cbn [spec_bind]. rewrite X.
    assert (Hall' : forall k0 x0, In (k0, x0) bs -> exists v0 w0, xspec x0 t = Some v0 /\ get mu k0 = Some w0 /\ cell_equiv w0 v0 = true)
      by (intros; apply Hall; right; assumption).
    destruct (get r0 k) as [v0|] eqn:G0.
    + destruct (Hsub k v0 G0) as [w0 [Gw Cw]]. rewrite G in Gw. inversion Gw; subst w0.
      rewrite (cell_equiv_trans v0 w v Cw C). apply IH; assumption.
    + apply IH; [assumption|]. intros k1 v1 G1. rewrite get_set in G1. destruct (str_eqb k1 k) eqn:Ek.
      * apply str_eqb_true in Ek. subst. inversion G1; subst. exists w. split; [exact G|]. rewrite cell_equiv_sym. exact C.
      * apply Hsub. exact G1.
Qed.

Definition no_window (c : clause) : bool := is_empty (cPLoA c) && is_empty (cPUpA c).

Lemma no_window_ok : forall c mu t, no_window c = true -> row_bounds_ok c mu t = true.
Proof.
  intros c mu t H. unfold no_window in H. apply andb_prop in H. destruct H as [A B].
  unfold row_bounds_ok, row_bound. rewrite A, B. destruct (panchor (tpred t)); reflexivity.
Qed.

Lemma spec_step_complete : forall glo gs c mus mu r0 g t,
  c_opt c = false -> no_window c = true -> In r0 mus -> sub_equiv r0 mu -> In g gs -> In t g -> clause_match c glo t mu ->
  exists r1, In r1 (spec_step glo gs c mus) /\ sub_equiv r1 mu.
Proof.
  intros glo gs c mus mu r0 g t Hopt Hnw Hr0 Hsub Hg Ht [Hc Hb].
  destruct (spec_bind_complete (binders c) t mu [] Hb) as [rb [Eb Sb]]; [intros k v G; discriminate|].
  assert (Hrow : spec_row c glo t = Some rb) by (unfold spec_row; rewrite Hc, Hopt; exact Eb).
  assert (Hnk : nodup_keys rb) by (eapply spec_bind_nodup_keys; [exact Eb|exact I]).
  assert (Hcomp : compat_equiv r0 rb = true).
  { unfold compat_equiv. apply forallb_forall. intros [k w'] Hin. cbn.
    destruct (get r0 k) as [v0|] eqn:G0; [|reflexivity].
    destruct (Hsub k v0 G0) as [m [Gm Cm]].
    destruct (Sb k w' (nodup_keys_in_get rb k w' Hnk Hin)) as [m' [Gm' Cm']]. rewrite Gm in Gm'. inversion Gm'; subst m'.
    apply (cell_equiv_trans v0 m w' Cm). rewrite cell_equiv_sym. exact Cm'. }
  exists (merge_rows r0 rb). split.
  - unfold spec_step. apply in_flat_map. exists r0. split; [exact Hr0|].
    assert (Hin : In (merge_rows r0 rb) (spec_extend c glo gs r0)).
    { unfold spec_extend. apply in_flat_map. exists g. split; [exact Hg|]. apply in_flat_map. exists t. split; [exact Ht|].
      rewrite Hrow, Hcomp, (no_window_ok c r0 t Hnw). left. reflexivity. }
    destruct (spec_extend c glo gs r0); [destruct Hin|exact Hin].
  - intros k v G. rewrite get_merge in G. destruct (get r0 k) as [v0|] eqn:G0.
    + inversion G; subst. apply Hsub. exact G0.
    + apply Sb. exact G.
Qed.

Theorem spec_solutions_complete : forall glo gs cs mu,
  forallb (fun c => negb (c_opt c) && no_window c) cs = true -> is_solution cs glo gs mu ->
  exists r, In r (spec_solutions glo gs cs) /\ sub_equiv r mu.
Proof.
  intros glo gs cs mu Hno Hsol. unfold spec_solutions.
  assert (G : forall cs mus, forallb (fun c => negb (c_opt c) && no_window c) cs = true ->
            (forall c, In c cs -> exists g t, In g gs /\ In t g /\ clause_match c glo t mu) ->
            (exists r0, In r0 mus /\ sub_equiv r0 mu) ->
            exists r, In r (fold_left (fun m c => spec_step glo gs c m) cs mus) /\ sub_equiv r mu).
  { clear. induction cs as [|c cs IH]; intros mus Hno Hall Hex; cbn; [exact Hex|].
    cbn in Hno. apply andb_prop in Hno. destruct Hno as [Hc Hcs]. apply andb_prop in Hc. destruct Hc as [Hc Hw]. apply negb_true_iff in Hc.
    apply IH; [exact Hcs|intros; apply Hall; right; assumption|].
    destruct Hex as [r0 [Hr0 Hs0]]. destruct (Hall c (or_introl eq_refl)) as [g [t [Hg [Ht Hm]]]].
    eapply spec_step_complete; eauto. }
  apply G; [exact Hno|exact Hsol|]. exists []. split; [left; reflexivity|intros k v X; discriminate].
Qed.

(* ---------- the rows of the planner are exactly the solutions (pattern level, before projection) *)
Lemma clause_match_equiv : forall c glo t r mu, row_equiv r mu -> clause_match c glo t mu -> clause_match c glo t r.
Proof.
  intros c glo t r mu H [Hc Hb]. split; [exact Hc|]. intros k x Hin.
  destruct (Hb k x Hin) as [v [w [X [G C]]]]. pose proof (get_equiv r mu k H) as Ge. rewrite G in Ge.
  destruct (opt_rel_some_r _ _ _ Ge) as [w' [Gw Cw]]. exists v, w'. split; [exact X|]. split; [exact Gw|].
  eapply cell_equiv_trans; eauto.
Qed.

Lemma Forall2_in_r : forall {A B} (R : A -> B -> Prop) l l' y, Forall2 R l l' -> In y l' -> exists x, In x l /\ R x y.
Proof.
  intros A B R l l' y H. induction H; intros Hin; [destruct Hin|].
  destruct Hin as [<-|Hin]; [exists x; split; [left; reflexivity|assumption]|].
  destruct (IHForall2 Hin) as [x' [A1 A2]]. exists x'. split; [right; assumption|assumption].
Qed.

Lemma d3c_no_window : forall c, d3c c -> no_window c = true.
Proof.
  intros c D. pose proof (d_nb c D) as Hnb. unfold no_bounds in Hnb.
  apply andb_prop in Hnb. destruct Hnb as [Hnb _]. apply andb_prop in Hnb. destruct Hnb as [Hnb _]. exact Hnb.
Qed.

Lemma no_opt_no_window : forall cs, forallb (fun c => negb (c_opt c)) cs = true -> Forall d3c cs ->
  forallb (fun c => negb (c_opt c) && no_window c) cs = true.
Proof.
  intros cs H HD. induction HD as [|c cs Dc Dcs IH]; [reflexivity|]. cbn in *. apply andb_prop in H. destruct H as [A B].
  rewrite A, (d3c_no_window c Dc), (IH B). reflexivity.
Qed.

Theorem pattern_sound_complete : forall e gs glo cs outs, D3 e gs cs outs = true ->
  exists t, process_pattern e gs glo cs empty_table = Ok t /\
    (forall r, In r (trows t) -> is_solution cs glo gs r) /\
    (forall mu, is_solution cs glo gs mu -> exists r, In r (trows t) /\ sub_equiv r mu).
Proof.
  intros e gs glo cs outs H.
  destruct (D3_D10 _ _ _ _ H) as [H10 Hno].
  destruct (D3_parts _ _ _ _ H) as [Hks [Hsl [H14 [Hoid [Hsb [Hg [HD [Hne H0]]]]]]]].
  destruct (pattern_is_steps10 e gs glo cs outs H10) as [t [Et Rt]].
  destruct cs as [|c cs]; [congruence|].
  exists t. split; [exact Et|]. split.
  - intros r Hr. destruct (Forall2_in_l _ _ _ _ Rt Hr) as [mu [Hmu Heq]].
    pose proof (spec_solutions_sound glo gs (c :: cs) mu Hno Hmu) as Hs.
    intros c0 Hc0. destruct (Hs c0 Hc0) as [g [t0 [A [B C]]]]. exists g, t0. split; [exact A|]. split; [exact B|].
    eapply clause_match_equiv; eauto.
  - intros mu Hs. destruct (spec_solutions_complete glo gs (c :: cs) mu (no_opt_no_window _ Hno HD) Hs) as [r' [Hr' Sr']].
    destruct (Forall2_in_r _ _ _ _ Rt Hr') as [r [Hr Heq]]. exists r. split; [exact Hr|].
    intros k v G. pose proof (get_equiv r r' k Heq) as Ge. rewrite G in Ge. inversion Ge as [|a b Hab Ea Eb]; subst.
    destruct (Sr' k b (eq_sym Eb)) as [w [Gw Cw]]. exists w. split; [exact Gw|]. eapply cell_equiv_trans; eauto.
Qed.

(* ---------- C14 on the model, as corollaries: two runs whose patterns / data have the same solutions return the same
   solutions (each row of one run is matched by a row of the other that agrees with it on all its bindings) *)
Theorem model_transfer : forall e gs gs' glo cs cs' outs outs' t,
  D3 e gs cs outs = true -> D3 e gs' cs' outs' = true ->
  (forall mu, is_solution cs glo gs mu -> is_solution cs' glo gs' mu) ->
  process_pattern e gs glo cs empty_table = Ok t ->
  exists t', process_pattern e gs' glo cs' empty_table = Ok t' /\
             forall r, In r (trows t) -> exists r', In r' (trows t') /\ sub_equiv r' r /\ is_solution cs' glo gs' r'.
Proof.
  intros e gs gs' glo cs cs' outs outs' t H H' Himp Et.
  destruct (pattern_sound_complete e gs glo cs outs H) as [t0 [Et0 [S0 _]]]. rewrite Et in Et0. inversion Et0; subst t0.
  destruct (pattern_sound_complete e gs' glo cs' outs' H') as [t' [Et' [S' C']]].
  exists t'. split; [exact Et'|]. intros r Hr.
  destruct (C' r (Himp r (S0 r Hr))) as [r' [Hr' Hs']]. exists r'. split; [exact Hr'|]. split; [exact Hs'|apply S'; exact Hr'].
Qed.

(* ---------- C10 over whole patterns: appending an OPTIONAL clause to a pattern never removes a row *)
Lemma Forall2_length : forall {A B} (R : A -> B -> Prop) l l', Forall2 R l l' -> length l = length l'.
Proof. intros A B R l l' H. induction H; cbn; auto. Qed.

Theorem optional_never_removes_pattern : forall e gs glo cs c outs t1 t2,
  D10 e gs cs outs = true -> D10 e gs (cs ++ [c]) outs = true -> c_opt c = true ->
  process_pattern e gs glo cs empty_table = Ok t1 ->
  process_pattern e gs glo (cs ++ [c]) empty_table = Ok t2 ->
  (length (trows t1) <= length (trows t2))%nat /\
  forall r, In r (trows t1) -> exists r', In r' (trows t2) /\ sub_equiv r r'.
Proof.
  intros e gs glo cs c outs t1 t2 H1 H2 Hopt E1 E2.
  destruct (pattern_is_steps10 e gs glo cs outs H1) as [t1' [E1' R1]]. rewrite E1 in E1'. inversion E1'; subst t1'.
  destruct (pattern_is_steps10 e gs glo (cs ++ [c]) outs H2) as [t2' [E2' R2]]. rewrite E2 in E2'. inversion E2'; subst t2'.
  unfold spec_solutions in R2. rewrite fold_left_app in R2. cbn [fold_left] in R2. fold (spec_solutions glo gs cs) in R2.
  destruct (spec_step_optional_never_removes glo gs c (spec_solutions glo gs cs) Hopt) as [Hlen Hall].
  split.
  - rewrite (Forall2_length _ _ _ R1), (Forall2_length _ _ _ R2). exact Hlen.
  - intros r Hr. destruct (Forall2_in_l _ _ _ _ R1 Hr) as [mu [Hmu Hrm]].
    destruct (Hall mu Hmu) as [x [Hx Hsub]]. destruct (Forall2_in_r _ _ _ _ R2 Hx) as [r' [Hr' Hrx]].
    exists r'. split; [exact Hr'|]. intros k v G.
    pose proof (get_equiv r mu k Hrm) as Ge. rewrite G in Ge. inversion Ge as [|a b Hab Ea Eb]; subst.
    pose proof (Hsub k b (eq_sym Eb)) as Gx.
    pose proof (get_equiv r' x k Hrx) as Ge'. rewrite Gx in Ge'. destruct (opt_rel_some_r _ _ _ Ge') as [w [Gw Cw]].
    exists w. split; [exact Gw|]. eapply cell_equiv_trans; [exact Hab|]. rewrite cell_equiv_sym. exact Cw.
Qed.
