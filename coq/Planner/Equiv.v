(* Equivalence up to the zone in which an instant is written: cells, rows, triples; congruence of the row operations and
   of the extraction functions.  Used by the composition theorem (Compose.v): the planner model and the specification
   are related row by row up to this equivalence. *)
From Coq Require Import List Bool ZArith.
Import ListNotations.
From BWPlanner Require Import Terms Rows Clause Store Fetch PatternSpec RowsProofs FetchProofs SpecSound.

(* ---------- cells *)
Lemma t_equal_sym : forall a b, t_equal a b = t_equal b a.
Proof. intros. unfold t_equal. apply Z.eqb_sym. Qed.

Lemma str_eqb_sym : forall a b, str_eqb a b = str_eqb b a.
Proof.
  intros a b. destruct (str_eqb a b) eqn:E.
  - apply str_eqb_true in E. subst. symmetry. apply str_eqb_refl.
  - destruct (str_eqb b a) eqn:E'; auto. apply str_eqb_true in E'. subst. rewrite str_eqb_refl in E. discriminate.
Qed.

Lemma pred_key_sym : forall a b, pred_key_eqb a b = pred_key_eqb b a.
Proof.
  intros a b. unfold pred_key_eqb. rewrite str_eqb_sym. f_equal.
  destruct (panchor a), (panchor b); auto. apply t_equal_sym.
Qed.

Lemma node_eqb_sym : forall a b, node_eqb a b = node_eqb b a.
Proof. intros. unfold node_eqb. destruct (node_eq_dec a b), (node_eq_dec b a); congruence. Qed.

Lemma lit_eqb_sym : forall a b, lit_eqb a b = lit_eqb b a.
Proof. intros. unfold lit_eqb. destruct (lit_eq_dec a b), (lit_eq_dec b a); congruence. Qed.

Lemma cell_equiv_sym : forall a b, cell_equiv a b = cell_equiv b a.
Proof.
  destruct a, b; cbn; auto.
  - apply str_eqb_sym. - apply node_eqb_sym. - apply pred_key_sym. - apply lit_eqb_sym. - apply t_equal_sym.
Qed.

Lemma cell_equiv_cong : forall a a' b b',
  cell_equiv a a' = true -> cell_equiv b b' = true -> cell_equiv a b = cell_equiv a' b'.
Proof.
  intros a a' b b' Ha Hb. destruct (cell_equiv a b) eqn:E.
  - symmetry. apply (cell_equiv_trans a' a b'); [rewrite cell_equiv_sym; exact Ha|].
    apply (cell_equiv_trans a b b'); assumption.
  - destruct (cell_equiv a' b') eqn:E'; auto.
    assert (cell_equiv a b = true); [|congruence].
    apply (cell_equiv_trans a a' b); [exact Ha|]. apply (cell_equiv_trans a' b' b); [exact E'|].
    rewrite cell_equiv_sym. exact Hb.
Qed.

(* ---------- rows *)
Definition entry_equiv (a b : str * cell) : Prop := fst a = fst b /\ cell_equiv (snd a) (snd b) = true.
Definition row_equiv (r r' : row) : Prop := Forall2 entry_equiv r r'.

Lemma row_equiv_refl : forall r, row_equiv r r.
Proof. induction r as [|[k v] r IH]; constructor; auto. split; auto. apply cell_equiv_refl. Qed.

Lemma row_equiv_sym : forall r r', row_equiv r r' -> row_equiv r' r.
Proof.
  intros r r' H. induction H; constructor; auto. destruct H as [A B]. split; [congruence|].
  rewrite cell_equiv_sym. exact B.
Qed.

Lemma row_equiv_trans : forall a b c, row_equiv a b -> row_equiv b c -> row_equiv a c.
Proof.
  intros a b c H. revert c. induction H; intros c Hc; inversion Hc; subst; constructor.
  - destruct H as [A B]. destruct H3 as [A' B']. split; [congruence|]. eapply cell_equiv_trans; eauto.
  - apply IHForall2. assumption.
Qed.

Inductive opt_rel {A} (R : A -> A -> Prop) : option A -> option A -> Prop :=
| OR_none : opt_rel R None None
| OR_some : forall a b, R a b -> opt_rel R (Some a) (Some b).

Definition cequiv (a b : cell) : Prop := cell_equiv a b = true.

Lemma get_equiv : forall r r' k, row_equiv r r' -> opt_rel cequiv (get r k) (get r' k).
Proof.
  intros r r' k H. induction H as [|[k1 v1] [k2 v2] r r' [A B] H IH]; cbn; [constructor|].
  cbn in A, B. subst k2. destruct (str_eqb k k1); [constructor; exact B|exact IH].
Qed.

Lemma has_equiv : forall r r' k, row_equiv r r' -> has r k = has r' k.
Proof. intros r r' k H. unfold has. destruct (get_equiv r r' k H); reflexivity. Qed.

Lemma Forall2_filter : forall {A} (R : A -> A -> Prop) (f g : A -> bool) l l',
  Forall2 R l l' -> (forall a b, R a b -> f a = g b) -> Forall2 R (filter f l) (filter g l').
Proof.
  intros A R f g l l' H Hfg. induction H; cbn; [constructor|].
  rewrite (Hfg _ _ H). destruct (g y); [constructor; assumption|assumption].
Qed.

Lemma merge_equiv : forall a a' b b', row_equiv a a' -> row_equiv b b' -> row_equiv (merge_rows a b) (merge_rows a' b').
Proof.
  intros a a' b b' Ha Hb. unfold merge_rows. apply Forall2_app; [exact Ha|].
  apply Forall2_filter; [exact Hb|]. intros [k v] [k' v'] [A _]. cbn in *. subst k'. f_equal. apply has_equiv. exact Ha.
Qed.

Lemma compat_cong : forall mu mu' r r', row_equiv mu mu' -> row_equiv r r' -> compat_equiv mu r = compat_equiv mu' r'.
Proof.
  intros mu mu' r r' Hm Hr. unfold compat_equiv. induction Hr as [|[k v] [k' v'] r r' [A B] Hr IH]; cbn; [reflexivity|].
  cbn in A, B. subst k'. rewrite IH. f_equal.
  destruct (get_equiv mu mu' k Hm) as [|w w' Hw]; [reflexivity|]. apply cell_equiv_cong; assumption.
Qed.

Lemma set_equiv : forall r r' k v v', row_equiv r r' -> cell_equiv v v' = true -> row_equiv (set r k v) (set r' k v').
Proof.
  intros r r' k v v' H Hv. induction H as [|[k1 v1] [k2 v2] r r' [A B] H IH]; cbn.
  - constructor; [split; auto|constructor].
  - cbn in A, B. subst k2. destruct (str_eqb k k1); constructor; auto; split; auto.
Qed.

Lemma del_equiv : forall r r' k, row_equiv r r' -> row_equiv (del r k) (del r' k).
Proof.
  intros r r' k H. induction H as [|[k1 v1] [k2 v2] r r' [A B] H IH]; cbn; [constructor|].
  cbn in A, B. subst k2. destruct (str_eqb k k1); [exact IH|constructor; auto; split; auto].
Qed.

(* ---------- triples *)
Definition tequiv (t t' : triple) : Prop := triple_key_eqb t t' = true.

Lemma obj_key_refl : forall o, obj_key_eqb o o = true.
Proof. destruct o; cbn; [apply node_eqb_true|apply pred_key_refl|apply lit_eqb_true]; reflexivity. Qed.

Lemma obj_key_sym : forall a b, obj_key_eqb a b = obj_key_eqb b a.
Proof. destruct a, b; cbn; auto; [apply node_eqb_sym|apply pred_key_sym|apply lit_eqb_sym]. Qed.

Lemma obj_key_trans : forall a b c, obj_key_eqb a b = true -> obj_key_eqb b c = true -> obj_key_eqb a c = true.
Proof.
  destruct a, b; cbn; try discriminate; destruct c; cbn; try discriminate; intros H1 H2.
  - apply node_eqb_true in H1. apply node_eqb_true in H2. apply node_eqb_true. congruence.
  - eapply pred_key_trans; eauto.
  - apply lit_eqb_true in H1. apply lit_eqb_true in H2. apply lit_eqb_true. congruence.
Qed.

Lemma tequiv_refl : forall t, tequiv t t.
Proof.
  intros t. unfold tequiv, triple_key_eqb. rewrite pred_key_refl, obj_key_refl.
  assert (node_eqb (tsub t) (tsub t) = true) as -> by (apply node_eqb_true; reflexivity). reflexivity.
Qed.

Lemma triple_key_sym : forall a b, triple_key_eqb a b = triple_key_eqb b a.
Proof. intros. unfold triple_key_eqb. rewrite node_eqb_sym, pred_key_sym, obj_key_sym. reflexivity. Qed.

Lemma triple_key_trans : forall a b c, triple_key_eqb a b = true -> triple_key_eqb b c = true -> triple_key_eqb a c = true.
Proof.
  unfold triple_key_eqb. intros a b c H1 H2.
  apply andb_prop in H1. destruct H1 as [H1 O1]. apply andb_prop in H1. destruct H1 as [N1 P1].
  apply andb_prop in H2. destruct H2 as [H2 O2]. apply andb_prop in H2. destruct H2 as [N2 P2].
  apply node_eqb_true in N1. apply node_eqb_true in N2.
  rewrite (pred_key_trans _ _ _ P1 P2), (obj_key_trans _ _ _ O1 O2).
  assert (node_eqb (tsub a) (tsub c) = true) as -> by (apply node_eqb_true; congruence). reflexivity.
Qed.

Lemma tequiv_parts : forall t t', tequiv t t' ->
  tsub t = tsub t' /\ pred_key_eqb (tpred t) (tpred t') = true /\ obj_key_eqb (tobj t) (tobj t') = true.
Proof.
  intros t t' H. unfold tequiv, triple_key_eqb in H.
  apply andb_prop in H. destruct H as [H O]. apply andb_prop in H. destruct H as [N P].
  apply node_eqb_true in N. auto.
Qed.

Lemma pred_key_parts : forall p p', pred_key_eqb p p' = true ->
  pid p = pid p' /\ opt_rel (fun a b => t_equal a b = true) (panchor p) (panchor p').
Proof.
  intros p p' H. unfold pred_key_eqb in H. apply andb_prop in H. destruct H as [I A].
  apply str_eqb_true in I. split; [exact I|].
  destruct (panchor p), (panchor p'); try discriminate; constructor. exact A.
Qed.

(* extractions respect triple equivalence *)
Lemma xspec_equiv : forall x t t', tequiv t t' -> opt_rel cequiv (xspec x t) (xspec x t').
Proof.
  intros x t t' H. destruct (tequiv_parts _ _ H) as [Hs [Hp Ho]].
  destruct (pred_key_parts _ _ Hp) as [Hid Ha].
  destruct x; cbn.
  - constructor. unfold cequiv. cbn. rewrite Hs. apply node_eqb_true. reflexivity.
  - constructor. unfold cequiv. cbn. rewrite Hs. apply str_eqb_refl.
  - constructor. unfold cequiv. cbn. rewrite Hs. apply str_eqb_refl.
  - constructor. exact Hp.
  - constructor. unfold cequiv. cbn. rewrite Hid. apply str_eqb_refl.
  - destruct Ha; constructor. exact H0.
  - constructor. unfold cequiv. destruct (tobj t), (tobj t'); cbn in *; try discriminate; exact Ho.
  - destruct (tobj t), (tobj t'); cbn in *; try discriminate; try constructor.
    apply node_eqb_true in Ho. subst. unfold cequiv. cbn. apply str_eqb_refl.
  - destruct (tobj t), (tobj t'); cbn in *; try discriminate; try constructor.
    + apply node_eqb_true in Ho. subst. unfold cequiv. cbn. apply str_eqb_refl.
    + destruct (pred_key_parts _ _ Ho) as [I _]. unfold cequiv. cbn. rewrite I. apply str_eqb_refl.
  - destruct (tobj t), (tobj t'); cbn in *; try discriminate; try constructor.
    destruct (pred_key_parts _ _ Ho) as [_ A]. destruct A; constructor. exact H0.
Qed.

Lemma xval_equiv : forall opt x t t', tequiv t t' -> opt_rel cequiv (xval opt x t) (xval opt x t').
Proof.
  intros opt x t t' H. unfold xval. destruct (xspec_equiv x t t' H); [|constructor; assumption].
  destruct opt; constructor. reflexivity.
Qed.

(* the row of a triple for a list of binders with pairwise different names: every binder gets its extraction (NULL inside an
   OPTIONAL clause when it does not apply) *)
Fixpoint brow (opt : bool) (bs : list (str * extractor)) (t : triple) : option row :=
  match bs with
  | [] => Some []
  | (k, x) :: rest =>
      match xval opt x t, brow opt rest t with
      | Some v, Some r => Some ((k, v) :: r)
      | _, _ => None
      end
  end.

Lemma brow_equiv : forall opt bs t t', tequiv t t' -> opt_rel row_equiv (brow opt bs t) (brow opt bs t').
Proof.
  intros opt bs t t' H. induction bs as [|[k x] bs IH]; cbn; [constructor; constructor|].
  destruct (xval_equiv opt x t t' H) as [|v v' Hv]; [constructor|].
  destruct IH as [|r r' Hr]; constructor. constructor; [split; auto|exact Hr].
Qed.

Lemma brow_nonempty : forall opt bs t r, bs <> [] -> brow opt bs t = Some r -> r <> [].
Proof.
  intros opt [|[k x] bs] t r Hne H; [congruence|]. cbn in H.
  destruct (xval opt x t); [|discriminate]. destruct (brow opt bs t); [|discriminate]. inversion H. discriminate.
Qed.

Lemma brow_keys : forall opt bs t r, brow opt bs t = Some r -> map fst r = map fst bs.
Proof.
  induction bs as [|[k x] bs IH]; intros t r H; cbn in H.
  - inversion H. reflexivity.
  - destruct (xval opt x t); [|discriminate]. destruct (brow opt bs t) eqn:E; [|discriminate]. inversion H; subst. cbn. f_equal. eapply IH; eauto.
Qed.
