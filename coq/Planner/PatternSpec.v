(* Specification: what a SELECT over a conjunctive graph pattern (with OPTIONAL clauses) means.
   Declarative part: clause_match (a triple matches a clause under an assignment), is_solution.
   Computable part (the reference used by the checks as the oracle): nested-loop joins over the listed graphs.
   Values are compared the way the store identifies them: anchors by instant (zone-insensitive). *)
From Coq Require Import List Bool.
Import ListNotations.
From BWPlanner Require Import Terms Rows Clause Store.

(* ---- the part of a triple a binding denotes; None = the extraction does not apply to this triple *)
Definition xspec (x : extractor) (t : triple) : option cell :=
  match x with
  | XSubj => Some (CNode (tsub t))
  | XSType => Some (CStr (ntype (tsub t)))
  | XSId => Some (CStr (nid (tsub t)))
  | XPred => Some (CPred (tpred t))
  | XPId => Some (CStr (pid (tpred t)))
  | XPAnchor => match panchor (tpred t) with Some ta => Some (CTime ta) | None => None end
  | XObj => Some (match tobj t with ONode n => CNode n | OPred p => CPred p | OLit l => CLit l end)
  | XOType => match tobj t with ONode n => Some (CStr (ntype n)) | _ => None end
  | XOId => match tobj t with ONode n => Some (CStr (nid n)) | OPred p => Some (CStr (pid p)) | OLit _ => None end
  | XOAnchor => match tobj t with
                | OPred p => match panchor p with Some ta => Some (CTime ta) | None => None end
                | _ => None
                end
  end.

(* ---- constants and time bounds *)
Definition within (lo up : option time) (ta : time) : bool :=
  (match lo with Some l => negb (t_before ta l) | None => true end) &&
  (match up with Some u => negb (t_after ta u) | None => true end).

(* predicate part of a clause against a predicate value: a constant (same id, kind and instant); or an id with an
   interval (temporal only, inside the interval); or an id with an anchor binding (temporal only - except inside an
   OPTIONAL clause, where an immutable predicate of that id matches with a NULL anchor, as tripleToRow documents); or free *)
Definition pred_part_ok (opt : bool) (const : option pred) (id ancb : str) (lo up : option time) (p : pred) : bool :=
  match const with
  | Some q => pred_key_eqb q p
  | None => if is_empty id then true
            else str_eqb (pid p) id &&
                 match panchor p with
                 | Some ta => if is_empty ancb then within lo up ta else true
                 | None => opt && negb (is_empty ancb)
                 end
  end.

Definition consts_ok (c : clause) (glo : lopts) (t : triple) : bool :=
  (match cS c with Some s => node_eqb s (tsub t) | None => true end) &&
  pred_part_ok (c_opt c) (cP c) (cPID c) (cPAncB c) (cPLo c) (cPUp c) (tpred t) &&
  (* global BEFORE / AFTER / BETWEEN: temporal triples only *)
  (match panchor (tpred t) with Some ta => within (lo_lower glo) (lo_upper glo) ta | None => true end) &&
  (match cO c with
   | Some o => obj_key_eqb o (tobj t)
   | None => if is_empty (cOID c) then true
             else match tobj t with
                  | OPred p => pred_part_ok (c_opt c) None (cOID c) (cOAncB c) (cOLo c) (cOUp c) p
                  (* inside an OPTIONAL clause an anchor binding on a non-predicate object is NULL (tripleToRow) *)
                  | _ => c_opt c && negb (is_empty (cOAncB c))
                  end
   end).

(* ---- declarative: triple t matches clause c under assignment mu (non-optional reading) *)
Definition clause_match (c : clause) (glo : lopts) (t : triple) (mu : row) : Prop :=
  consts_ok c glo t = true /\
  forall k x, In (k, x) (binders c) -> exists v w, xspec x t = Some v /\ get mu k = Some w /\ cell_equiv w v = true.

Definition is_solution (cs : list clause) (glo : lopts) (gs : list graph) (mu : row) : Prop :=
  forall c, In c cs -> exists g t, In g gs /\ In t g /\ clause_match c glo t mu.

(* ---- computable reference *)

(* the row a triple contributes for a clause: every binder gets its extraction; inside an OPTIONAL clause an
   extraction that does not apply gives NULL; a name used twice must denote equivalent values *)
Fixpoint spec_bind (opt : bool) (bs : list (str * extractor)) (t : triple) (r : row) : option row :=
  match bs with
  | [] => Some r
  | (k, x) :: rest =>
      match (match xspec x t with Some v => Some v | None => if opt then Some CNull else None end) with
      | None => None
      | Some v =>
          match get r k with
          | None => spec_bind opt rest t (set r k v)
          | Some v0 => if cell_equiv v0 v then spec_bind opt rest t r else None
          end
      end
  end.

Definition spec_row (c : clause) (glo : lopts) (t : triple) : option row :=
  if consts_ok c glo t then spec_bind (c_opt c) (binders c) t [] else None.

Definition compat_equiv (mu r : row) : bool :=
  forallb (fun kv => match get mu (fst kv) with Some v => cell_equiv v (snd kv) | None => true end) r.

(* a window given by bindings, `"id"@[?lo,?hi]`: the bounds are the times the row built so far gives to ?lo / ?hi (a binding
   without a time value there does not restrict) *)
Definition row_bound (mu : row) (alias : str) : option time :=
  if is_empty alias then None
  else match get mu alias with Some (CTime t) => Some t | _ => None end.

Definition row_bounds_ok (c : clause) (mu : row) (t : triple) : bool :=
  match panchor (tpred t) with
  | None => true
  | Some ta => within (row_bound mu (cPLoA c)) (row_bound mu (cPUpA c)) ta
  end.

(* all extensions of mu by a triple of a listed graph that matches c (inside the window mu gives, if any) and agrees with mu *)
Definition spec_extend (c : clause) (glo : lopts) (gs : list graph) (mu : row) : list row :=
  flat_map (fun g =>
    flat_map (fun t =>
      match spec_row c glo t with
      | Some r => if row_bounds_ok c mu t && compat_equiv mu r then [merge_rows mu r] else []
      | None => []
      end) g) gs.

(* one clause: inner join, or left outer join for an OPTIONAL clause *)
Definition spec_step (glo : lopts) (gs : list graph) (c : clause) (mus : list row) : list row :=
  flat_map (fun mu =>
    match spec_extend c glo gs mu with
    | [] => if c_opt c then [merge_rows mu (map (fun k => (k, CNull)) (filter (fun k => negb (has mu k)) (clause_bindings c)))]
            else []
    | ext => ext
    end) mus.

Definition spec_solutions (glo : lopts) (gs : list graph) (cs : list clause) : list row :=
  fold_left (fun mus c => spec_step glo gs c mus) cs [[]].

(* projection of the reference rows: per row, every alias receives the value its binding had before any alias was written;
   then the output columns *)
Definition spec_project_row (projs : list (str * str)) (r : row) : row :=
  fold_left (fun acc pv =>
               let a := snd (fst pv) in
               if is_empty a then acc
               else match snd pv with
                    | Some v => set acc a v
                    | None => del acc a
                    end)
            (map (fun p => (p, get r (fst p))) projs) r.

Definition spec_project (outs : list str) (projs : list (str * str)) (mus : list row) : list (list (option cell)) :=
  map (fun r => map (get r) (add_all [] outs)) (map (spec_project_row projs) mus).

Definition spec_select (glo : lopts) (gs : list graph) (cs : list clause) (outs : list str) (projs : list (str * str))
  : list (list (option cell)) :=
  spec_project outs projs (spec_solutions glo gs cs).
