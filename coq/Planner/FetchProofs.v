(* Layer lemmas of C03: tripleToRow + shouldIgnoreTriple against the declarative reading of a clause, and simpleFetch
   against "one row per stored triple whose fixed components match", for each of the eight driver shapes. *)
From Coq Require Import List Bool ZArith.
Import ListNotations.
From BWPlanner Require Import Terms Rows Clause Store Fetch PatternSpec RowsProofs.

(* ---------- extraction: with the ID-alias repair, a non-optional extraction is the specification's xspec *)
(* ID alias on a node-valued object is written without the validBinding test (pinned by the test suite): the layer
   lemmas are stated for triples / clauses where that case does not arise *)
Definition oid_checked (x : extractor) (t : triple) : Prop :=
  x = XOId -> forall n, tobj t <> ONode n.

Lemma extract_xspec : forall e x t, fixoid e = true -> oid_checked x t ->
  extract e false x t = match xspec x t with Some v => XVal v | None => XSkip end.
Proof.
  intros e x t Hf Hoc. unfold oid_checked in Hoc. destruct x; cbn; try reflexivity;
    try (destruct (panchor (tpred t)); reflexivity);
    destruct (tobj t) as [n|p|l] eqn:Eo; cbn; rewrite ?Hf; try reflexivity;
    try (exfalso; apply (Hoc eq_refl n); reflexivity);
    destruct (panchor p); reflexivity.
Qed.

(* inside an OPTIONAL clause an extraction that does not apply is NULL *)
Lemma extract_xspec_opt : forall e x t, fixoid e = true -> oid_checked x t ->
  extract e true x t = XVal (match xspec x t with Some v => v | None => CNull end).
Proof.
  intros e x t Hf Hoc. unfold oid_checked in Hoc. destruct x; cbn; try reflexivity;
    try (destruct (panchor (tpred t)); reflexivity);
    destruct (tobj t) as [n|p|l] eqn:Eo; cbn; rewrite ?Hf; try reflexivity;
    try (exfalso; apply (Hoc eq_refl n); reflexivity);
    destruct (panchor p); reflexivity.
Qed.

Definition sub_row (r mu : row) : Prop := forall k v, get r k = Some v -> get mu k = Some v.

(* the value a binder denotes: the extraction, or NULL inside an OPTIONAL clause when it does not apply *)
Definition xval (opt : bool) (x : extractor) (t : triple) : option cell :=
  match xspec x t with
  | Some v => Some v
  | None => if opt then Some CNull else None
  end.

Lemma extract_xval : forall e opt x t, fixoid e = true -> oid_checked x t ->
  extract e opt x t = match xval opt x t with Some v => XVal v | None => XSkip end.
Proof.
  intros e opt x t Hf Hoc. unfold xval. destruct opt.
  - rewrite extract_xspec_opt by assumption. destruct (xspec x t); reflexivity.
  - rewrite extract_xspec by assumption. destruct (xspec x t); reflexivity.
Qed.

Definition binders_checked (bs : list (str * extractor)) (t : triple) : Prop :=
  forall k x, In (k, x) bs -> oid_checked x t.

Lemma binders_checked_tail : forall b bs t, binders_checked (b :: bs) t -> binders_checked bs t.
Proof. intros b bs t H k x Hin. apply (H k x). right. exact Hin. Qed.

(* cells are compared up to the zone in which an instant is written (cell_equiv); the comparison validBinding uses
   (same_value: DeepEqual before repair F25, sameValue after) implies it *)
Lemma cell_equiv_refl0 : forall v, cell_equiv v v = true.
Proof.
  destruct v; cbn; auto.
  - apply str_eqb_refl.
  - apply node_eqb_true. reflexivity.
  - unfold pred_key_eqb. rewrite str_eqb_refl. destruct (panchor p); [apply Z.eqb_refl|reflexivity].
  - apply lit_eqb_true. reflexivity.
  - apply Z.eqb_refl.
Qed.

Lemma same_value_equiv : forall e a b, same_value e a b = true -> cell_equiv a b = true.
Proof.
  intros e a b H. unfold same_value in H. destruct (fixzone e); [exact H|].
  apply cell_eqb_true in H. subst. apply cell_equiv_refl0.
Qed.

Definition sub_equiv (r mu : row) : Prop :=
  forall k v, get r k = Some v -> exists w, get mu k = Some w /\ cell_equiv v w = true.

(* transitivity / symmetry of cell_equiv (needed here already) *)
Lemma pred_key_trans0 : forall a b c, pred_key_eqb a b = true -> pred_key_eqb b c = true -> pred_key_eqb a c = true.
Proof.
  unfold pred_key_eqb. intros a b c H1 H2.
  apply andb_prop in H1. destruct H1 as [I1 A1]. apply andb_prop in H2. destruct H2 as [I2 A2].
  apply str_eqb_true in I1. apply str_eqb_true in I2. rewrite I1, I2, str_eqb_refl. cbn.
  destruct (panchor a), (panchor b), (panchor c); try discriminate; auto.
  unfold t_equal in *. apply Z.eqb_eq in A1. apply Z.eqb_eq in A2. apply Z.eqb_eq. congruence.
Qed.

Lemma cell_equiv_trans0 : forall a b c, cell_equiv a b = true -> cell_equiv b c = true -> cell_equiv a c = true.
Proof.
  intros a b c H1 H2. destruct a, b; cbn in H1; try discriminate; destruct c; cbn in H2; try discriminate; cbn; auto.
  - apply str_eqb_true in H1. apply str_eqb_true in H2. apply str_eqb_true. congruence.
  - apply node_eqb_true in H1. apply node_eqb_true in H2. apply node_eqb_true. congruence.
  - eapply pred_key_trans0; eauto.
  - apply lit_eqb_true in H1. apply lit_eqb_true in H2. apply lit_eqb_true. congruence.
  - unfold t_equal in *. apply Z.eqb_eq in H1. apply Z.eqb_eq in H2. apply Z.eqb_eq. congruence.
Qed.

Lemma cell_equiv_sym0 : forall a b, cell_equiv a b = true -> cell_equiv b a = true.
Proof.
  intros a b H. destruct a, b; cbn in *; try discriminate; auto.
  - apply str_eqb_true in H. subst. apply str_eqb_refl.
  - apply node_eqb_true in H. subst. apply node_eqb_true. reflexivity.
  - unfold pred_key_eqb in *. apply andb_prop in H. destruct H as [I A]. apply str_eqb_true in I. rewrite I, str_eqb_refl. cbn.
    destruct (panchor p), (panchor p0); try discriminate; auto. unfold t_equal in *. rewrite Z.eqb_sym. exact A.
  - apply lit_eqb_true in H. subst. apply lit_eqb_true. reflexivity.
  - unfold t_equal in *. rewrite Z.eqb_sym. exact H.
Qed.

(* ---------- tripleToRow, soundness: every binder has (a value equivalent to) its extraction, earlier cells are kept up to
   equivalence, nothing else is added *)
Lemma ttr_sound : forall e opt bs t r r', fixoid e = true -> binders_checked bs t ->
  ttr e opt bs t r r = Ok (Some r') ->
  (forall k x, In (k, x) bs -> exists v w, xval opt x t = Some v /\ get r' k = Some w /\ cell_equiv w v = true) /\
  sub_equiv r r' /\
  (forall k, get r' k <> None -> get r k <> None \/ In k (map fst bs)).
Proof.
  intros e opt bs t. induction bs as [|[k x] bs IH]; intros r r' Hf Hbc H.
  - cbn in H. inversion H; subst. split; [intros k x []|]. split.
    + intros k v Hk. exists v. split; [exact Hk|apply cell_equiv_refl0].
    + intros k Hk. left. exact Hk.
  - cbn [ttr] in H. rewrite (extract_xval e opt x t Hf (Hbc k x (or_introl eq_refl))) in H.
    destruct (xval opt x t) as [v|] eqn:Xv; [|discriminate].
    assert (Hstep : ttr e opt bs t (set r k v) (set r k v) = Ok (Some r') /\
                    (get r k = None \/ exists v0, get r k = Some v0 /\ cell_equiv v0 v = true)).
    { destruct (get r k) as [v0|] eqn:G.
      - destruct (same_value e v0 v) eqn:Ce; [|discriminate]. split; [exact H|]. right. exists v0. split; [reflexivity|].
        eapply same_value_equiv; eauto.
      - split; auto. }
    destruct Hstep as [Hrec Hg].
    destruct (IH _ _ Hf (binders_checked_tail _ _ _ Hbc) Hrec) as [Hb [Hs Hd]].
    destruct (Hs k v (get_set_same r k v)) as [w [Gw Cw]].
    split.
    + intros k0 x0 [E|Hin].
      * inversion E; subst. exists v, w. split; [exact Xv|]. split; [exact Gw|apply cell_equiv_sym0; exact Cw].
      * apply Hb. exact Hin.
    + split.
      * intros k0 v0 G0. destruct (str_eq_dec k0 k) as [->|Hne].
        -- destruct Hg as [Hg|[v1 [Hg Cv]]]; rewrite Hg in G0; [discriminate|]. inversion G0; subst.
           exists w. split; [exact Gw|]. eapply cell_equiv_trans0; eauto.
        -- apply Hs. rewrite get_set_other by exact Hne. exact G0.
      * intros k0 Hk0. destruct (Hd k0 Hk0) as [Hin|Hin].
        -- destruct (str_eq_dec k0 k) as [->|Hne]; [right; left; reflexivity|].
           rewrite get_set_other in Hin by exact Hne. left. exact Hin.
        -- right. right. exact Hin.
Qed.

(* ---------- tripleToRow, completeness (after repair F25): if some assignment gives every binder a value equivalent to its
   extraction, a row is produced and it is part of that assignment (up to equivalence) *)
Lemma ttr_complete : forall e opt bs t mu r, fixoid e = true -> fixzone e = true -> binders_checked bs t ->
  (forall k x, In (k, x) bs -> exists v w, xval opt x t = Some v /\ get mu k = Some w /\ cell_equiv w v = true) ->
  sub_equiv r mu ->
  exists r', ttr e opt bs t r r = Ok (Some r') /\ sub_equiv r' mu.
Proof.
  intros e opt bs t mu. induction bs as [|[k x] bs IH]; intros r Hf Hz Hbc Hall Hsub.
  - exists r. split; [reflexivity|exact Hsub].
  - destruct (Hall k x (or_introl eq_refl)) as [v [w [Xv [Gm Cm]]]].
    cbn [ttr]. rewrite (extract_xval e opt x t Hf (Hbc k x (or_introl eq_refl))), Xv.
    assert (Hsub' : sub_equiv (set r k v) mu).
    { intros k0 v0 G0. rewrite get_set in G0. destruct (str_eqb k0 k) eqn:E.
      - apply str_eqb_true in E. subst. inversion G0; subst. exists w. split; [exact Gm|apply cell_equiv_sym0; exact Cm].
      - apply Hsub. exact G0. }
    assert (Hall' : forall k0 x0, In (k0, x0) bs -> exists v0 w0, xval opt x0 t = Some v0 /\ get mu k0 = Some w0 /\ cell_equiv w0 v0 = true)
      by (intros; apply Hall; right; assumption).
    destruct (IH (set r k v) Hf Hz (binders_checked_tail _ _ _ Hbc) Hall' Hsub') as [r' [Hr' Hs']].
    destruct (get r k) as [v0|] eqn:G.
    + destruct (Hsub k v0 G) as [w0 [Gw0 Cw0]]. rewrite Gm in Gw0. inversion Gw0; subst w0.
      unfold same_value. rewrite Hz, (cell_equiv_trans0 v0 w v Cw0 Cm). exists r'. split; assumption.
    + exists r'. split; assumption.
Qed.

(* ---------- shouldIgnoreTriple, declaratively *)
Definition id_part_ok (id : str) (temporal : bool) (ancb : str) (lo up : option time) (p : pred) : Prop :=
  id = [] \/
  (pid p = id /\
   (temporal = true -> ancb = [] ->
    exists ta, panchor p = Some ta /\
               (forall l, lo = Some l -> t_after l ta = false) /\ (forall u, up = Some u -> t_before u ta = false))).

Lemma is_empty_true : forall s, is_empty s = true <-> s = [].
Proof. intros [|b s]; cbn; split; congruence. Qed.

Lemma ignore_pred_false : forall id temporal ancb lo up p, id <> [] ->
  ignore_pred id temporal ancb lo up p = false <->
  (pid p = id /\
   (temporal = true -> ancb = [] ->
    exists ta, panchor p = Some ta /\
               (forall l, lo = Some l -> t_after l ta = false) /\ (forall u, up = Some u -> t_before u ta = false))).
Proof.
  intros id temporal ancb lo up p Hid. unfold ignore_pred. rewrite orb_false_iff, negb_false_iff, str_eqb_true.
  split.
  - intros [Hp Hb]. split; [exact Hp|]. intros Ht Ha. subst temporal ancb. cbn in Hb.
    destruct (panchor p) as [ta|]; [|discriminate]. exists ta. split; [reflexivity|].
    unfold outside in Hb. apply orb_false_iff in Hb. destruct Hb as [Hl Hu].
    split; intros b E; subst; assumption.
  - intros [Hp Hb]. split; [exact Hp|].
    destruct temporal; cbn; [|reflexivity].
    destruct (is_empty ancb) eqn:Ea; cbn; [|reflexivity].
    apply is_empty_true in Ea. destruct (Hb eq_refl Ea) as [ta [Hta [Hl Hu]]]. rewrite Hta.
    unfold outside. apply orb_false_iff. split.
    + destruct lo as [l|]; [apply Hl; reflexivity|reflexivity].
    + destruct up as [u|]; [apply Hu; reflexivity|reflexivity].
Qed.

Lemma should_ignore_false : forall c t,
  should_ignore c t = false <->
  (id_part_ok (cPID c) (cPTemporal c) (cPAncB c) (cPLo c) (cPUp c) (tpred t) /\
   (forall p, tobj t = OPred p -> id_part_ok (cOID c) (cOTemporal c) (cOAncB c) (cOLo c) (cOUp c) p)).
Proof.
  intros c t. unfold should_ignore. rewrite orb_false_iff. unfold id_part_ok.
  assert (HP : (if is_empty (cPID c) then false else ignore_pred (cPID c) (cPTemporal c) (cPAncB c) (cPLo c) (cPUp c) (tpred t)) = false <->
               id_part_ok (cPID c) (cPTemporal c) (cPAncB c) (cPLo c) (cPUp c) (tpred t)).
  { unfold id_part_ok. destruct (is_empty (cPID c)) eqn:E.
    - apply is_empty_true in E. split; auto.
    - assert (Hne : cPID c <> []) by (intro X; apply is_empty_true in X; congruence).
      rewrite (ignore_pred_false _ _ _ _ _ _ Hne). split; [intros H; right; exact H|intros [H|H]; [congruence|exact H]]. }
  assert (HO : (if is_empty (cOID c) then false else
                  match tobj t with OPred p => ignore_pred (cOID c) (cOTemporal c) (cOAncB c) (cOLo c) (cOUp c) p | _ => false end) = false <->
               (forall p, tobj t = OPred p -> id_part_ok (cOID c) (cOTemporal c) (cOAncB c) (cOLo c) (cOUp c) p)).
  { unfold id_part_ok. destruct (is_empty (cOID c)) eqn:E.
    - apply is_empty_true in E. split; auto.
    - assert (Hne : cOID c <> []) by (intro X; apply is_empty_true in X; congruence).
      destruct (tobj t) as [n|p|l].
      + split; [intros _ p Hp; discriminate|reflexivity].
      + rewrite (ignore_pred_false _ _ _ _ _ _ Hne). split.
        * intros H p0 Hp0. inversion Hp0; subst. right. exact H.
        * intros H. destruct (H p eq_refl) as [H'|H']; [congruence|exact H'].
      + split; [intros _ p Hp; discriminate|reflexivity]. }
  unfold id_part_ok in HP, HO. rewrite HP, HO. reflexivity.
Qed.

(* ---------- C03 layer 1: a stored triple yields row r for clause c  <->  the clause's id parts hold and r gives every
   binding of the clause (a value equivalent to) the corresponding part of the triple, and nothing else *)
Definition row_matches (c : clause) (t : triple) (r : row) : Prop :=
  (forall k x, In (k, x) (binders c) -> exists v w, xval (c_opt c) x t = Some v /\ get r k = Some w /\ cell_equiv w v = true) /\
  (forall k, get r k <> None -> In k (map fst (binders c))).

Definition row_of (e : cfg) (c : clause) (t : triple) : outcome (option row) :=
  if should_ignore c t then Ok None else triple_to_row e c t.

Theorem clause_row_sound : forall e c t r, fixoid e = true -> binders_checked (binders c) t ->
  row_of e c t = Ok (Some r) ->
  should_ignore c t = false /\ row_matches c t r.
Proof.
  intros e c t r Hf Hbc H. unfold row_of in H. destruct (should_ignore c t) eqn:Si; [discriminate|].
  split; [reflexivity|]. unfold triple_to_row in H.
  destruct (ttr_sound _ _ _ _ _ _ Hf Hbc H) as [Hb [_ Hd]]. split; [exact Hb|].
  intros k Hk. destruct (Hd k Hk) as [X|X]; [cbn in X; congruence|exact X].
Qed.

Theorem clause_row_complete : forall e c t mu, fixoid e = true -> fixzone e = true -> binders_checked (binders c) t ->
  should_ignore c t = false ->
  (forall k x, In (k, x) (binders c) -> exists v w, xval (c_opt c) x t = Some v /\ get mu k = Some w /\ cell_equiv w v = true) ->
  exists r, row_of e c t = Ok (Some r) /\ row_matches c t r /\ sub_equiv r mu.
Proof.
  intros e c t mu Hf Hz Hbc Si Hall. unfold row_of. rewrite Si. unfold triple_to_row.
  destruct (ttr_complete e (c_opt c) (binders c) t mu [] Hf Hz Hbc Hall) as [r [Hr Hs]]; [intros k v G; discriminate|].
  exists r. split; [exact Hr|]. split; [|exact Hs].
  destruct (ttr_sound _ _ _ _ _ _ Hf Hbc Hr) as [Hb [_ Hd]]. split; [exact Hb|].
  intros k Hk. destruct (Hd k Hk) as [X|X]; [cbn in X; congruence|exact X].
Qed.

(* never an error or a panic once the ID-alias repair is in *)
Lemma ttr_total : forall e opt bs t r, fixoid e = true -> binders_checked bs t -> exists o, ttr e opt bs t r r = Ok o.
Proof.
  intros e opt bs t. induction bs as [|[k x] bs IH]; intros r Hf Hbc.
  - eexists; reflexivity.
  - pose proof (binders_checked_tail _ _ _ Hbc) as Hbc'.
    cbn [ttr]. rewrite (extract_xval e opt x t Hf (Hbc k x (or_introl eq_refl))). destruct (xval opt x t) as [v|]; [|eexists; reflexivity].
    destruct (get r k) as [v0|]; [destruct (same_value e v0 v); [apply IH; assumption|eexists; reflexivity]|apply IH; assumption].
Qed.

Lemma row_of_total : forall e c t, fixoid e = true -> binders_checked (binders c) t -> exists o, row_of e c t = Ok o.
Proof.
  intros e c t Hf Hbc. unfold row_of. destruct (should_ignore c t); [eexists; reflexivity|].
  apply ttr_total; assumption.
Qed.

(* a clause without an ID alias on its object never meets the unchecked case *)
Lemma no_oid_alias_checked : forall c t, cOIdA c = [] -> binders_checked (binders c) t.
Proof.
  intros c t H k x Hin Hx n. subst x. unfold binders in Hin. apply filter_In in Hin. destruct Hin as [Hin Hne].
  cbn in Hin. rewrite H in Hin.
  repeat (destruct Hin as [E|Hin]; [inversion E; subst; try discriminate|]); try contradiction.
Qed.

(* ---------- addTriples as a filter-map *)
Definition rows_of (e : cfg) (c : clause) (ts : list triple) : list row :=
  flat_map (fun t => match row_of e c t with Ok (Some (x :: r)) => [x :: r] | _ => [] end) ts.

Lemma add_triples_rows_of : forall e c ts rows, fixoid e = true -> cOIdA c = [] ->
  add_triples e c ts rows = Ok (rows ++ rows_of e c ts).
Proof.
  intros e c ts. induction ts as [|t ts IH]; intros rows Hf Hno; cbn [add_triples rows_of flat_map].
  - rewrite app_nil_r. reflexivity.
  - unfold row_of at 1. destruct (should_ignore c t) eqn:Si.
    + cbn. apply IH; assumption.
    + destruct (ttr_total e (c_opt c) (binders c) t [] Hf (no_oid_alias_checked c t Hno)) as [o Ho]. unfold triple_to_row. rewrite Ho.
      destruct o as [[|x r]|].
      * cbn. apply IH; assumption.
      * cbn [add_row]. rewrite IH by assumption. rewrite <- app_assoc. reflexivity.
      * cbn. apply IH; assumption.
Qed.

Lemma over_graphs_flat : forall (gs : list graph) (f : graph -> list row) (F : graph -> list row -> outcome (list row)) rows,
  (forall g rows, F g rows = Ok (rows ++ f g)) ->
  over_graphs gs F rows = Ok (rows ++ flat_map f gs).
Proof.
  induction gs as [|g gs IH]; intros f F rows HF; cbn.
  - rewrite app_nil_r. reflexivity.
  - rewrite HF. cbn. rewrite (IH f F _ HF). rewrite <- app_assoc. reflexivity.
Qed.

(* ---------- C03 layer 2: simpleFetch.  The fixed components of the clause select stored triples; the row is computed
   from the triple the driver rebuilds: the clause's constants with the looked-up parts of the stored triple. *)
Definition fixed_match (e : cfg) (c : clause) (lo : lopts) (t : triple) : bool :=
  match cS c, cP c, cO c with
  | Some s, Some p, Some o => triple_key_eqb (mkTriple s p o) t
  | Some s, Some p, None => node_eqb s (tsub t) && id_match p (tpred t) && check_time e (Some p) lo (tpred t)
  | Some s, None, Some o => node_eqb s (tsub t) && obj_key_eqb o (tobj t) && check_time e None lo (tpred t)
  | None, Some p, Some o => id_match p (tpred t) && obj_key_eqb o (tobj t) && check_time e (Some p) lo (tpred t)
  | Some s, None, None => node_eqb s (tsub t) && check_time e None lo (tpred t)
  | None, Some p, None => id_match p (tpred t) && check_time e (Some p) lo (tpred t)
  | None, None, Some o => obj_key_eqb o (tobj t) && check_time e None lo (tpred t)
  | None, None, None => check_time e None lo (tpred t)
  end.

(* the triple handed to addTriples for a stored triple t: S / P / O constants replace the stored parts when the driver
   shape rebuilds the triple (SPO, SP, SO, PO); otherwise the stored triple itself *)
Definition rebuilt (c : clause) (t : triple) : triple :=
  match cS c, cP c, cO c with
  | Some s, Some p, Some o => mkTriple s p o
  | Some s, Some p, None => mkTriple s p (tobj t)
  | Some s, None, Some o => mkTriple s (tpred t) o
  | None, Some p, Some o => mkTriple (tsub t) p o
  | _, _, _ => t
  end.

Definition fetch_rows (e : cfg) (c : clause) (lo : lopts) (g : graph) : list row :=
  rows_of e c (map (rebuilt c) (filter (fixed_match e c lo) g)).

Lemma rows_of_app : forall e c a b, rows_of e c (a ++ b) = rows_of e c a ++ rows_of e c b.
Proof. intros. unfold rows_of. apply flat_map_app. Qed.

Lemma map_filter_ext : forall {A B} (f : A -> B) (h : A -> B) (p : A -> bool) l,
  (forall x, p x = true -> f x = h x) -> map f (filter p l) = map h (filter p l).
Proof.
  intros A B f h p l H. apply map_ext_in. intros x Hx. apply filter_In in Hx. apply H. apply Hx.
Qed.

(* the fully specified shape is an existence test: rows appear once per graph that holds the triple *)
Definition fetch_rows_spo (e : cfg) (c : clause) (t : triple) (g : graph) : list row :=
  if g_exist g t then rows_of e c [t] else [].

Theorem fetch_spec : forall e gs c lo0, fixoid e = true -> cOIdA c = [] ->
  let lo := update_time_bounds lo0 c in
  simple_fetch e gs c lo0 =
  Ok (match cS c, cP c, cO c with
      | Some s, Some p, Some o => if fixsb e && outside_bounds lo p then [] else flat_map (fetch_rows_spo e c (mkTriple s p o)) gs
      | _, _, _ => flat_map (fetch_rows e c lo) gs
      end).
Proof.
  intros e gs c lo0 Hf Hno lo. unfold simple_fetch. fold lo.
  destruct (cS c) as [s|] eqn:ES; destruct (cP c) as [p|] eqn:EP; destruct (cO c) as [o|] eqn:EO.
  - destruct (fixsb e && outside_bounds lo p); [reflexivity|].
    rewrite (over_graphs_flat gs (fetch_rows_spo e c (mkTriple s p o))); [reflexivity|].
    intros g rows. unfold fetch_rows_spo. destruct (g_exist g (mkTriple s p o)).
    + apply add_triples_rows_of; assumption.
    + rewrite app_nil_r. reflexivity.
  - rewrite (over_graphs_flat gs (fetch_rows e c lo)); [reflexivity|].
    intros g rows. rewrite add_triples_rows_of by assumption. f_equal. unfold fetch_rows. f_equal.
    unfold g_objects. rewrite map_map. unfold fixed_match, rebuilt. rewrite ES, EP, EO. reflexivity.
  - rewrite (over_graphs_flat gs (fetch_rows e c lo)); [reflexivity|].
    intros g rows. rewrite add_triples_rows_of by assumption. f_equal. unfold fetch_rows. f_equal.
    unfold g_preds_so. rewrite map_map. unfold fixed_match, rebuilt. rewrite ES, EP, EO. reflexivity.
  - rewrite (over_graphs_flat gs (fetch_rows e c lo)); [reflexivity|].
    intros g rows. rewrite add_triples_rows_of by assumption. f_equal. unfold fetch_rows. f_equal.
    unfold g_triples_s. unfold fixed_match, rebuilt. rewrite ES, EP, EO. rewrite map_id. reflexivity.
  - rewrite (over_graphs_flat gs (fetch_rows e c lo)); [reflexivity|].
    intros g rows. rewrite add_triples_rows_of by assumption. f_equal. unfold fetch_rows. f_equal.
    unfold g_subjects. rewrite map_map. unfold fixed_match, rebuilt. rewrite ES, EP, EO. reflexivity.
  - rewrite (over_graphs_flat gs (fetch_rows e c lo)); [reflexivity|].
    intros g rows. rewrite add_triples_rows_of by assumption. f_equal. unfold fetch_rows. f_equal.
    unfold g_triples_p. unfold fixed_match, rebuilt. rewrite ES, EP, EO. rewrite map_id. reflexivity.
  - rewrite (over_graphs_flat gs (fetch_rows e c lo)); [reflexivity|].
    intros g rows. rewrite add_triples_rows_of by assumption. f_equal. unfold fetch_rows. f_equal.
    unfold g_triples_o. unfold fixed_match, rebuilt. rewrite ES, EP, EO. rewrite map_id. reflexivity.
  - rewrite (over_graphs_flat gs (fetch_rows e c lo)); [reflexivity|].
    intros g rows. rewrite add_triples_rows_of by assumption. f_equal. unfold fetch_rows. f_equal.
    unfold g_triples. unfold fixed_match, rebuilt. rewrite ES, EP, EO. rewrite map_id. reflexivity.
Qed.
