(* Planner-level lemmas: the optional step never removes rows (C10), LeftOptionalJoin in the planner is only reached with
   disjoint bindings, the per-row fan-out is invariant under permutation of the work list (C14). *)
From Coq Require Import List Bool Permutation Lia.
Import ListNotations.
From BWPlanner Require Import Terms Rows Clause Store Fetch Plan RowsProofs FetchProofs.

(* ---------- C14: the per-row fan-out (specifyClauseWithTable) is a fold whose result multiset does not depend on the
   order in which the rows are processed *)
Lemma specify_rows_app : forall e gs lo c a b,
  specify_rows e gs lo c (a ++ b) =
  bind (specify_rows e gs lo c a) (fun ra => bind (specify_rows e gs lo c b) (fun rb => Ok (ra ++ rb))).
Proof.
  intros e gs lo c a. induction a as [|r a IH]; intros b; cbn [specify_rows app].
  - cbn. destruct (specify_rows e gs lo c b); reflexivity.
  - destruct (add_specified_data e gs lo c r) as [rs|x|s]; cbn; auto.
    rewrite IH. destruct (specify_rows e gs lo c a) as [ra|x|s]; cbn; auto.
    destruct (specify_rows e gs lo c b) as [rb|x|s]; cbn; auto.
    rewrite app_assoc. reflexivity.
Qed.

Theorem specify_rows_perm : forall e gs lo c rows rows' out,
  Permutation rows rows' ->
  specify_rows e gs lo c rows = Ok out ->
  exists out', specify_rows e gs lo c rows' = Ok out' /\ Permutation out out'.
Proof.
  intros e gs lo c rows rows' out HP. revert out. induction HP; intros out H.
  - exists out. split; auto.
  - cbn [specify_rows] in *. destruct (add_specified_data e gs lo c x) as [rs|?|?]; cbn in *; try discriminate.
    destruct (specify_rows e gs lo c l) as [rl|?|?] eqn:E; cbn in *; try discriminate. inversion H; subst.
    destruct (IHHP rl eq_refl) as [out' [H1 H2]]. rewrite H1. cbn. eexists. split; [reflexivity|].
    apply Permutation_app_head. exact H2.
  - cbn [specify_rows] in *.
    destruct (add_specified_data e gs lo c y) as [ry|?|?]; cbn in *; try discriminate.
    destruct (add_specified_data e gs lo c x) as [rx|?|?]; cbn in *; try discriminate.
    destruct (specify_rows e gs lo c l) as [rl|?|?]; cbn in *; try discriminate. inversion H; subst.
    eexists. split; [reflexivity|]. rewrite !app_assoc. apply Permutation_app_tail. apply Permutation_app_comm.
  - destruct (IHHP1 _ H) as [o1 [H1 P1]]. destruct (IHHP2 _ H1) as [o2 [H2 P2]].
    exists o2. split; auto. eapply Permutation_trans; eauto.
Qed.

(* failures do not depend on the order either: if some row fails, every order fails *)
Theorem specify_rows_perm_fail : forall e gs lo c rows rows',
  Permutation rows rows' ->
  (forall out, specify_rows e gs lo c rows <> Ok out) ->
  (forall out, specify_rows e gs lo c rows' <> Ok out).
Proof.
  intros e gs lo c rows rows' HP Hf out H.
  destruct (specify_rows_perm e gs lo c rows' rows out (Permutation_sym HP) H) as [o [Ho _]].
  apply (Hf o). exact Ho.
Qed.

(* ---------- C10: the optional specialisation step never removes a row *)
Lemma sub_row_merge : forall r nr, sub_row r (merge_rows r nr).
Proof. intros r nr k v H. apply get_merge_left. exact H. Qed.

Theorem add_specified_optional_keeps : forall e gs lo c r rows,
  c_opt c = true -> fix14 e = true ->
  add_specified_data e gs lo c r = Ok rows ->
  rows <> [] /\ forall r', In r' rows -> sub_row r r'.
Proof.
  intros e gs lo c r rows Hopt Hfix H. unfold add_specified_data in H.
  rewrite Hfix, Hopt in H. cbv zeta in H.
  repeat match type of H with
  | bind ?o _ = Ok _ => let E := fresh "E" in destruct o eqn:E; cbn [bind] in H; try discriminate
  | match ?x with ObjOk _ => _ | ObjNone => _ | ObjInvalid => _ end = Ok _ =>
      let E := fresh "E" in destruct x eqn:E; try discriminate
  | match ?l with [] => _ | _ :: _ => _ end = Ok _ => let E := fresh "E" in destruct l eqn:E
  end.
  all: inversion H; subst; split; try (cbn; discriminate).
  all: try (intros r' [<-|[]]; apply sub_row_merge).
  all: intros r' [<-|Hin]; [apply sub_row_merge|];
    apply in_map_iff in Hin; destruct Hin as [nr [<- _]]; apply sub_row_merge.
Qed.

Theorem specify_optional_never_removes : forall e gs lo c rows out,
  c_opt c = true -> fix14 e = true ->
  specify_rows e gs lo c rows = Ok out ->
  (length rows <= length out)%nat /\ forall r, In r rows -> exists r', In r' out /\ sub_row r r'.
Proof.
  intros e gs lo c rows. induction rows as [|r rows IH]; intros out Hopt Hfix H.
  - cbn in H. inversion H; subst. split; [cbn; lia|intros r []].
  - cbn [specify_rows] in H.
    destruct (add_specified_data e gs lo c r) as [rs|?|?] eqn:E1; cbn in H; try discriminate.
    destruct (specify_rows e gs lo c rows) as [rr|?|?] eqn:E2; cbn in H; try discriminate.
    inversion H; subst.
    destruct (add_specified_optional_keeps _ _ _ _ _ _ Hopt Hfix E1) as [Hne Hsub].
    destruct (IH rr Hopt Hfix eq_refl) as [Hlen Hall].
    split.
    + rewrite app_length. cbn. destruct rs; [congruence|cbn; lia].
    + intros r0 [<-|Hin].
      * destruct rs as [|x rs']; [congruence|]. exists x. split; [apply in_or_app; left; left; reflexivity|apply Hsub; left; reflexivity].
      * destruct (Hall r0 Hin) as [r' [Hi Hs]]. exists r'. split; [apply in_or_app; right; exact Hi|exact Hs].
Qed.

(* ---------- C10: LeftOptionalJoin on disjoint tables (after F9): a left outer join without join condition *)
Theorem left_optional_join_disjoint : forall t t2,
  disjoint (tb t) (tb t2) = true -> same_set (tb t) (tb t2) = false -> tb t2 <> [] ->
  left_optional_join true t t2 =
  Ok (LojTable (mkTable (add_all (tb t) (tb t2))
        (match trows t2 with
         | [] => map (fun r => extend_row r (add_all (tb t) (tb t2))) (trows t)
         | _ => flat_map (fun r1 => map (fun r2 => merge_rows r1 r2) (trows t2)) (trows t)
         end))).
Proof.
  intros t t2 Hd Hs Hne. unfold left_optional_join, dot_product. rewrite Hs, Hd.
  destruct t2 as [b2 r2]. cbn [tb trows] in *.
  destruct b2; [congruence|]. cbn [orb].
  destruct r2; reflexivity.
Qed.

Lemma flat_map_length_ge : forall {A B} (f : A -> list B) l, (forall x, In x l -> (1 <= length (f x))%nat) ->
  (length l <= length (flat_map f l))%nat.
Proof.
  intros A B f l. induction l as [|x l IH]; intros H; cbn; [lia|].
  rewrite app_length. specialize (H x (or_introl eq_refl)) as Hx.
  assert (length l <= length (flat_map f l))%nat by (apply IH; intros; apply H; right; assumption). lia.
Qed.

Theorem left_optional_join_never_removes : forall t t2 t',
  left_optional_join true t t2 = Ok (LojTable t') ->
  (length (trows t) <= length (trows t'))%nat.
Proof.
  intros t t2 t' H. unfold left_optional_join in H.
  destruct (same_set (tb t) (tb t2) || match tb t2 with [] => true | _ => false end); [inversion H; subst; lia|].
  destruct (disjoint (tb t) (tb t2)) eqn:Hd; [|discriminate].
  destruct (trows t2) as [|r2 rs2] eqn:Er.
  - inversion H; subst. cbn. rewrite map_length. lia.
  - unfold dot_product in H. rewrite Hd in H. inversion H; subst. cbn. rewrite Er.
    apply flat_map_length_ge. intros x _. cbn. lia.
Qed.

(* ---------- the planner reaches LeftOptionalJoin only with disjoint bindings: joinWithRange never runs *)
Lemma filter_nil_forall : forall {A} (f : A -> bool) l, filter f l = [] -> forall x, In x l -> f x = false.
Proof.
  intros A f l. induction l as [|y l IH]; intros H x Hin; [destruct Hin|].
  cbn in H. destruct (f y) eqn:E; [discriminate|]. destruct Hin as [<-|Hin]; auto.
Qed.

Lemma mem_false_not_In : forall k l, mem k l = false <-> ~ In k l.
Proof.
  intros k l. split.
  - intros H Hin. apply mem_In in Hin. congruence.
  - intros H. destruct (mem k l) eqn:E; auto. apply mem_In in E. contradiction.
Qed.

Lemma disjoint_sym_from_filter : forall a b,
  filter (fun k => mem k a) b = [] -> disjoint a b = true.
Proof.
  intros a b H. unfold disjoint. apply forallb_forall. intros k Hk. apply negb_true_iff.
  apply mem_false_not_In. intros Hb.
  pose proof (filter_nil_forall _ _ H k Hb) as Hf. cbn in Hf. apply mem_false_not_In in Hf. contradiction.
Qed.

Theorem process_clause_join_disjoint : forall (e : cfg) (c : clause) (t : table),
  filter (fun b => mem b (tb t)) (clause_bindings c) = [] ->
  forall rows, left_optional_join (fix9 e) t (mkTable (clause_bindings c) rows) <> Ok LojRange.
Proof.
  intros e c t H rows. unfold left_optional_join. cbn [tb trows].
  destruct (same_set (tb t) (clause_bindings c) || match clause_bindings c with [] => true | _ => false end); [discriminate|].
  rewrite (disjoint_sym_from_filter _ _ H).
  destruct (fix9 e); destruct rows; try discriminate;
    unfold dot_product; cbn [tb trows]; rewrite (disjoint_sym_from_filter _ _ H); discriminate.
Qed.
