(* The domain D3 of the C03 composition theorem, as boolean predicates (definitions only: Corr.v evaluates D3 on every
   correspondence case; the theorems about it are in Compose*.v). *)
From Coq Require Import List Bool.
Import ListNotations.
From BWPlanner Require Import Terms Rows Clause Store Fetch Plan.

(* graphs as the store holds them: no two triples with the same key *)
Fixpoint graph_nodup (g : graph) : bool :=
  match g with
  | [] => true
  | t :: r => negb (existsb (triple_key_eqb t) r) && graph_nodup r
  end.


(* the supported fragment, clause by clause *)
Definition no_bounds (c : clause) : bool :=
  is_empty (cPLoA c) && is_empty (cPUpA c) && negb (is_some (cPLo c)) && negb (is_some (cPUp c)).

(* a clause of the supported fragment; it may be OPTIONAL, and it may be fully specified if it has an alias *)
Definition d10_clause (c : clause) : bool :=
  (negb (specificity3 c) || has_alias c) && no_bounds c && is_empty (cOLoA c) && is_empty (cOUpA c) && is_empty (cOIdA c) &&
  (match cP c with Some _ => is_empty (cPID c) | None => is_empty (cPID c) || negb (is_empty (cPAncB c)) end) &&
  (match cO c with Some _ => is_empty (cOID c) | None => is_empty (cOID c) || negb (is_empty (cOAncB c)) end) &&
  negb (match binders c with [] => true | _ => false end).

(* ... and not OPTIONAL *)
Definition d3_clause (c : clause) : bool := negb (c_opt c) && d10_clause c.

(* the whole case: environment, graphs, clauses, output bindings *)
Definition D3 (e : cfg) (gs : list graph) (cs : list clause) (outs : list str) : bool :=
  ks e && negb (strlit_invalid e) && fix9 e && fix14 e && fixoid e && fixsb e && fixzone e && fixs3 e &&
  forallb graph_nodup gs && forallb d3_clause cs &&
  (match cs with c :: _ => negb (specificity3 c) | [] => false end) && nodup_str outs.


(* D10: as D3, but the clauses after the first may be OPTIONAL (sharing any number of bindings with the rows built so far);
   the LeftOptionalJoin repair F9 must be in *)
Definition D10 (e : cfg) (gs : list graph) (cs : list clause) (outs : list str) : bool :=
  ks e && negb (strlit_invalid e) && fix9 e && fix14 e && fixoid e && fixsb e && fixzone e && fixs3 e &&
  forallb graph_nodup gs && forallb d10_clause cs &&
  (match cs with c :: _ => negb (c_opt c) && negb (specificity3 c) | [] => false end) && nodup_str outs.
