(* Executable comparison of the planner model and of the specification with observations of the real planner
   (cases are written by checks/c03.py, c10.py, c14.py from the harness output). *)
From Coq Require Import List Bool NArith.
Import ListNotations.
From BWPlanner Require Import Terms Rows Clause Store Fetch Plan PatternSpec Domain.
Open Scope N_scope.

Record qcase := mkCase {
  q_cfg : cfg;
  q_graphs : list graph;
  q_clauses : list clause;
  q_lo : lopts;
  q_outs : list str;
  q_projs : list (str * str)
}.

Definition orow := list (option cell).

Inductive obs :=
| ObsOk (outs : list str) (rows : list orow)
| ObsErr
| ObsPanic.

Definition ocell_eqb (a b : option cell) : bool :=
  match a, b with
  | None, None => true
  | Some x, Some y => cell_eqb x y
  | _, _ => false
  end.

Definition ocell_equiv (a b : option cell) : bool :=
  match a, b with
  | None, None => true
  | Some x, Some y => cell_equiv x y
  | _, _ => false
  end.

Fixpoint list_eqb {A} (eq : A -> A -> bool) (a b : list A) : bool :=
  match a, b with
  | [], [] => true
  | x :: a', y :: b' => eq x y && list_eqb eq a' b'
  | _, _ => false
  end.

(* multiset equality: remove one equal element per element *)
Fixpoint remove_one {A} (eq : A -> A -> bool) (x : A) (l : list A) : option (list A) :=
  match l with
  | [] => None
  | y :: rest => if eq x y then Some rest
                 else match remove_one eq x rest with
                      | Some r => Some (y :: r)
                      | None => None
                      end
  end.

Fixpoint multiset_eqb {A} (eq : A -> A -> bool) (a b : list A) : bool :=
  match a with
  | [] => match b with [] => true | _ => false end
  | x :: a' => match remove_one eq x b with
               | Some b' => multiset_eqb eq a' b'
               | None => false
               end
  end.

(* every element of a occurs in b (as sets) *)
Definition set_subset {A} (eq : A -> A -> bool) (a b : list A) : bool :=
  forallb (fun x => existsb (eq x) b) a.

Definition run_model (q : qcase) : outcome (list str * list orow) :=
  execute (q_cfg q) (q_graphs q) (q_lo q) (q_clauses q) (q_outs q) (q_projs q).

Definition run_spec (q : qcase) : list orow :=
  spec_select (q_lo q) (q_graphs q) (q_clauses q) (q_outs q) (q_projs q).

(* model vs observation: exact (cells compared as reflect.DeepEqual would) *)
Definition agrees_model (q : qcase) (o : obs) : bool :=
  match run_model q, o with
  | Ok (bs, rows), ObsOk obs_outs obs_rows =>
      list_eqb str_eqb bs obs_outs && multiset_eqb (list_eqb ocell_eqb) rows obs_rows
  | Err _, ObsErr => true
  | Panic _, ObsPanic => true
  | _, _ => false
  end.

(* specification vs observation: as multisets of rows, anchors compared by instant.
   2 = equal as multisets, 1 = equal as sets of rows only (multiplicities differ), 0 = different *)
Definition spec_vs_obs (q : qcase) (o : obs) : N :=
  match o with
  | ObsOk _ obs_rows =>
      let s := run_spec q in
      if multiset_eqb (list_eqb ocell_equiv) s obs_rows then 2
      else if set_subset (list_eqb ocell_equiv) s obs_rows && set_subset (list_eqb ocell_equiv) obs_rows s then 1
      else 0
  | _ => 0
  end.

(* which single repair would make the model coincide with the specification on this case (used to attribute a
   deviation from the specification to exactly one known defect): the model is re-run with one flag switched on *)
Definition with_flag (e : cfg) (i : N) : cfg :=
  match i with
  | 0 => mkCfg true (strlit_invalid e) (fix9 e) (fix14 e) (fix15 e) (fixoid e) (fixsb e) (fixzone e) (fixs3 e) (fixou e)
  | 1 => mkCfg (ks e) (strlit_invalid e) true (fix14 e) (fix15 e) (fixoid e) (fixsb e) (fixzone e) (fixs3 e) (fixou e)
  | 2 => mkCfg (ks e) (strlit_invalid e) (fix9 e) true (fix15 e) (fixoid e) (fixsb e) (fixzone e) (fixs3 e) (fixou e)
  | 3 => mkCfg (ks e) (strlit_invalid e) (fix9 e) (fix14 e) true (fixoid e) (fixsb e) (fixzone e) (fixs3 e) (fixou e)
  | 4 => mkCfg (ks e) (strlit_invalid e) (fix9 e) (fix14 e) (fix15 e) true (fixsb e) (fixzone e) (fixs3 e) (fixou e)
  | 5 => mkCfg (ks e) false (fix9 e) (fix14 e) (fix15 e) (fixoid e) (fixsb e) (fixzone e) (fixs3 e) (fixou e)
  | 7 => mkCfg (ks e) (strlit_invalid e) (fix9 e) (fix14 e) (fix15 e) (fixoid e) true (fixzone e) (fixs3 e) (fixou e)
  | 8 => mkCfg (ks e) (strlit_invalid e) (fix9 e) (fix14 e) (fix15 e) (fixoid e) (fixsb e) true (fixs3 e) (fixou e)
  | 9 => mkCfg (ks e) (strlit_invalid e) (fix9 e) (fix14 e) (fix15 e) (fixoid e) (fixsb e) (fixzone e) true (fixou e)
  | 10 => mkCfg (ks e) (strlit_invalid e) (fix9 e) (fix14 e) (fix15 e) (fixoid e) (fixsb e) (fixzone e) (fixs3 e) true
  | _ => mkCfg true false true true true true true true true true
  end.

Definition model_is_spec (e : cfg) (q : qcase) : bool :=
  match execute e (q_graphs q) (q_lo q) (q_clauses q) (q_outs q) (q_projs q) with
  | Ok (_, rows) => multiset_eqb (list_eqb ocell_equiv) (run_spec q) rows
  | _ => false
  end.

Definition fixmask (q : qcase) : N :=
  fold_left (fun acc i => if model_is_spec (with_flag (q_cfg q) i) q then acc + N.shiftl 1 i else acc)
            [0; 1; 2; 3; 4; 5; 6; 7; 8; 9; 10] 0.

(* is the case inside the domain of C03_select_is_solutions_partial? *)
(* 2 = inside D3 (C03_select_is_solutions_partial), 1 = inside D10 only (C10_select_is_left_join_partial), 0 = outside *)
Definition in_D3 (q : qcase) : N :=
  if D3 (q_cfg q) (q_graphs q) (q_clauses q) (q_outs q) then 2
  else if D10 (q_cfg q) (q_graphs q) (q_clauses q) (q_outs q) then 1 else 0.

(* per case: (model agrees?, spec code, number of spec rows, mask of repairs that would close the gap to the spec, in D3?) *)
Definition verdict (qo : qcase * obs) : N * N * N * N * N :=
  let a := if agrees_model (fst qo) (snd qo) then 1 else 0 in
  let b := spec_vs_obs (fst qo) (snd qo) in
  (a, b, N.of_nat (length (run_spec (fst qo))), (if N.eqb b 2 then 0 else fixmask (fst qo)), in_D3 (fst qo)).

Definition verdicts (l : list (qcase * obs)) : list (N * N * N * N * N) := map verdict l.
