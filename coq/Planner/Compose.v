(* C03 composition, part 1: for a clause in the supported fragment, addSpecifiedData on a row mu produces, up to zone
   equivalence, exactly the specification's extensions of mu (spec_extend). *)
From Coq Require Import List Bool ZArith Btauto.
Import ListNotations.
From BWPlanner Require Import Terms Rows Clause Store Fetch Plan PatternSpec RowsProofs FetchProofs PlanProofs SpecSound Equiv Canon Domain Uniform.

(* ---------- the supported fragment, clause by clause (Domain.d3_clause), as a record of facts *)
Record d3c (c : clause) : Prop := {
  d_spec3 : specificity3 c = false \/ has_alias c = true;
  d_nb : no_bounds c = true;
  d_onb : cOLoA c = [] /\ cOUpA c = [];
  d_oid : cOIdA c = [];
  d_p : match cP c with Some _ => cPID c = [] | None => cPID c = [] \/ cPAncB c <> [] end;
  d_o : match cO c with Some _ => cOID c = [] | None => cOID c = [] \/ cOAncB c <> [] end;
  d_ne : binders c <> []
}.

Lemma is_empty_false : forall s, is_empty s = false <-> s <> [].
Proof. intros [|b s]; cbn; split; congruence. Qed.

Lemma d10_clause_d3c : forall c, d10_clause c = true -> d3c c.
Proof.
  intros c H. unfold d10_clause in H.
  apply andb_prop in H. destruct H as [H Hne].
  apply andb_prop in H. destruct H as [H Ho].
  apply andb_prop in H. destruct H as [H Hp].
  apply andb_prop in H. destruct H as [H Hoid].
  apply andb_prop in H. destruct H as [H Houp].
  apply andb_prop in H. destruct H as [H Holo].
  apply andb_prop in H. destruct H as [H3 Hnb].
  constructor.
  - apply orb_prop in H3. destruct H3 as [X|X]; [left; apply negb_true_iff; exact X|right; exact X].
  - assumption.
  - split; apply is_empty_true; assumption.
  - apply is_empty_true. assumption.
  - destruct (cP c); [apply is_empty_true; assumption|].
    apply orb_prop in Hp; destruct Hp as [X|X];
      [left; apply is_empty_true; assumption|right; apply is_empty_false; apply negb_true_iff; assumption].
  - destruct (cO c); [apply is_empty_true; assumption|].
    apply orb_prop in Ho; destruct Ho as [X|X];
      [left; apply is_empty_true; assumption|right; apply is_empty_false; apply negb_true_iff; assumption].
  - destruct (binders c); [discriminate|discriminate].
Qed.

Lemma d3_clause_d3c : forall c, d3_clause c = true -> d3c c /\ c_opt c = false.
Proof.
  intros c H. unfold d3_clause in H. apply andb_prop in H. destruct H as [A B].
  split; [apply d10_clause_d3c; exact B|apply negb_true_iff; exact A].
Qed.

(* ---------- without bound aliases and clause bounds the lookup options are left alone *)
Lemma lopts_eta : forall lo, mkLopts (lo_lower lo) (lo_upper lo) = lo.
Proof. destruct lo; reflexivity. Qed.

Lemma utb_id : forall lo c, no_bounds c = true -> update_time_bounds lo c = lo.
Proof.
  intros lo c H. unfold no_bounds in H. repeat (apply andb_prop in H; destruct H as [H ?]).
  unfold update_time_bounds. destruct (cPLo c); [discriminate|]. destruct (cPUp c); [discriminate|]. apply lopts_eta.
Qed.

Lemma utbfr_id : forall e lo c r, no_bounds c = true -> update_time_bounds_for_row e lo c r = Ok lo.
Proof.
  intros e lo c r H. unfold update_time_bounds_for_row. rewrite (utb_id lo c H).
  unfold no_bounds in H. repeat (apply andb_prop in H; destruct H as [H ?]).
  unfold bound_from_row. rewrite H, H2. cbn. rewrite lopts_eta. apply f_equal. apply utb_id.
  unfold no_bounds. rewrite H, H2, H1, H0. reflexivity.
Qed.

(* ---------- the specialised clause *)
Definition specialise (e : cfg) (c : clause) (mu : row) : clause :=
  with_SPO c (spec_S e c mu) (spec_P e c mu (spec_P_anchor c mu)) (objres_opt (spec_O e c mu (spec_O_anchor c mu))).

Lemma cell_to_object_valid : forall e v, strlit_invalid e = false -> cell_to_object e v <> ObjInvalid.
Proof. intros e v H. destruct v; cbn; try discriminate. rewrite H. discriminate. Qed.

Lemma asd_eq : forall e gs lo c mu,
  no_bounds c = true -> strlit_invalid e = false -> fix14 e = true ->
  add_specified_data e gs lo c mu =
  bind (simple_fetch e gs (specialise e c mu) lo)
       (fun rows => Ok (match filter (compatible mu) rows with
                        | [] => if c_opt c then [merge_rows mu (null_row (clause_bindings c) mu)] else []
                        | l => map (merge_rows mu) l
                        end)).
Proof.
  intros e gs lo c mu Hnb Hsl Hfix. unfold add_specified_data. cbv zeta.
  rewrite (utbfr_id e lo c mu Hnb).
  assert (E1 : match spec_P_anchor c mu with None => Ok lo | Some _ => Ok lo end = @Ok lopts lo) by (destruct (spec_P_anchor c mu); reflexivity).
  rewrite E1. cbn [bind]. rewrite (utbfr_id e lo c mu Hnb).
  assert (E2 : match spec_O_anchor c mu with None => Ok lo | Some _ => Ok lo end = @Ok lopts lo) by (destruct (spec_O_anchor c mu); reflexivity).
  rewrite E2. cbn [bind]. fold (specialise e c mu).
  assert (Hv : spec_O e c mu (spec_O_anchor c mu) <> ObjInvalid).
  { unfold spec_O. destruct (spec_O_anchor c mu); [discriminate|].
    destruct (bound_value e mu (cOB c) (cOA c)); [apply cell_to_object_valid; exact Hsl|discriminate]. }
  rewrite Hfix.
  assert (G : forall x : outcome (list row),
            bind x (fun rows => match filter (compatible mu) rows with
                                | [] => if c_opt c then Ok [merge_rows mu (null_row (clause_bindings c) mu)] else Ok []
                                | _ :: _ => Ok (map (fun nr => merge_rows mu nr) (filter (compatible mu) rows))
                                end) =
            bind x (fun rows => Ok (match filter (compatible mu) rows with
                                    | [] => if c_opt c then [merge_rows mu (null_row (clause_bindings c) mu)] else []
                                    | l => map (merge_rows mu) l
                                    end))).
  { intros [rows|?|?]; cbn [bind]; auto. destruct (filter (compatible mu) rows); [destruct (c_opt c); reflexivity|reflexivity]. }
  destruct (spec_O e c mu (spec_O_anchor c mu)) eqn:Eo; try congruence; unfold specialise; rewrite Eo; apply G.
Qed.

(* the specialised clause differs from the clause only in S, P, O *)
Lemma row_of_with : forall e c s p o t, row_of e (with_SPO c s p o) t = row_of e c t.
Proof. reflexivity. Qed.

Lemma rows_of_with : forall e c s p o ts, rows_of e (with_SPO c s p o) ts = rows_of e c ts.
Proof. reflexivity. Qed.

(* ---------- the rows of a clause: the planner's (tripleToRow) and the canonical one (the specification's spec_bind) *)
Definition sbrow (c : clause) (t : triple) : option row := spec_bind (c_opt c) (binders c) t [].

Definition mrow (e : cfg) (c : clause) (t : triple) : option row :=
  match triple_to_row e c t with Ok o => o | _ => None end.

Definition rowopt (e : cfg) (c : clause) (t : triple) : option row :=
  if should_ignore c t then None else mrow e c t.

Lemma row_of_rowopt : forall e c t, fixoid e = true -> d3c c -> row_of e c t = Ok (rowopt e c t).
Proof.
  intros e c t Hf D. unfold row_of, rowopt, mrow. destruct (should_ignore c t); [reflexivity|].
  unfold triple_to_row. destruct (ttr_total e (c_opt c) (binders c) t [] Hf (no_oid_alias_checked c t (d_oid c D))) as [o Ho].
  rewrite Ho. reflexivity.
Qed.

Lemma mrow_sbrow : forall e c t, fixoid e = true -> fixzone e = true -> d3c c -> opt_rel row_equiv (mrow e c t) (sbrow c t).
Proof.
  intros e c t Hf Hz D. unfold mrow, sbrow, triple_to_row.
  destruct (ttr_spec_bind e (c_opt c) (binders c) t [] [] Hf Hz (no_oid_alias_checked c t (d_oid c D)) (row_equiv_refl [])) as [o [Ho Hr]].
  rewrite Ho. exact Hr.
Qed.

Lemma spec_row_brow : forall c glo t, spec_row c glo t = if consts_ok c glo t then sbrow c t else None.
Proof. reflexivity. Qed.

Lemma sbrow_nonempty : forall c t r, d3c c -> sbrow c t = Some r -> r <> [].
Proof.
  intros c t r D H. unfold sbrow in H. destruct (spec_bind_facts _ _ _ _ _ H) as [Hb _].
  pose proof (d_ne c D) as Hne. destruct (binders c) as [|[k x] bs] eqn:E; [congruence|].
  destruct (Hb k x (or_introl eq_refl)) as [v [w [_ [G _]]]]. intro X. subst. discriminate.
Qed.

Lemma rowopt_nonempty : forall e c t r, fixoid e = true -> fixzone e = true -> d3c c -> rowopt e c t = Some r -> r <> [].
Proof.
  intros e c t r Hf Hz D H. unfold rowopt in H. destruct (should_ignore c t); [discriminate|].
  pose proof (mrow_sbrow e c t Hf Hz D) as R. rewrite H in R. inversion R as [|a b Hab Ea Eb]; subst.
  pose proof (sbrow_nonempty c t b D (eq_sym Eb)) as Hb. intro X. subst. inversion Hab. subst. congruence.
Qed.

Lemma rows_of_rowopt : forall e c ts, fixoid e = true -> fixzone e = true -> d3c c ->
  rows_of e c ts = flat_map (fun t => match rowopt e c t with Some r => [r] | None => [] end) ts.
Proof.
  intros e c ts Hf Hz D. unfold rows_of. apply flat_map_ext. intros t.
  rewrite (row_of_rowopt e c t Hf D). destruct (rowopt e c t) as [r|] eqn:E; [|reflexivity].
  destruct r; [exfalso; apply (rowopt_nonempty e c t [] Hf Hz D E); reflexivity|reflexivity].
Qed.

(* ---------- the cell of a binder in the canonical row *)
Lemma brow_get : forall c t r k x, sbrow c t = Some r -> In (k, x) (binders c) ->
  exists v w, xval (c_opt c) x t = Some v /\ get r k = Some w /\ cell_equiv w v = true.
Proof. intros c t r k x H Hin. unfold sbrow in H. destruct (spec_bind_facts _ _ _ _ _ H) as [Hb _]. apply Hb. exact Hin. Qed.

(* membership of the binders of each position *)
Lemma in_binders : forall c k x, k <> [] ->
  In (k, x) [(cSB c, XSubj); (cSA c, XSubj); (cSTy c, XSType); (cSId c, XSId);
             (cPB c, XPred); (cPA c, XPred); (cPIdA c, XPId); (cPAncB c, XPAnchor); (cPAncA c, XPAnchor);
             (cOB c, XObj); (cOA c, XObj); (cOTy c, XOType); (cOIdA c, XOId); (cOAncB c, XOAnchor); (cOAncA c, XOAnchor)] ->
  In (k, x) (binders c).
Proof.
  intros c k x Hk Hin. unfold binders. apply filter_In. split; [exact Hin|]. cbn. apply negb_true_iff. apply is_empty_false. exact Hk.
Qed.

(* ---------- the specification's constants test = the lookups' matching + shouldIgnoreTriple *)
Lemma brow_in_some : forall c t r k x, d3c c -> sbrow c t = Some r -> k <> [] ->
  In (k, x) [(cSB c, XSubj); (cSA c, XSubj); (cSTy c, XSType); (cSId c, XSId);
             (cPB c, XPred); (cPA c, XPred); (cPIdA c, XPId); (cPAncB c, XPAnchor); (cPAncA c, XPAnchor);
             (cOB c, XObj); (cOA c, XObj); (cOTy c, XOType); (cOIdA c, XOId); (cOAncB c, XOAnchor); (cOAncA c, XOAnchor)] ->
  exists v w, xval (c_opt c) x t = Some v /\ get r k = Some w /\ cell_equiv w v = true.
Proof.
  intros c t r k x D B Hk Hin. eapply brow_get; [exact B|apply in_binders; assumption].
Qed.

Lemma p_anchor_cell : forall c t r, d3c c -> sbrow c t = Some r -> cPAncB c <> [] ->
  exists v w, xval (c_opt c) XPAnchor t = Some v /\ get r (cPAncB c) = Some w /\ cell_equiv w v = true.
Proof.
  intros c t r D B Hne. apply (brow_in_some c t r (cPAncB c) XPAnchor D B Hne). cbn. do 7 right. left. reflexivity.
Qed.

Lemma o_anchor_cell : forall c t r, d3c c -> sbrow c t = Some r -> cOAncB c <> [] ->
  exists v w, xval (c_opt c) XOAnchor t = Some v /\ get r (cOAncB c) = Some w /\ cell_equiv w v = true.
Proof.
  intros c t r D B Hne. apply (brow_in_some c t r (cOAncB c) XOAnchor D B Hne). cbn. do 13 right. left. reflexivity.
Qed.

Lemma gw_within : forall glo tp,
  gw glo tp = match panchor tp with Some ta => within (lo_lower glo) (lo_upper glo) ta | None => true end.
Proof. intros. unfold gw, within. destruct (panchor tp); reflexivity. Qed.

Lemma consts_fm : forall e c glo t r, d3c c -> ks e = true -> sbrow c t = Some r ->
  consts_ok c glo t = fm e c glo t && negb (should_ignore c t).
Proof.
  intros e c glo t r D Hks B. unfold consts_ok, fm, should_ignore. rewrite <- gw_within.
  (* predicate part *)
  assert (HP : pred_part_ok (c_opt c) (cP c) (cPID c) (cPAncB c) (cPLo c) (cPUp c) (tpred t) =
               (match cP c with Some p => pp e p (tpred t) | None => true end) &&
               negb (if is_empty (cPID c) then false
                     else ignore_pred (cPID c) (cPTemporal c) (cPAncB c) (cPLo c) (cPUp c) (tpred t))).
  { pose proof (d_p c D) as Dp. unfold pred_part_ok. destruct (cP c) as [p|].
    - rewrite Dp. cbn. rewrite (pp_key e p (tpred t) Hks). btauto.
    - destruct (is_empty (cPID c)) eqn:Ei; [reflexivity|].
      destruct Dp as [Dp|Dp]; [apply is_empty_true in Dp; congruence|].
      destruct (p_anchor_cell c t r D B Dp) as [v [w0 [Xv _]]]. unfold xval in Xv. cbn in Xv.
      apply is_empty_false in Dp. unfold ignore_pred. rewrite Dp.
      destruct (panchor (tpred t)) as [a|]; cbn; [btauto|].
      destruct (c_opt c); [cbn; btauto|discriminate Xv]. }
  (* object part *)
  assert (HO : (match cO c with
                | Some o => obj_key_eqb o (tobj t)
                | None => if is_empty (cOID c) then true
                          else match tobj t with
                               | OPred p => pred_part_ok (c_opt c) None (cOID c) (cOAncB c) (cOLo c) (cOUp c) p
                               | _ => c_opt c && negb (is_empty (cOAncB c))
                               end
                end) =
               (match cO c with Some o => obj_key_eqb o (tobj t) | None => true end) &&
               negb (if is_empty (cOID c) then false
                     else match tobj t with
                          | OPred p => ignore_pred (cOID c) (cOTemporal c) (cOAncB c) (cOLo c) (cOUp c) p
                          | _ => false
                          end)).
  { pose proof (d_o c D) as Do. destruct (cO c) as [o|].
    - rewrite Do. cbn. btauto.
    - destruct (is_empty (cOID c)) eqn:Ei; [reflexivity|].
      destruct Do as [Do|Do]; [apply is_empty_true in Do; congruence|].
      destruct (o_anchor_cell c t r D B Do) as [v [w0 [Xv _]]]. unfold xval in Xv. cbn in Xv.
      apply is_empty_false in Do. unfold pred_part_ok, ignore_pred. rewrite Ei, Do.
      destruct (tobj t) as [n|p|l]; cbn.
      + destruct (c_opt c); [reflexivity|discriminate Xv].
      + destruct (panchor p) as [a|]; cbn; [btauto|]. destruct (c_opt c); [cbn; btauto|discriminate Xv].
      + destruct (c_opt c); [reflexivity|discriminate Xv]. }
  rewrite HP, HO. btauto.
Qed.

(* ---------- specialising with the row's values only adds conditions that compatible rows satisfy anyway *)
Lemma bound_value_some : forall e mu b1 b2 v, bound_value e mu b1 b2 = Some v -> get mu b1 = Some v \/ get mu b2 = Some v.
Proof.
  intros e mu b1 b2 v H. unfold bound_value in H.
  destruct (get mu b1) as [v1|], (get mu b2) as [v2|]; try discriminate; auto.
  destruct (same_value e v1 v2); [|discriminate]. inversion H; subst. auto.
Qed.

Lemma nokey_ne : forall mu k v, get mu [] = None -> get mu k = Some v -> k <> [].
Proof. intros mu k v H G E. subst. congruence. Qed.

Lemma binder_cell : forall c t r mu k x v, d3c c -> sbrow c t = Some r -> compat_equiv mu r = true ->
  get mu [] = None -> get mu k = Some v ->
  In (k, x) [(cSB c, XSubj); (cSA c, XSubj); (cSTy c, XSType); (cSId c, XSId);
             (cPB c, XPred); (cPA c, XPred); (cPIdA c, XPId); (cPAncB c, XPAnchor); (cPAncA c, XPAnchor);
             (cOB c, XObj); (cOA c, XObj); (cOTy c, XOType); (cOIdA c, XOId); (cOAncB c, XOAnchor); (cOAncA c, XOAnchor)] ->
  exists w, xval (c_opt c) x t = Some w /\ cell_equiv v w = true.
Proof.
  intros c t r mu k x v D B C Hn G Hin.
  destruct (brow_in_some c t r k x D B (nokey_ne mu k v Hn G) Hin) as [w [w' [X [Gr Cw]]]].
  exists w. split; [exact X|]. eapply cell_equiv_trans; [eapply compat_equiv_get; eauto|exact Cw].
Qed.

Lemma fm_special : forall e c lo t r mu, d3c c -> ks e = true -> get mu [] = None ->
  sbrow c t = Some r -> compat_equiv mu r = true -> should_ignore c t = false ->
  fm e (specialise e c mu) lo t = fm e c lo t.
Proof.
  intros e c lo t r mu D Hks Hn B C Si. unfold fm, specialise. cbn [cS cP cO with_SPO].
  apply orb_false_iff in Si. destruct Si as [SiP SiO].
  assert (HS : match spec_S e c mu with Some s => node_eqb s (tsub t) | None => true end =
               match cS c with Some s => node_eqb s (tsub t) | None => true end);
  [|assert (HPp : match spec_P e c mu (spec_P_anchor c mu) with Some p => pp e p (tpred t) | None => true end =
                  match cP c with Some p => pp e p (tpred t) | None => true end);
    [|assert (HOo : match objres_opt (spec_O e c mu (spec_O_anchor c mu)) with Some o => obj_key_eqb o (tobj t) | None => true end =
                    match cO c with Some o => obj_key_eqb o (tobj t) | None => true end);
      [|rewrite HS, HPp, HOo; reflexivity]]].
  - (* subject *)
    unfold spec_S. destruct (cS c); [reflexivity|].
    destruct (bound_value e mu (cSB c) (cSA c)) as [[| | n | | |]|] eqn:Eb; try reflexivity.
    destruct (bound_value_some _ _ _ _ _ Eb) as [G|G];
      (destruct (binder_cell c t r mu _ XSubj _ D B C Hn G) as [w [X E]];
       [cbn; auto 6|unfold xval in X; cbn in X; inversion X; subst; cbn in E; exact E]).
  - (* predicate *)
    unfold spec_P, spec_P_anchor. destruct (cP c); [reflexivity|].
    destruct (negb (is_empty (cPID c)) && negb (is_empty (cPAncB c))) eqn:En.
    + apply andb_prop in En. destruct En as [En1 En2]. apply negb_true_iff in En1. apply negb_true_iff in En2.
      apply is_empty_false in En2.
      destruct (p_anchor_cell c t r D B En2) as [va [wa [Xa [Gr Cwa]]]].
      assert (HBp : match (match bound_value e mu (cPB c) (cPA c) with Some (CPred p) => Some p | _ => None end) with
                    | Some p => pp e p (tpred t) | None => true end = true).
      { destruct (bound_value e mu (cPB c) (cPA c)) as [[| | |p| |]|] eqn:Eb; try reflexivity.
        destruct (bound_value_some _ _ _ _ _ Eb) as [G'|G'];
          (destruct (binder_cell c t r mu _ XPred _ D B C Hn G') as [w [X E]];
           [cbn; auto 8|unfold xval in X; cbn in X; inversion X; subst; cbn in E; rewrite (pp_key e p (tpred t) Hks); exact E]). }
      destruct (get mu (cPAncB c)) as [[| | | | |ta]|] eqn:G; try exact HBp.
      (* the anchor binding gave a time *)
      pose proof (cell_equiv_trans _ _ _ (compat_equiv_get mu r (cPAncB c) wa (CTime ta) C Gr G) Cwa) as E.
      unfold xval in Xa. cbn in Xa. destruct (panchor (tpred t)) as [a|] eqn:Ha;
        [inversion Xa; subst va|destruct (c_opt c); inversion Xa; subst va; discriminate E]. cbn in E.
      rewrite (pp_key e _ (tpred t) Hks). unfold pred_key_eqb. cbn [pid panchor]. rewrite Ha, E, andb_true_r.
      rewrite En1 in SiP. unfold ignore_pred in SiP. apply orb_false_iff in SiP. destruct SiP as [S1 _].
      apply negb_false_iff in S1. rewrite str_eqb_sym. exact S1.
    + destruct (bound_value e mu (cPB c) (cPA c)) as [[| | |p| |]|] eqn:Eb; try reflexivity.
      destruct (bound_value_some _ _ _ _ _ Eb) as [G'|G'];
        (destruct (binder_cell c t r mu _ XPred _ D B C Hn G') as [w [X E]];
         [cbn; auto 8|unfold xval in X; cbn in X; inversion X; subst; cbn in E; rewrite (pp_key e p (tpred t) Hks); exact E]).
  - (* object *)
    unfold spec_O, spec_O_anchor. destruct (cO c); [reflexivity|].
    assert (HB : match objres_opt (match bound_value e mu (cOB c) (cOA c) with Some v => cell_to_object e v | None => ObjNone end) with
                 | Some o => obj_key_eqb o (tobj t) | None => true end = true).
    { destruct (bound_value e mu (cOB c) (cOA c)) as [v|] eqn:Eb; [|reflexivity].
      destruct (bound_value_some _ _ _ _ _ Eb) as [G'|G'];
        (destruct (binder_cell c t r mu _ XObj _ D B C Hn G') as [w [X E]];
         [cbn; auto 12|unfold xval in X; cbn in X; inversion X; subst;
          destruct v; cbn; try reflexivity; try (destruct (strlit_invalid e); reflexivity);
          destruct (tobj t); cbn in E; try discriminate; exact E]). }
    destruct (negb (is_empty (cOID c)) && negb (is_empty (cOAncB c))) eqn:En.
    + apply andb_prop in En. destruct En as [En1 En2]. apply negb_true_iff in En1. apply negb_true_iff in En2.
      apply is_empty_false in En2.
      destruct (o_anchor_cell c t r D B En2) as [va [wa [Xa [Gr Cwa]]]].
      destruct (get mu (cOAncB c)) as [[| | | | |ta]|] eqn:G; try exact HB.
      pose proof (cell_equiv_trans _ _ _ (compat_equiv_get mu r (cOAncB c) wa (CTime ta) C Gr G) Cwa) as E.
      unfold xval in Xa. cbn in Xa.
      destruct (tobj t) as [n0|p|l0] eqn:Ht;
        try (destruct (c_opt c); inversion Xa; subst va; discriminate E).
      destruct (panchor p) as [a|] eqn:Ha;
        [inversion Xa; subst va|destruct (c_opt c); inversion Xa; subst va; discriminate E]. cbn in E.
      cbn [objres_opt]. cbn. unfold pred_key_eqb. cbn [pid panchor]. rewrite Ha, E, andb_true_r.
      rewrite En1 in SiO. unfold ignore_pred in SiO. apply orb_false_iff in SiO. destruct SiO as [S1 _].
      apply negb_false_iff in S1. rewrite str_eqb_sym. exact S1.
    + exact HB.
Qed.

(* ---------- the triple the driver rebuilds is the stored triple up to zones *)
Lemma rebuilt_equiv : forall e c lo t, ks e = true -> fm e c lo t = true -> tequiv (rebuilt c t) t.
Proof.
  intros e c lo t Hks H. unfold fm in H.
  apply andb_prop in H. destruct H as [H _]. apply andb_prop in H. destruct H as [H HO].
  apply andb_prop in H. destruct H as [HS HP].
  unfold rebuilt, tequiv, triple_key_eqb.
  destruct (cS c) as [s|], (cP c) as [p|], (cO c) as [o|]; cbn [tsub tpred tobj];
    rewrite ?(pp_key e _ _ Hks) in HP; rewrite ?HS, ?HP, ?HO, ?pred_key_refl, ?obj_key_refl;
    try reflexivity;
    assert (node_eqb (tsub t) (tsub t) = true) as -> by (apply node_eqb_true; reflexivity); reflexivity.
Qed.

Lemma opt_rel_none_r : forall {A} (R : A -> A -> Prop) x, opt_rel R x None -> x = None.
Proof. intros A R x H. inversion H. reflexivity. Qed.

Lemma opt_rel_some_r : forall {A} (R : A -> A -> Prop) x b, opt_rel R x (Some b) -> exists a, x = Some a /\ R a b.
Proof. intros A R x b H. inversion H; subst. eexists; split; [reflexivity|assumption]. Qed.

(* ---------- one stored triple: the planner's contribution and the specification's *)
Definition Mt (e : cfg) (c c5 : clause) (lo : lopts) (mu : row) (t : triple) : list row :=
  if fm e c5 lo t
  then match rowopt e c (rebuilt c5 t) with
       | Some r => if compat_equiv mu r then [merge_rows mu r] else []
       | None => []
       end
  else [].

Definition St (c : clause) (glo : lopts) (mu : row) (t : triple) : list row :=
  match spec_row c glo t with
  | Some r => if compat_equiv mu r then [merge_rows mu r] else []
  | None => []
  end.

Lemma per_triple : forall e c glo mu mu' t,
  d3c c -> ks e = true -> fixoid e = true -> fixzone e = true -> get mu [] = None -> row_equiv mu mu' ->
  Forall2 row_equiv (Mt e c (specialise e c mu) glo mu t) (St c glo mu' t).
Proof.
  intros e c glo mu mu' t D Hks Hf Hz Hn Hm. unfold Mt, St. rewrite (spec_row_brow c glo t).
  set (c5 := specialise e c mu).
  (* facts available whenever the lookup selects t: the planner's row of the rebuilt triple is the canonical row of t *)
  assert (Hsel : fm e c5 glo t = true ->
                 should_ignore c (rebuilt c5 t) = should_ignore c t /\
                 opt_rel row_equiv (mrow e c (rebuilt c5 t)) (sbrow c t)).
  { intros Hfm. pose proof (rebuilt_equiv e c5 glo t Hks Hfm) as Ht. split.
    - apply should_ignore_equiv. exact Ht.
    - eapply opt_rel_trans_row; [apply mrow_sbrow; assumption|].
      unfold sbrow. apply spec_bind_equiv; [exact Ht|apply row_equiv_refl]. }
  destruct (sbrow c t) as [r|] eqn:B.
  2:{ assert (E : (if consts_ok c glo t then @None row else None) = None) by (destruct (consts_ok c glo t); reflexivity).
      rewrite E. destruct (fm e c5 glo t) eqn:Hfm; [|constructor].
      destruct (Hsel eq_refl) as [_ Hb]. unfold rowopt. rewrite (opt_rel_none_r _ _ Hb).
      destruct (should_ignore c (rebuilt c5 t)); constructor. }
  destruct (compat_equiv mu' r) eqn:C.
  2:{ assert (E : match (if consts_ok c glo t then Some r else None) with
                  | Some r0 => if compat_equiv mu' r0 then [merge_rows mu' r0] else []
                  | None => [] end = []) by (destruct (consts_ok c glo t); [rewrite C|]; reflexivity).
      rewrite E. destruct (fm e c5 glo t) eqn:Hfm; [|constructor].
      destruct (Hsel eq_refl) as [_ Hb]. unfold rowopt. destruct (should_ignore c (rebuilt c5 t)); [constructor|].
      destruct (opt_rel_some_r _ _ _ Hb) as [r5 [E5 Hr5]]. rewrite E5.
      rewrite (compat_cong mu mu' r5 r Hm Hr5), C. constructor. }
  assert (Cm : compat_equiv mu r = true) by (rewrite (compat_cong mu mu' r r Hm (row_equiv_refl r)); exact C).
  rewrite (consts_fm e c glo t r D Hks B).
  destruct (should_ignore c t) eqn:Si.
  - rewrite andb_false_r. destruct (fm e c5 glo t) eqn:Hfm; [|constructor].
    destruct (Hsel eq_refl) as [Hs _]. unfold rowopt. rewrite Hs; rewrite ?Si. constructor.
  - rewrite andb_true_r. unfold c5 at 1. rewrite (fm_special e c glo t r mu D Hks Hn B Cm Si).
    destruct (fm e c glo t) eqn:Hfm; [|constructor].
    assert (Hf5 : fm e c5 glo t = true) by (unfold c5; rewrite (fm_special e c glo t r mu D Hks Hn B Cm Si); exact Hfm).
    destruct (Hsel Hf5) as [Hs Hb]. unfold rowopt. rewrite Hs; rewrite ?Si.
    destruct (opt_rel_some_r _ _ _ Hb) as [r5 [E5 Hr5]]. rewrite E5.
    rewrite (compat_cong mu mu' r5 r Hm Hr5), C. constructor; [|constructor].
    apply merge_equiv; assumption.
Qed.

(* ---------- list plumbing *)
Lemma map_filter_flat_map : forall {A B C} (h : B -> C) (p : B -> bool) (F : A -> list B) l,
  map h (filter p (flat_map F l)) = flat_map (fun x => map h (filter p (F x))) l.
Proof.
  intros. induction l as [|x l IH]; cbn; [reflexivity|].
  rewrite filter_app, map_app, IH. reflexivity.
Qed.

Lemma flat_map_map_filter : forall {A B} (G : A -> list B) (rb : A -> A) (f : A -> bool) g,
  flat_map G (map rb (filter f g)) = flat_map (fun t => if f t then G (rb t) else []) g.
Proof.
  intros. induction g as [|t g IH]; cbn; [reflexivity|]. destruct (f t); cbn; rewrite IH; reflexivity.
Qed.

Lemma Forall2_flat_map : forall {A B} (R : B -> B -> Prop) (f g : A -> list B) l,
  (forall x, Forall2 R (f x) (g x)) -> Forall2 R (flat_map f l) (flat_map g l).
Proof.
  intros A B R f g l H. induction l as [|x l IH]; cbn; [constructor|]. apply Forall2_app; auto.
Qed.

Lemma no_bounds_with : forall c s p o, no_bounds (with_SPO c s p o) = no_bounds c.
Proof. reflexivity. Qed.

(* without bound bindings the row gives no window *)
Lemma rbo_true : forall c mu t, d3c c -> row_bounds_ok c mu t = true.
Proof.
  intros c mu t D. pose proof (d_nb c D) as Hnb. unfold no_bounds in Hnb.
  apply andb_prop in Hnb. destruct Hnb as [Hnb _]. apply andb_prop in Hnb. destruct Hnb as [Hnb _].
  apply andb_prop in Hnb. destruct Hnb as [Hlo Hup].
  unfold row_bounds_ok, row_bound. rewrite Hlo, Hup. destruct (panchor (tpred t)); reflexivity.
Qed.

(* ---------- the specialised fetch, filtered by compatibility with the row = the specification's extensions of the row *)
Lemma fetch_filtered : forall e gs glo c mu mu',
  d3c c -> ks e = true -> fixoid e = true -> fixsb e = true -> fixzone e = true ->
  forallb graph_nodup gs = true -> get mu [] = None -> row_equiv mu mu' ->
  exists F, simple_fetch e gs (specialise e c mu) glo = Ok F /\
            Forall2 row_equiv (map (merge_rows mu) (filter (compatible mu) F)) (spec_extend c glo gs mu').
Proof.
  intros e gs glo c mu mu' D Hks Hoid Hsb Hz Hnd Hn Hm.
  set (c5 := specialise e c mu).
  assert (Hno5 : cOIdA c5 = []) by (exact (d_oid c D)).
  rewrite (fetch_uniform e gs c5 glo Hoid Hks Hsb Hno5 Hnd).
  eexists. split; [reflexivity|].
  assert (Hlo : update_time_bounds glo c5 = glo) by (apply utb_id; exact (d_nb c D)).
  rewrite Hlo. rewrite map_filter_flat_map. unfold spec_extend.
  apply Forall2_flat_map. intros g. unfold fetch_rows_u.
  unfold c5 at 1. unfold specialise. rewrite rows_of_with. fold (specialise e c mu). fold c5.
  rewrite (rows_of_rowopt e c _ Hoid Hz D), flat_map_map_filter.
  rewrite map_filter_flat_map.
  apply Forall2_flat_map. intros t. rewrite (rbo_true c mu' t D). cbn [andb].
  pose proof (per_triple e c glo mu mu' t D Hks Hoid Hz Hn Hm) as P. unfold Mt, St in P. fold c5 in P.
  destruct (fm e c5 glo t); [|exact P].
  destruct (rowopt e c (rebuilt c5 t)) as [r|]; [|exact P].
  cbn. unfold compatible. unfold compat_equiv in P.
  destruct (forallb (fun kv => match get mu (fst kv) with Some v => cell_equiv v (snd kv) | None => true end) r); exact P.
Qed.

(* what one row contributes to the specification's step: its extensions, or - for an OPTIONAL clause without any - the row
   with the clause's new bindings NULL *)
Definition spec_one (glo : lopts) (gs : list graph) (c : clause) (mu : row) : list row :=
  match spec_extend c glo gs mu with
  | [] => if c_opt c
          then [merge_rows mu (map (fun k => (k, CNull)) (filter (fun k => negb (has mu k)) (clause_bindings c)))]
          else []
  | ext => ext
  end.

Lemma spec_step_one : forall glo gs c mus, spec_step glo gs c mus = flat_map (spec_one glo gs c) mus.
Proof. reflexivity. Qed.

Lemma null_row_equiv : forall bs mu mu', row_equiv mu mu' ->
  row_equiv (null_row bs mu) (map (fun k => (k, CNull)) (filter (fun k => negb (has mu' k)) bs)).
Proof.
  intros bs mu mu' H. unfold null_row. induction bs as [|b bs IH]; cbn; [constructor|].
  rewrite (has_equiv mu mu' b H). destruct (has mu' b); cbn; [exact IH|]. constructor; [split; reflexivity|exact IH].
Qed.

(* ---------- composition, step for one row: addSpecifiedData = the specification's contribution of the row (conjunctive
   or left outer join) *)
Theorem asd_spec : forall e gs glo c mu mu',
  d3c c -> ks e = true -> strlit_invalid e = false -> fix14 e = true -> fixoid e = true -> fixsb e = true -> fixzone e = true ->
  forallb graph_nodup gs = true -> get mu [] = None -> row_equiv mu mu' ->
  exists rows, add_specified_data e gs glo c mu = Ok rows /\ Forall2 row_equiv rows (spec_one glo gs c mu').
Proof.
  intros e gs glo c mu mu' D Hks Hsl H14 Hoid Hsb Hz Hnd Hn Hm.
  rewrite (asd_eq e gs glo c mu (d_nb c D) Hsl H14).
  destruct (fetch_filtered e gs glo c mu mu' D Hks Hoid Hsb Hz Hnd Hn Hm) as [F [EF HF]].
  rewrite EF. cbn [bind]. eexists. split; [reflexivity|]. unfold spec_one.
  destruct (filter (compatible mu) F) as [|x l] eqn:Ef.
  - cbn in HF. inversion HF as [E|]; subst. destruct (c_opt c); [|constructor].
    constructor; [|constructor]. apply merge_equiv; [exact Hm|]. apply null_row_equiv. exact Hm.
  - destruct (spec_extend c glo gs mu') as [|y l'] eqn:Ee; [inversion HF|]. exact HF.
Qed.
