(* Order on byte strings (Go's string comparison) as a comparison function, and the laws of comparators. *)
From Coq Require Import List ZArith NArith Bool Lia.
From Coq.Strings Require Import Byte.
Import ListNotations.
From BWTable Require Import Cells.

Fixpoint str_compare (a b : str) : comparison :=
  match a, b with
  | [], [] => Eq
  | [], _ :: _ => Lt
  | _ :: _, [] => Gt
  | x :: a', y :: b' =>
      match N.compare (Byte.to_N x) (Byte.to_N y) with
      | Eq => str_compare a' b'
      | c => c
      end
  end.

Lemma byte_eqb_eq : forall x y, Byte.eqb x y = true <-> x = y.
Proof. intros. split; [apply Byte.byte_dec_bl | apply Byte.byte_dec_lb]. Qed.

Lemma to_N_inj : forall x y, Byte.to_N x = Byte.to_N y -> x = y.
Proof.
  intros x y H. pose proof (Byte.of_to_N x) as Hx. pose proof (Byte.of_to_N y) as Hy.
  rewrite H in Hx. congruence.
Qed.

Lemma byte_eqb_to_N : forall x y, Byte.eqb x y = N.eqb (Byte.to_N x) (Byte.to_N y).
Proof.
  intros x y. destruct (Byte.eqb x y) eqn:E.
  - apply byte_eqb_eq in E. subst. symmetry. apply N.eqb_refl.
  - symmetry. apply N.eqb_neq. intro H. apply to_N_inj in H. subst.
    assert (Byte.eqb y y = true) by (apply byte_eqb_eq; reflexivity). congruence.
Qed.

Lemma str_eqb_compare : forall a b, str_eqb a b = match str_compare a b with Eq => true | _ => false end.
Proof.
  induction a as [|x a IH]; destruct b as [|y b]; cbn; try reflexivity.
  rewrite byte_eqb_to_N. destruct (N.compare_spec (Byte.to_N x) (Byte.to_N y)) as [E|E|E].
  - rewrite E, N.eqb_refl. cbn. apply IH.
  - replace (N.eqb _ _) with false by (symmetry; apply N.eqb_neq; lia). reflexivity.
  - replace (N.eqb _ _) with false by (symmetry; apply N.eqb_neq; lia). reflexivity.
Qed.

Lemma str_ltb_compare : forall a b, str_ltb a b = match str_compare a b with Lt => true | _ => false end.
Proof.
  induction a as [|x a IH]; destruct b as [|y b]; cbn; try reflexivity.
  rewrite byte_eqb_to_N. unfold byte_ltb.
  destruct (N.compare_spec (Byte.to_N x) (Byte.to_N y)) as [E|E|E].
  - rewrite E, N.eqb_refl. apply IH.
  - replace (N.eqb _ _) with false by (symmetry; apply N.eqb_neq; lia).
    apply N.ltb_lt. exact E.
  - replace (N.eqb _ _) with false by (symmetry; apply N.eqb_neq; lia).
    apply N.ltb_ge. lia.
Qed.

Lemma str_compare_eq : forall a b, str_compare a b = Eq <-> a = b.
Proof.
  induction a as [|x a IH]; destruct b as [|y b]; cbn; split; intro H; try reflexivity; try discriminate.
  - destruct (N.compare_spec (Byte.to_N x) (Byte.to_N y)) as [E|E|E]; try discriminate.
    apply to_N_inj in E. subst. f_equal. apply IH. exact H.
  - injection H as -> ->. rewrite N.compare_refl. apply IH. reflexivity.
Qed.

Lemma str_eqb_eq : forall a b, str_eqb a b = true <-> a = b.
Proof.
  intros. rewrite str_eqb_compare. rewrite <- str_compare_eq.
  destruct (str_compare a b); split; congruence.
Qed.

Lemma str_eqb_refl : forall a, str_eqb a a = true.
Proof. intro. apply str_eqb_eq. reflexivity. Qed.

Lemma str_compare_refl : forall a, str_compare a a = Eq.
Proof. intro. apply str_compare_eq. reflexivity. Qed.

Lemma str_compare_sym : forall a b, str_compare b a = CompOpp (str_compare a b).
Proof.
  induction a as [|x a IH]; destruct b as [|y b]; cbn; try reflexivity.
  rewrite (N.compare_antisym (Byte.to_N x) (Byte.to_N y)).
  destruct (N.compare (Byte.to_N x) (Byte.to_N y)); cbn; auto.
Qed.

Lemma str_compare_trans_lt : forall a b c, str_compare a b = Lt -> str_compare b c = Lt -> str_compare a c = Lt.
Proof.
  induction a as [|x a IH]; destruct b as [|y b]; destruct c as [|z c]; cbn; intros H1 H2;
    try reflexivity; try discriminate.
  destruct (N.compare_spec (Byte.to_N x) (Byte.to_N y)) as [E1|E1|E1]; try discriminate;
  destruct (N.compare_spec (Byte.to_N y) (Byte.to_N z)) as [E2|E2|E2]; try discriminate.
  - rewrite E1, E2, N.compare_refl. eapply IH; eauto.
  - rewrite E1. apply N.compare_lt_iff in E2. rewrite E2. reflexivity.
  - rewrite <- E2. apply N.compare_lt_iff in E1. rewrite E1. reflexivity.
  - assert (E : (Byte.to_N x < Byte.to_N z)%N) by lia. apply N.compare_lt_iff in E. rewrite E. reflexivity.
Qed.

(* ---- comparators: total preorders given by a comparison function ----------------------------------------- *)
Record comparator {A} (cmp : A -> A -> comparison) : Prop := {
  cmp_refl : forall a, cmp a a = Eq;
  cmp_sym : forall a b, cmp b a = CompOpp (cmp a b);
  cmp_trans_lt : forall a b c, cmp a b = Lt -> cmp b c = Lt -> cmp a c = Lt;
  cmp_eq_l : forall a b c, cmp a b = Eq -> cmp a c = cmp b c
}.

Lemma str_compare_comparator : comparator str_compare.
Proof.
  constructor.
  - apply str_compare_refl.
  - apply str_compare_sym.
  - apply str_compare_trans_lt.
  - intros a b c H. apply str_compare_eq in H. subst. reflexivity.
Qed.

Section Comparator.
  Context {A : Type} (cmp : A -> A -> comparison) (C : comparator cmp).

  Lemma cmp_eq_r : forall a b c, cmp a b = Eq -> cmp c a = cmp c b.
  Proof.
    intros a b c H. rewrite (cmp_sym cmp C a c), (cmp_sym cmp C b c). f_equal. apply (cmp_eq_l cmp C). exact H.
  Qed.

  Lemma cmp_gt_lt : forall a b, cmp a b = Gt <-> cmp b a = Lt.
  Proof. intros a b. rewrite (cmp_sym cmp C a b). destruct (cmp a b); cbn; split; congruence. Qed.

  (* negative transitivity of the strict part *)
  Lemma cmp_neg_trans : forall a b c, cmp a b <> Lt -> cmp b c <> Lt -> cmp a c <> Lt.
  Proof.
    intros a b c H1 H2 H3.
    destruct (cmp a b) eqn:E1; try congruence.
    - rewrite (cmp_eq_l cmp C a b c E1) in H3. congruence.
    - destruct (cmp b c) eqn:E2; try congruence.
      + rewrite <- (cmp_eq_r b c a E2) in H3. apply cmp_gt_lt in E1.
        rewrite (cmp_sym cmp C b a) in H3. rewrite E1 in H3. discriminate.
      + apply cmp_gt_lt in E1. apply cmp_gt_lt in E2.
        pose proof (cmp_trans_lt cmp C c b a E2 E1) as H4.
        rewrite (cmp_sym cmp C c a) in H3. rewrite H4 in H3. discriminate.
  Qed.

  Lemma cmp_trans_eq : forall a b c, cmp a b = Eq -> cmp b c = Eq -> cmp a c = Eq.
  Proof. intros a b c H1 H2. rewrite (cmp_eq_l cmp C a b c H1). exact H2. Qed.
End Comparator.

(* direction *)
Definition dir_cmp (desc : bool) (c : comparison) : comparison := if desc then CompOpp c else c.

Lemma comparator_dir : forall {A} (cmp : A -> A -> comparison) desc,
  comparator cmp -> comparator (fun a b => dir_cmp desc (cmp a b)).
Proof.
  intros A cmp desc C. destruct desc; cbn; [|exact C].
  constructor.
  - intro a. rewrite (cmp_refl cmp C). reflexivity.
  - intros a b. rewrite (cmp_sym cmp C a b). reflexivity.
  - intros a b c H1 H2.
    assert (cmp b a = Lt) by (rewrite (cmp_sym cmp C a b); destruct (cmp a b); cbn in *; congruence).
    assert (cmp c b = Lt) by (rewrite (cmp_sym cmp C b c); destruct (cmp b c); cbn in *; congruence).
    pose proof (cmp_trans_lt cmp C c b a H0 H) as H3.
    rewrite (cmp_sym cmp C c a), H3. reflexivity.
  - intros a b c H. f_equal. apply (cmp_eq_l cmp C).
    destruct (cmp a b); cbn in *; congruence.
Qed.

(* pull back along a function *)
Lemma comparator_on : forall {A B} (f : A -> B) (cmp : B -> B -> comparison),
  comparator cmp -> comparator (fun a b => cmp (f a) (f b)).
Proof.
  intros A B f cmp C. constructor; intros.
  - apply (cmp_refl cmp C).
  - apply (cmp_sym cmp C).
  - eapply (cmp_trans_lt cmp C); eauto.
  - apply (cmp_eq_l cmp C). assumption.
Qed.

(* lexicographic combination *)
Definition lex_cmp (c1 c2 : comparison) : comparison := match c1 with Eq => c2 | x => x end.

Lemma comparator_lex : forall {A} (cmp1 cmp2 : A -> A -> comparison),
  comparator cmp1 -> comparator cmp2 -> comparator (fun a b => lex_cmp (cmp1 a b) (cmp2 a b)).
Proof.
  intros A cmp1 cmp2 C1 C2. constructor.
  - intro a. rewrite (cmp_refl cmp1 C1). cbn. apply (cmp_refl cmp2 C2).
  - intros a b. rewrite (cmp_sym cmp1 C1 a b), (cmp_sym cmp2 C2 a b).
    destruct (cmp1 a b); reflexivity.
  - intros a b c H1 H2. unfold lex_cmp in *.
    destruct (cmp1 a b) eqn:E1; try discriminate.
    + rewrite (cmp_eq_l cmp1 C1 a b c E1).
      destruct (cmp1 b c) eqn:E2; try discriminate; try reflexivity.
      eapply (cmp_trans_lt cmp2 C2); eauto.
    + destruct (cmp1 b c) eqn:E2; try discriminate.
      * rewrite <- (cmp_eq_r cmp1 C1 b c a E2). rewrite E1. reflexivity.
      * rewrite (cmp_trans_lt cmp1 C1 a b c E1 E2). reflexivity.
  - intros a b c H. unfold lex_cmp in *.
    destruct (cmp1 a b) eqn:E1; try discriminate.
    rewrite (cmp_eq_l cmp1 C1 a b c E1). rewrite (cmp_eq_l cmp2 C2 a b c H). reflexivity.
Qed.

Lemma comparator_const_eq : forall {A}, comparator (fun (_ _ : A) => Eq).
Proof. intro A. constructor; intros; try reflexivity; try discriminate. Qed.
