(* The hand-written builder (internalNewEvaluator / NewEvaluator) against the grammar's derivation trees:
   whenever the builder accepts the token string of a derivation, it returns the expression the derivation denotes.
   Plus: the fuel of the model is always enough; the recogniser parse_hc is sound. *)
From Coq Require Import List ZArith NArith Bool Lia.
From Coq.Strings Require Import Byte.
Import ListNotations.
From BWTable Require Import Cells Fmt StrOrder Expr ExprSpec.

Lemma tkind_eqb_eq : forall a b, tkind_eqb a b = true -> a = b.
Proof. intros [] [] H; cbn in H; try discriminate; reflexivity. Qed.

Lemma yield_nonempty : forall h, exists t w, yield h = t :: w.
Proof. intros [t c|n h|l h r c]; cbn; eexists; eexists; reflexivity. Qed.

Lemma yield_single : forall h b, yield h = [b] -> h = HOperand b CEmpty.
Proof.
  intros [t c|n h|l h r c] b H; cbn in H.
  - destruct c as [|o h2]; cbn in H; [congruence|]. destruct (yield_nonempty h2) as (x & w & Y). rewrite Y in H. discriminate.
  - destruct (yield_nonempty h) as (x & w & Y). rewrite Y in H. discriminate.
  - destruct (yield_nonempty h) as (x & w & Y). rewrite Y in H. discriminate.
Qed.

Lemma mk_comparison_operand : forall op l r e, mk_comparison op l r = Ok e -> is_operand (tk r) = true.
Proof.
  intros op l r e H. unfold mk_comparison in H.
  destruct (is_nil (trim_space (t_text l)) || is_nil (trim_space (t_text r))); [discriminate|].
  destruct (tk r); try discriminate; reflexivity.
Qed.

Definition rest_ok (rest : list tok) : Prop := rest = [] \/ exists r rs, rest = r :: rs /\ tk r = KRPar.

(* the second token of the yield of a derivation that starts with an operand and has more than one token is a
   composite operator *)
Lemma operand_then_compop : forall h b o w, wf_hc h = true -> yield h = b :: o :: w -> is_operand (tk b) = true ->
  is_compop (tk o) = true.
Proof.
  intros [t c|n h|l h r c] b o w W Y B; cbn in W, Y.
  - destruct c as [|o2 h2]; cbn in Y; [discriminate|]. injection Y as -> -> _.
    apply andb_prop in W. destruct W as [_ W]. cbn in W. apply andb_prop in W. tauto.
  - injection Y as -> _. apply andb_prop in W. destruct W as [W _]. apply tkind_eqb_eq in W. rewrite W in B. discriminate.
  - injection Y as -> _. apply andb_prop in W. destruct W as [W _]. apply andb_prop in W. destruct W as [W _].
    apply andb_prop in W. destruct W as [W _]. apply tkind_eqb_eq in W. rewrite W in B. discriminate.
Qed.

Lemma build_agrees : forall lenient fuel h rest e rest',
  wf_hc h = true -> rest_ok rest ->
  build lenient fuel (yield h ++ rest) = Ok (e, rest') ->
  (rest' = rest /\ denote h = Some e) \/ (exists t rs, rest' = t :: rs /\ is_compop (tk t) = true).
Proof.
  intros lenient. induction fuel as [|f IH]; intros h rest e rest' W R H; [discriminate|].
  destruct h as [t c | n h1 | l h1 r c].
  - (* operand COMPOSITE *)
    cbn [yield app] in H. cbn [build] in H. cbn [wf_hc] in W. apply andb_prop in W. destruct W as [Wt Wc].
    destruct (tk t) eqn:Kt; cbn in Wt; try discriminate.
    destruct c as [|o h2].
    + cbn [yield_comp app] in H. destruct R as [->|(r & rs & -> & Kr)]; [discriminate|].
      destruct rs as [|x rs]; [discriminate|]. rewrite Kr in H. cbn in H. discriminate.
    + cbn [yield_comp app] in H. cbn [wf_comp] in Wc. apply andb_prop in Wc. destruct Wc as [Wo W2].
      destruct (yield_nonempty h2) as (b & w & Y). rewrite Y in H. cbn [app] in H.
      destruct (cop_of (tk o)) as [op|] eqn:Co; [|discriminate].
      destruct (mk_comparison op t b) as [e0| | |] eqn:M; try discriminate.
      injection H as <- <-.
      destruct w as [|o2 w'].
      * left. split; [reflexivity|]. apply yield_single in Y. subst h2. cbn [denote]. rewrite Kt, Co.
        unfold comparison_of. rewrite M. reflexivity.
      * right. exists o2, (w' ++ rest). split; [reflexivity|].
        eapply operand_then_compop; [exact W2 | exact Y | eapply mk_comparison_operand; exact M].
  - (* NOT clause *)
    cbn [yield app] in H. cbn [build] in H. cbn [wf_hc] in W. apply andb_prop in W. destruct W as [Wn W1].
    apply tkind_eqb_eq in Wn. rewrite Wn in H.
    destruct (build lenient f (yield h1 ++ rest)) as [[e1 r1]| | |] eqn:B; try discriminate.
    injection H as <- <-.
    destruct (IH h1 rest e1 r1 W1 R B) as [[-> D]|X].
    + left. split; [reflexivity|]. cbn [denote]. rewrite D. reflexivity.
    + right. exact X.
  - (* ( clause ) COMPOSITE *)
    cbn [yield] in H. cbn [wf_hc] in W.
    apply andb_prop in W. destruct W as [W Wc]. apply andb_prop in W. destruct W as [W Wr].
    apply andb_prop in W. destruct W as [Wl W1]. apply tkind_eqb_eq in Wl, Wr.
    replace ((l :: yield h1 ++ r :: yield_comp c) ++ rest) with (l :: yield h1 ++ (r :: yield_comp c ++ rest)) in H
      by (cbn [app]; rewrite <- app_assoc; reflexivity).
    cbn [build] in H. rewrite Wl in H.
    destruct (build lenient f (yield h1 ++ r :: yield_comp c ++ rest)) as [[e1 ce']| | |] eqn:B; try discriminate.
    assert (R1 : rest_ok (r :: yield_comp c ++ rest)) by (right; exists r, (yield_comp c ++ rest); auto).
    destruct (IH h1 _ e1 ce' W1 R1 B) as [[-> D]|(t & rs & -> & Ct)].
    2:{ (* a composite operator where ')' is expected *)
        destruct (tk t); cbn in Ct; try discriminate; discriminate H. }
    rewrite Wr in H.
    destruct c as [|o h2].
    + cbn [yield_comp app] in H.
      destruct R as [->|(r2 & rs & -> & Kr)].
      * injection H as <- <-. left. split; [reflexivity|]. cbn [denote]. exact D.
      * destruct rs as [|x rs].
        -- injection H as <- <-. left. split; [reflexivity|]. cbn [denote]. exact D.
        -- rewrite Kr in H. destruct lenient; [|discriminate].
           injection H as <- <-. left. split; [reflexivity|]. cbn [denote]. exact D.
    + cbn [yield_comp app] in H. cbn [wf_comp] in Wc. apply andb_prop in Wc. destruct Wc as [Wo W2].
      destruct (yield_nonempty h2) as (b & w & Y).
      assert (Hy : yield h2 ++ rest = b :: (w ++ rest)) by (rewrite Y; reflexivity).
      rewrite Hy in H.
      destruct (tk o) eqn:Ko; cbn in Wo; try discriminate;
        try (destruct lenient; [|discriminate H]; injection H as <- <-; right; exists o, (b :: w ++ rest);
             split; [reflexivity | rewrite Ko; reflexivity]).
      * (* AND *)
        rewrite <- Hy in H.
        destruct (build lenient f (yield h2 ++ rest)) as [[e2 r2]| | |] eqn:B2; try discriminate.
        injection H as <- <-.
        destruct (IH h2 rest e2 r2 W2 R B2) as [[-> D2]|X].
        -- left. split; [reflexivity|]. cbn [denote]. rewrite Ko, D, D2. reflexivity.
        -- right. exact X.
      * (* OR *)
        rewrite <- Hy in H.
        destruct (build lenient f (yield h2 ++ rest)) as [[e2 r2]| | |] eqn:B2; try discriminate.
        injection H as <- <-.
        destruct (IH h2 rest e2 r2 W2 R B2) as [[-> D2]|X].
        -- left. split; [reflexivity|]. cbn [denote]. rewrite Ko, D, D2. reflexivity.
        -- right. exact X.
Qed.

(* NewEvaluator on the token string of a derivation: rejected, or exactly the expression the derivation denotes *)
Theorem builder_agrees_with_grammar : forall lenient h e, wf_hc h = true ->
  new_evaluator_with lenient (yield h) = Ok e -> denote h = Some e.
Proof.
  intros lenient h e W H. unfold new_evaluator_with in H.
  destruct (build lenient (S (length (yield h))) (yield h)) as [[e1 tail]| | |] eqn:B; try discriminate.
  rewrite <- (app_nil_r (yield h)) in B at 2.
  destruct (build_agrees _ _ h [] e1 tail W (or_introl eq_refl) B) as [[-> D]|(t & rs & -> & Ct)].
  - injection H as <-. exact D.
  - destruct rs; [|discriminate]. destruct (tk t); cbn in Ct; try discriminate; discriminate H.
Qed.

(* ---- fuel ------------------------------------------------------------------------------------------------------ *)
Lemma build_fuel : forall lenient fuel ce, (length ce < fuel)%nat ->
  build lenient fuel ce <> Err EFuel /\ (forall e rest, build lenient fuel ce = Ok (e, rest) -> (length rest < length ce)%nat).
Proof.
  intros lenient. induction fuel as [|f IH]; intros ce L; [lia|].
  destruct ce as [|head tail]; [split; [discriminate | intros; discriminate]|].
  cbn [build]. cbn [length] in L.
  destruct (tk head); try (split; [discriminate | intros; discriminate]).
  - (* binding *)
    destruct tail as [|opT [|bT rest]]; try (split; [discriminate | intros; discriminate]).
    destruct (cop_of (tk opT)); [|split; [discriminate | intros; discriminate]].
    destruct (mk_comparison c head bT) eqn:M.
    + split; [discriminate|]. intros e r H. injection H as <- <-. cbn. lia.
    + split; [|intros; discriminate]. unfold mk_comparison in M.
      destruct (is_nil _ || is_nil _); [congruence|]. destruct (tk bT); congruence.
    + unfold mk_comparison in M. destruct (is_nil _ || is_nil _); [congruence|]. destruct (tk bT); congruence.
    + unfold mk_comparison in M. destruct (is_nil _ || is_nil _); [congruence|]. destruct (tk bT); congruence.
  - (* not *)
    destruct (IH tail ltac:(lia)) as [F S1].
    destruct (build lenient f tail) as [[e1 r1]| | |] eqn:B.
    + split; [discriminate|]. intros e r H. injection H as <- <-. specialize (S1 e1 r1 eq_refl). cbn. lia.
    + split; [congruence | intros; discriminate].
    + split; [discriminate | intros; discriminate].
    + split; [discriminate | intros; discriminate].
  - (* ( *)
    destruct (IH tail ltac:(lia)) as [F S1].
    destruct (build lenient f tail) as [[e1 ce']| | |] eqn:B.
    2:{ split; [congruence | intros; discriminate]. }
    2:{ split; [discriminate | intros; discriminate]. }
    2:{ split; [discriminate | intros; discriminate]. }
    specialize (S1 e1 ce' eq_refl).
    destruct ce' as [|h tl]; [split; [discriminate | intros; discriminate]|].
    destruct (tk h); try (split; [discriminate | intros; discriminate]).
    destruct tl as [|opT [|x rhs]].
    + split; [discriminate|]. intros e r H. injection H as <- <-. cbn in *. lia.
    + split; [discriminate|]. intros e r H. injection H as <- <-. cbn in *. lia.
    + destruct (tk opT);
        try (destruct lenient; [split; [discriminate | intros e r H; injection H as <- <-; cbn [length] in *; lia]
                               | split; [discriminate | intros; discriminate]]).
      * cbn [length] in S1. destruct (IH (x :: rhs) ltac:(cbn [length]; lia)) as [F2 S2].
        destruct (build lenient f (x :: rhs)) as [[e2 r2]| | |] eqn:B2.
        -- split; [discriminate|]. intros e r H. injection H as <- <-. specialize (S2 e2 r2 eq_refl). cbn [length] in *. lia.
        -- split; [congruence | intros; discriminate].
        -- split; [discriminate | intros; discriminate].
        -- split; [discriminate | intros; discriminate].
      * cbn [length] in S1. destruct (IH (x :: rhs) ltac:(cbn [length]; lia)) as [F2 S2].
        destruct (build lenient f (x :: rhs)) as [[e2 r2]| | |] eqn:B2.
        -- split; [discriminate|]. intros e r H. injection H as <- <-. specialize (S2 e2 r2 eq_refl). cbn [length] in *. lia.
        -- split; [congruence | intros; discriminate].
        -- split; [discriminate | intros; discriminate].
        -- split; [discriminate | intros; discriminate].
Qed.

Theorem build_fuel_enough : forall lenient ce, new_evaluator_with lenient ce <> Err EFuel.
Proof.
  intros lenient ce. unfold new_evaluator_with.
  destruct (build_fuel lenient (S (length ce)) ce ltac:(lia)) as [F _].
  destruct (build lenient (S (length ce)) ce) as [[e tail]| | |]; try congruence; try discriminate.
  destruct tail as [|t [|x tl]]; try discriminate. destruct (tk t); discriminate.
Qed.

(* ---- the recogniser produces derivations of its input ------------------------------------------------------------ *)
Lemma tkind_eqb_refl : forall k, tkind_eqb k k = true.
Proof. intros []; reflexivity. Qed.

Lemma parse_hc_sound : forall fuel ts h rest, parse_hc fuel ts = Some (h, rest) ->
  ts = yield h ++ rest /\ wf_hc h = true.
Proof.
  induction fuel as [|f IH]; intros ts h rest H; [discriminate|].
  cbn [parse_hc] in H.
  destruct ts as [|t ts']; [discriminate|].
  assert (PC : forall ts0 c r0,
             match ts0 with
             | o :: rest0 => if is_compop (tk o)
                             then match parse_hc f rest0 with Some (h0, rest') => Some (COp o h0, rest') | None => None end
                             else Some (CEmpty, ts0)
             | [] => Some (CEmpty, [])
             end = Some (c, r0) -> ts0 = yield_comp c ++ r0 /\ wf_comp c = true).
  { intros ts0 c r0 E. destruct ts0 as [|o rest0].
    - injection E as <- <-. split; reflexivity.
    - destruct (is_compop (tk o)) eqn:Co.
      + destruct (parse_hc f rest0) as [[h0 rest']|] eqn:P; [|discriminate]. injection E as <- <-.
        destruct (IH _ _ _ P) as [-> W]. split; [reflexivity|]. cbn. rewrite Co, W. reflexivity.
      + injection E as <- <-. split; reflexivity. }
  destruct (is_operand (tk t)) eqn:Op.
  - match type of H with match ?X with _ => _ end = _ => destruct X as [[c r0]|] eqn:E; [|discriminate] end.
    injection H as <- <-. destruct (PC _ _ _ E) as [-> W]. split; [reflexivity|]. cbn. rewrite Op, W. reflexivity.
  - destruct (tk t) eqn:Kt; try discriminate.
    + destruct (parse_hc f ts') as [[h1 r1]|] eqn:P; [|discriminate]. injection H as <- <-.
      destruct (IH _ _ _ P) as [-> W]. split; [reflexivity|]. cbn. rewrite Kt, W. reflexivity.
    + destruct (parse_hc f ts') as [[h1 [|r r1]]|] eqn:P; try discriminate.
      destruct (tk r) eqn:Kr; try discriminate.
      match type of H with match ?X with _ => _ end = _ => destruct X as [[c r0]|] eqn:E; [|discriminate] end.
      injection H as <- <-. destruct (IH _ _ _ P) as [-> W]. destruct (PC _ _ _ E) as [-> Wc].
      split.
      * cbn. rewrite <- app_assoc. reflexivity.
      * cbn. rewrite Kt, Kr, W, Wc. reflexivity.
Qed.

Theorem derivation_of_sound : forall ts h, derivation_of ts = Some h -> yield h = ts /\ wf_hc h = true.
Proof.
  intros ts h H. unfold derivation_of in H.
  destruct (parse_hc (S (length ts)) ts) as [[h0 [|x r]]|] eqn:P; try discriminate.
  injection H as <-. destruct (parse_hc_sound _ _ _ _ P) as [E W]. rewrite app_nil_r in E. auto.
Qed.

(* ---- completeness of the repaired builder -------------------------------------------------------------------------
   With the parenthesis case repaired ([lenient] = true) every derivation that has a boolean meaning is accepted. *)
Lemma build_complete : forall fuel h rest e,
  wf_hc h = true -> denote h = Some e -> rest_ok rest -> (length (yield h ++ rest) < fuel)%nat ->
  build true fuel (yield h ++ rest) = Ok (e, rest).
Proof.
  induction fuel as [|f IH]; intros h rest e W D R L; [lia|].
  destruct h as [t c | n h1 | l h1 r c].
  - (* binding op operand *)
    cbn [denote] in D. destruct c as [|o h2]; [discriminate|].
    destruct h2 as [t2 c2| |]; try discriminate. destruct c2; [|discriminate].
    destruct (tk t) eqn:Kt; try discriminate. destruct (cop_of (tk o)) as [op|] eqn:Co; [|discriminate].
    unfold comparison_of in D. destruct (mk_comparison op t t2) as [e0| | |] eqn:M; try discriminate.
    injection D as <-. cbn [yield yield_comp app]. cbn [build]. rewrite Kt, Co, M. reflexivity.
  - (* NOT *)
    cbn [denote] in D. destruct (denote h1) as [e1|] eqn:D1; [|discriminate]. injection D as <-.
    cbn [wf_hc] in W. apply andb_prop in W. destruct W as [Wn W1]. apply tkind_eqb_eq in Wn.
    cbn [yield app]. cbn [build]. rewrite Wn.
    rewrite (IH h1 rest e1 W1 D1 R); [reflexivity|]. cbn [yield app length] in L. lia.
  - (* ( clause ) COMPOSITE *)
    cbn [wf_hc] in W.
    apply andb_prop in W. destruct W as [W Wc]. apply andb_prop in W. destruct W as [W Wr].
    apply andb_prop in W. destruct W as [Wl W1]. apply tkind_eqb_eq in Wl, Wr.
    cbn [yield].
    replace ((l :: yield h1 ++ r :: yield_comp c) ++ rest) with (l :: yield h1 ++ (r :: yield_comp c ++ rest))
      by (cbn [app]; rewrite <- app_assoc; reflexivity).
    assert (L1 : (length (yield h1 ++ r :: yield_comp c ++ rest) < f)%nat).
    { cbn [yield] in L. cbn [app length] in L. rewrite <- app_assoc in L. cbn [app] in L. lia. }
    assert (R1 : rest_ok (r :: yield_comp c ++ rest)) by (right; exists r, (yield_comp c ++ rest); auto).
    cbn [denote] in D.
    destruct c as [|o h2].
    + cbn [build]. rewrite Wl. rewrite (IH h1 _ e W1 D R1 L1). rewrite Wr. cbn [yield_comp app].
      destruct R as [->|(r2 & rs & -> & Kr)]; [reflexivity|].
      destruct rs as [|x rs]; [reflexivity|]. rewrite Kr. reflexivity.
    + destruct (denote h1) as [a|] eqn:D1.
      2:{ destruct (tk o); discriminate. }
      destruct (denote h2) as [b|] eqn:D2.
      2:{ destruct (tk o); discriminate. }
      cbn [wf_comp] in Wc. apply andb_prop in Wc. destruct Wc as [Wo W2].
      cbn [build]. rewrite Wl. rewrite (IH h1 _ a W1 D1 R1 L1). rewrite Wr. cbn [yield_comp app].
      destruct (yield_nonempty h2) as (b0 & w & Y).
      assert (Hy : yield h2 ++ rest = b0 :: (w ++ rest)) by (rewrite Y; reflexivity).
      assert (L2 : (length (yield h2 ++ rest) < f)%nat).
      { clear - L1. cbn [yield_comp] in L1.
        repeat (rewrite app_length in L1 || cbn [length app] in L1). rewrite app_length. lia. }
      rewrite Hy.
      destruct (tk o) eqn:Ko; try discriminate.
      * injection D as <-. rewrite <- Hy. rewrite (IH h2 rest b W2 D2 R L2). reflexivity.
      * injection D as <-. rewrite <- Hy. rewrite (IH h2 rest b W2 D2 R L2). reflexivity.
Qed.

Theorem builder_complete_when_repaired : forall h e, wf_hc h = true -> denote h = Some e ->
  new_evaluator_with true (yield h) = Ok e.
Proof.
  intros h e W D. unfold new_evaluator_with.
  rewrite <- (app_nil_r (yield h)) at 2.
  rewrite (build_complete _ h [] e W D (or_introl eq_refl)); [reflexivity|]. rewrite app_nil_r. lia.
Qed.
