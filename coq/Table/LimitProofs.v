(* Proofs for C12: ORDER BY + LIMIT never change which rows qualify; LIMIT keeps a prefix; on D12 the prefix is taken
   from a value-sorted permutation. *)
From Coq Require Import List ZArith NArith Bool Permutation Sorted Lia.
From Coq.Floats Require Import SpecFloat.
From Coq.Strings Require Import Byte.
Import ListNotations.
From BWTable Require Import Cells Fmt StrOrder FmtProofs Sort SortProofs SortSpec SortSpecProofs Limit.
Open Scope Z_scope.

(* any sorting routine that honours the contract of sort.Sort *)
Definition sorter_ok (srt : sorter) : Prop := forall less l, sort_contract less l (srt less l).

Lemma table_limit_ok : forall {A} n (rows : list A), 0 <= n ->
  table_limit n rows = Ok (firstn (Z.to_nat (Z.min n (Z.of_nat (length rows)))) rows).
Proof.
  intros A n rows Hn. unfold table_limit.
  destruct (n <? Z.of_nat (length rows)) eqn:E.
  - apply Z.ltb_lt in E. replace (n <? 0) with false by (symmetry; apply Z.ltb_ge; lia).
    rewrite Z.min_l by lia. reflexivity.
  - apply Z.ltb_ge in E. rewrite Z.min_r by lia. rewrite Nat2Z.id. rewrite firstn_all. reflexivity.
Qed.

Lemma table_limit_negative : forall {A} n (rows : list A), n < 0 -> table_limit n rows = Panic SMakeNegative.
Proof.
  intros A n rows Hn. unfold table_limit.
  replace (n <? Z.of_nat (length rows)) with true by (symmetry; apply Z.ltb_lt; lia).
  replace (n <? 0) with true by (symmetry; apply Z.ltb_lt; lia). reflexivity.
Qed.

Lemma table_limit_prefix : forall {A} n (rows out : list A), table_limit n rows = Ok out ->
  exists dropped, rows = out ++ dropped.
Proof.
  intros A n rows out H. unfold table_limit in H.
  destruct (n <? Z.of_nat (length rows)).
  - destruct (n <? 0); [discriminate|]. injection H as <-. exists (skipn (Z.to_nat n) rows).
    symmetry. apply firstn_skipn.
  - injection H as <-. exists []. symmetry. apply app_nil_r.
Qed.

Lemma order_by_with_perm : forall srt c rows out, sorter_ok srt ->
  order_by_with srt c rows = Ok out -> Permutation rows out.
Proof.
  intros srt c rows out S H. unfold order_by_with, table_sort_with in H.
  destruct c as [[|k ks]|]; try (injection H as <-; apply Permutation_refl).
  destruct rows as [|r1 [|r2 rows]]; try (injection H as <-; apply Permutation_refl).
  destruct (forallb (has_keys (k :: ks)) (r1 :: r2 :: rows)); [|discriminate].
  injection H as <-. apply (S (row_lt (k :: ks)) (r1 :: r2 :: rows)).
Qed.

Theorem order_limit_permutation : forall srt c lim rows out, sorter_ok srt ->
  order_limit_with srt c lim rows = Ok out -> exists dropped, Permutation rows (out ++ dropped).
Proof.
  intros srt c lim rows out S H. unfold order_limit_with, bind in H.
  destruct (order_by_with srt c rows) as [sorted| | |] eqn:E; try discriminate.
  pose proof (order_by_with_perm srt c rows sorted S E) as P.
  destruct lim as [n|]; cbn in H.
  - destruct (table_limit_prefix n sorted out H) as [d Hd]. exists d. rewrite <- Hd. exact P.
  - injection H as <-. exists []. rewrite app_nil_r. exact P.
Qed.

Section GenericD12.
  Variable tm_ok : tim -> bool.
  Variable tm_pair : tim -> tim -> bool.
  Variable fl_ok : lit -> bool.
  Hypothesis tm_law : forall a b, tm_ok a = true -> tm_ok b = true -> tm_pair a b = true ->
    str_compare (trim_space (t_str a)) (trim_space (t_str b)) = Z.compare (t_ns a) (t_ns b).
  Hypothesis fl_law : forall a b x y, fl_ok a = true -> fl_ok b = true -> l_val a = VFloat x -> l_val b = VFloat y ->
    str_compare (trim_space (l_cmp a)) (trim_space (l_cmp b)) = match SFcompare x y with Some o => o | None => Eq end.
  Let D12 := d12_gen tm_ok tm_pair fl_ok.

  Theorem order_by_sorted_d12_gen : forall srt ks rows out, sorter_ok srt -> ks <> [] ->
    D12 ks rows = true -> order_by_with srt (Some ks) rows = Ok out ->
    Permutation rows out /\ spec_sorted ks out.
  Proof.
    intros srt ks rows out S Hne D H.
    pose proof (order_by_with_perm srt (Some ks) rows out S H) as P. split; [exact P|].
    unfold order_by_with, table_sort_with in H. destruct ks as [|k ks]; [congruence|].
    destruct rows as [|r1 [|r2 rows]].
    - injection H as <-. constructor.
    - injection H as <-. constructor; constructor.
    - destruct (forallb (has_keys (k :: ks)) (r1 :: r2 :: rows)); [|discriminate].
      injection H as <-.
      destruct (S (row_lt (k :: ks)) (r1 :: r2 :: rows)) as [P' N].
      eapply (d12_no_inversion_spec_sorted tm_ok tm_pair fl_ok tm_law fl_law); [exact D | exact P' |].
      apply N. apply row_lt_strict_weak. eapply d12_homogeneous. exact D.
  Qed.

  Theorem order_limit_sorted_prefix_d12_gen : forall srt ks n rows, sorter_ok srt -> ks <> [] -> 0 <= n ->
    D12 ks rows = true ->
    exists sorted,
      Permutation rows sorted /\ spec_sorted ks sorted /\
      order_limit_with srt (Some ks) (Some n) rows =
        Ok (firstn (Z.to_nat (Z.min n (Z.of_nat (length rows)))) sorted).
  Proof.
    intros srt ks n rows S Hne Hn D.
    assert (E : exists sorted, order_by_with srt (Some ks) rows = Ok sorted).
    { unfold order_by_with, table_sort_with. destruct ks as [|k ks]; [congruence|].
      destruct rows as [|r1 [|r2 rows]]; try (eexists; reflexivity).
      rewrite (d12_has_keys _ _ _ _ _ D). eexists; reflexivity. }
    destruct E as [sorted E]. exists sorted.
    destruct (order_by_sorted_d12_gen srt ks rows sorted S Hne D E) as [P Sp].
    split; [exact P|]. split; [exact Sp|].
    unfold order_limit_with, bind. rewrite E. cbn. rewrite table_limit_ok by exact Hn.
    rewrite (Permutation_length P). reflexivity.
  Qed.
End GenericD12.

(* the oracle-free instance *)
Theorem order_by_sorted_d12 : forall srt ks rows out, sorter_ok srt -> ks <> [] ->
  d12 ks rows = true -> order_by_with srt (Some ks) rows = Ok out ->
  Permutation rows out /\ spec_sorted ks out.
Proof. exact (order_by_sorted_d12_gen no_tim any_tim_pair no_lit no_tim_law no_lit_law). Qed.

Theorem order_limit_sorted_prefix_d12 : forall srt ks n rows, sorter_ok srt -> ks <> [] -> 0 <= n ->
  d12 ks rows = true ->
  exists sorted,
    Permutation rows sorted /\ spec_sorted ks sorted /\
    order_limit_with srt (Some ks) (Some n) rows =
      Ok (firstn (Z.to_nat (Z.min n (Z.of_nat (length rows)))) sorted).
Proof. exact (order_limit_sorted_prefix_d12_gen no_tim any_tim_pair no_lit no_tim_law no_lit_law). Qed.

(* the instance for given renderings of time anchors and float64 (oracles with the stated order laws) *)
Theorem order_by_sorted_d12_oracles : forall (fmt_time : Z -> Z -> str) (fmt_float : spec_float -> str),
  (forall off n1 n2, in_int64 n1 = true -> in_int64 n2 = true ->
     length (fmt_time n1 off) = length (fmt_time n2 off) ->
     str_compare (fmt_time n1 off) (fmt_time n2 off) = Z.compare n1 n2) ->
  (forall n off, trim_space (fmt_time n off) = fmt_time n off) ->
  (forall x y, sf_in_domain x = true -> sf_in_domain y = true ->
     str_compare (fmt_float x) (fmt_float y) = match SFcompare x y with Some o => o | None => Eq end) ->
  (forall x, trim_space (fmt_float x) = fmt_float x) ->
  forall srt ks rows out, sorter_ok srt -> ks <> [] ->
  d12_o fmt_time fmt_float ks rows = true -> order_by_with srt (Some ks) rows = Ok out ->
  Permutation rows out /\ spec_sorted ks out.
Proof.
  intros fmt_time fmt_float T1 T2 F1 F2.
  exact (order_by_sorted_d12_gen (tm_ok_o fmt_time) tm_pair_o (fl_ok_o fmt_float)
           (tm_law_o fmt_time T1 T2) (fl_law_o fmt_float F1 F2)).
Qed.

(* LIMIT token *)
Theorem limit_collection_accepts : forall t n, limit_collection true t = Ok n ->
  lt_is_literal t = true /\ lt_parsed t = PL (VInt n) /\ 0 <= n.
Proof.
  intros t n H. unfold limit_collection in H.
  destruct (lt_is_literal t); cbn in H; [|discriminate].
  destruct (lt_parsed t) as [| |v]; try discriminate.
  destruct v as [b|z|f|s|s]; try discriminate. cbn in H.
  destruct (z <? 0) eqn:E; [discriminate|]. injection H as <-. apply Z.ltb_ge in E. auto.
Qed.

Theorem limit_never_panics_after_collection : forall {A} t n (rows : list A),
  limit_collection true t = Ok n -> exists out, plan_limit (Some n) rows = Ok out.
Proof.
  intros A t n rows H. destruct (limit_collection_accepts t n H) as (_ & _ & Hn).
  cbn. rewrite table_limit_ok by exact Hn. eexists; reflexivity.
Qed.

(* soundness of the boolean sortedness tests *)
Lemma ssorted_b_sound : forall {A} (R : A -> A -> Prop) (r : A -> A -> bool) l,
  (forall a b, r a b = true -> R a b) -> ssorted_b r l = true -> StronglySorted R l.
Proof.
  intros A R r l H. induction l as [|a l IH]; cbn; intro E; constructor.
  - apply IH. apply andb_prop in E. tauto.
  - apply andb_prop in E. destruct E as [E _]. rewrite forallb_forall in E. apply Forall_forall.
    intros b Hb. apply H. apply E. exact Hb.
Qed.

Lemma ssorted_b_complete : forall {A} (R : A -> A -> Prop) (r : A -> A -> bool) l,
  (forall a b, R a b -> r a b = true) -> StronglySorted R l -> ssorted_b r l = true.
Proof.
  intros A R r l H S. induction S as [|a l S IH F]; cbn; [reflexivity|].
  rewrite IH, andb_true_r. apply forallb_forall. rewrite Forall_forall in F. intros b Hb. apply H. apply F. exact Hb.
Qed.

Lemma spec_sorted_b_iff : forall c l, spec_sorted_b c l = true <-> spec_sorted c l.
Proof.
  intros c l. unfold spec_sorted_b, spec_sorted. split.
  - apply ssorted_b_sound. intros a b H E. rewrite E in H. discriminate.
  - apply ssorted_b_complete. intros a b H. destruct (spec_row_cmp c a b); try reflexivity. congruence.
Qed.

Lemma no_inversion_b_iff : forall {A} (less : A -> A -> bool) l, no_inversion_b less l = true <-> no_inversion less l.
Proof.
  intros A less l. unfold no_inversion_b, no_inversion. split.
  - apply ssorted_b_sound. intros a b H. apply negb_true_iff in H. exact H.
  - apply ssorted_b_complete. intros a b H. rewrite H. reflexivity.
Qed.

(* ---- repeated ORDER BY keys after the repair: the rebuilt configuration (first occurrences, written order) compares
   any two rows exactly as the written key list does --------------------------------------------------------------- *)
Definition kcmp (k : skey) (a b : row) : comparison :=
  dir_cmp (k_desc k) (opt_cell_cmp (rget a (k_b k)) (rget b (k_b k))).

Lemma key_cmp_cons : forall k ks a b, key_cmp (k :: ks) a b = lex_cmp (kcmp k a b) (key_cmp ks a b).
Proof. reflexivity. Qed.

Lemma lex_cmp_assoc : forall x y z, lex_cmp (lex_cmp x y) z = lex_cmp x (lex_cmp y z).
Proof. intros [] y z; reflexivity. Qed.
Lemma lex_cmp_eq_r : forall x, lex_cmp x Eq = x.
Proof. intros []; reflexivity. Qed.

Lemma key_cmp_app : forall p q a b, key_cmp (p ++ q) a b = lex_cmp (key_cmp p a b) (key_cmp q a b).
Proof.
  induction p as [|k p IH]; intros q a b; [reflexivity|].
  cbn [app]. rewrite !key_cmp_cons, IH, lex_cmp_assoc. reflexivity.
Qed.

Lemma key_cmp_absorb : forall seen k a b, seen_dir seen (k_b k) = Some (k_desc k) ->
  lex_cmp (key_cmp seen a b) (kcmp k a b) = key_cmp seen a b.
Proof.
  induction seen as [|s seen IH]; intros k a b H; [discriminate|].
  cbn [seen_dir] in H. rewrite key_cmp_cons, lex_cmp_assoc.
  destruct (N.eqb (k_b s) (k_b k)) eqn:E.
  - apply N.eqb_eq in E. injection H as H.
    assert (K : kcmp k a b = kcmp s a b) by (unfold kcmp; rewrite E, H; reflexivity).
    destruct (kcmp s a b) eqn:Ks; cbn [lex_cmp]; try reflexivity.
    (* the first key already says Eq: the repeated key says Eq too *)
    destruct (seen_dir seen (k_b k)) eqn:Sd.
    + destruct (Bool.eqb b0 (k_desc k)) eqn:Bd.
      * apply eqb_prop in Bd. subst b0. apply IH. exact Sd.
      * rewrite K. rewrite lex_cmp_eq_r. reflexivity.
    + rewrite K, lex_cmp_eq_r. reflexivity.
  - destruct (kcmp s a b); cbn [lex_cmp]; try reflexivity. apply IH. exact H.
Qed.

Lemma checker_loop_cmp : forall outs keys seen dups seen' dups',
  checker_loop outs keys seen dups = inr (seen', dups') ->
  forall p, (forall a b, key_cmp p a b = key_cmp seen a b) ->
  forall a b, key_cmp (p ++ keys) a b = key_cmp seen' a b.
Proof.
  intros outs. induction keys as [|k rest IH]; intros seen dups seen' dups' H p Hp a b.
  - cbn in H. injection H as <- _. rewrite app_nil_r. apply Hp.
  - cbn [checker_loop] in H.
    replace (p ++ k :: rest) with ((p ++ [k]) ++ rest) by (rewrite <- app_assoc; reflexivity).
    destruct (seen_dir seen (k_b k)) as [d|] eqn:Sd.
    + destruct (Bool.eqb d (k_desc k)) eqn:Bd; cbn [negb] in H; [|discriminate].
      apply eqb_prop in Bd. subst d.
      destruct (existsb (N.eqb (k_b k)) outs); [|discriminate].
      eapply IH; [exact H|]. intros a' b'. rewrite key_cmp_app, Hp. cbn [key_cmp].
      rewrite lex_cmp_eq_r. apply key_cmp_absorb. exact Sd.
    + destruct (existsb (N.eqb (k_b k)) outs); [|discriminate].
      eapply IH; [exact H|]. intros a' b'. rewrite !key_cmp_app, Hp. reflexivity.
Qed.

Theorem order_by_checker_same_order : forall outs keys cfg,
  order_by_checker (fun l => l) outs keys = inr cfg -> forall a b, key_cmp cfg a b = key_cmp keys a b.
Proof.
  intros outs keys cfg H a b. unfold order_by_checker in H.
  destruct (checker_loop outs keys [] false) as [e|[seen dups]] eqn:C; [discriminate|].
  injection H as <-. destruct dups; [|reflexivity].
  symmetry. apply (checker_loop_cmp outs keys [] false seen true C [] (fun _ _ => eq_refl)).
Qed.

Lemma In_firstn_In : forall {A} (l : list A) n x, In x (firstn n l) -> In x l.
Proof.
  intros A l. induction l as [|y t IH]; intros [|n] x H; cbn in H; try contradiction.
  destruct H as [->|H]; [left; reflexivity | right; eapply IH; exact H].
Qed.

(* ---- the guarded LIMIT push-down (repair e34ecad) cannot be observed ------------------------------------------------ *)
Lemma count_true_all : forall m, forallb (fun b => b) m = true -> count_true m = length m.
Proof.
  induction m as [|b m IH]; intro H; [reflexivity|]. cbn in H. apply andb_prop in H. destruct H as [-> H].
  unfold count_true in *. cbn. f_equal. apply IH. exact H.
Qed.

Lemma table_limit_firstn : forall {A} n (rows : list A) k, 0 < n -> (Z.to_nat n <= k)%nat ->
  table_limit n (firstn k rows) = table_limit n rows.
Proof.
  intros A n rows k Hn Hk. unfold table_limit. rewrite firstn_length.
  replace (n <? 0) with false by (symmetry; apply Z.ltb_ge; lia).
  destruct (n <? Z.of_nat (length rows)) eqn:E1.
  - apply Z.ltb_lt in E1.
    destruct (n <? Z.of_nat (Nat.min k (length rows))) eqn:E2.
    + rewrite firstn_firstn. rewrite Nat.min_l by lia. reflexivity.
    + apply Z.ltb_ge in E2. assert (K : k = Z.to_nat n) by lia. rewrite K. reflexivity.
  - apply Z.ltb_ge in E1.
    replace (n <? Z.of_nat (Nat.min k (length rows))) with false by (symmetry; apply Z.ltb_ge; lia).
    rewrite firstn_all2 by lia. reflexivity.
Qed.

Theorem guarded_pushdown_unobservable : forall srt mask c lim rows,
  (forall m, mask = Some m -> length m = length rows) ->     (* one mask entry per triple, every triple gives a row *)
  exec_order_limit_with srt true mask c lim rows = order_limit_with srt c lim rows.
Proof.
  intros srt mask c lim rows Hm. unfold exec_order_limit_with, pushdown_mask.
  destruct mask as [m|]; [|destruct c as [[|]|]; reflexivity].
  destruct c as [[|k ks]|]; try reflexivity.
  - destruct (forallb (fun b => b) m) eqn:A; [|reflexivity].
    unfold fetch_pushdown. destruct lim as [n|]; [|reflexivity].
    destruct (0 <? n) eqn:P; [|reflexivity]. apply Z.ltb_lt in P.
    unfold order_limit_with. cbn [order_by_with bind plan_limit].
    rewrite count_true_all by (apply forallb_forall; intros x Hx; rewrite forallb_forall in A; apply A;
                               eapply (In_firstn_In); exact Hx).
    rewrite firstn_length, (Hm m eq_refl).
    destruct (Nat.le_ge_cases (Z.to_nat n) (length rows)).
    + rewrite Nat.min_l by lia. apply table_limit_firstn; lia.
    + rewrite Nat.min_r by lia. rewrite firstn_all. reflexivity.
  - destruct (forallb (fun b => b) m) eqn:A; [|reflexivity].
    unfold fetch_pushdown. destruct lim as [n|]; [|reflexivity].
    destruct (0 <? n) eqn:P; [|reflexivity]. apply Z.ltb_lt in P.
    unfold order_limit_with. cbn [order_by_with bind plan_limit].
    rewrite count_true_all by (apply forallb_forall; intros x Hx; rewrite forallb_forall in A; apply A;
                               eapply (In_firstn_In); exact Hx).
    rewrite firstn_length, (Hm m eq_refl).
    destruct (Nat.le_ge_cases (Z.to_nat n) (length rows)).
    + rewrite Nat.min_l by lia. apply table_limit_firstn; lia.
    + rewrite Nat.min_r by lia. rewrite firstn_all. reflexivity.
Qed.

(* ---- the oracle laws are consistent and D12 with anchors is inhabited: a toy rendering (20 decimal digits of
   ns + 2^63, any zone) satisfies them on int64 instants ------------------------------------------------------------- *)
Lemma trim_space_no_space : forall s, (forall b, In b s -> is_space b = false) -> trim_space s = s.
Proof.
  intros s H. unfold trim_space.
  assert (T : forall l, (forall b, In b l -> is_space b = false) -> trim_left l = l).
  { intros [|x l] Hl; [reflexivity|]. cbn. rewrite (Hl x (or_introl eq_refl)). reflexivity. }
  rewrite (T s H). rewrite T; [apply rev_involutive|]. intros b Hb. apply H. apply in_rev. exact Hb.
Qed.

Lemma digit_not_space : forall d, is_space (digit d) = false.
Proof. intros d. unfold digit. destruct d as [|p|p]; try reflexivity; repeat (destruct p; try reflexivity). Qed.

Lemma digits_fix_no_space : forall n v b, In b (digits_fix n v) -> is_space b = false.
Proof.
  induction n as [|n IH]; intros v b H; cbn in H; [contradiction|].
  apply in_app_or in H. destruct H as [H|[<-|[]]]; [eapply IH; exact H | apply digit_not_space].
Qed.

Definition toy_fmt_time (n off : Z) : str := digits_fix 20 (n + two63).

Lemma toy_fmt_time_laws :
  (forall off n1 n2, in_int64 n1 = true -> in_int64 n2 = true ->
     length (toy_fmt_time n1 off) = length (toy_fmt_time n2 off) ->
     str_compare (toy_fmt_time n1 off) (toy_fmt_time n2 off) = Z.compare n1 n2) /\
  (forall n off, trim_space (toy_fmt_time n off) = toy_fmt_time n off).
Proof.
  split.
  - intros off n1 n2 R1 R2 _. unfold toy_fmt_time, in_int64 in *.
    apply andb_prop in R1, R2. destruct R1 as [A1 B1], R2 as [A2 B2].
    apply Z.leb_le in A1, A2. apply Z.ltb_lt in B1, B2. unfold two63 in *.
    rewrite digits_fix_compare by lia.
    change (10 ^ Z.of_nat 20) with 100000000000000000000.
    rewrite !Z.mod_small by lia.
    destruct (Z.compare_spec n1 n2); [apply Z.compare_eq_iff | apply Z.compare_lt_iff | apply Z.compare_gt_iff]; lia.
  - intros n off. apply trim_space_no_space. apply digits_fix_no_space.
Qed.

(* time anchors only (float64 stays outside): needs the RFC3339Nano law alone *)
Theorem order_by_sorted_d12_time : forall (fmt_time : Z -> Z -> str),
  (forall off n1 n2, in_int64 n1 = true -> in_int64 n2 = true ->
     length (fmt_time n1 off) = length (fmt_time n2 off) ->
     str_compare (fmt_time n1 off) (fmt_time n2 off) = Z.compare n1 n2) ->
  (forall n off, trim_space (fmt_time n off) = fmt_time n off) ->
  forall srt ks rows out, sorter_ok srt -> ks <> [] ->
  d12_gen (tm_ok_o fmt_time) tm_pair_o no_lit ks rows = true -> order_by_with srt (Some ks) rows = Ok out ->
  Permutation rows out /\ spec_sorted ks out.
Proof.
  intros fmt_time T1 T2.
  exact (order_by_sorted_d12_gen (tm_ok_o fmt_time) tm_pair_o no_lit (tm_law_o fmt_time T1 T2) no_lit_law).
Qed.
