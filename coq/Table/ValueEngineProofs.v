(* Proofs about the engine that compares by value (ValueOrder.v, ValueEngine.v): the theorems of C11 / C12 / C13 that
   needed a comparable domain for the string comparisons hold here for ALL tables. *)
From Coq Require Import List ZArith NArith Bool Permutation Sorted Lia.
From Coq.Strings Require Import Byte.
Import ListNotations.
From BWTable Require Import Cells Fmt StrOrder Sort SortProofs ValueOrder SortSpec Limit LimitProofs Reduce ReduceSpec
  ReduceProofs GroupProofs Expr ExprSpec Exec ExprProofs ValueEngine.
Open Scope Z_scope.

(* ---- ORDER BY ------------------------------------------------------------------------------------------------------ *)
Lemma row_ltv_lt_of : forall ks a b, row_ltv ks a b = lt_of (row_cmpv ks) a b.
Proof. reflexivity. Qed.

(* rowLess is a strict weak order on EVERY table (any mix of kinds) *)
Theorem row_ltv_strict_weak : forall ks (rows : list row), strict_weak_on (row_ltv ks) rows.
Proof.
  intros ks rows. apply (strict_weak_of_comparator (row_cmpv ks)); [apply row_cmpv_comparator|].
  intros a b _ _. reflexivity.
Qed.

Theorem go_isort_contract_row_ltv : forall ks rows, sort_contract (row_ltv ks) rows (go_isort (row_ltv ks) rows).
Proof.
  intros ks rows. split; [apply go_isort_perm|]. intros _.
  apply (go_isort_no_inversion (row_cmpv ks) (row_cmpv_comparator ks) rows).
Qed.

(* the rows are in value order: no earlier row is greater than a later one *)
Definition value_sorted (ks : list skey) (l : list row) : Prop :=
  StronglySorted (fun a b => row_cmpv ks a b <> Gt) l.

Lemma no_inversion_value_sorted : forall ks l, no_inversion (row_ltv ks) l -> value_sorted ks l.
Proof.
  intros ks l N. unfold value_sorted, no_inversion in *. eapply ss_transfer; [exact N|].
  intros a b _ _ H. cbv beta in H. unfold row_ltv in H.
  rewrite (cmp_sym _ (row_cmpv_comparator ks) b a). destruct (row_cmpv ks b a); cbn; congruence.
Qed.

Lemma order_byv_with_perm : forall srt c rows out, sorter_ok srt ->
  order_byv_with srt c rows = Ok out -> Permutation rows out.
Proof.
  intros srt c rows out S H. unfold order_byv_with, table_sortv_with in H.
  destruct c as [[|k ks]|]; try (injection H as <-; apply Permutation_refl).
  destruct rows as [|r1 [|r2 rows]]; try (injection H as <-; apply Permutation_refl).
  destruct (forallb (has_keys (k :: ks)) (r1 :: r2 :: rows)); [|discriminate].
  injection H as <-. apply (S (row_ltv (k :: ks)) (r1 :: r2 :: rows)).
Qed.

Theorem order_limitv_permutation : forall srt c lim rows out, sorter_ok srt ->
  order_limitv_with srt c lim rows = Ok out -> exists dropped, Permutation rows (out ++ dropped).
Proof.
  intros srt c lim rows out S H. unfold order_limitv_with, bind in H.
  destruct (order_byv_with srt c rows) as [sorted| | |] eqn:E; try discriminate.
  pose proof (order_byv_with_perm srt c rows sorted S E) as P.
  destruct lim as [n|]; cbn in H.
  - destruct (table_limit_prefix n sorted out H) as [d Hd]. exists d. rewrite <- Hd. exact P.
  - injection H as <-. exists []. rewrite app_nil_r. exact P.
Qed.

(* FULL: whatever the kinds of the key cells, ORDER BY returns a permutation in value order *)
Theorem order_byv_sorted : forall srt ks rows out, sorter_ok srt ->
  order_byv_with srt (Some ks) rows = Ok out -> Permutation rows out /\ value_sorted ks out.
Proof.
  intros srt ks rows out S H.
  pose proof (order_byv_with_perm srt (Some ks) rows out S H) as P. split; [exact P|].
  unfold order_byv_with, table_sortv_with in H. destruct ks as [|k ks].
  - injection H as <-. unfold value_sorted. clear P. induction rows; constructor; [assumption|].
    apply Forall_forall. intros b _. cbn. discriminate.
  - destruct rows as [|r1 [|r2 rows]].
    + injection H as <-. constructor.
    + injection H as <-. constructor; constructor.
    + destruct (forallb (has_keys (k :: ks)) (r1 :: r2 :: rows)); [|discriminate].
      injection H as <-. apply no_inversion_value_sorted.
      apply (S (row_ltv (k :: ks)) (r1 :: r2 :: rows)). apply row_ltv_strict_weak.
Qed.

Theorem order_byv_total : forall srt ks rows, forallb (has_keys ks) rows = true ->
  exists out, order_byv_with srt (Some ks) rows = Ok out.
Proof.
  intros srt ks rows H. unfold order_byv_with, table_sortv_with. destruct ks as [|k ks]; [eexists; reflexivity|].
  destruct rows as [|r1 [|r2 rows]]; try (eexists; reflexivity). rewrite H. eexists; reflexivity.
Qed.

Theorem order_limitv_sorted_prefix : forall srt ks n rows, sorter_ok srt -> 0 <= n ->
  forallb (has_keys ks) rows = true ->
  exists sorted,
    Permutation rows sorted /\ value_sorted ks sorted /\
    order_limitv_with srt (Some ks) (Some n) rows = Ok (firstn (Z.to_nat (Z.min n (Z.of_nat (length rows)))) sorted).
Proof.
  intros srt ks n rows S Hn K.
  destruct (order_byv_total srt ks rows K) as [sorted E]. exists sorted.
  destruct (order_byv_sorted srt ks rows sorted S E) as [P Sp].
  split; [exact P|]. split; [exact Sp|].
  unfold order_limitv_with, bind. rewrite E. cbn. rewrite table_limit_ok by exact Hn.
  rewrite (Permutation_length P). reflexivity.
Qed.

(* what "value order" means on cells of one kind: exactly the order the property names *)
Theorem cell_cmp_meaning :
  (forall x y sx cx sy cy, cell_cmp (CL (mkLit (VInt x) sx cx)) (CL (mkLit (VInt y) sy cy)) = Z.compare x y) /\
  (forall x y sx cx sy cy, cell_cmp (CL (mkLit (VText x) sx cx)) (CL (mkLit (VText y) sy cy)) = str_compare x y) /\
  (forall x y sx cx sy cy, cell_cmp (CL (mkLit (VBlob x) sx cx)) (CL (mkLit (VBlob y) sy cy)) = str_compare x y) /\
  (forall x y sx cx sy cy, cell_cmp (CL (mkLit (VFloat x) sx cx)) (CL (mkLit (VFloat y) sy cy)) = Z.compare (f64_key x) (f64_key y)) /\
  (forall a b, cell_cmp (CT a) (CT b) = Z.compare (t_ns a) (t_ns b)) /\
  (forall a b, cell_cmp (CS a) (CS b) = str_compare a b /\ cell_cmp (CN a) (CN b) = str_compare a b /\
               cell_cmp (CP a) (CP b) = str_compare a b).
Proof. repeat split; reflexivity. Qed.

(* repeated ORDER BY keys: the rebuilt configuration compares exactly as the written key list *)
Definition kcmpv (k : skey) (a b : row) : comparison :=
  dir_cmp (k_desc k) (opt_cmp (rget a (k_b k)) (rget b (k_b k))).

Lemma row_cmpv_app : forall p q a b, row_cmpv (p ++ q) a b = lex_cmp (row_cmpv p a b) (row_cmpv q a b).
Proof.
  induction p as [|k p IH]; intros q a b; [reflexivity|].
  cbn [app row_cmpv]. rewrite IH, lex_cmp_assoc. reflexivity.
Qed.

Lemma row_cmpv_absorb : forall seen k a b, seen_dir seen (k_b k) = Some (k_desc k) ->
  lex_cmp (row_cmpv seen a b) (kcmpv k a b) = row_cmpv seen a b.
Proof.
  induction seen as [|s seen IH]; intros k a b H; [discriminate|].
  cbn [seen_dir] in H. cbn [row_cmpv]. rewrite lex_cmp_assoc. fold (kcmpv s a b).
  destruct (N.eqb (k_b s) (k_b k)) eqn:E.
  - apply N.eqb_eq in E. injection H as H.
    assert (K : kcmpv k a b = kcmpv s a b) by (unfold kcmpv; rewrite E, H; reflexivity).
    destruct (kcmpv s a b) eqn:Ks; cbn [lex_cmp]; try reflexivity.
    destruct (seen_dir seen (k_b k)) eqn:Sd.
    + destruct (Bool.eqb b0 (k_desc k)) eqn:Bd.
      * apply eqb_prop in Bd. subst b0. apply IH. exact Sd.
      * rewrite K. rewrite lex_cmp_eq_r. reflexivity.
    + rewrite K, lex_cmp_eq_r. reflexivity.
  - destruct (kcmpv s a b); cbn [lex_cmp]; try reflexivity. apply IH. exact H.
Qed.

Lemma checker_loop_cmpv : forall outs keys seen dups seen' dups',
  checker_loop outs keys seen dups = inr (seen', dups') ->
  forall p, (forall a b, row_cmpv p a b = row_cmpv seen a b) ->
  forall a b, row_cmpv (p ++ keys) a b = row_cmpv seen' a b.
Proof.
  intros outs. induction keys as [|k rest IH]; intros seen dups seen' dups' H p Hp a b.
  - cbn in H. injection H as <- _. rewrite app_nil_r. apply Hp.
  - cbn [checker_loop] in H.
    replace (p ++ k :: rest) with ((p ++ [k]) ++ rest) by (rewrite <- app_assoc; reflexivity).
    destruct (seen_dir seen (k_b k)) as [d|] eqn:Sd.
    + destruct (Bool.eqb d (k_desc k)) eqn:Bd; cbn [negb] in H; [|discriminate].
      apply eqb_prop in Bd. subst d.
      destruct (existsb (N.eqb (k_b k)) outs); [|discriminate].
      eapply IH; [exact H|]. intros a' b'. rewrite row_cmpv_app, Hp. cbn [row_cmpv].
      rewrite lex_cmp_eq_r. apply row_cmpv_absorb. exact Sd.
    + destruct (existsb (N.eqb (k_b k)) outs); [|discriminate].
      eapply IH; [exact H|]. intros a' b'. rewrite !row_cmpv_app, Hp. reflexivity.
Qed.

Theorem order_by_checker_same_value_order : forall outs keys cfg,
  order_by_checker (fun l => l) outs keys = inr cfg -> forall a b, row_cmpv cfg a b = row_cmpv keys a b.
Proof.
  intros outs keys cfg H a b. unfold order_by_checker in H.
  destruct (checker_loop outs keys [] false) as [e|[seen dups]] eqn:C; [discriminate|].
  injection H as <-. destruct dups; [|reflexivity].
  symmetry. apply (checker_loop_cmpv outs keys [] false seen true C [] (fun _ _ => eq_refl)).
Qed.

(* the guarded LIMIT push-down cannot be observed *)
Theorem guarded_pushdown_unobservable_v : forall srt mask c lim rows,
  (forall m, mask = Some m -> length m = length rows) ->
  exec_order_limitv_with srt true mask c lim rows = order_limitv_with srt c lim rows.
Proof.
  intros srt mask c lim rows Hm. unfold exec_order_limitv_with, pushdown_mask.
  destruct mask as [m|]; [|destruct c as [[|]|]; reflexivity].
  destruct c as [[|k ks]|]; try reflexivity.
  - destruct (forallb (fun b => b) m) eqn:A; [|reflexivity].
    unfold fetch_pushdown. destruct lim as [n|]; [|reflexivity].
    destruct (0 <? n) eqn:P; [|reflexivity]. apply Z.ltb_lt in P.
    unfold order_limitv_with. cbn [order_byv_with bind plan_limit].
    rewrite count_true_all by (apply forallb_forall; intros x Hx; rewrite forallb_forall in A; apply A;
                               eapply (In_firstn_In); exact Hx).
    rewrite firstn_length, (Hm m eq_refl).
    destruct (Nat.le_ge_cases (Z.to_nat n) (length rows)).
    + rewrite Nat.min_l by lia. apply table_limit_firstn; lia.
    + rewrite Nat.min_r by lia. rewrite firstn_all. reflexivity.
  - destruct (forallb (fun b => b) m) eqn:A; [|reflexivity].
    unfold fetch_pushdown. destruct lim as [n|]; [|reflexivity].
    destruct (0 <? n) eqn:P; [|reflexivity]. apply Z.ltb_lt in P.
    unfold order_limitv_with. cbn [order_byv_with bind plan_limit].
    rewrite count_true_all by (apply forallb_forall; intros x Hx; rewrite forallb_forall in A; apply A;
                               eapply (In_firstn_In); exact Hx).
    rewrite firstn_length, (Hm m eq_refl).
    destruct (Nat.le_ge_cases (Z.to_nat n) (length rows)).
    + rewrite Nat.min_l by lia. apply table_limit_firstn; lia.
    + rewrite Nat.min_r by lia. rewrite firstn_all. reflexivity.
Qed.

(* ---- GROUP BY: the runs Reduce folds are exactly the groups (all tables) --------------------------------------------- *)
Section RunsBy.
  Variable cmp : row -> row -> comparison.
  Hypothesis C : comparator cmp.
  Let same (a b : row) : bool := match cmp a b with Eq => true | _ => false end.

  Lemma same_iff : forall a b, same a b = true <-> cmp a b = Eq.
  Proof. intros a b. unfold same. destruct (cmp a b); split; congruence. Qed.

  Lemma runs_by_nonempty : forall l, Forall (fun g => g <> []) (runs_by same l).
  Proof.
    induction l as [|x t IH]; cbn; [constructor|].
    destruct (runs_by same t) as [|[|y g] gs] eqn:E.
    - repeat constructor. discriminate.
    - repeat constructor. discriminate.
    - inversion IH; subst. destruct (same x y); repeat constructor; try discriminate; auto.
  Qed.

  Lemma runs_by_concat : forall l, concat (runs_by same l) = l.
  Proof.
    induction l as [|x t IH]; cbn; [reflexivity|].
    destruct (runs_by same t) as [|[|y g] gs] eqn:E; cbn in *.
    - subst. reflexivity.
    - pose proof (runs_by_nonempty t) as N. rewrite E in N. inversion N; subst. congruence.
    - destruct (same x y); cbn; rewrite <- IH; reflexivity.
  Qed.

  (* within a run all rows are the same group *)
  Lemma runs_by_same : forall l, Forall (fun g => forall a b, In a g -> In b g -> cmp a b = Eq) (runs_by same l).
  Proof.
    induction l as [|x t IH]; cbn; [constructor|].
    destruct (runs_by same t) as [|[|y g] gs] eqn:E.
    - repeat constructor. intros a b [->|[]] [->|[]]. apply (cmp_refl cmp C).
    - repeat constructor. intros a b [->|[]] [->|[]]. apply (cmp_refl cmp C).
    - inversion IH as [|? ? Hg Hgs]; subst.
      destruct (same x y) eqn:Q.
      + apply same_iff in Q. constructor; [|exact Hgs].
        assert (Xy : forall b, In b (y :: g) -> cmp x b = Eq).
        { intros b Hb. rewrite (cmp_eq_l cmp C x y b Q). apply Hg; [left; reflexivity | exact Hb]. }
        intros a b [->|Ha] [->|Hb].
        * apply (cmp_refl cmp C).
        * apply Xy. exact Hb.
        * rewrite (cmp_sym cmp C b a), (Xy a Ha). reflexivity.
        * apply Hg; assumption.
      + constructor; [|constructor; assumption]. intros a b [->|[]] [->|[]]. apply (cmp_refl cmp C).
  Qed.

  Definition gltv (g h : list row) : Prop :=
    match g, h with
    | a :: _, b :: _ => cmp a b = Lt
    | _, _ => False
    end.

  Lemma runs_by_head_in : forall l y g gs, runs_by same l = (y :: g) :: gs -> In y l.
  Proof. intros l y g gs H. rewrite <- (runs_by_concat l), H. cbn. left. reflexivity. Qed.

  (* on a table without inversions the heads of the runs strictly increase: no two runs are the same group *)
  Lemma runs_by_increasing : forall l,
    StronglySorted (fun a b => lt_of cmp b a = false) l -> StronglySorted gltv (runs_by same l).
  Proof.
    induction l as [|x t IH]; intros S; [constructor|].
    inversion S as [|? ? St Fx]; subst. specialize (IH St).
    cbn [runs_by]. destruct (runs_by same t) as [|[|y g] gs] eqn:R.
    - constructor; constructor.
    - constructor; constructor.
    - assert (Hy : In y t) by (eapply runs_by_head_in; exact R).
      inversion IH as [|? ? Sgs Fg]; subst.
      destruct (same x y) eqn:Q.
      + apply same_iff in Q. constructor; [exact Sgs|]. rewrite Forall_forall in *. intros h Hh. specialize (Fg h Hh).
        destruct h as [|b h']; cbn in *; [exact Fg|]. rewrite (cmp_eq_l cmp C x y b Q). exact Fg.
      + assert (Lxy : cmp x y = Lt).
        { rewrite Forall_forall in Fx. specialize (Fx y Hy). apply lt_of_false in Fx.
          destruct (cmp x y) eqn:Cxy; [| reflexivity |].
          - unfold same in Q. rewrite Cxy in Q. discriminate.
          - exfalso. apply Fx. rewrite (cmp_sym cmp C x y), Cxy. reflexivity. }
        constructor; [exact IH|]. constructor; [exact Lxy|].
        rewrite Forall_forall in *. intros h Hh. specialize (Fg h Hh).
        destruct h as [|b h']; cbn in *; [exact Fg|]. eapply (cmp_trans_lt cmp C); eauto.
  Qed.

  (* each run holds ALL rows of the table that are in its group *)
  Lemma filter_concat_runs_by : forall gs g a0 rest,
    StronglySorted gltv gs -> In g gs -> g = a0 :: rest ->
    Forall (fun g => g <> []) gs ->
    Forall (fun g => forall a b, In a g -> In b g -> cmp a b = Eq) gs ->
    filter (same a0) (concat gs) = g.
  Proof.
    induction gs as [|h gs IH]; intros g a0 rest S Hg Eg Ne Sm; [contradiction|].
    inversion S as [|? ? Sgs Fh]; subst. inversion Ne as [|? ? Hne Ne']; subst. inversion Sm as [|? ? Hsm Sm']; subst.
    cbn [concat]. rewrite filter_app.
    destruct Hg as [E|Hg].
    - subst h.
      assert (F1 : filter (same a0) (a0 :: rest) = a0 :: rest).
      { apply forallb_filter_id. apply forallb_forall. intros r Hr. apply same_iff. apply Hsm; [left; reflexivity | exact Hr]. }
      assert (F2 : filter (same a0) (concat gs) = []).
      { apply filter_nil. intros r Hr. apply in_concat in Hr. destruct Hr as (k & Hk & Hrk).
        rewrite Forall_forall in Fh, Ne', Sm'. specialize (Fh k Hk).
        destruct k as [|b k']; [exfalso; apply (Ne' [] Hk); reflexivity|]. cbn in Fh.
        destruct (same a0 r) eqn:Q; [|reflexivity]. exfalso. apply same_iff in Q.
        assert (Br : cmp b r = Eq) by (apply (Sm' (b :: k') Hk); [left; reflexivity | exact Hrk]).
        rewrite <- (cmp_eq_r cmp C b r a0 Br) in Q. congruence. }
      rewrite F1, F2, app_nil_r. reflexivity.
    - assert (F1 : filter (same a0) h = []).
      { apply filter_nil. intros r Hr. rewrite Forall_forall in Fh. specialize (Fh (a0 :: rest) Hg).
        destruct h as [|b h']; [contradiction|]. cbn in Fh.
        destruct (same a0 r) eqn:Q; [|reflexivity]. exfalso. apply same_iff in Q.
        assert (Br : cmp b r = Eq) by (apply Hsm; [left; reflexivity | exact Hr]).
        rewrite <- (cmp_eq_r cmp C b r a0 Br) in Q. rewrite (cmp_sym cmp C b a0), Fh in Q. discriminate. }
      rewrite F1. cbn [app]. eapply IH; eauto.
  Qed.
End RunsBy.

(* MAIN (all tables, any kinds): the runs are a partition of the input rows, the heads of different runs are in
   different groups (strictly increasing), and each run is exactly the set of input rows of its group *)
Theorem runs_are_groups_v : forall srt ks rows sorted,
  sorter_ok srt -> table_sortv_with srt (Some ks) rows = Ok sorted ->
  let gs := runs_by (same_group ks) sorted in
  Permutation rows (concat gs) /\
  StronglySorted (gltv (row_cmpv ks)) gs /\
  (forall g a0 rest, In g gs -> g = a0 :: rest -> Permutation g (filter (same_group ks a0) rows)).
Proof.
  intros srt ks rows sorted S H gs.
  pose proof (row_cmpv_comparator ks) as C.
  assert (PS : Permutation rows sorted /\ no_inversion (row_ltv ks) sorted).
  { unfold table_sortv_with in H. destruct rows as [|r1 [|r2 rows']].
    - injection H as <-. split; [apply Permutation_refl | constructor].
    - injection H as <-. split; [apply Permutation_refl | constructor; constructor].
    - destruct (forallb (has_keys ks) (r1 :: r2 :: rows')); [|discriminate]. injection H as <-.
      destruct (S (row_ltv ks) (r1 :: r2 :: rows')) as [P N]. split; [exact P|].
      apply N. apply row_ltv_strict_weak. }
  destruct PS as [P N].
  assert (Inc : StronglySorted (gltv (row_cmpv ks)) gs).
  { apply (runs_by_increasing (row_cmpv ks) C). exact N. }
  split; [unfold gs; rewrite (runs_by_concat (row_cmpv ks)); exact P|]. split; [exact Inc|].
  intros g a0 rest Hg Eg.
  rewrite <- (filter_concat_runs_by (row_cmpv ks) C gs g a0 rest Inc Hg Eg
                (runs_by_nonempty (row_cmpv ks) sorted) (runs_by_same (row_cmpv ks) C sorted)) at 1.
  unfold gs. rewrite (runs_by_concat (row_cmpv ks)). apply Permutation_filter'. apply Permutation_sym. exact P.
Qed.

(* the grouping relation is equality of the grouping VALUES *)
Lemma lit_cmp_eq : forall a b, lit_cmp a b = Eq <-> lit_val_eqb a b = true.
Proof.
  intros [x|x|x|x|x] [y|y|y|y|y]; cbn; try (split; discriminate).
  - destruct x, y; cbn; split; congruence.
  - rewrite Z.compare_eq_iff, Z.eqb_eq. tauto.
  - rewrite Z.compare_eq_iff, Z.eqb_eq. tauto.
  - rewrite str_compare_eq, str_eqb_eq. tauto.
  - rewrite str_compare_eq, str_eqb_eq. tauto.
Qed.

Lemma cell_cmp_eq : forall a b, cell_cmp a b = Eq <-> cell_val_eqb a b = true.
Proof.
  intros [|x|x|x|x|x] [|y|y|y|y|y]; cbn; try (split; discriminate); try tauto;
    try (rewrite str_compare_eq, str_eqb_eq; tauto).
  - apply lit_cmp_eq.
  - rewrite Z.compare_eq_iff, Z.eqb_eq. tauto.
Qed.

Theorem same_group_is_same_values : forall ks a b,
  has_keys ks a = true -> has_keys ks b = true ->
  (same_group ks a b = true <-> same_values (map k_b ks) a b = true).
Proof.
  induction ks as [|k ks IH]; intros a b Ha Hb; [cbn; tauto|].
  cbn [has_keys forallb] in Ha, Hb. apply andb_prop in Ha, Hb. destruct Ha as [Ka Ha], Hb as [Kb Hb].
  specialize (IH a b Ha Hb). unfold same_group in *. cbn [row_cmpv map same_values forallb].
  destruct (rget a (k_b k)) as [x|]; [|discriminate]. destruct (rget b (k_b k)) as [y|]; [|discriminate].
  cbn [opt_cmp]. rewrite andb_true_iff, <- IH, <- cell_cmp_eq.
  destruct (k_desc k); cbn [dir_cmp]; destruct (cell_cmp x y); cbn; destruct (row_cmpv ks a b); cbn;
    split; try tauto; try (intros [? ?]; congruence); try congruence.
Qed.

Theorem reducev_rows_are_runs : forall srt ks aaps t out,
  t_rows t <> [] -> reducev_with srt (Some ks) aaps t = Ok out ->
  exists sorted,
    table_sortv_with srt (Some ks) (t_rows t) = Ok sorted /\
    map_res (reduce_range_checked (to_map aaps)) (runs_by (same_group ks) sorted) = Ok (t_rows out) /\
    length (t_rows out) = length (runs_by (same_group ks) sorted).
Proof.
  intros srt ks aaps t out Hne H. unfold reducev_with in H.
  destruct (negb (reduce_valid aaps t)); [discriminate|].
  destruct (t_rows t) as [|r rs] eqn:R; [congruence|].
  destruct (table_sortv_with srt (Some ks) (r :: rs)) as [sorted| | |] eqn:S; try discriminate.
  cbn [bind] in H.
  destruct (map_res (reduce_range_checked (to_map aaps)) (runs_by (same_group ks) sorted)) as [rows| | |] eqn:M;
    try discriminate.
  cbn [bind] in H. injection H as <-. exists sorted. cbn. repeat split; auto.
  eapply map_res_length; eauto.
Qed.

Theorem project_and_group_byv_empty : forall srt group_by projs bs, group_by <> [] ->
  project_and_group_byv_with srt group_by projs (mkTable bs []) = Ok (mkTable bs []).
Proof. intros srt group_by projs bs G. unfold project_and_group_byv_with. destruct group_by; [congruence|]. reflexivity. Qed.

(* ---- HAVING ------------------------------------------------------------------------------------------------------------ *)
Theorem evalv_truth_functional : forall a b r x y, evalv a r = Ok x -> evalv b r = Ok y ->
  evalv (ENot a) r = Ok (negb x) /\ evalv (EAnd a b) r = Ok (x && y) /\ evalv (EOr a b) r = Ok (x || y).
Proof.
  intros a b r x y H1 H2. cbn. rewrite H1. repeat split.
  - destruct x; [exact H2 | reflexivity].
  - destruct x; [reflexivity | exact H2].
Qed.

Definition holdsv (e : expr) (r : row) : bool := match evalv e r with Ok true => true | _ => false end.

Theorem havingv_rows_exact : forall e rows kept, havingv_rows e rows = Ok kept ->
  kept = filter (holdsv e) rows /\ Forall (fun r => exists b, evalv e r = Ok b) rows.
Proof.
  intros e. induction rows as [|r t IH]; intros kept H; cbn in H.
  - injection H as <-. split; [reflexivity | constructor].
  - destruct (evalv e r) as [b| | |] eqn:E.
    + destruct (havingv_rows e t) as [k| | |] eqn:Ht; try discriminate.
      injection H as <-. destruct (IH k eq_refl) as [-> F]. split.
      * assert (Hh : holdsv e r = b) by (unfold holdsv; rewrite E; destruct b; reflexivity).
        cbn [filter]. rewrite Hh. reflexivity.
      * constructor; [exists b; exact E | exact F].
    + destruct (havingv_rows e t); discriminate.
    + discriminate.
    + discriminate.
Qed.

Theorem havingv_rows_total : forall e rows, Forall (fun r => exists b, evalv e r = Ok b) rows ->
  havingv_rows e rows = Ok (filter (holdsv e) rows).
Proof.
  intros e. induction rows as [|r t IH]; intro F; cbn; [reflexivity|].
  inversion F as [|? ? [b Hb] Ft]; subst. rewrite Hb, (IH Ft).
  assert (Hh : holdsv e r = b) by (unfold holdsv; rewrite Hb; destruct b; reflexivity).
  rewrite Hh. reflexivity.
Qed.

(* FULL: a binding compared with a literal constant of its type: the comparison of the VALUES (any int64, float64,
   text, bool, blob); an extracted id / type against a text constant: the comparison of the characters *)
Theorem evalv_lit_compare : forall op l r lt v cmp,
  rget r l = Some (CL lt) -> lit_ty lt = litval_ty v ->
  evalv (ELit op l (PC v cmp)) r = Ok (cmp_op op (lit_cmp (l_val lt) v)).
Proof.
  intros op l r lt v cmp H T. cbn [evalv]. rewrite H. rewrite T.
  assert (E : lit_type_eqb (litval_ty v) (litval_ty v) = true) by (destruct (litval_ty v); reflexivity).
  rewrite E. reflexivity.
Qed.

Theorem evalv_string_compare : forall op l r s t cmp,
  rget r l = Some (CS s) ->
  evalv (ELit op l (PC (VText t) cmp)) r = Ok (cmp_op op (str_compare s t)).
Proof. intros op l r s t cmp H. cbn [evalv]. rewrite H. reflexivity. Qed.

(* two bindings of the same kind (and literal type): the comparison of the values; of different kinds: never holds *)
Theorem evalv_bind_compare : forall op l rb r a b,
  rget r l = Some a -> rget r rb = Some b ->
  evalv (EBind op l rb) r =
    Ok (if same_fine (text_cell a) (text_cell b) then cmp_op op (cell_cmp (text_cell a) (text_cell b)) else false).
Proof.
  intros op l rb r a b Ha Hb. cbn [evalv]. rewrite Ha, Hb.
  destruct (same_fine (text_cell a) (text_cell b)); reflexivity.
Qed.

Theorem evalv_lit_kind_mismatch : forall op l v cmp r c,
  rget r l = Some c -> cell_matches_const c v = false -> evalv (ELit op l (PC v cmp)) r <> Ok true.
Proof.
  intros op l v cmp r c H M. cbn [evalv]. rewrite H.
  destruct c as [|s|s|s|lt|t]; cbn in *; try discriminate.
  - rewrite M. discriminate.
  - rewrite M. discriminate.
Qed.

Theorem havingv_after_grouping : forall srt s t out,
  execute_tailv_with srt s t = Ok out ->
  exists grouped ordered kept,
    project_and_group_byv_with srt (st_group_by s) (st_projs s) t = Ok grouped /\
    order_byv_with srt (st_order s) (t_rows grouped) = Ok ordered /\
    havingv (st_having s) ordered = Ok kept /\
    plan_limit (st_limit s) kept = Ok (t_rows out).
Proof.
  intros srt s t out H. unfold execute_tailv_with, bind in H.
  destruct (project_and_group_byv_with srt (st_group_by s) (st_projs s) t) as [g| | |] eqn:G; try discriminate.
  destruct (order_byv_with srt (st_order s) (t_rows g)) as [o| | |] eqn:O; try discriminate.
  destruct (havingv (st_having s) o) as [k| | |] eqn:K; try discriminate.
  destruct (plan_limit (st_limit s) k) as [l| | |] eqn:L; try discriminate.
  injection H as <-. exists g, o, k. split; [reflexivity|]. split; [exact O|]. split; [exact K|].
  rewrite L. destruct l; reflexivity.
Qed.
