(* Tie of the derivation trees of ExprSpec.v to the grammar table regenerated from grammar.SemanticBQL():
   every well-formed tree [hc] IS a derivation of HAVING_CLAUSE in the generated grammar (so the theorems about all
   [hc] cover every HAVING token string the real grammar derives with these trees' shapes), and the three generated
   rules are exactly the alternatives the constructors of [hc] / [comp] encode. *)
From Coq Require Import List NArith Bool.
Import ListNotations.
From BWGrammar Require Import Grammar GrammarProofs.
From BWGrammar.Gen Require Import GrammarGen.
From BWTable Require Import Cells Expr ExprSpec.
Open Scope N_scope.

(* lexer token type of a model token kind *)
Definition code (k : tkind) : N :=
  match k with
  | KBinding => tk_BINDING | KLiteral => tk_LITERAL | KNode => tk_NODE | KTime => tk_TIME | KPredicate => tk_PREDICATE
  | KNot => tk_NOT | KAnd => tk_AND | KOr => tk_OR | KEq => tk_EQ | KLt => tk_LT | KGt => tk_GT
  | KLPar => tk_LEFT_PARENT | KRPar => tk_RIGHT_PARENT | KOther => tok_error
  end.
Definition codes (ts : list tok) : list N := map (fun t => code (tk t)) ts.

Definition HC := sy_HAVING_CLAUSE.
Definition HCC := sy_HAVING_CLAUSE_BINARY_COMPOSITE.

(* the generated rules, literally *)
Lemma having_rules_generated :
  rules sbql HC =
    [[T tk_BINDING; NT HCC]; [T tk_NODE; NT HCC]; [T tk_LITERAL; NT HCC]; [T tk_TIME; NT HCC]; [T tk_PREDICATE; NT HCC];
     [T tk_NOT; NT HC]; [T tk_LEFT_PARENT; NT HC; T tk_RIGHT_PARENT; NT HCC]] /\
  rules sbql HCC =
    [[T tk_AND; NT HC]; [T tk_OR; NT HC]; [T tk_EQ; NT HC]; [T tk_LT; NT HC]; [T tk_GT; NT HC]; []] /\
  rules sbql sy_HAVING = [[T tk_HAVING; NT HC]; []].
Proof. vm_compute. repeat split; reflexivity. Qed.

Scheme hc_mut := Induction for hc Sort Prop
  with comp_mut := Induction for comp Sort Prop.

Lemma codes_app : forall a b, codes (a ++ b) = codes a ++ codes b.
Proof. intros a b. unfold codes. apply map_app. Qed.

Lemma hc_is_derivation : forall h, wf_hc h = true -> der sbql HC (codes (yield h)).
Proof.
  destruct having_rules_generated as (R1 & R2 & _).
  apply (hc_mut (fun h => wf_hc h = true -> der sbql HC (codes (yield h)))
                (fun c => wf_comp c = true -> der sbql HCC (codes (yield_comp c)))).
  - (* operand COMPOSITE *)
    intros t c IHc W. cbn [wf_hc] in W. apply andb_prop in W. destruct W as [Wt Wc].
    cbn [yield codes map].
    destruct (tk t) eqn:K; cbn in Wt; try discriminate; cbn [code].
    + apply (der_alt sbql HC [T tk_BINDING; NT HCC]); [rewrite R1; cbn; tauto|].
      apply ders_T. rewrite <- (app_nil_r (map _ _)). apply ders_NT; [apply IHc; exact Wc | apply ders_nil].
    + apply (der_alt sbql HC [T tk_LITERAL; NT HCC]); [rewrite R1; cbn; tauto|].
      apply ders_T. rewrite <- (app_nil_r (map _ _)). apply ders_NT; [apply IHc; exact Wc | apply ders_nil].
    + apply (der_alt sbql HC [T tk_NODE; NT HCC]); [rewrite R1; cbn; tauto|].
      apply ders_T. rewrite <- (app_nil_r (map _ _)). apply ders_NT; [apply IHc; exact Wc | apply ders_nil].
    + apply (der_alt sbql HC [T tk_TIME; NT HCC]); [rewrite R1; cbn; tauto|].
      apply ders_T. rewrite <- (app_nil_r (map _ _)). apply ders_NT; [apply IHc; exact Wc | apply ders_nil].
    + apply (der_alt sbql HC [T tk_PREDICATE; NT HCC]); [rewrite R1; cbn; tauto|].
      apply ders_T. rewrite <- (app_nil_r (map _ _)). apply ders_NT; [apply IHc; exact Wc | apply ders_nil].
  - (* NOT clause *)
    intros n h IH W. cbn [wf_hc] in W. apply andb_prop in W. destruct W as [Wn Wh].
    cbn [yield codes map]. destruct (tk n); cbn in Wn; try discriminate. cbn [code].
    apply (der_alt sbql HC [T tk_NOT; NT HC]); [rewrite R1; cbn; tauto|].
    apply ders_T. rewrite <- (app_nil_r (map _ _)). apply ders_NT; [apply IH; exact Wh | apply ders_nil].
  - (* ( clause ) COMPOSITE *)
    intros l h IH r c IHc W. cbn [wf_hc] in W.
    apply andb_prop in W. destruct W as [W Wc]. apply andb_prop in W. destruct W as [W Wr].
    apply andb_prop in W. destruct W as [Wl Wh].
    cbn [yield]. change (codes (l :: yield h ++ r :: yield_comp c)) with (code (tk l) :: codes (yield h ++ r :: yield_comp c)).
    rewrite codes_app. change (codes (r :: yield_comp c)) with (code (tk r) :: codes (yield_comp c)).
    destruct (tk l); cbn in Wl; try discriminate. destruct (tk r); cbn in Wr; try discriminate. cbn [code].
    apply (der_alt sbql HC [T tk_LEFT_PARENT; NT HC; T tk_RIGHT_PARENT; NT HCC]); [rewrite R1; cbn; tauto|].
    apply ders_T. apply ders_NT; [apply IH; exact Wh|]. apply ders_T.
    rewrite <- (app_nil_r (codes _)). apply ders_NT; [apply IHc; exact Wc | apply ders_nil].
  - (* COMPOSITE empty *)
    intros _. cbn. apply (der_alt sbql HCC []); [rewrite R2; cbn; tauto | apply ders_nil].
  - (* COMPOSITE: op clause *)
    intros o h IH W. cbn [wf_comp] in W. apply andb_prop in W. destruct W as [Wo Wh].
    cbn [yield_comp codes map].
    destruct (tk o) eqn:K; cbn in Wo; try discriminate; cbn [code].
    + apply (der_alt sbql HCC [T tk_AND; NT HC]); [rewrite R2; cbn; tauto|].
      apply ders_T. rewrite <- (app_nil_r (map _ _)). apply ders_NT; [apply IH; exact Wh | apply ders_nil].
    + apply (der_alt sbql HCC [T tk_OR; NT HC]); [rewrite R2; cbn; tauto|].
      apply ders_T. rewrite <- (app_nil_r (map _ _)). apply ders_NT; [apply IH; exact Wh | apply ders_nil].
    + apply (der_alt sbql HCC [T tk_EQ; NT HC]); [rewrite R2; cbn; tauto|].
      apply ders_T. rewrite <- (app_nil_r (map _ _)). apply ders_NT; [apply IH; exact Wh | apply ders_nil].
    + apply (der_alt sbql HCC [T tk_LT; NT HC]); [rewrite R2; cbn; tauto|].
      apply ders_T. rewrite <- (app_nil_r (map _ _)). apply ders_NT; [apply IH; exact Wh | apply ders_nil].
    + apply (der_alt sbql HCC [T tk_GT; NT HC]); [rewrite R2; cbn; tauto|].
      apply ders_T. rewrite <- (app_nil_r (map _ _)). apply ders_NT; [apply IH; exact Wh | apply ders_nil].
Qed.
