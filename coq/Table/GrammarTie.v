(* Tie of the derivation trees of ExprSpec.v to the grammar table regenerated from grammar.SemanticBQL():
   every well-formed tree [hc] IS a derivation of HAVING_CLAUSE in the generated grammar (so the theorems about all
   [hc] cover every HAVING token string the real grammar derives with these trees' shapes), and the three generated
   rules are exactly the alternatives the constructors of [hc] / [comp] encode. *)
From Coq Require Import List NArith Bool.
Import ListNotations.
From BWGrammar Require Import Grammar GrammarProofs.
From BWGrammar.Gen Require Import GrammarGen.
From BWTable Require Import Cells Expr ExprSpec.
Open Scope N_scope.

(* lexer token type of a model token kind *)
Definition code (k : tkind) : N :=
  match k with
  | KBinding => tk_BINDING | KLiteral => tk_LITERAL | KNode => tk_NODE | KTime => tk_TIME | KPredicate => tk_PREDICATE
  | KNot => tk_NOT | KAnd => tk_AND | KOr => tk_OR | KEq => tk_EQ | KLt => tk_LT | KGt => tk_GT
  | KLPar => tk_LEFT_PARENT | KRPar => tk_RIGHT_PARENT | KOther => tok_error
  end.
Definition codes (ts : list tok) : list N := map (fun t => code (tk t)) ts.

Definition HC := sy_HAVING_CLAUSE.
Definition HCC := sy_HAVING_CLAUSE_BINARY_COMPOSITE.

(* the generated rules, literally *)
Lemma having_rules_generated :
  rules sbql HC =
    [[T tk_BINDING; NT HCC]; [T tk_NODE; NT HCC]; [T tk_LITERAL; NT HCC]; [T tk_TIME; NT HCC]; [T tk_PREDICATE; NT HCC];
     [T tk_NOT; NT HC]; [T tk_LEFT_PARENT; NT HC; T tk_RIGHT_PARENT; NT HCC]] /\
  rules sbql HCC =
    [[T tk_AND; NT HC]; [T tk_OR; NT HC]; [T tk_EQ; NT HC]; [T tk_LT; NT HC]; [T tk_GT; NT HC]; []] /\
  rules sbql sy_HAVING = [[T tk_HAVING; NT HC]; []].
Proof. vm_compute. repeat split; reflexivity. Qed.

Scheme hc_mut := Induction for hc Sort Prop
  with comp_mut := Induction for comp Sort Prop.

Lemma codes_app : forall a b, codes (a ++ b) = codes a ++ codes b.
Proof. intros a b. unfold codes. apply map_app. Qed.

Lemma hc_is_derivation : forall h, wf_hc h = true -> der sbql HC (codes (yield h)).
Proof.
  destruct having_rules_generated as (R1 & R2 & _).
  apply (hc_mut (fun h => wf_hc h = true -> der sbql HC (codes (yield h)))
                (fun c => wf_comp c = true -> der sbql HCC (codes (yield_comp c)))).
  - (* operand COMPOSITE *)
    intros t c IHc W. cbn [wf_hc] in W. apply andb_prop in W. destruct W as [Wt Wc].
    cbn [yield codes map].
    destruct (tk t) eqn:K; cbn in Wt; try discriminate; cbn [code].
    + apply (der_alt sbql HC [T tk_BINDING; NT HCC]); [rewrite R1; cbn; tauto|].
      apply ders_T. rewrite <- (app_nil_r (map _ _)). apply ders_NT; [apply IHc; exact Wc | apply ders_nil].
    + apply (der_alt sbql HC [T tk_LITERAL; NT HCC]); [rewrite R1; cbn; tauto|].
      apply ders_T. rewrite <- (app_nil_r (map _ _)). apply ders_NT; [apply IHc; exact Wc | apply ders_nil].
    + apply (der_alt sbql HC [T tk_NODE; NT HCC]); [rewrite R1; cbn; tauto|].
      apply ders_T. rewrite <- (app_nil_r (map _ _)). apply ders_NT; [apply IHc; exact Wc | apply ders_nil].
    + apply (der_alt sbql HC [T tk_TIME; NT HCC]); [rewrite R1; cbn; tauto|].
      apply ders_T. rewrite <- (app_nil_r (map _ _)). apply ders_NT; [apply IHc; exact Wc | apply ders_nil].
    + apply (der_alt sbql HC [T tk_PREDICATE; NT HCC]); [rewrite R1; cbn; tauto|].
      apply ders_T. rewrite <- (app_nil_r (map _ _)). apply ders_NT; [apply IHc; exact Wc | apply ders_nil].
  - (* NOT clause *)
    intros n h IH W. cbn [wf_hc] in W. apply andb_prop in W. destruct W as [Wn Wh].
    cbn [yield codes map]. destruct (tk n); cbn in Wn; try discriminate. cbn [code].
    apply (der_alt sbql HC [T tk_NOT; NT HC]); [rewrite R1; cbn; tauto|].
    apply ders_T. rewrite <- (app_nil_r (map _ _)). apply ders_NT; [apply IH; exact Wh | apply ders_nil].
  - (* ( clause ) COMPOSITE *)
    intros l h IH r c IHc W. cbn [wf_hc] in W.
    apply andb_prop in W. destruct W as [W Wc]. apply andb_prop in W. destruct W as [W Wr].
    apply andb_prop in W. destruct W as [Wl Wh].
    cbn [yield]. change (codes (l :: yield h ++ r :: yield_comp c)) with (code (tk l) :: codes (yield h ++ r :: yield_comp c)).
    rewrite codes_app. change (codes (r :: yield_comp c)) with (code (tk r) :: codes (yield_comp c)).
    destruct (tk l); cbn in Wl; try discriminate. destruct (tk r); cbn in Wr; try discriminate. cbn [code].
    apply (der_alt sbql HC [T tk_LEFT_PARENT; NT HC; T tk_RIGHT_PARENT; NT HCC]); [rewrite R1; cbn; tauto|].
    apply ders_T. apply ders_NT; [apply IH; exact Wh|]. apply ders_T.
    rewrite <- (app_nil_r (codes _)). apply ders_NT; [apply IHc; exact Wc | apply ders_nil].
  - (* COMPOSITE empty *)
    intros _. cbn. apply (der_alt sbql HCC []); [rewrite R2; cbn; tauto | apply ders_nil].
  - (* COMPOSITE: op clause *)
    intros o h IH W. cbn [wf_comp] in W. apply andb_prop in W. destruct W as [Wo Wh].
    cbn [yield_comp codes map].
    destruct (tk o) eqn:K; cbn in Wo; try discriminate; cbn [code].
    + apply (der_alt sbql HCC [T tk_AND; NT HC]); [rewrite R2; cbn; tauto|].
      apply ders_T. rewrite <- (app_nil_r (map _ _)). apply ders_NT; [apply IH; exact Wh | apply ders_nil].
    + apply (der_alt sbql HCC [T tk_OR; NT HC]); [rewrite R2; cbn; tauto|].
      apply ders_T. rewrite <- (app_nil_r (map _ _)). apply ders_NT; [apply IH; exact Wh | apply ders_nil].
    + apply (der_alt sbql HCC [T tk_EQ; NT HC]); [rewrite R2; cbn; tauto|].
      apply ders_T. rewrite <- (app_nil_r (map _ _)). apply ders_NT; [apply IH; exact Wh | apply ders_nil].
    + apply (der_alt sbql HCC [T tk_LT; NT HC]); [rewrite R2; cbn; tauto|].
      apply ders_T. rewrite <- (app_nil_r (map _ _)). apply ders_NT; [apply IH; exact Wh | apply ders_nil].
    + apply (der_alt sbql HCC [T tk_GT; NT HC]); [rewrite R2; cbn; tauto|].
      apply ders_T. rewrite <- (app_nil_r (map _ _)). apply ders_NT; [apply IH; exact Wh | apply ders_nil].
Qed.

(* ---- the converse: every derivation of HAVING_CLAUSE in the generated grammar is one of the trees ------------------ *)
Lemma code_inj : forall a b, code a = code b -> a = b.
Proof. intros [] [] H; try reflexivity; vm_compute in H; discriminate. Qed.

Lemma codes_cons_inv : forall ts x w, codes ts = x :: w ->
  exists t ts', ts = t :: ts' /\ code (tk t) = x /\ codes ts' = w.
Proof. intros [|t ts'] x w H; cbn in H; [discriminate|]. injection H as H1 H2. eauto. Qed.

Lemma codes_app_inv : forall ts w1 w2, codes ts = w1 ++ w2 ->
  exists t1 t2, ts = t1 ++ t2 /\ codes t1 = w1 /\ codes t2 = w2.
Proof.
  intros ts w1 w2 H. unfold codes in H. apply map_eq_app in H. destruct H as (l1 & l2 & -> & H1 & H2). eauto.
Qed.

Section Inv.
  Variable g : grammar.
  Lemma ders_nil_inv : forall w, ders g [] w -> w = [].
  Proof. intros w H. inversion H. reflexivity. Qed.
  Lemma ders_T_inv : forall t es w, ders g (T t :: es) w -> exists w', w = t :: w' /\ ders g es w'.
  Proof. intros t es w H. inversion H; subst. eauto. Qed.
  Lemma ders_NT_inv : forall s es w, ders g (NT s :: es) w ->
    exists w1 w2, w = w1 ++ w2 /\ der g s w1 /\ ders g es w2.
  Proof. intros s es w H. inversion H; subst. eauto. Qed.
  Lemma alt_T_NT : forall x s w, ders g [T x; NT s] w -> exists w1, w = x :: w1 /\ der g s w1.
  Proof.
    intros x s w H. apply ders_T_inv in H. destruct H as (w' & -> & H).
    apply ders_NT_inv in H. destruct H as (w1 & w2 & -> & D & H). apply ders_nil_inv in H. subst.
    rewrite app_nil_r. eauto.
  Qed.
  Lemma alt_paren : forall l s1 r s2 w, ders g [T l; NT s1; T r; NT s2] w ->
    exists w1 w2, w = l :: w1 ++ r :: w2 /\ der g s1 w1 /\ der g s2 w2.
  Proof.
    intros l s1 r s2 w H. apply ders_T_inv in H. destruct H as (w' & -> & H).
    apply ders_NT_inv in H. destruct H as (w1 & w2 & -> & D1 & H).
    apply alt_T_NT in H. destruct H as (w3 & -> & D2). eauto.
  Qed.
End Inv.

Lemma der_is_hc : forall n,
  (forall ts, (length ts <= n)%nat -> der sbql HC (codes ts) -> exists h, wf_hc h = true /\ yield h = ts) /\
  (forall ts, (length ts <= n)%nat -> der sbql HCC (codes ts) -> exists c, wf_comp c = true /\ yield_comp c = ts).
Proof.
  destruct having_rules_generated as (R1 & R2 & _).
  (* one operand alternative *)
  assert (OP : forall n k,
    (forall ts, (length ts <= n)%nat -> der sbql HCC (codes ts) -> exists c, wf_comp c = true /\ yield_comp c = ts) ->
    is_operand k = true ->
    forall ts, (length ts <= S n)%nat -> ders sbql [T (code k); NT HCC] (codes ts) ->
    exists h, wf_hc h = true /\ yield h = ts).
  { intros n k IH2 Hk ts L Hd. apply alt_T_NT in Hd. destruct Hd as (w1 & E & D1).
    apply codes_cons_inv in E. destruct E as (t0 & ts0 & -> & Ht & Hw). apply code_inj in Ht.
    destruct (IH2 ts0) as (c & Wc & Yc); [cbn in L; Lia.lia | rewrite Hw; exact D1|].
    exists (HOperand t0 c). split; [cbn; rewrite Ht, Hk, Wc; reflexivity | cbn; rewrite Yc; reflexivity]. }
  (* one composite alternative *)
  assert (CO : forall n k,
    (forall ts, (length ts <= n)%nat -> der sbql HC (codes ts) -> exists h, wf_hc h = true /\ yield h = ts) ->
    is_compop k = true ->
    forall ts, (length ts <= S n)%nat -> ders sbql [T (code k); NT HC] (codes ts) ->
    exists c, wf_comp c = true /\ yield_comp c = ts).
  { intros n k IH1 Hk ts L Hd. apply alt_T_NT in Hd. destruct Hd as (w1 & E & D1).
    apply codes_cons_inv in E. destruct E as (t0 & ts0 & -> & Ht & Hw). apply code_inj in Ht.
    destruct (IH1 ts0) as (h & Wh & Yh); [cbn in L; Lia.lia | rewrite Hw; exact D1|].
    exists (COp t0 h). split; [cbn; rewrite Ht, Hk, Wh; reflexivity | cbn; rewrite Yh; reflexivity]. }
  induction n as [|n [IH1 IH2]].
  - split.
    + intros ts L D. destruct ts; [|cbn in L; Lia.lia]. cbn in D.
      inversion D as [s a w Ha Hd]; subst. rewrite R1 in Ha. cbn in Ha.
      repeat (destruct Ha as [<-|Ha]; [inversion Hd|]). contradiction.
    + intros ts L D. destruct ts; [|cbn in L; Lia.lia]. exists CEmpty. split; reflexivity.
  - split.
    + intros ts L D. inversion D as [s a w Ha Hd]. subst s w. rewrite R1 in Ha. cbn [In] in Ha.
      destruct Ha as [<-|[<-|[<-|[<-|[<-|[<-|[<-|[]]]]]]]].
      * apply (OP n KBinding IH2 eq_refl ts L Hd).
      * apply (OP n KNode IH2 eq_refl ts L Hd).
      * apply (OP n KLiteral IH2 eq_refl ts L Hd).
      * apply (OP n KTime IH2 eq_refl ts L Hd).
      * apply (OP n KPredicate IH2 eq_refl ts L Hd).
      * (* NOT *)
        apply alt_T_NT in Hd. destruct Hd as (w1 & E & D1).
        apply codes_cons_inv in E. destruct E as (t0 & ts0 & -> & Ht & Hw).
        change tk_NOT with (code KNot) in Ht. apply code_inj in Ht.
        destruct (IH1 ts0) as (h & Wh & Yh); [cbn in L; Lia.lia | rewrite Hw; exact D1|].
        exists (HNot t0 h). split; [cbn; rewrite Ht, Wh; reflexivity | cbn; rewrite Yh; reflexivity].
      * (* ( clause ) COMPOSITE *)
        apply alt_paren in Hd. destruct Hd as (w1 & w2 & E & D1 & D2).
        apply codes_cons_inv in E. destruct E as (l & ts0 & -> & Hl & E).
        apply codes_app_inv in E. destruct E as (t1 & t2 & -> & E1 & E2).
        apply codes_cons_inv in E2. destruct E2 as (r & t3 & -> & Hr & E3).
        change tk_LEFT_PARENT with (code KLPar) in Hl. apply code_inj in Hl.
        change tk_RIGHT_PARENT with (code KRPar) in Hr. apply code_inj in Hr.
        cbn [length] in L. rewrite app_length in L. cbn [length] in L.
        destruct (IH1 t1) as (h & Wh & Yh); [Lia.lia | rewrite E1; exact D1|].
        destruct (IH2 t3) as (c & Wc & Yc); [Lia.lia | rewrite E3; exact D2|].
        exists (HParen l h r c). split; [cbn; rewrite Hl, Hr, Wh, Wc; reflexivity | cbn; rewrite Yh, Yc; reflexivity].
    + intros ts L D. inversion D as [s a w Ha Hd]. subst s w. rewrite R2 in Ha. cbn [In] in Ha.
      destruct Ha as [<-|[<-|[<-|[<-|[<-|[<-|[]]]]]]].
      * apply (CO n KAnd IH1 eq_refl ts L Hd).
      * apply (CO n KOr IH1 eq_refl ts L Hd).
      * apply (CO n KEq IH1 eq_refl ts L Hd).
      * apply (CO n KLt IH1 eq_refl ts L Hd).
      * apply (CO n KGt IH1 eq_refl ts L Hd).
      * apply ders_nil_inv in Hd. destruct ts; [|discriminate]. exists CEmpty. split; reflexivity.
Qed.

Theorem grammar_derivation_is_tree : forall ts, der sbql HC (codes ts) -> exists h, wf_hc h = true /\ yield h = ts.
Proof. intros ts D. destruct (der_is_hc (length ts)) as [H _]. apply H; [Lia.lia | exact D]. Qed.
