(* SPEC for C11: one row per distinct combination of grouping values; count / count distinct / sum per group. *)
From Coq Require Import List ZArith NArith Bool.
From Coq.Strings Require Import Byte.
Import ListNotations.
From BWTable Require Import Cells Fmt Sort Reduce.
Open Scope Z_scope.

(* the grouping value of a row: the printed forms of its grouping cells, one per grouping binding (NOT joined) *)
Definition spec_key (gs : list binding) (r : row) : list str := map (fun b => distinct_key (rget r b)) gs.

Fixpoint key_eqb (a b : list str) : bool :=
  match a, b with
  | [], [] => true
  | x :: a', y :: b' => str_eqb x y && key_eqb a' b'
  | _, _ => false
  end.

Fixpoint key_mem (k : list str) (l : list (list str)) : bool :=
  match l with [] => false | x :: t => key_eqb k x || key_mem k t end.

(* distinct keys in order of first occurrence *)
Fixpoint distinct_keys (seen : list (list str)) (l : list (list str)) : list (list str) :=
  match l with
  | [] => []
  | k :: t => if key_mem k seen then distinct_keys seen t else k :: distinct_keys (k :: seen) t
  end.

Definition spec_groups (gs : list binding) (rows : list row) : list (list row) :=
  map (fun k => filter (fun r => key_eqb (spec_key gs r) k) rows)
      (distinct_keys [] (map (spec_key gs) rows)).

(* aggregates of one group, as the property states them *)
Definition spec_count (g : list row) : Z := Z.of_nat (length g).

Fixpoint nodup_str (l : list str) : list str :=
  match l with
  | [] => []
  | x :: t => if str_mem x t then nodup_str t else x :: nodup_str t
  end.
Definition spec_distinct (b : binding) (g : list row) : Z :=
  Z.of_nat (length (nodup_str (map (fun r => distinct_key (rget r b)) g))).

Definition int_of_cell (c : option cell) : option Z :=
  match c with
  | Some (CL l) => match l_val l with VInt v => Some v | _ => None end
  | _ => None
  end.
(* the arithmetic sum (in Z) of an all-int64 column *)
Fixpoint spec_sum_int (b : binding) (g : list row) : option Z :=
  match g with
  | [] => Some 0
  | r :: t => match int_of_cell (rget r b), spec_sum_int b t with
              | Some v, Some s => Some (v + s)
              | _, _ => None
              end
  end.

(* the whole result: one row per group, built with the same row constructor as the engine's (reduce_range), whose
   aggregate columns are proved equal to spec_count / spec_distinct / wrap64 spec_sum_int in ReduceProofs.v *)
Definition spec_reduce (gs : list binding) (aaps : list aap) (rows : list row) : res (list row) :=
  map_res (reduce_range_checked (to_map aaps)) (spec_groups gs rows).
