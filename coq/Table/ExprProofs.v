(* Proofs for C13. *)
From Coq Require Import List ZArith NArith Bool Lia.
From Coq.Strings Require Import Byte.
Import ListNotations.
From BWTable Require Import Cells Fmt StrOrder FmtProofs Sort Limit Reduce Expr ExprSpec Exec.
Open Scope Z_scope.

(* ---- NOT / AND / OR are truth functional ------------------------------------------------------------------------ *)
Theorem eval_not : forall a r b, eval a r = Ok b -> eval (ENot a) r = Ok (negb b).
Proof. intros a r b H. cbn. rewrite H. reflexivity. Qed.

Theorem eval_and : forall a b r x y, eval a r = Ok x -> eval b r = Ok y -> eval (EAnd a b) r = Ok (x && y).
Proof. intros a b r x y H1 H2. cbn. rewrite H1. destruct x; [exact H2 | reflexivity]. Qed.

Theorem eval_or : forall a b r x y, eval a r = Ok x -> eval b r = Ok y -> eval (EOr a b) r = Ok (x || y).
Proof. intros a b r x y H1 H2. cbn. rewrite H1. destruct x; [reflexivity | exact H2]. Qed.

(* shortcut evaluation: the right operand is not evaluated (its error is not raised) when the left one decides *)
Theorem eval_and_shortcut : forall a b r, eval a r = Ok false -> eval (EAnd a b) r = Ok false.
Proof. intros a b r H. cbn. rewrite H. reflexivity. Qed.
Theorem eval_or_shortcut : forall a b r, eval a r = Ok true -> eval (EOr a b) r = Ok true.
Proof. intros a b r H. cbn. rewrite H. reflexivity. Qed.

(* ---- HAVING keeps exactly the rows on which the expression is true, unchanged and in order ---------------------- *)
Definition holds (e : expr) (r : row) : bool := match eval e r with Ok true => true | _ => false end.

Theorem having_rows_exact : forall e rows kept, having_rows e rows = Ok kept ->
  kept = filter (holds e) rows /\ Forall (fun r => exists b, eval e r = Ok b) rows.
Proof.
  intros e. induction rows as [|r t IH]; intros kept H; cbn in H.
  - injection H as <-. split; [reflexivity | constructor].
  - destruct (eval e r) as [b| | |] eqn:E.
    + destruct (having_rows e t) as [k| | |] eqn:Ht; try discriminate.
      injection H as <-. destruct (IH k eq_refl) as [-> F]. split.
      * assert (Hh : holds e r = b) by (unfold holds; rewrite E; destruct b; reflexivity).
        cbn [filter]. rewrite Hh. reflexivity.
      * constructor; [exists b; exact E | exact F].
    + destruct (having_rows e t); discriminate.
    + discriminate.
    + discriminate.
Qed.

(* and the other way round: if every row evaluates, HAVING is that filter *)
Theorem having_rows_total : forall e rows, Forall (fun r => exists b, eval e r = Ok b) rows ->
  having_rows e rows = Ok (filter (holds e) rows).
Proof.
  intros e. induction rows as [|r t IH]; intro F; cbn; [reflexivity|].
  inversion F as [|? ? [b Hb] Ft]; subst. rewrite Hb, (IH Ft).
  assert (Hh : holds e r = b) by (unfold holds; rewrite Hb; destruct b; reflexivity).
  rewrite Hh. reflexivity.
Qed.

(* ---- a constant of another kind never holds ---------------------------------------------------------------------- *)
Definition cell_matches_const (c : cell) (v : litval) : bool :=
  match c with
  | CL l => lit_type_eqb (lit_ty l) (litval_ty v)
  | CS _ => lit_type_eqb (litval_ty v) TText
  | _ => false
  end.

Theorem lit_kind_mismatch_never_holds : forall op l v cmp r c,
  rget r l = Some c -> cell_matches_const c v = false -> eval (ELit op l (PC v cmp)) r <> Ok true.
Proof.
  intros op l v cmp r c H M. cbn. rewrite H.
  destruct c as [|s|s|s|lt|t]; cbn in *; try discriminate.
  - rewrite M. discriminate.
  - rewrite M. discriminate.
Qed.

Theorem node_kind_mismatch_never_holds : forall op l text r c,
  rget r l = Some c -> cell_kind c <> KN -> eval (ENode op l text) r <> Ok true.
Proof. intros op l text r c H K. cbn. rewrite H. destruct c; cbn in *; try discriminate. congruence. Qed.

Theorem pred_kind_mismatch_never_holds : forall op l text r c,
  rget r l = Some c -> cell_kind c <> KP -> eval (EPred op l text) r <> Ok true.
Proof. intros op l text r c H K. cbn. rewrite H. destruct c; cbn in *; try discriminate. congruence. Qed.

Theorem time_kind_mismatch_never_holds : forall op l t r c,
  rget r l = Some c -> cell_kind c <> KT -> eval (ETime op l t) r <> Ok true.
Proof. intros op l t r c H K. cbn. rewrite H. destruct c; cbn in *; try discriminate. congruence. Qed.

(* time anchors are compared as instants *)
Theorem time_compare_instants : forall op l ns r tm, rget r l = Some (CT tm) ->
  eval (ETime op l (Some ns)) r = Ok (cmp_holds op (Z.compare (t_ns tm) ns)).
Proof.
  intros op l ns r tm H. cbn. rewrite H. f_equal. destruct op; cbn.
  - destruct (Z.compare_spec (t_ns tm) ns); [apply Z.ltb_ge; lia | apply Z.ltb_lt; lia | apply Z.ltb_ge; lia].
  - destruct (Z.compare_spec (t_ns tm) ns); [apply Z.ltb_ge; lia | apply Z.ltb_ge; lia | apply Z.ltb_lt; lia].
  - destruct (Z.compare_spec (t_ns tm) ns); [apply Z.eqb_eq; lia | apply Z.eqb_neq; lia | apply Z.eqb_neq; lia].
Qed.

(* ---- comparison with a literal constant agrees with the comparison of the values on D12 ------------------------ *)
Lemma str_cmp_op_compare : forall op a b, str_cmp_op op a b = cmp_holds op (str_compare a b).
Proof.
  intros op a b. destruct op; cbn.
  - rewrite str_ltb_compare. destruct (str_compare a b); reflexivity.
  - rewrite str_ltb_compare, (str_compare_sym a b). destruct (str_compare a b); reflexivity.
  - rewrite str_eqb_compare. destruct (str_compare a b); reflexivity.
Qed.

Theorem lit_compare_int_d12 : forall op l r a b, 0 <= a < two63 -> 0 <= b < two63 ->
  rget r l = Some (CL (int_lit a)) ->
  eval (ELit op l (PC (VInt b) (int_cmp_string b))) r = Ok (cmp_holds op (Z.compare a b)).
Proof.
  intros op l r a b Ha Hb H. cbn [eval]. rewrite H.
  cbn [int_lit lit_ty l_val l_cmp litval_ty lit_type_eqb format_cell].
  rewrite str_cmp_op_compare, trim_int_cmp_string, int_cmp_string_compare by assumption. reflexivity.
Qed.

Theorem lit_compare_text_d12 : forall op l r a b, above_quote a = true -> above_quote b = true ->
  rget r l = Some (CL (text_lit a)) ->
  eval (ELit op l (PC (VText b) (text_string b))) r = Ok (cmp_holds op (str_compare a b)).
Proof.
  intros op l r a b Ha Hb H. cbn [eval]. rewrite H.
  cbn [text_lit lit_ty l_val l_cmp litval_ty lit_type_eqb format_cell].
  rewrite str_cmp_op_compare, trim_text_string, text_string_compare by assumption. reflexivity.
Qed.

(* extracted ids / types (string cells) go through a text literal *)
Theorem lit_compare_string_d12 : forall op l r a b, above_quote a = true -> above_quote b = true ->
  rget r l = Some (CS a) ->
  eval (ELit op l (PC (VText b) (text_string b))) r = Ok (cmp_holds op (str_compare a b)).
Proof.
  intros op l r a b Ha Hb H. cbn [eval]. rewrite H.
  cbn [litval_ty lit_type_eqb format_cell].
  rewrite str_cmp_op_compare, trim_text_string, text_string_compare by assumption. reflexivity.
Qed.

(* ---- HAVING is applied to the grouped (and ordered) table, before LIMIT ------------------------------------------ *)
Theorem having_after_grouping : forall srt fx s t out,
  execute_tail_with srt fx s t = Ok out ->
  exists grouped ordered kept,
    project_and_group_by_with srt fx (st_group_by s) (st_projs s) t = Ok grouped /\
    order_by_with srt (st_order s) (t_rows grouped) = Ok ordered /\
    having (st_having s) ordered = Ok kept /\
    plan_limit (st_limit s) kept = Ok (t_rows out).
Proof.
  intros srt fx s t out H. unfold execute_tail_with, bind in H.
  destruct (project_and_group_by_with srt fx (st_group_by s) (st_projs s) t) as [g| | |] eqn:G; try discriminate.
  destruct (order_by_with srt (st_order s) (t_rows g)) as [o| | |] eqn:O; try discriminate.
  destruct (having (st_having s) o) as [k| | |] eqn:K; try discriminate.
  destruct (plan_limit (st_limit s) k) as [l| | |] eqn:L; try discriminate.
  injection H as <-. exists g, o, k. split; [reflexivity|]. split; [exact O|]. split; [exact K|].
  rewrite L. destruct l; reflexivity.
Qed.
