(* C11 - GROUP BY yields one row per group with correct count, distinct count and sum.
   Model: Reduce.v (Table.Reduce, unsafeFullGroupRangeReduce, accumulators, projectAndGroupBy with its repairs as
   switches), spec: ReduceSpec.v. *)
From Coq Require Import List ZArith NArith Bool Permutation String.
From Coq.Strings Require Import Byte.
From Coq.Floats Require Import SpecFloat.
Import ListNotations.
From BWTable Require Import Cells Fmt StrOrder Sort SortProofs ValueOrder Limit LimitProofs Reduce ReduceSpec ReduceProofs GroupProofs
  Expr Exec ValueEngine ValueEngineProofs.
Open Scope Z_scope.

(* ---- full: the aggregates of one range (group) ------------------------------------------------------------------ *)
Theorem C11_count : forall a first rest c, rget first (a_in a) = Some c -> a_acc a = AccCount ->
  reduce_column a (first :: rest) = Ok (Some (CL (int_lit (Z.of_nat (List.length (first :: rest)))))).
Proof. exact reduce_column_count. Qed.
Print Assumptions C11_count.

(* count(distinct ?b) = the size of the SET of (printed) values of ?b in the group *)
Theorem C11_count_distinct : forall a first rest c u, rget first (a_in a) = Some c -> a_acc a = AccCountDistinct ->
  NoDup u -> (forall x, In x u <-> In x (map (fun r => distinct_key (rget r (a_in a))) (first :: rest))) ->
  reduce_column a (first :: rest) = Ok (Some (CL (int_lit (Z.of_nat (List.length u))))).
Proof. exact reduce_column_distinct. Qed.
Print Assumptions C11_count_distinct.

(* sum over int64 literals: the arithmetic sum, reduced into the int64 range (Go's wrap-around) ... *)
Theorem C11_sum_wraps : forall a first rest c vs, rget first (a_in a) = Some c -> a_acc a = AccSumInt ->
  map (fun r => rget r (a_in a)) (first :: rest) = map int_cell vs ->
  reduce_column a (first :: rest) = Ok (Some (CL (int_lit (wrap64 (zsum vs))))).
Proof. exact reduce_column_sum_int. Qed.
Print Assumptions C11_sum_wraps.

(* ... which IS the arithmetic sum whenever that fits into an int64 *)
Theorem C11_sum_exact : forall vs, - two63 <= zsum vs < two63 -> sum_int 0 (map int_cell vs) = Ok (zsum vs).
Proof. exact sum_int_exact. Qed.
Print Assumptions C11_sum_exact.

(* an int64 sum never yields a number when some cell of the range is not an int64 literal *)
Theorem C11_sum_rejects_other_values : forall l st v, sum_int st l = Ok v ->
  Forall (fun c => exists z, int_of_cell c = Some z) l.
Proof. exact sum_int_not_int. Qed.
Print Assumptions C11_sum_rejects_other_values.

(* ==== THE CURRENT ENGINE: Reduce sorts BY VALUE and folds the runs of rows the sort cannot tell apart (repair fd030b0) ===
   Full, for ALL tables (any mix of kinds in a grouping column, any float64 values): *)

(* the runs are a partition of the input rows, the heads of different runs are in different groups (strictly
   increasing), and each run is exactly the set of input rows of its group *)
Theorem C11_groups : forall srt ks rows sorted,
  sorter_ok srt -> table_sortv_with srt (Some ks) rows = Ok sorted ->
  let gs := runs_by (same_group ks) sorted in
  Permutation rows (List.concat gs) /\
  Sorted.StronglySorted (gltv (row_cmpv ks)) gs /\
  (forall g a0 rest, In g gs -> g = a0 :: rest -> Permutation g (filter (same_group ks a0) rows)).
Proof. exact runs_are_groups_v. Qed.
Print Assumptions C11_groups.

(* "the same group" is equality of the grouping VALUES: same kind and same value for every grouping binding (numbers
   numerically, anchors as instants, text / blob by their bytes, the rest by printed form) *)
Theorem C11_grouping_is_value_equality : forall ks a b,
  has_keys ks a = true -> has_keys ks b = true ->
  (same_group ks a b = true <-> same_values (map k_b ks) a b = true).
Proof. exact same_group_is_same_values. Qed.
Print Assumptions C11_grouping_is_value_equality.

(* Reduce returns exactly one row per run, i.e. (C11_groups) one row per distinct combination of grouping values *)
Theorem C11_one_row_per_run : forall srt ks aaps t out,
  t_rows t <> [] -> reducev_with srt (Some ks) aaps t = Ok out ->
  exists sorted,
    table_sortv_with srt (Some ks) (t_rows t) = Ok sorted /\
    map_res (reduce_range_checked (to_map aaps)) (runs_by (same_group ks) sorted) = Ok (t_rows out) /\
    List.length (t_rows out) = List.length (runs_by (same_group ks) sorted).
Proof. exact reducev_rows_are_runs. Qed.
Print Assumptions C11_one_row_per_run.

(* no solutions => the empty result, not a failure *)
Theorem C11_empty : forall srt group_by projs bs, group_by <> [] ->
  project_and_group_byv_with srt group_by projs (mkTable bs []) = Ok (mkTable bs []).
Proof. exact project_and_group_byv_empty. Qed.
Print Assumptions C11_empty.

(* the witnesses of the refutations below under the CURRENT engine: text a, node, text a -> 2 groups; 1e-07, 2e-07,
   1e-07 -> 2 groups *)
Example C11_witnesses_now_grouped :
  (match reducev (Some [mkKey 1%N false]) [mkAap 1%N 1%N AccNone; mkAap 2%N 3%N AccCount]
          (mkTable [1%N; 2%N] [ [(1%N, CL (text_lit (list_byte_of_string "a"))); (2%N, CL (int_lit 1))];
                                [(1%N, CN (list_byte_of_string "/u<n>")); (2%N, CL (int_lit 1))];
                                [(1%N, CL (text_lit (list_byte_of_string "a"))); (2%N, CL (int_lit 1))] ]) with
   | Ok t => List.length (t_rows t) = 2%nat | _ => False end).
Proof. vm_compute. reflexivity. Qed.

(* ==== THE ENGINE AS FOUND (group id = joined printed forms, sort by formatted strings) ============================== *)
(* ---- full: the ranges Reduce folds are the maximal runs of equal group id of the sorted table ------------------- *)
Theorem C11_runs_as_found : forall ks l,
  List.concat (runs ks l) = l /\
  Forall (fun g => g <> []) (runs ks l) /\
  Forall (fun g => forall a b, In a g -> In b g -> group_id ks a = group_id ks b) (runs ks l) /\
  adjacent_differ ks (runs ks l).
Proof.
  intros ks l. split; [apply runs_concat|]. split; [apply runs_nonempty|]. split; [apply runs_same_id | apply runs_maximal].
Qed.
Print Assumptions C11_runs_as_found.

Theorem C11_one_row_per_run_as_found : forall srt k ks aaps t out,
  t_rows t <> [] -> reduce_with srt (Some (k :: ks)) aaps t = Ok out ->
  exists sorted,
    table_sort_with srt (Some (k :: ks)) (t_rows t) = Ok sorted /\
    map_res (reduce_range_checked (to_map aaps)) (runs (k :: ks) sorted) = Ok (t_rows out) /\
    List.length (t_rows out) = List.length (runs (k :: ks) sorted).
Proof. exact reduce_rows_are_runs. Qed.
Print Assumptions C11_one_row_per_run_as_found.

(* ---- partial (D11): the runs ARE the groups ------------------------------------------------------------------------
   D11 (boolean): every grouping column holds cells of one kind, and two rows have the same printed group id exactly
   when rowLess cannot tell them apart (fails for float64 values that differ below 1e-6, for strings that differ in
   outer white space, for ids that collide through the ";" separator).  Then, for every sorter meeting the contract of
   sort.Sort: the runs are a partition of the input rows, no two runs have the same id, and each run holds exactly the
   input rows with its id - so Reduce returns exactly one row per distinct key combination (C11_one_row_per_run_as_found) whose
   count is the number of input rows of the group (C11_count). *)
Theorem C11_groups_as_found_partial : forall srt k ks rows sorted,
  sorter_ok srt -> d11 (k :: ks) rows = true ->
  table_sort_with srt (Some (k :: ks)) rows = Ok sorted ->
  let gs := runs (k :: ks) sorted in
  Permutation rows (List.concat gs) /\
  NoDup (map (head_id (k :: ks)) gs) /\
  (forall g, In g gs ->
     Permutation g (filter (fun r => str_eqb (group_id (k :: ks) r) (head_id (k :: ks) g)) rows)).
Proof. exact d11_runs_are_groups. Qed.
Print Assumptions C11_groups_as_found_partial.

(* ... and the aggregates do not depend on the order of the rows inside a group: what Reduce computes over a run is
   what the property asks for over the group (any permutation of it) *)
Theorem C11_aggregates_order_independent : forall a g g' c c',
  Permutation g g' ->
  match g with r :: _ => rget r (a_in a) = Some c | [] => True end ->
  match g' with r :: _ => rget r (a_in a) = Some c' | [] => True end ->
  (a_acc a = AccCount -> reduce_column a g = reduce_column a g') /\
  (a_acc a = AccCountDistinct -> reduce_column a g = reduce_column a g') /\
  (a_acc a = AccSumInt -> forall vs, map (fun r => rget r (a_in a)) g = map int_cell vs ->
     reduce_column a g = reduce_column a g').
Proof. exact aggregates_order_independent. Qed.
Print Assumptions C11_aggregates_order_independent.

(* D11 is inhabited non-trivially: two grouping columns (node, int64), three groups, one of them with two rows *)
Definition ex_row (n : string) (i v : Z) : row :=
  [(1%N, CN (list_byte_of_string n)); (2%N, CL (int_lit i)); (3%N, CL (int_lit v))].
Definition ex_rows11 : list row := [ex_row "/u<b>" 1 10; ex_row "/u<a>" 2 20; ex_row "/u<b>" 1 30; ex_row "/u<a>" 1 40].
Definition ex_keys11 : list skey := [mkKey 1%N false; mkKey 2%N false].
Example C11_d11_nonvacuous :
  d11 ex_keys11 ex_rows11 = true /\
  match reduce (Some ex_keys11) [mkAap 1%N 1%N AccNone; mkAap 2%N 2%N AccNone; mkAap 3%N 4%N AccCount; mkAap 3%N 5%N AccSumInt]
               (mkTable [1%N; 2%N; 3%N] ex_rows11) with
  | Ok t => map (fun r => (rget r 4%N, rget r 5%N)) (t_rows t) =
            [(Some (CL (int_lit 1)), Some (CL (int_lit 40))); (Some (CL (int_lit 1)), Some (CL (int_lit 20)));
             (Some (CL (int_lit 2)), Some (CL (int_lit 40)))]
  | _ => False
  end.
Proof. vm_compute. split; reflexivity. Qed.

(* ---- full: no solutions => the empty result, not a failure (code after repairs 3cb5b46 / 6f0bb79) ----------------- *)
Theorem C11_empty_as_found_model : forall srt fx group_by projs bs, fx_empty fx = true -> group_by <> [] ->
  project_and_group_by_with srt fx group_by projs (mkTable bs []) = Ok (mkTable bs []).
Proof. exact project_and_group_by_empty. Qed.
Print Assumptions C11_empty_as_found_model.

(* ---- refuted ------------------------------------------------------------------------------------------------------ *)
Definition fixes_all : pg_fixes := mkFixes true true true true.
Definition kv (k : cell) : row := [(1%N, k); (2%N, CL (int_lit 1))].
Definition count_aaps : list aap := [mkAap 1%N 1%N AccNone; mkAap 2%N 3%N AccCount].
Definition txt (s : string) : cell := CL (text_lit (list_byte_of_string s)).

(* mixed kinds in a grouping column: text a, node, text a - rowLess calls cells of different kinds equal, the sort
   leaves the two equal texts apart: three result rows for two distinct grouping values *)
Theorem C11_mixed_kinds_refuted :
  exists t out, reduce (Some [mkKey 1%N false]) count_aaps t = Ok out /\
    List.length (t_rows out) = 3%nat /\ List.length (spec_groups [1%N] (t_rows t)) = 2%nat.
Proof.
  exists (mkTable [1%N; 2%N] [kv (txt "a"); kv (CN (list_byte_of_string "/u<n>")); kv (txt "a")]).
  eexists. split; [vm_compute; reflexivity|]. split; vm_compute; reflexivity.
Qed.
Print Assumptions C11_mixed_kinds_refuted.

Definition fltc (m : positive) (e : Z) (str cmp : string) : cell :=
  CL (mkLit (VFloat (S754_finite false m e)) (list_byte_of_string str) (list_byte_of_string cmp)).
Definition f1e7 := fltc 7555786372591432 (-76) """1e-07""^^type:float64" """0000000000000000000000000.000000""^^type:float64".
Definition f2e7 := fltc 7555786372591432 (-75) """2e-07""^^type:float64" """0000000000000000000000000.000000""^^type:float64".

(* ONE kind, float64: 1e-07, 2e-07, 1e-07 are equal for rowLess (%032f prints 0.000000) but have different ids *)
Theorem C11_float_precision_refuted :
  exists t out, homogeneous [mkKey 1%N false] (t_rows t) = true /\
    reduce (Some [mkKey 1%N false]) count_aaps t = Ok out /\
    List.length (t_rows out) = 3%nat /\ List.length (spec_groups [1%N] (t_rows t)) = 2%nat.
Proof.
  exists (mkTable [1%N; 2%N] [kv f1e7; kv f2e7; kv f1e7]).
  eexists. split; [vm_compute; reflexivity|]. split; [vm_compute; reflexivity|]. split; vm_compute; reflexivity.
Qed.
Print Assumptions C11_float_precision_refuted.

(* sum over an empty result: Rows()[0] panics (code as found) *)
Theorem C11_empty_sum_refuted :
  project_and_group_by (mkFixes false true true true) [1%N] [mkProj 1%N None OpNone false; mkProj 2%N (Some 3%N) OpSum false]
    (mkTable [1%N; 2%N] []) = Panic SRowsZero.
Proof. vm_compute. reflexivity. Qed.
Print Assumptions C11_empty_sum_refuted.

(* GROUP BY the alias of a plain projection: empty sort configuration, c[0] panics with two rows (code as found) *)
Theorem C11_alias_refuted :
  project_and_group_by (mkFixes true false true true) [4%N]
    [mkProj 1%N (Some 4%N) OpNone false; mkProj 2%N (Some 3%N) OpCount false]
    (mkTable [1%N; 2%N] [kv (txt "a"); kv (txt "b")]) = Panic SIndexSortConfig.
Proof. vm_compute. reflexivity. Qed.
Print Assumptions C11_alias_refuted.

(* the error of Reduce is discarded (code as found): sum over a column holding int64 then float64 returns the
   UNGROUPED rows under the input bindings as if they were the answer *)
Definition fl25 : cell := CL (mkLit (VFloat (S754_finite false 5629499534213120 (-51)))
                                (list_byte_of_string """2.5""^^type:float64")
                                (list_byte_of_string """0000000000000000000000002.500000""^^type:float64")).
Theorem C11_reduce_error_refuted :
  exists t out,
    project_and_group_by (mkFixes true true false true) [1%N]
      [mkProj 1%N None OpNone false; mkProj 2%N (Some 3%N) OpSum false] t = Ok out /\
    t_bindings out = [1%N; 2%N] /\ List.length (t_rows out) = 3%nat /\
    project_and_group_by fixes_all [1%N]
      [mkProj 1%N None OpNone false; mkProj 2%N (Some 3%N) OpSum false] t = Err EAccumulate.
Proof.
  exists (mkTable [1%N; 2%N] [ [(1%N, txt "a"); (2%N, CL (int_lit 1))]; [(1%N, txt "a"); (2%N, fl25)];
                                [(1%N, txt "b"); (2%N, CL (int_lit 3))] ]).
  eexists. split; [vm_compute; reflexivity|]. split; [reflexivity|]. split; vm_compute; reflexivity.
Qed.
Print Assumptions C11_reduce_error_refuted.

(* Projection with aliases (no GROUP BY), code as found: the aliases were written one after the other into the row the
   next projection reads, so SELECT ?s AS ?o, ?o AS ?v returned the SUBJECT in both columns; after repair 0ca8278 every
   output column holds the value its binding has in the solution. *)
Theorem C11_alias_shadow_refuted :
  exists t out_found out_fixed,
    project_and_group_by (mkFixes true true true false) []
      [mkProj 1%N (Some 2%N) OpNone false; mkProj 2%N (Some 3%N) OpNone false] t = Ok out_found /\
    project_and_group_by fixes_all []
      [mkProj 1%N (Some 2%N) OpNone false; mkProj 2%N (Some 3%N) OpNone false] t = Ok out_fixed /\
    map (fun r => rget r 3%N) (t_rows out_found) = [Some (txt "subject")] /\
    map (fun r => rget r 3%N) (t_rows out_fixed) = [Some (txt "object")].
Proof.
  exists (mkTable [1%N; 2%N] [ [(1%N, txt "subject"); (2%N, txt "object")] ]).
  eexists. eexists. split; [vm_compute; reflexivity|]. split; [vm_compute; reflexivity|]. split; vm_compute; reflexivity.
Qed.
Print Assumptions C11_alias_shadow_refuted.
