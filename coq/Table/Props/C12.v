(* C12 - ORDER BY returns a correctly sorted permutation; LIMIT its first n rows.
   Model: Sort.v (Table.Sort / rowLess / stringLess), Limit.v (Table.Limit, limitCollection, the ORDER BY checker
   rewrite, LIMIT push-down); spec: SortSpec.v (value order, domain D12).  sort.Sort is NOT modelled by one
   algorithm: every theorem below holds for EVERY sorting routine [srt] that meets the documented contract
   (sorter_ok: permutation; no inversion when Less is a strict weak order); C12_contract_inhabited_as_found_partial shows Go's own
   insertion sort (used for up to 12 rows) meets it. *)
From Coq Require Import List ZArith NArith Bool Permutation Sorted String.
From Coq.Strings Require Import Byte.
From Coq.Floats Require Import SpecFloat.
Import ListNotations.
From BWTable Require Import Cells Fmt StrOrder FmtProofs Sort SortProofs ValueOrder SortSpec SortSpecProofs Limit LimitProofs
  TimeLaw Reduce Expr Exec ValueEngine ValueEngineProofs.
Open Scope Z_scope.

(* ==== THE CURRENT ENGINE: cells are compared BY VALUE (repairs fd030b0 / ca461fe; model ValueOrder.v, ValueEngine.v) ====
   Everything in this part holds for ALL tables: any mix of cell kinds in a key column, negative and fractional numbers,
   anchors in any zones and precisions, any text.  The parts further down are about the comparator AS FOUND (formatted
   strings): the partial theorems with their domain D12 and the refutations outside it. *)

(* ORDER BY and LIMIT never change which rows qualify *)
Theorem C12_permutation : forall srt c lim rows out, sorter_ok srt ->
  order_limitv_with srt c lim rows = Ok out -> exists dropped, Permutation rows (out ++ dropped).
Proof. exact order_limitv_permutation. Qed.
Print Assumptions C12_permutation.

(* rowLess is a strict weak order on every table, so sort.Sort's contract always applies; Go's insertion sort meets it *)
Theorem C12_rowless_strict_weak : forall ks (rows : list row), strict_weak_on (row_ltv ks) rows.
Proof. exact row_ltv_strict_weak. Qed.
Print Assumptions C12_rowless_strict_weak.

Theorem C12_contract_inhabited : forall ks rows, sort_contract (row_ltv ks) rows (go_isort (row_ltv ks) rows).
Proof. exact go_isort_contract_row_ltv. Qed.
Print Assumptions C12_contract_inhabited.

(* FULL: the result is a permutation in VALUE order, keys in sequence, each in its direction; it exists whenever every
   row has the key bindings *)
Theorem C12_sorted : forall srt ks rows out, sorter_ok srt ->
  order_byv_with srt (Some ks) rows = Ok out -> Permutation rows out /\ value_sorted ks out.
Proof. exact order_byv_sorted. Qed.
Print Assumptions C12_sorted.

Theorem C12_sorted_total : forall srt ks rows, forallb (has_keys ks) rows = true ->
  exists out, order_byv_with srt (Some ks) rows = Ok out.
Proof. exact order_byv_total. Qed.
Print Assumptions C12_sorted_total.

(* ... and ORDER BY + LIMIT n is the first min(n, N) rows of such a value-sorted permutation *)
Theorem C12_limit_of_sorted : forall srt ks n rows, sorter_ok srt -> 0 <= n ->
  forallb (has_keys ks) rows = true ->
  exists sorted, Permutation rows sorted /\ value_sorted ks sorted /\
    order_limitv_with srt (Some ks) (Some n) rows = Ok (firstn (Z.to_nat (Z.min n (Z.of_nat (List.length rows)))) sorted).
Proof. exact order_limitv_sorted_prefix. Qed.
Print Assumptions C12_limit_of_sorted.

(* what value order is, kind by kind: int64 numerically, float64 numerically (order of f64_key: NaN first, -0 = 0),
   time anchors as instants, text by its characters, blob by its bytes, strings / nodes / predicates by printed form *)
Theorem C12_value_order_meaning :
  (forall x y sx cx sy cy, cell_cmp (CL (mkLit (VInt x) sx cx)) (CL (mkLit (VInt y) sy cy)) = Z.compare x y) /\
  (forall x y sx cx sy cy, cell_cmp (CL (mkLit (VText x) sx cx)) (CL (mkLit (VText y) sy cy)) = str_compare x y) /\
  (forall x y sx cx sy cy, cell_cmp (CL (mkLit (VBlob x) sx cx)) (CL (mkLit (VBlob y) sy cy)) = str_compare x y) /\
  (forall x y sx cx sy cy, cell_cmp (CL (mkLit (VFloat x) sx cx)) (CL (mkLit (VFloat y) sy cy)) = Z.compare (f64_key x) (f64_key y)) /\
  (forall a b, cell_cmp (CT a) (CT b) = Z.compare (t_ns a) (t_ns b)) /\
  (forall a b, cell_cmp (CS a) (CS b) = str_compare a b /\ cell_cmp (CN a) (CN b) = str_compare a b /\
               cell_cmp (CP a) (CP b) = str_compare a b).
Proof. exact cell_cmp_meaning. Qed.
Print Assumptions C12_value_order_meaning.

(* repeated ORDER BY keys (repair 67e0e70): the rebuilt configuration compares any two rows as the written key list *)
Theorem C12_repeated_keys_fixed : forall outs keys cfg,
  order_by_checker (fun l => l) outs keys = inr cfg -> forall a b, row_cmpv cfg a b = row_cmpv keys a b.
Proof. exact order_by_checker_same_value_order. Qed.
Print Assumptions C12_repeated_keys_fixed.

(* the guarded LIMIT push-down (repair e34ecad) cannot be observed *)
Theorem C12_pushdown_unobservable : forall srt mask c lim rows,
  (forall m, mask = Some m -> List.length m = List.length rows) ->
  exec_order_limitv_with srt true mask c lim rows = order_limitv_with srt c lim rows.
Proof. exact guarded_pushdown_unobservable_v. Qed.
Print Assumptions C12_pushdown_unobservable.

(* ==== LIMIT (unchanged by the repair) and THE COMPARATOR AS FOUND =================================================== *)


(* ORDER BY and LIMIT never change which rows qualify: the result is a prefix of a permutation of the input rows
   (whatever the key kinds, whatever the sorting routine). *)
Theorem C12_permutation_as_found : forall srt c lim rows out, sorter_ok srt ->
  order_limit_with srt c lim rows = Ok out -> exists dropped, Permutation rows (out ++ dropped).
Proof. exact order_limit_permutation. Qed.
Print Assumptions C12_permutation_as_found.

(* LIMIT n (n >= 0) keeps exactly the first min(n, N) rows of what it is given *)
Theorem C12_limit_prefix : forall n (rows : list row), 0 <= n ->
  plan_limit (Some n) rows = Ok (firstn (Z.to_nat (Z.min n (Z.of_nat (List.length rows)))) rows).
Proof. intros n rows H. cbn. apply table_limit_ok. exact H. Qed.
Print Assumptions C12_limit_prefix.

(* a LIMIT token is accepted only if it is an int64 literal >= 0 (code after the repair "reject negative LIMIT"),
   and then Table.Limit cannot panic *)
Theorem C12_limit_rejected : forall t n, limit_collection true t = Ok n ->
  lt_is_literal t = true /\ lt_parsed t = PL (VInt n) /\ 0 <= n.
Proof. exact limit_collection_accepts. Qed.
Print Assumptions C12_limit_rejected.

Theorem C12_limit_no_panic : forall t n (rows : list row), limit_collection true t = Ok n ->
  exists out, plan_limit (Some n) rows = Ok out.
Proof. intros t n rows. apply limit_never_panics_after_collection. Qed.
Print Assumptions C12_limit_no_panic.

(* rowLess is a strict weak order as soon as every key column holds cells of one kind (the hypothesis under which
   sort.Sort promises anything) *)
Theorem C12_rowless_strict_weak_as_found_partial : forall ks rows, homogeneous ks rows = true -> strict_weak_on (row_lt ks) rows.
Proof. exact row_lt_strict_weak. Qed.
Print Assumptions C12_rowless_strict_weak_as_found_partial.

(* the contract is inhabited: Go's insertionSort, as modelled, meets it for rowLess on homogeneous tables *)
Theorem C12_contract_inhabited_as_found_partial : forall ks rows, homogeneous ks rows = true ->
  sort_contract (row_lt ks) rows (go_isort (row_lt ks) rows).
Proof. exact go_isort_contract_row_lt. Qed.
Print Assumptions C12_contract_inhabited_as_found_partial.

(* ---- partial: the comparable domain D12 ------------------------------------------------------------------------ *)

(* Key columns in D12 (one kind per column; int64 >= 0; text without bytes <= 0x22; bool, blob, node, predicate and
   string cells by printed form without outer white space): the result is a permutation sorted BY VALUE
   (int64 numerically, text by characters, the others by printed form), keys in sequence, each in its direction. *)
Theorem C12_sorted_as_found_partial : forall srt ks rows out, sorter_ok srt -> ks <> [] ->
  d12 ks rows = true -> order_by_with srt (Some ks) rows = Ok out ->
  Permutation rows out /\ spec_sorted ks out.
Proof. exact order_by_sorted_d12. Qed.
Print Assumptions C12_sorted_as_found_partial.

(* ... and ORDER BY + LIMIT n returns the first min(n, N) rows of such a value-sorted permutation *)
Theorem C12_limit_of_sorted_as_found_partial : forall srt ks n rows, sorter_ok srt -> ks <> [] -> 0 <= n ->
  d12 ks rows = true ->
  exists sorted, Permutation rows sorted /\ spec_sorted ks sorted /\
    order_limit_with srt (Some ks) (Some n) rows = Ok (firstn (Z.to_nat (Z.min n (Z.of_nat (List.length rows)))) sorted).
Proof. exact order_limit_sorted_prefix_d12. Qed.
Print Assumptions C12_limit_of_sorted_as_found_partial.

Definition one_col' (cells : list cell) : list row := map (fun c => [(1%N, c)]) cells.

(* Time anchors, comparator AS FOUND (Time.Format(RFC3339Nano) strings): CHRONOLOGICAL order when all anchors of a key
   column are in ONE zone and of ONE precision.  No oracle hypothesis any more: the rendering is the Go-faithful Gallina
   formatter of the Values family (coq/Values/TimeCodec.v, tied to time.Format by the C05 correspondence and compared
   with every anchor cell of this check inside Coq) and the law is its order theorem (C05_rfc3339nano_order).
   d12_time accepts an anchor cell when its printed form IS that rendering of its instant and zone (years 0000-9999, zone
   a whole number of minutes) and two anchors of a column when zone offset and number of fraction digits agree; across
   zones or precisions the statement is false: C12_zone_refuted, C12_precision_refuted below. *)
Theorem C12_sorted_time_as_found_partial : forall srt ks rows out, sorter_ok srt -> ks <> [] ->
  d12_time ks rows = true -> order_by_with srt (Some ks) rows = Ok out ->
  Permutation rows out /\ spec_sorted ks out.
Proof. exact order_by_sorted_d12_time_proved. Qed.
Print Assumptions C12_sorted_time_as_found_partial.

(* the domain is inhabited by real renderings: 2020-01-01T00:00:00Z, 2019-12-31T23:30:00Z, 2021-06-15T12:00:00Z (computed
   by the formatter), descending *)
Definition real_tm (ns : Z) : cell := CT (mkTim ns 0 (BWValues.TimeCodec.fmt_rfc3339nano (vtime (mkTim ns 0 [])))).
Example C12_time_domain_nonvacuous :
  d12_time [mkKey 1%N true] (one_col' [real_tm 1577836800000000000; real_tm 1577835000000000000; real_tm 1623758400000000000]) = true /\
  order_by (Some [mkKey 1%N true]) (one_col' [real_tm 1577836800000000000; real_tm 1577835000000000000; real_tm 1623758400000000000]) =
    Ok (one_col' [real_tm 1623758400000000000; real_tm 1577836800000000000; real_tm 1577835000000000000]) /\
  t_str (mkTim 0 0 (BWValues.TimeCodec.fmt_rfc3339nano (vtime (mkTim 1577836800000000000 0 [])))) =
    list_byte_of_string "2020-01-01T00:00:00Z".
Proof. vm_compute. repeat split; reflexivity. Qed.

(* ... and float64 NUMERICALLY on the domain "finite, 0 <= f < 10^25, at most six decimals" under the analogous law for
   %032f (oracle; checked on every generated case; no Gallina instance, so the consistency of THIS law is not shown) *)
Theorem C12_sorted_time_float_as_found_partial : forall (fmt_time : Z -> Z -> str) (fmt_float : spec_float -> str),
  (forall off n1 n2, in_int64 n1 = true -> in_int64 n2 = true ->
     List.length (fmt_time n1 off) = List.length (fmt_time n2 off) ->
     str_compare (fmt_time n1 off) (fmt_time n2 off) = Z.compare n1 n2) ->
  (forall n off, trim_space (fmt_time n off) = fmt_time n off) ->
  (forall x y, sf_in_domain x = true -> sf_in_domain y = true ->
     str_compare (fmt_float x) (fmt_float y) = match SFcompare x y with Some o => o | None => Eq end) ->
  (forall x, trim_space (fmt_float x) = fmt_float x) ->
  forall srt ks rows out, sorter_ok srt -> ks <> [] ->
  d12_o fmt_time fmt_float ks rows = true -> order_by_with srt (Some ks) rows = Ok out ->
  Permutation rows out /\ spec_sorted ks out.
Proof. exact order_by_sorted_d12_oracles. Qed.
Print Assumptions C12_sorted_time_float_as_found_partial.

(* (kept from before the Values formatter existed: the hypothesis form of the law is consistent - a toy rendering
   satisfies it) *)
Definition toy_tm (ns : Z) : cell := CT (mkTim ns 0 (toy_fmt_time ns 0)).
Example C12_time_law_consistent :
  ((forall off n1 n2, in_int64 n1 = true -> in_int64 n2 = true ->
      List.length (toy_fmt_time n1 off) = List.length (toy_fmt_time n2 off) ->
      str_compare (toy_fmt_time n1 off) (toy_fmt_time n2 off) = Z.compare n1 n2) /\
   (forall n off, trim_space (toy_fmt_time n off) = toy_fmt_time n off)) /\
  d12_gen (tm_ok_o toy_fmt_time) tm_pair_o no_lit [mkKey 1%N true] (one_col' [toy_tm 5; toy_tm (-7); toy_tm 100]) = true /\
  order_by (Some [mkKey 1%N true]) (one_col' [toy_tm 5; toy_tm (-7); toy_tm 100]) =
    Ok (one_col' [toy_tm 100; toy_tm 5; toy_tm (-7)]).
Proof. split; [exact toy_fmt_time_laws|]. split; vm_compute; reflexivity. Qed.

(* the formatting fact behind the int64 part of D12: %032d orders like the integers on 0 <= v < 2^63 *)
Theorem C12_int_strings_order_partial : forall a b, 0 <= a < two63 -> 0 <= b < two63 ->
  str_compare (int_cmp_string a) (int_cmp_string b) = Z.compare a b.
Proof. exact int_cmp_string_compare. Qed.
Print Assumptions C12_int_strings_order_partial.

(* D12 is inhabited non-trivially: two key columns (int64 descending, then text), ties on the first key *)
Definition ex_rows : list row :=
  [ [(1%N, CL (int_lit 5)); (2%N, CL (text_lit (list_byte_of_string "b")))];
    [(1%N, CL (int_lit 12)); (2%N, CL (text_lit (list_byte_of_string "a")))];
    [(1%N, CL (int_lit 5)); (2%N, CL (text_lit (list_byte_of_string "ab")))] ].
Definition ex_keys : list skey := [mkKey 1%N true; mkKey 2%N false].
Example C12_d12_nonvacuous :
  d12 ex_keys ex_rows = true /\
  order_by (Some ex_keys) ex_rows = Ok [nth 1 ex_rows []; nth 2 ex_rows []; nth 0 ex_rows []].
Proof. vm_compute. split; reflexivity. Qed.

(* the witnesses of the refutations below, sorted by the CURRENT engine: -5 before -3, 2e29 before 1e30, the earlier
   instant first whatever the zone, "ab" before "ab c" before "ab!" (bytewise) *)
Definition one_col0 (cells : list cell) : list row := map (fun c => [(1%N, c)]) cells.
Example C12_witnesses_now_sorted :
  order_byv (Some [mkKey 1%N false]) (one_col0 [CL (int_lit (-3)); CL (int_lit (-5))]) =
    Ok (one_col0 [CL (int_lit (-5)); CL (int_lit (-3))]) /\
  order_byv (Some [mkKey 1%N false]) (one_col0 [CL (text_lit (list_byte_of_string "ab c"));
        CL (text_lit (list_byte_of_string "ab!")); CL (text_lit (list_byte_of_string "ab"))]) =
    Ok (one_col0 [CL (text_lit (list_byte_of_string "ab")); CL (text_lit (list_byte_of_string "ab c"));
                  CL (text_lit (list_byte_of_string "ab!"))]) /\
  order_byv (Some [mkKey 1%N false])
     (one_col0 [CT (mkTim 1577835000000000000 0 (list_byte_of_string "2019-12-31T23:30:00Z"));
                CT (mkTim 1577833200000000000 3600 (list_byte_of_string "2020-01-01T00:00:00+01:00"))]) =
    Ok (one_col0 [CT (mkTim 1577833200000000000 3600 (list_byte_of_string "2020-01-01T00:00:00+01:00"));
                  CT (mkTim 1577835000000000000 0 (list_byte_of_string "2019-12-31T23:30:00Z"))]).
Proof. vm_compute. repeat split; reflexivity. Qed.

(* ---- refuted outside D12 (each witness is replayed on the real engine by checks/c12.py) ------------------------ *)
Definition one_col (cells : list cell) : list row := map (fun c => [(1%N, c)]) cells.
Definition asc1 : list skey := [mkKey 1%N false].

(* "a contract-abiding sort of these rows is not in value order" *)
Definition mis_sorted (ks : list skey) (rows : list row) : Prop :=
  exists out, sort_contract (row_lt ks) rows out /\ order_by (Some ks) rows = Ok out /\ ~ spec_sorted ks out.

Lemma mis_sorted_by_computation : forall ks rows,
  homogeneous ks rows = true ->
  (match order_by (Some ks) rows with Ok out => negb (spec_sorted_b ks out) | _ => false end) = true ->
  order_by (Some ks) rows = Ok (go_isort (row_lt ks) rows) ->
  mis_sorted ks rows.
Proof.
  intros ks rows H E O. exists (go_isort (row_lt ks) rows). split; [apply go_isort_contract_row_lt; exact H|].
  split; [exact O|]. rewrite O in E. intro S. apply spec_sorted_b_iff in S. rewrite S in E. discriminate.
Qed.

(* negative int64: -3 sorts before -5 *)
Theorem C12_negative_refuted : mis_sorted asc1 (one_col [CL (int_lit (-3)); CL (int_lit (-5))]).
Proof. apply mis_sorted_by_computation; vm_compute; reflexivity. Qed.
Print Assumptions C12_negative_refuted.

Definition flt (s : bool) (m : positive) (e : Z) (str cmp : string) : cell :=
  CL (mkLit (VFloat (S754_finite s m e)) (list_byte_of_string str) (list_byte_of_string cmp)).

(* float64 width: 1e30 (38 characters) sorts before 2e29 (37 characters); negative floats: -1.5 before -2.5;
   precision: 2e-07 and 1e-07 both print as 0.000000 and stay in input order *)
Theorem C12_float_refuted :
  mis_sorted asc1 (one_col [flt false 7105427357601002 47 """1e+30""^^type:float64"
                               """1000000000000000019884624838656.000000""^^type:float64";
                            flt false 5684341886080801 45 """2e+29""^^type:float64"
                               """199999999999999982866301714432.000000""^^type:float64"]) /\
  mis_sorted asc1 (one_col [flt true 6755399441055744 (-52) """-1.5""^^type:float64"
                               """-000000000000000000000001.500000""^^type:float64";
                            flt true 5629499534213120 (-51) """-2.5""^^type:float64"
                               """-000000000000000000000002.500000""^^type:float64"]) /\
  mis_sorted asc1 (one_col [flt false 7555786372591432 (-75) """2e-07""^^type:float64"
                               """0000000000000000000000000.000000""^^type:float64";
                            flt false 7555786372591432 (-76) """1e-07""^^type:float64"
                               """0000000000000000000000000.000000""^^type:float64"]).
Proof. repeat split; apply mis_sorted_by_computation; vm_compute; reflexivity. Qed.
Print Assumptions C12_float_refuted.

Definition tm (ns off : Z) (s : string) : cell := CT (mkTim ns off (list_byte_of_string s)).

(* anchors in different zones: 2020-01-01T00:00:00+01:00 (= 2019-12-31T23:00Z) sorts after 2019-12-31T23:30:00Z *)
Theorem C12_zone_refuted :
  mis_sorted asc1 (one_col [tm 1577833200000000000 3600 "2020-01-01T00:00:00+01:00";
                            tm 1577835000000000000 0 "2019-12-31T23:30:00Z"]
                   ) \/
  mis_sorted asc1 (one_col [tm 1577835000000000000 0 "2019-12-31T23:30:00Z";
                            tm 1577833200000000000 3600 "2020-01-01T00:00:00+01:00"]).
Proof. right. apply mis_sorted_by_computation; vm_compute; reflexivity. Qed.
Print Assumptions C12_zone_refuted.

(* different precisions in one zone: ...00.5Z sorts before ...00Z *)
Theorem C12_precision_refuted :
  mis_sorted asc1 (one_col [tm 1577836800000000000 0 "2020-01-01T00:00:00Z";
                            tm 1577836800500000000 0 "2020-01-01T00:00:00.5Z"]).
Proof. apply mis_sorted_by_computation; vm_compute; reflexivity. Qed.
Print Assumptions C12_precision_refuted.

(* text: the closing quote takes part in the comparison: "ab c" < "ab!" < "ab" *)
Theorem C12_text_prefix_refuted :
  mis_sorted asc1 (one_col [CL (text_lit (list_byte_of_string "ab"));
                            CL (text_lit (list_byte_of_string "ab!"));
                            CL (text_lit (list_byte_of_string "ab c"))]).
Proof. apply mis_sorted_by_computation; vm_compute; reflexivity. Qed.
Print Assumptions C12_text_prefix_refuted.

(* repeated ORDER BY keys (code as found): ORDER BY ?a, ?b, ?a is rebuilt from a map: for the iteration order [b; a]
   the result is sorted by ?b first.  ([rev] is one of the permutations Go's map iteration may produce.) *)
Theorem C12_repeated_keys_refuted :
  exists keys rows cfg out,
    order_by_checker (@rev skey) [1%N; 2%N] keys = inr cfg /\ Permutation cfg [mkKey 1%N false; mkKey 2%N false] /\
    d12 keys rows = true /\ order_by (Some cfg) rows = Ok out /\ ~ spec_sorted keys out.
Proof.
  exists [mkKey 1%N false; mkKey 2%N false; mkKey 1%N false].
  exists [ [(1%N, CL (int_lit 1)); (2%N, CL (int_lit 2))]; [(1%N, CL (int_lit 2)); (2%N, CL (int_lit 1))] ].
  eexists. eexists. split; [vm_compute; reflexivity|]. split; [apply perm_swap|].
  split; [vm_compute; reflexivity|]. split; [vm_compute; reflexivity|].
  intro S. apply spec_sorted_b_iff in S. vm_compute in S. discriminate.
Qed.
Print Assumptions C12_repeated_keys_refuted.

(* after repair 67e0e70 the configuration keeps the first occurrence of each key in written order ([perm] is the
   identity), and that configuration compares any two rows exactly as the written key list does *)
Theorem C12_repeated_keys_fixed_as_found : forall outs keys cfg,
  order_by_checker (fun l => l) outs keys = inr cfg -> forall a b, key_cmp cfg a b = key_cmp keys a b.
Proof. exact order_by_checker_same_order. Qed.
Print Assumptions C12_repeated_keys_fixed_as_found.

(* LIMIT push-down after repair e34ecad (only without ORDER BY and when every retrieved triple becomes one row): the
   result is the one computed without any push-down *)
Theorem C12_pushdown_unobservable_as_found : forall srt mask c lim rows,
  (forall m, mask = Some m -> List.length m = List.length rows) ->
  exec_order_limit_with srt true mask c lim rows = order_limit_with srt c lim rows.
Proof. exact guarded_pushdown_unobservable. Qed.
Print Assumptions C12_pushdown_unobservable_as_found.

(* LIMIT push-down AS FOUND: single full-scan clause, ORDER BY ?o DESC LIMIT 1 returns the row the DRIVER lists first, not the
   largest *)
Theorem C12_pushdown_refuted :
  exists rows ks out,
    d12 ks rows = true /\
    exec_order_limit_with (@go_isort row) false (Some [true; true; true]) (Some ks) (Some 1) rows = Ok out /\
    order_limit_with (@go_isort row) (Some ks) (Some 1) rows <> Ok out.
Proof.
  exists (one_col [CL (int_lit 1); CL (int_lit 2); CL (int_lit 3)]), [mkKey 1%N true]. eexists.
  split; [vm_compute; reflexivity|]. split; [vm_compute; reflexivity|]. vm_compute. discriminate.
Qed.
Print Assumptions C12_pushdown_refuted.

(* ... and with a clause that drops triples ({?s "t"@[?t] ?o} over a graph that also holds other predicates) LIMIT n
   without ORDER BY returns FEWER than min(n, N) rows: here 1 instead of 2 *)
Theorem C12_pushdown_count_refuted :
  exists (rows out : list row) mask,
    List.length rows = 2%nat /\ count_true mask = 2%nat /\
    exec_order_limit_with (@go_isort row) false (Some mask) None (Some 2) rows = Ok out /\ List.length out = 1%nat.
Proof.
  exists (one_col [CL (int_lit 1); CL (int_lit 2)]). eexists. exists [true; false; true].
  split; [reflexivity|]. split; [reflexivity|]. split; vm_compute; reflexivity.
Qed.
Print Assumptions C12_pushdown_count_refuted.

(* negative LIMIT: Table.Limit panics (make with a negative length); reachable from a statement before the repair
   (limit_collection false accepts the token) *)
Theorem C12_negative_limit_refuted :
  exists t n (rows : list row), limit_collection false t = Ok n /\ plan_limit (Some n) rows = Panic SMakeNegative.
Proof.
  exists (mkLimTok true (PL (VInt (-1)))), (-1), []. split; vm_compute; reflexivity.
Qed.
Print Assumptions C12_negative_limit_refuted.
