(* C13 - HAVING keeps exactly the rows satisfying its boolean expression.
   Model: Expr.v (NewEvaluator / internalNewEvaluator, Evaluate, Table.Filter), Exec.v (order of the steps of
   Execute); spec: ExprSpec.v (derivation trees of the grammar's HAVING_CLAUSE, their denotation, value comparison). *)
From Coq Require Import List ZArith NArith Bool String.
From Coq.Strings Require Import Byte.
From Coq.Floats Require Import SpecFloat.
Import ListNotations.
From BWGrammar Require Import Grammar GrammarProofs.
From BWGrammar.Gen Require Import GrammarGen.
From BWTable Require Import Cells Fmt StrOrder FmtProofs Sort ValueOrder Limit Reduce Expr ExprSpec Exec ExprProofs BuildProofs GrammarTie
  ValueEngine ValueEngineProofs.
Open Scope Z_scope.

(* ---- the hand-written builder and the grammar ------------------------------------------------------------------- *)
(* For EVERY derivation of HAVING_CLAUSE (any nesting): the builder either rejects its token string or returns
   exactly the expression the derivation denotes. *)
Theorem C13_builder_agrees_with_grammar : forall h e, wf_hc h = true ->
  new_evaluator (yield h) = Ok e -> denote h = Some e.
Proof. exact (builder_agrees_with_grammar cur_lenient_parens). Qed.
Print Assumptions C13_builder_agrees_with_grammar.

(* ... and, since repair baa1aee, it accepts EVERY derivation that has a boolean meaning (completeness) *)
Theorem C13_builder_complete : forall h e, wf_hc h = true -> denote h = Some e -> new_evaluator (yield h) = Ok e.
Proof. exact builder_complete_when_repaired. Qed.
Print Assumptions C13_builder_complete.

(* the same agreement held for the builder as found (which was not complete, see C13_builder_complete_refuted) *)
Theorem C13_builder_agrees_with_grammar_as_found : forall h e, wf_hc h = true ->
  new_evaluator_with false (yield h) = Ok e -> denote h = Some e.
Proof. exact (builder_agrees_with_grammar false). Qed.
Print Assumptions C13_builder_agrees_with_grammar_as_found.

(* The derivation trees of the spec ARE derivations of the grammar table regenerated from grammar.SemanticBQL() on
   every run (token kinds mapped to lexer token types by [code]); and the three generated HAVING rules are literally
   the alternatives the tree constructors encode. *)
Theorem C13_trees_are_grammar_derivations : forall h, wf_hc h = true ->
  der sbql sy_HAVING_CLAUSE (codes (yield h)).
Proof. exact hc_is_derivation. Qed.
Print Assumptions C13_trees_are_grammar_derivations.

(* ... and conversely every derivation of HAVING_CLAUSE in the generated grammar is one of these trees: the theorems about
   all trees are theorems about ALL HAVING token strings the real grammar derives *)
Theorem C13_grammar_derivations_are_trees : forall ts,
  der sbql sy_HAVING_CLAUSE (codes ts) -> exists h, wf_hc h = true /\ yield h = ts.
Proof. exact grammar_derivation_is_tree. Qed.
Print Assumptions C13_grammar_derivations_are_trees.

(* hence, for every token string the grammar derives: if the builder accepts it, the result is the expression denoted
   by a derivation of that string *)
Theorem C13_builder_on_grammar_strings : forall ts e,
  der sbql sy_HAVING_CLAUSE (codes ts) -> new_evaluator ts = Ok e ->
  exists h, wf_hc h = true /\ yield h = ts /\ denote h = Some e.
Proof.
  intros ts e D H. destruct (grammar_derivation_is_tree ts D) as (h & W & Y). exists h. split; [exact W|]. split; [exact Y|].
  apply (builder_agrees_with_grammar cur_lenient_parens h e W). rewrite Y. exact H.
Qed.
Print Assumptions C13_builder_on_grammar_strings.

Theorem C13_grammar_rules :
  rules sbql sy_HAVING_CLAUSE =
    [[T tk_BINDING; NT sy_HAVING_CLAUSE_BINARY_COMPOSITE]; [T tk_NODE; NT sy_HAVING_CLAUSE_BINARY_COMPOSITE];
     [T tk_LITERAL; NT sy_HAVING_CLAUSE_BINARY_COMPOSITE]; [T tk_TIME; NT sy_HAVING_CLAUSE_BINARY_COMPOSITE];
     [T tk_PREDICATE; NT sy_HAVING_CLAUSE_BINARY_COMPOSITE]; [T tk_NOT; NT sy_HAVING_CLAUSE];
     [T tk_LEFT_PARENT; NT sy_HAVING_CLAUSE; T tk_RIGHT_PARENT; NT sy_HAVING_CLAUSE_BINARY_COMPOSITE]] /\
  rules sbql sy_HAVING_CLAUSE_BINARY_COMPOSITE =
    [[T tk_AND; NT sy_HAVING_CLAUSE]; [T tk_OR; NT sy_HAVING_CLAUSE]; [T tk_EQ; NT sy_HAVING_CLAUSE];
     [T tk_LT; NT sy_HAVING_CLAUSE]; [T tk_GT; NT sy_HAVING_CLAUSE]; []] /\
  rules sbql sy_HAVING = [[T tk_HAVING; NT sy_HAVING_CLAUSE]; []].
Proof. exact having_rules_generated. Qed.
Print Assumptions C13_grammar_rules.

(* the model's recursion fuel is always enough *)
Theorem C13_fuel_enough : forall ce, new_evaluator ce <> Err EFuel.
Proof. exact (build_fuel_enough cur_lenient_parens). Qed.
Print Assumptions C13_fuel_enough.

(* the recogniser used by the correspondence to find the derivation of a token list is sound *)
Theorem C13_recogniser_sound : forall ts h, derivation_of ts = Some h -> yield h = ts /\ wf_hc h = true.
Proof. exact derivation_of_sound. Qed.
Print Assumptions C13_recogniser_sound.

(* ==== THE CURRENT ENGINE: the comparison nodes compare BY VALUE (repair ca461fe; model ValueEngine.evalv) ============= *)

Theorem C13_truth_functional : forall a b r x y, evalv a r = Ok x -> evalv b r = Ok y ->
  evalv (ENot a) r = Ok (negb x) /\ evalv (EAnd a b) r = Ok (x && y) /\ evalv (EOr a b) r = Ok (x || y).
Proof. exact evalv_truth_functional. Qed.
Print Assumptions C13_truth_functional.

(* HAVING returns exactly the rows on which the expression is true, unchanged, in their order *)
Theorem C13_filter_exact : forall e rows kept, havingv (Some e) rows = Ok kept ->
  kept = filter (holdsv e) rows /\ Forall (fun r => exists b, evalv e r = Ok b) rows.
Proof. intros e rows kept H. apply havingv_rows_exact. exact H. Qed.
Print Assumptions C13_filter_exact.

Theorem C13_filter_total : forall e rows, Forall (fun r => exists b, evalv e r = Ok b) rows ->
  havingv (Some e) rows = Ok (filter (holdsv e) rows).
Proof. intros e rows F. apply havingv_rows_total. exact F. Qed.
Print Assumptions C13_filter_total.

(* FULL: a binding against a literal constant of its type is the comparison of the VALUES - any int64 (negative too),
   any float64 (order of f64_key), text by characters, bool, blob; an extracted id / type against a text constant is the
   comparison of the characters; two bindings of one kind compare by value; different kinds never hold *)
Theorem C13_compare :
  (forall op l r lt v cmp, rget r l = Some (CL lt) -> lit_ty lt = litval_ty v ->
     evalv (ELit op l (PC v cmp)) r = Ok (cmp_op op (lit_cmp (l_val lt) v))) /\
  (forall op l r s t cmp, rget r l = Some (CS s) ->
     evalv (ELit op l (PC (VText t) cmp)) r = Ok (cmp_op op (str_compare s t))) /\
  (forall op l rb r a b, rget r l = Some a -> rget r rb = Some b ->
     evalv (EBind op l rb) r =
       Ok (if same_fine (text_cell a) (text_cell b) then cmp_op op (cell_cmp (text_cell a) (text_cell b)) else false)).
Proof. split; [exact evalv_lit_compare|]. split; [exact evalv_string_compare | exact evalv_bind_compare]. Qed.
Print Assumptions C13_compare.

(* a value compared with a constant of another kind never holds (node / predicate / time nodes are unchanged) *)
Theorem C13_kind_mismatch_never_holds : forall r l c,
  rget r l = Some c ->
  (forall op v cmp, cell_matches_const c v = false -> evalv (ELit op l (PC v cmp)) r <> Ok true) /\
  (forall op text, cell_kind c <> KN -> evalv (ENode op l text) r <> Ok true) /\
  (forall op text, cell_kind c <> KP -> evalv (EPred op l text) r <> Ok true) /\
  (forall op t, cell_kind c <> KT -> evalv (ETime op l t) r <> Ok true).
Proof.
  intros r l c H. split; [intros; eapply evalv_lit_kind_mismatch; eauto|].
  split; [intros; eapply node_kind_mismatch_never_holds; eauto|].
  split; [intros; eapply pred_kind_mismatch_never_holds; eauto | intros; eapply time_kind_mismatch_never_holds; eauto].
Qed.
Print Assumptions C13_kind_mismatch_never_holds.

(* applied after grouping and ordering, before LIMIT *)
Theorem C13_after_grouping : forall srt s t out,
  execute_tailv_with srt s t = Ok out ->
  exists grouped ordered kept,
    project_and_group_byv_with srt (st_group_by s) (st_projs s) t = Ok grouped /\
    order_byv_with srt (st_order s) (t_rows grouped) = Ok ordered /\
    havingv (st_having s) ordered = Ok kept /\
    plan_limit (st_limit s) kept = Ok (t_rows out).
Proof. exact havingv_after_grouping. Qed.
Print Assumptions C13_after_grouping.

(* the witnesses of the refutations below under the CURRENT engine: ?o < -4 drops -3; ?o < "ab" drops "ab c" *)
Example C13_witnesses_now_right :
  evalv (ELit OLt 1%N (PC (VInt (-4)) (int_cmp_string (-4)))) [(1%N, CL (int_lit (-3)))] = Ok false /\
  evalv (ELit OLt 1%N (PC (VText (list_byte_of_string "ab")) (text_string (list_byte_of_string "ab"))))
        [(1%N, CL (text_lit (list_byte_of_string "ab c")))] = Ok false.
Proof. vm_compute. split; reflexivity. Qed.

(* ==== THE EVALUATOR AS FOUND (comparisons through formatted strings) ================================================== *)
(* ---- NOT, AND, OR ------------------------------------------------------------------------------------------------ *)
Theorem C13_truth_functional_as_found : forall a b r x y, eval a r = Ok x -> eval b r = Ok y ->
  eval (ENot a) r = Ok (negb x) /\ eval (EAnd a b) r = Ok (x && y) /\ eval (EOr a b) r = Ok (x || y).
Proof.
  intros a b r x y H1 H2. split; [apply eval_not; exact H1|]. split; [apply eval_and | apply eval_or]; assumption.
Qed.
Print Assumptions C13_truth_functional_as_found.

Theorem C13_shortcut_as_found : forall a b r,
  (eval a r = Ok false -> eval (EAnd a b) r = Ok false) /\ (eval a r = Ok true -> eval (EOr a b) r = Ok true).
Proof. intros a b r. split; [apply eval_and_shortcut | apply eval_or_shortcut]. Qed.
Print Assumptions C13_shortcut_as_found.

(* ---- the filter -------------------------------------------------------------------------------------------------- *)
(* HAVING returns exactly the rows on which the expression is true, unchanged, in their order - and then every row
   evaluated without error; conversely it fails only if some row does not evaluate *)
Theorem C13_filter_exact_as_found : forall e rows kept, having (Some e) rows = Ok kept ->
  kept = filter (holds e) rows /\ Forall (fun r => exists b, eval e r = Ok b) rows.
Proof. intros e rows kept H. apply having_rows_exact. exact H. Qed.
Print Assumptions C13_filter_exact_as_found.

Theorem C13_filter_total_as_found : forall e rows, Forall (fun r => exists b, eval e r = Ok b) rows ->
  having (Some e) rows = Ok (filter (holds e) rows).
Proof. intros e rows F. apply having_rows_total. exact F. Qed.
Print Assumptions C13_filter_total_as_found.

(* ---- a value compared with a constant of another kind never holds ------------------------------------------------ *)
Theorem C13_kind_mismatch_never_holds_as_found : forall r l c,
  rget r l = Some c ->
  (forall op v cmp, cell_matches_const c v = false -> eval (ELit op l (PC v cmp)) r <> Ok true) /\
  (forall op text, cell_kind c <> KN -> eval (ENode op l text) r <> Ok true) /\
  (forall op text, cell_kind c <> KP -> eval (EPred op l text) r <> Ok true) /\
  (forall op t, cell_kind c <> KT -> eval (ETime op l t) r <> Ok true).
Proof.
  intros r l c H. split; [intros; eapply lit_kind_mismatch_never_holds; eauto|].
  split; [intros; eapply node_kind_mismatch_never_holds; eauto|].
  split; [intros; eapply pred_kind_mismatch_never_holds; eauto | intros; eapply time_kind_mismatch_never_holds; eauto].
Qed.
Print Assumptions C13_kind_mismatch_never_holds_as_found.

(* ---- applied after grouping (and ordering), before LIMIT --------------------------------------------------------- *)
Theorem C13_after_grouping_as_found : forall srt fx s t out,
  execute_tail_with srt fx s t = Ok out ->
  exists grouped ordered kept,
    project_and_group_by_with srt fx (st_group_by s) (st_projs s) t = Ok grouped /\
    order_by_with srt (st_order s) (t_rows grouped) = Ok ordered /\
    having (st_having s) ordered = Ok kept /\
    plan_limit (st_limit s) kept = Ok (t_rows out).
Proof. exact having_after_grouping. Qed.
Print Assumptions C13_after_grouping_as_found.

(* ---- comparisons -------------------------------------------------------------------------------------------------- *)
(* time anchors against a time constant: as instants, whatever the zones and precisions *)
Theorem C13_compare_time : forall op l ns r tm, rget r l = Some (CT tm) ->
  eval (ETime op l (Some ns)) r = Ok (cmp_holds op (Z.compare (t_ns tm) ns)).
Proof. exact time_compare_instants. Qed.
Print Assumptions C13_compare_time.

(* partial (D12): non-negative int64 numerically; text and extracted ids/types lexicographically when no byte is
   below or equal to the closing quote *)
Theorem C13_compare_as_found_partial :
  (forall op l r a b, 0 <= a < two63 -> 0 <= b < two63 -> rget r l = Some (CL (int_lit a)) ->
     eval (ELit op l (PC (VInt b) (int_cmp_string b))) r = Ok (cmp_holds op (Z.compare a b))) /\
  (forall op l r a b, above_quote a = true -> above_quote b = true -> rget r l = Some (CL (text_lit a)) ->
     eval (ELit op l (PC (VText b) (text_string b))) r = Ok (cmp_holds op (str_compare a b))) /\
  (forall op l r a b, above_quote a = true -> above_quote b = true -> rget r l = Some (CS a) ->
     eval (ELit op l (PC (VText b) (text_string b))) r = Ok (cmp_holds op (str_compare a b))).
Proof.
  split; [exact lit_compare_int_d12|]. split; [exact lit_compare_text_d12 | exact lit_compare_string_d12].
Qed.
Print Assumptions C13_compare_as_found_partial.

(* ---- non-vacuity -------------------------------------------------------------------------------------------------- *)
Definition bs (s : string) : str := list_byte_of_string s.
Definition tB (n : N) (s : string) := mkTok KBinding (bs s) n PCError None.
Definition tK (k : tkind) (s : string) := mkTok k (bs s) 0%N PCError None.
Definition tInt (v : Z) := mkTok KLiteral (int_string v) 0%N (PC (VInt v) (int_cmp_string v)) None.
Definition tNode (s : string) := mkTok KNode (bs s) 0%N PCError None.

(* ( ?a < 5 ) AND NOT ?b = /u<a> *)
Definition ex_tokens : list tok :=
  [tK KLPar "("; tB 1 "?a"; tK KLt "<"; tInt 5; tK KRPar ")"; tK KAnd "and"; tK KNot "not"; tB 2 "?b"; tK KEq "="; tNode "/u<a>"].
Example C13_builder_nonvacuous :
  exists h, derivation_of ex_tokens = Some h /\
    new_evaluator ex_tokens = Ok (EAnd (ELit OLt 1%N (PC (VInt 5) (int_cmp_string 5))) (ENot (ENode OEq 2%N (bs "/u<a>")))) /\
    holdsv (EAnd (ELit OLt 1%N (PC (VInt 5) (int_cmp_string 5))) (ENot (ENode OEq 2%N (bs "/u<a>"))))
          [(1%N, CL (int_lit 3)); (2%N, CN (bs "/u<b>"))] = true.
Proof. eexists. split; [vm_compute; reflexivity|]. split; vm_compute; reflexivity. Qed.

(* ---- refuted outside D12 (witnesses replayed on the engine by checks/c13.py) -------------------------------------- *)
(* ?o < "-4"^^type:int64 keeps -3 *)
Theorem C13_compare_negative_refuted :
  exists r, rget r 1%N = Some (CL (int_lit (-3))) /\
    eval (ELit OLt 1%N (PC (VInt (-4)) (int_cmp_string (-4)))) r = Ok true /\ Z.ltb (-3) (-4) = false.
Proof. exists [(1%N, CL (int_lit (-3)))]. repeat split; vm_compute; reflexivity. Qed.
Print Assumptions C13_compare_negative_refuted.

Definition fltc (s : bool) (m : positive) (e : Z) (str cmp : string) : cell :=
  CL (mkLit (VFloat (S754_finite s m e)) (bs str) (bs cmp)).
(* ?o < 2e+29 keeps 1e+30 (width); ?o = 2e-07 keeps 1e-07 (precision) *)
Theorem C13_compare_float_refuted :
  (exists r, rget r 1%N = Some (fltc false 7105427357601002 47 """1e+30""^^type:float64"
                                     """1000000000000000019884624838656.000000""^^type:float64") /\
     eval (ELit OLt 1%N (PC (VFloat (S754_finite false 5684341886080801 45))
                            (bs """199999999999999982866301714432.000000""^^type:float64"))) r = Ok true /\
     SFcompare (S754_finite false 7105427357601002 47) (S754_finite false 5684341886080801 45) = Some Gt) /\
  (exists r, rget r 1%N = Some (fltc false 7555786372591432 (-76) """1e-07""^^type:float64"
                                     """0000000000000000000000000.000000""^^type:float64") /\
     eval (ELit OEq 1%N (PC (VFloat (S754_finite false 7555786372591432 (-75)))
                            (bs """0000000000000000000000000.000000""^^type:float64"))) r = Ok true /\
     SFcompare (S754_finite false 7555786372591432 (-76)) (S754_finite false 7555786372591432 (-75)) = Some Lt).
Proof.
  split.
  - exists [(1%N, fltc false 7105427357601002 47 """1e+30""^^type:float64"
                    """1000000000000000019884624838656.000000""^^type:float64")].
    repeat split; vm_compute; reflexivity.
  - exists [(1%N, fltc false 7555786372591432 (-76) """1e-07""^^type:float64"
                    """0000000000000000000000000.000000""^^type:float64")].
    repeat split; vm_compute; reflexivity.
Qed.
Print Assumptions C13_compare_float_refuted.

(* text (and extracted ids, which go through a text literal): ?o < "ab" keeps "ab c" *)
Theorem C13_compare_text_refuted :
  (exists r, rget r 1%N = Some (CL (text_lit (bs "ab c"))) /\
     eval (ELit OLt 1%N (PC (VText (bs "ab")) (text_string (bs "ab")))) r = Ok true /\
     str_compare (bs "ab c") (bs "ab") = Gt) /\
  (exists r, rget r 1%N = Some (CS (bs "ab c")) /\
     eval (ELit OLt 1%N (PC (VText (bs "ab")) (text_string (bs "ab")))) r = Ok true).
Proof.
  split.
  - exists [(1%N, CL (text_lit (bs "ab c")))]. repeat split; vm_compute; reflexivity.
  - exists [(1%N, CS (bs "ab c"))]. repeat split; vm_compute; reflexivity.
Qed.
Print Assumptions C13_compare_text_refuted.

(* the builder AS FOUND was not complete: "( ( ( ?a < 5 ) ) )" is a derivation with a boolean meaning and was
   rejected (as was every clause following a parenthesised clause inside parentheses: "( ( A ) and ( B ) ) or ( C )") *)
Theorem C13_builder_complete_refuted :
  exists h e, wf_hc h = true /\ denote h = Some e /\ new_evaluator_with false (yield h) = Err EBuild.
Proof.
  exists (HParen (tK KLPar "(") (HParen (tK KLPar "(") (HParen (tK KLPar "(")
            (HOperand (tB 1 "?a") (COp (tK KLt "<") (HOperand (tInt 5) CEmpty)))
            (tK KRPar ")") CEmpty) (tK KRPar ")") CEmpty) (tK KRPar ")") CEmpty).
  eexists. split; [reflexivity|]. split; vm_compute; reflexivity.
Qed.
Print Assumptions C13_builder_complete_refuted.
