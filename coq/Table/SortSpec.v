(* SPEC for C12: what "ordered by the listed keys in sequence and direction" means on VALUES, and the comparable
   domain D12 on which the string-based implementation is claimed to agree with it. *)
From Coq Require Import List ZArith NArith Bool Sorted.
From Coq.Floats Require Import SpecFloat.
From Coq.Strings Require Import Byte.
Import ListNotations.
From BWTable Require Import Cells Fmt StrOrder FmtProofs Sort SortProofs.

(* value order of two cells of the same kind: int64 numerically, time anchors chronologically, text by its
   characters, blob by its bytes, float64 numerically (IEEE comparison; NaN compares equal to everything), every other
   value by its printed form. *)
Definition spec_cmp (a b : cell) : comparison :=
  match a, b with
  | CL la, CL lb =>
      match l_val la, l_val lb with
      | VInt x, VInt y => Z.compare x y
      | VText x, VText y => str_compare x y
      | VBlob x, VBlob y => str_compare x y
      | VFloat x, VFloat y => match SFcompare x y with Some o => o | None => Eq end
      | _, _ => str_compare (l_str la) (l_str lb)
      end
  | CT ta, CT tb => Z.compare (t_ns ta) (t_ns tb)
  | _, _ => str_compare (cell_string a) (cell_string b)
  end.

Definition opt_spec_cmp (a b : option cell) : comparison :=
  match a, b with
  | Some x, Some y => spec_cmp x y
  | None, None => Eq
  | None, Some _ => Lt
  | Some _, None => Gt
  end.

Fixpoint spec_row_cmp (c : list skey) (ri rj : row) : comparison :=
  match c with
  | [] => Eq
  | k :: rest =>
      lex_cmp (dir_cmp (k_desc k) (opt_spec_cmp (rget ri (k_b k)) (rget rj (k_b k)))) (spec_row_cmp rest ri rj)
  end.

(* the rows are in order: no earlier row is greater than a later one *)
Definition spec_sorted (c : list skey) (l : list row) : Prop :=
  StronglySorted (fun a b => spec_row_cmp c a b <> Gt) l.

(* ---- D12 ----------------------------------------------------------------------------------------------- *)
Inductive fkind := FNull | FS | FN | FP | FT | FL (t : lit_type).
Definition fine_kind (c : cell) : fkind :=
  match c with
  | CNull => FNull | CS _ => FS | CN _ => FN | CP _ => FP | CT _ => FT | CL l => FL (lit_ty l)
  end.
Definition fkind_eqb (a b : fkind) : bool :=
  match a, b with
  | FNull, FNull | FS, FS | FN, FN | FP, FP | FT, FT => true
  | FL x, FL y => lit_type_eqb x y
  | _, _ => false
  end.

Definition trim_ok (s : str) : bool := str_eqb (trim_space s) s.

(* D12, generic in what is known about the two ORACLE formats (RFC3339Nano of time anchors, %032f of float64):
   [tm_ok t]  the printed form of the anchor is accepted (e.g. it is the oracle's rendering of its instant),
   [tm_pair]  two anchors are comparable through their printed forms (same zone, same number of fraction digits),
   [fl_ok l]  the comparable string of the float64 literal is accepted (value inside the domain of the oracle law).
   Per cell otherwise: non-negative int64 rendered as %032d; text without bytes <= 0x22 (so that the closing quote
   cannot decide a comparison); bool / blob / node / predicate / string cells whose compared string is the printed
   form and has no leading or trailing white space. *)
Section D12.
  Variable tm_ok : tim -> bool.
  Variable tm_pair : tim -> tim -> bool.
  Variable fl_ok : lit -> bool.

  Definition d12_cell_gen (c : cell) : bool :=
    match c with
    | CNull => true
    | CS s | CN s | CP s => trim_ok s
    | CT t => tm_ok t
    | CL l =>
        match l_val l with
        | VInt v => (0 <=? v)%Z && (v <? two63)%Z && str_eqb (l_cmp l) (int_cmp_string v)
        | VText s => above_quote s && str_eqb (l_cmp l) (text_string s)
        | VFloat _ => fl_ok l
        | VBool _ => str_eqb (l_cmp l) (l_str l) && trim_ok (l_cmp l)
        | VBlob _ => false          (* as found blobs were ordered by their printed decimal form, not by their bytes *)
        end
    end.

  Definition pair_ok_gen (a b : cell) : bool :=
    match a, b with
    | CT x, CT y => tm_pair x y
    | _, _ => true
    end.

  Definition same_fine_kinds_gen (c : list skey) (ri rj : row) : bool :=
    forallb (fun k => match rget ri (k_b k), rget rj (k_b k) with
                      | Some a, Some b => fkind_eqb (fine_kind a) (fine_kind b) && pair_ok_gen a b
                      | _, _ => false
                      end) c.

  Definition d12_row_gen (c : list skey) (r : row) : bool :=
    forallb (fun k => match rget r (k_b k) with Some x => d12_cell_gen x | None => false end) c.

  Definition d12_gen (c : list skey) (rows : list row) : bool :=
    forallb (fun ri => d12_row_gen c ri && forallb (fun rj => same_fine_kinds_gen c ri rj) rows) rows.
End D12.

(* the instance that knows nothing about the oracle formats: time anchors and float64 are outside *)
Definition no_tim (_ : tim) : bool := false.
Definition any_tim_pair (_ _ : tim) : bool := true.
Definition no_lit (_ : lit) : bool := false.
Definition d12_cell := d12_cell_gen no_tim no_lit.
Definition same_fine_kinds := same_fine_kinds_gen any_tim_pair.
Definition d12_row := d12_row_gen no_tim no_lit.
Definition d12 := d12_gen no_tim any_tim_pair no_lit.

(* the instance for a given rendering of time anchors and of float64 literals (oracles):
   anchors: printed form = the rendering of (instant, zone); comparable when zone and length agree;
   float64: finite, non-negative, below 10^25, at most six decimals (value * 10^6 is an integer), and the comparable
   string is the rendering *)
Definition sf_in_domain (f : spec_float) : bool :=
  match f with
  | S754_zero _ => true
  | S754_finite false m e =>
      let num := (Z.pos m * 10 ^ 6)%Z in
      (if (0 <=? e)%Z then true else Z.eqb (num mod 2 ^ (- e)) 0)%Z &&
      (if (0 <=? e)%Z then (Z.pos m * 2 ^ e <? 10 ^ 25)%Z else (Z.pos m <? 10 ^ 25 * 2 ^ (- e))%Z)
  | _ => false
  end.

Section Oracles.
  Variable fmt_time : Z -> Z -> str.        (* instant (ns), zone offset (s) -> Time.Format(RFC3339Nano) *)
  Variable fmt_float : spec_float -> str.   (* value -> Literal.ToComparableString() of a float64 literal *)

  Definition tm_ok_o (t : tim) : bool := in_int64 (t_ns t) && str_eqb (t_str t) (fmt_time (t_ns t) (t_off t)).
  Definition tm_pair_o (a b : tim) : bool :=
    Z.eqb (t_off a) (t_off b) && Nat.eqb (length (t_str a)) (length (t_str b)).
  Definition fl_ok_o (l : lit) : bool :=
    match l_val l with
    | VFloat f => sf_in_domain f && str_eqb (l_cmp l) (fmt_float f)
    | _ => false
    end.
  Definition d12_o := d12_gen tm_ok_o tm_pair_o fl_ok_o.
End Oracles.

(* boolean versions used by the correspondence and by the refutations *)
Fixpoint ssorted_b {A} (r : A -> A -> bool) (l : list A) : bool :=
  match l with
  | [] => true
  | a :: t => forallb (r a) t && ssorted_b r t
  end.

Definition not_gt (c : comparison) : bool := match c with Gt => false | _ => true end.
Definition spec_sorted_b (c : list skey) (l : list row) : bool :=
  ssorted_b (fun a b => not_gt (spec_row_cmp c a b)) l.
Definition no_inversion_b {A} (less : A -> A -> bool) (l : list A) : bool :=
  ssorted_b (fun a b => negb (less b a)) l.
