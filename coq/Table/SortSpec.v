(* SPEC for C12: what "ordered by the listed keys in sequence and direction" means on VALUES, and the comparable
   domain D12 on which the string-based implementation is claimed to agree with it. *)
From Coq Require Import List ZArith NArith Bool Sorted.
From Coq.Floats Require Import SpecFloat.
From Coq.Strings Require Import Byte.
Import ListNotations.
From BWTable Require Import Cells Fmt StrOrder FmtProofs Sort SortProofs.

(* value order of two cells of the same kind: int64 numerically, time anchors chronologically, text by its
   characters, float64 numerically (IEEE comparison; NaN compares equal to everything), every other value by its
   printed form. *)
Definition spec_cmp (a b : cell) : comparison :=
  match a, b with
  | CL la, CL lb =>
      match l_val la, l_val lb with
      | VInt x, VInt y => Z.compare x y
      | VText x, VText y => str_compare x y
      | VFloat x, VFloat y => match SFcompare x y with Some o => o | None => Eq end
      | _, _ => str_compare (l_str la) (l_str lb)
      end
  | CT ta, CT tb => Z.compare (t_ns ta) (t_ns tb)
  | _, _ => str_compare (cell_string a) (cell_string b)
  end.

Definition opt_spec_cmp (a b : option cell) : comparison :=
  match a, b with
  | Some x, Some y => spec_cmp x y
  | None, None => Eq
  | None, Some _ => Lt
  | Some _, None => Gt
  end.

Fixpoint spec_row_cmp (c : list skey) (ri rj : row) : comparison :=
  match c with
  | [] => Eq
  | k :: rest =>
      lex_cmp (dir_cmp (k_desc k) (opt_spec_cmp (rget ri (k_b k)) (rget rj (k_b k)))) (spec_row_cmp rest ri rj)
  end.

(* the rows are in order: no earlier row is greater than a later one *)
Definition spec_sorted (c : list skey) (l : list row) : Prop :=
  StronglySorted (fun a b => spec_row_cmp c a b <> Gt) l.

(* ---- D12 ----------------------------------------------------------------------------------------------- *)
Inductive fkind := FNull | FS | FN | FP | FT | FL (t : lit_type).
Definition fine_kind (c : cell) : fkind :=
  match c with
  | CNull => FNull | CS _ => FS | CN _ => FN | CP _ => FP | CT _ => FT | CL l => FL (lit_ty l)
  end.
Definition fkind_eqb (a b : fkind) : bool :=
  match a, b with
  | FNull, FNull | FS, FS | FN, FN | FP, FP | FT, FT => true
  | FL x, FL y => lit_type_eqb x y
  | _, _ => false
  end.

Definition trim_ok (s : str) : bool := str_eqb (trim_space s) s.

(* per cell: non-negative int64 rendered as %032d; text without bytes <= 0x22 (so that the closing quote cannot
   decide a comparison); bool / blob / node / predicate / string cells whose compared string is the printed form and
   has no leading or trailing white space.  Time anchors and float64 are NOT in this predicate: their formatting
   is an oracle. *)
Definition d12_cell (c : cell) : bool :=
  match c with
  | CNull => true
  | CS s | CN s | CP s => trim_ok s
  | CT _ => false
  | CL l =>
      match l_val l with
      | VInt v => (0 <=? v)%Z && (v <? two63)%Z && str_eqb (l_cmp l) (int_cmp_string v)
      | VText s => above_quote s && str_eqb (l_cmp l) (text_string s)
      | VFloat _ => false
      | VBool _ | VBlob _ => str_eqb (l_cmp l) (l_str l) && trim_ok (l_cmp l)
      end
  end.

Definition same_fine_kinds (c : list skey) (ri rj : row) : bool :=
  forallb (fun k => match rget ri (k_b k), rget rj (k_b k) with
                    | Some a, Some b => fkind_eqb (fine_kind a) (fine_kind b)
                    | _, _ => false
                    end) c.

Definition d12_row (c : list skey) (r : row) : bool :=
  forallb (fun k => match rget r (k_b k) with Some x => d12_cell x | None => false end) c.

Definition d12 (c : list skey) (rows : list row) : bool :=
  forallb (fun ri => d12_row c ri && forallb (fun rj => same_fine_kinds c ri rj) rows) rows.

(* boolean versions used by the correspondence and by the refutations *)
Fixpoint ssorted_b {A} (r : A -> A -> bool) (l : list A) : bool :=
  match l with
  | [] => true
  | a :: t => forallb (r a) t && ssorted_b r t
  end.

Definition not_gt (c : comparison) : bool := match c with Gt => false | _ => true end.
Definition spec_sorted_b (c : list skey) (l : list row) : bool :=
  ssorted_b (fun a b => not_gt (spec_row_cmp c a b)) l.
Definition no_inversion_b {A} (less : A -> A -> bool) (l : list A) : bool :=
  ssorted_b (fun a b => negb (less b a)) l.
