(* C11: on grouping columns that are homogeneous and id-consistent (D11) the runs Reduce folds ARE the groups:
   one run per distinct group id, each run = all rows with that id. *)
From Coq Require Import List ZArith NArith Bool Permutation Sorted Lia.
From Coq.Strings Require Import Byte.
Import ListNotations.
From BWTable Require Import Cells Fmt StrOrder Sort SortProofs LimitProofs Reduce ReduceSpec ReduceProofs.

Definition is_eq (c : comparison) : bool := match c with Eq => true | _ => false end.

(* the printed group ids are equal exactly when rowLess cannot tell the rows apart *)
Definition id_consistent (ks : list skey) (rows : list row) : bool :=
  forallb (fun a => forallb (fun b =>
    Bool.eqb (str_eqb (group_id ks a) (group_id ks b)) (is_eq (key_cmp ks a b))) rows) rows.

Definition d11 (ks : list skey) (rows : list row) : bool := homogeneous ks rows && id_consistent ks rows.

Lemma id_consistent_spec : forall ks rows a b, id_consistent ks rows = true -> In a rows -> In b rows ->
  (group_id ks a = group_id ks b <-> key_cmp ks a b = Eq).
Proof.
  intros ks rows a b H Ha Hb. unfold id_consistent in H. rewrite forallb_forall in H.
  specialize (H a Ha). rewrite forallb_forall in H. specialize (H b Hb). apply eqb_prop in H.
  rewrite <- str_eqb_eq. rewrite H. destruct (key_cmp ks a b); cbn; split; congruence.
Qed.

Section Runs.
  Variable ks : list skey.
  Let cmp := key_cmp ks.
  Let C : comparator cmp := key_cmp_comparator ks.

  Definition glt (g h : list row) : Prop :=
    match g, h with
    | a :: _, b :: _ => cmp a b = Lt
    | _, _ => False
    end.

  Lemma runs_head_in : forall l y g gs, runs ks l = (y :: g) :: gs -> In y l.
  Proof.
    intros l y g gs H. rewrite <- (runs_concat ks l), H. cbn. left. reflexivity.
  Qed.

  Lemma runs_heads_increasing : forall l,
    StronglySorted (fun a b => lt_of cmp b a = false) l ->
    (forall a b, In a l -> In b l -> (group_id ks a = group_id ks b <-> cmp a b = Eq)) ->
    StronglySorted glt (runs ks l).
  Proof.
    induction l as [|x t IH]; intros S E; [constructor|].
    inversion S as [|? ? St Fx]; subst.
    assert (IHt : StronglySorted glt (runs ks t)).
    { apply IH; [exact St|]. intros a b Ha Hb. apply E; right; assumption. }
    cbn [runs]. destruct (runs ks t) as [|[|y g] gs] eqn:R.
    - constructor; constructor.
    - constructor; constructor.
    - assert (Hy : In y t) by (eapply runs_head_in; exact R).
      inversion IHt as [|? ? Sgs Fg]; subst.
      destruct (str_eqb (group_id ks x) (group_id ks y)) eqn:Q.
      + apply str_eqb_eq in Q. apply (E x y (or_introl eq_refl) (or_intror Hy)) in Q.
        constructor; [exact Sgs|]. rewrite Forall_forall in *. intros h Hh. specialize (Fg h Hh).
        destruct h as [|b h']; cbn in *; [exact Fg|]. rewrite (cmp_eq_l cmp C x y b Q). exact Fg.
      + assert (Lxy : cmp x y = Lt).
        { rewrite Forall_forall in Fx. specialize (Fx y Hy). apply lt_of_false in Fx.
          destruct (cmp x y) eqn:Cxy; [| reflexivity |].
          - apply (E x y (or_introl eq_refl) (or_intror Hy)) in Cxy. rewrite Cxy, str_eqb_refl in Q. discriminate.
          - exfalso. apply Fx. rewrite (cmp_sym cmp C x y), Cxy. reflexivity. }
        constructor; [exact IHt|]. constructor; [exact Lxy|].
        rewrite Forall_forall in *. intros h Hh. specialize (Fg h Hh).
        destruct h as [|b h']; cbn in *; [exact Fg|]. eapply (cmp_trans_lt cmp C); eauto.
  Qed.

  Lemma glt_heads_differ : forall g h, glt g h ->
    (forall a b, In a g -> In b h -> (group_id ks a = group_id ks b <-> cmp a b = Eq)) ->
    head_id ks g <> head_id ks h.
  Proof.
    intros [|a g] [|b h] L E; cbn in *; try contradiction.
    intro Q. apply (E a b (or_introl eq_refl) (or_introl eq_refl)) in Q. congruence.
  Qed.

  Lemma increasing_nodup : forall gs,
    StronglySorted glt gs ->
    (forall a b, In a (concat gs) -> In b (concat gs) -> (group_id ks a = group_id ks b <-> cmp a b = Eq)) ->
    NoDup (map (head_id ks) gs).
  Proof.
    induction gs as [|g gs IH]; intros S E; [constructor|].
    inversion S as [|? ? Sg Fg]; subst. cbn [map]. constructor.
    - intro Hin. apply in_map_iff in Hin. destruct Hin as (h & Hh & Hi).
      rewrite Forall_forall in Fg. specialize (Fg h Hi).
      apply (glt_heads_differ g h Fg); [|symmetry; exact Hh].
      intros a b Ha Hb. apply E; cbn [concat]; apply in_or_app; [left; exact Ha|right].
      apply in_concat. exists h. auto.
    - apply IH; [exact Sg|]. intros a b Ha Hb. apply E; cbn [concat]; apply in_or_app; right; assumption.
  Qed.
End Runs.

Lemma forallb_filter_id : forall {A} (f : A -> bool) l, forallb f l = true -> filter f l = l.
Proof.
  intros A f. induction l as [|x t IH]; cbn; intro H; [reflexivity|].
  apply andb_prop in H. destruct H as [Hx Ht]. rewrite Hx, (IH Ht). reflexivity.
Qed.

Lemma filter_nil : forall {A} (f : A -> bool) l, (forall x, In x l -> f x = false) -> filter f l = [].
Proof.
  intros A f. induction l as [|x t IH]; cbn; intro H; [reflexivity|].
  rewrite (H x (or_introl eq_refl)). apply IH. intros y Hy. apply H. right. exact Hy.
Qed.

(* each run holds ALL rows of the table with its id *)
Lemma filter_concat_runs : forall ks gs g,
  NoDup (map (head_id ks) gs) -> In g gs ->
  Forall (fun g => g <> []) gs ->
  Forall (fun g => forall a b, In a g -> In b g -> group_id ks a = group_id ks b) gs ->
  filter (fun r => str_eqb (group_id ks r) (head_id ks g)) (concat gs) = g.
Proof.
  intros ks. induction gs as [|h gs IH]; intros g N Hg Ne Sm; [contradiction|].
  inversion N as [|? ? Nh Ngs]; subst. inversion Ne as [|? ? Hne Ne']; subst. inversion Sm as [|? ? Hsm Sm']; subst.
  cbn [concat]. rewrite filter_app.
  assert (All : forall k, k <> [] -> (forall a b, In a k -> In b k -> group_id ks a = group_id ks b) ->
                forall r, In r k -> group_id ks r = head_id ks k).
  { intros [|a k] Hk Hs r Hr; [congruence|]. cbn. apply Hs; [exact Hr | left; reflexivity]. }
  destruct Hg as [<-|Hg].
  - (* the run itself is kept entirely, nothing of the later runs has its id *)
    assert (F1 : filter (fun r => str_eqb (group_id ks r) (head_id ks h)) h = h).
    { apply forallb_filter_id. apply forallb_forall. intros r Hr. apply str_eqb_eq. apply All; assumption. }
    assert (F2 : filter (fun r => str_eqb (group_id ks r) (head_id ks h)) (concat gs) = []).
    { apply filter_nil. intros r Hr. apply in_concat in Hr. destruct Hr as (k & Hk & Hrk).
      destruct (str_eqb (group_id ks r) (head_id ks h)) eqn:Q; [|reflexivity]. exfalso.
      apply str_eqb_eq in Q. apply Nh. apply in_map_iff. exists k. split; [|exact Hk].
      rewrite Forall_forall in Ne', Sm'. rewrite <- Q. symmetry.
      apply All; [apply Ne'; exact Hk | apply Sm'; exact Hk | exact Hrk]. }
    rewrite F1, F2, app_nil_r. reflexivity.
  - assert (F1 : filter (fun r => str_eqb (group_id ks r) (head_id ks g)) h = []).
    { apply filter_nil. intros r Hr.
      destruct (str_eqb (group_id ks r) (head_id ks g)) eqn:Q; [|reflexivity]. exfalso.
      apply str_eqb_eq in Q. apply Nh. apply in_map_iff. exists g. split; [|exact Hg].
      rewrite <- Q. apply All; assumption. }
    rewrite F1. cbn [app]. apply IH; assumption.
Qed.

Lemma Permutation_filter' : forall {A} (f : A -> bool) l l', Permutation l l' -> Permutation (filter f l) (filter f l').
Proof.
  intros A f l l' P. induction P; cbn.
  - constructor.
  - destruct (f x); [constructor|]; assumption.
  - destruct (f x), (f y); try apply perm_swap; apply Permutation_refl.
  - eapply perm_trans; eauto.
Qed.

(* MAIN *)
Theorem d11_runs_are_groups : forall srt k ks rows sorted,
  sorter_ok srt -> d11 (k :: ks) rows = true ->
  table_sort_with srt (Some (k :: ks)) rows = Ok sorted ->
  let gs := runs (k :: ks) sorted in
  Permutation rows (concat gs) /\
  NoDup (map (head_id (k :: ks)) gs) /\
  (forall g, In g gs ->
     Permutation g (filter (fun r => str_eqb (group_id (k :: ks) r) (head_id (k :: ks) g)) rows)).
Proof.
  intros srt k ks rows sorted S D H gs.
  unfold d11 in D. apply andb_prop in D. destruct D as [Hh Hc].
  (* the sorted table: a permutation without inversions *)
  assert (PS : Permutation rows sorted /\ no_inversion (row_lt (k :: ks)) sorted).
  { unfold table_sort_with in H. destruct rows as [|r1 [|r2 rows']].
    - injection H as <-. split; [apply Permutation_refl | constructor].
    - injection H as <-. split; [apply Permutation_refl | constructor; constructor].
    - destruct (forallb (has_keys (k :: ks)) (r1 :: r2 :: rows')); [|discriminate]. injection H as <-.
      destruct (S (row_lt (k :: ks)) (r1 :: r2 :: rows')) as [P N]. split; [exact P|].
      apply N. apply row_lt_strict_weak. exact Hh. }
  destruct PS as [P N].
  assert (In_rows : forall x, In x sorted -> In x rows)
    by (intros x Hx; eapply Permutation_in; [apply Permutation_sym; exact P | exact Hx]).
  assert (E : forall a b, In a sorted -> In b sorted ->
              (group_id (k :: ks) a = group_id (k :: ks) b <-> key_cmp (k :: ks) a b = Eq))
    by (intros a b Ha Hb; apply (id_consistent_spec _ rows); auto).
  assert (S' : StronglySorted (fun a b => lt_of (key_cmp (k :: ks)) b a = false) sorted).
  { eapply ss_transfer; [exact N|]. intros a b Ha Hb Hab. cbv beta in Hab |- *.
    rewrite <- (row_lt_key_cmp (k :: ks) b a); [exact Hab|].
    eapply homogeneous_pair; [exact Hh | apply In_rows; exact Hb | apply In_rows; exact Ha]. }
  assert (Inc : StronglySorted (glt (k :: ks)) gs) by (apply runs_heads_increasing; assumption).
  assert (ND : NoDup (map (head_id (k :: ks)) gs)).
  { apply increasing_nodup; [exact Inc|]. unfold gs. rewrite runs_concat. exact E. }
  split; [unfold gs; rewrite runs_concat; exact P|]. split; [exact ND|].
  intros g Hg.
  rewrite <- (filter_concat_runs (k :: ks) gs g ND Hg (runs_nonempty _ _) (runs_same_id _ _)) at 1.
  unfold gs. rewrite runs_concat. apply Permutation_filter'. apply Permutation_sym. exact P.
Qed.

(* ---- the aggregates of a group do not depend on the order of its rows: the run Reduce folds (a permutation of the
   input rows with that id, d11_runs_are_groups) yields the aggregates of the group itself ------------------------- *)
Lemma zsum_perm : forall a b, Permutation a b -> zsum a = zsum b.
Proof.
  intros a b P. unfold zsum. induction P; cbn [fold_right]; lia.
Qed.

Lemma distinct_count_perm : forall l l', Permutation l l' -> distinct_count [] l = distinct_count [] l'.
Proof.
  intros l l' P.
  destruct (distinct_final_spec l [] (NoDup_nil _)) as [N I].
  rewrite (distinct_count_is_set_size l (distinct_final [] l) N).
  - symmetry. apply (distinct_count_is_set_size l' (distinct_final [] l) N).
    intro x. rewrite I. cbn. split; [intros [[]|H]; eapply Permutation_in; eauto | intro H; right;
      eapply Permutation_in; [apply Permutation_sym; exact P | exact H]].
  - intro x. rewrite I. cbn. tauto.
Qed.

Lemma int_cell_inj : forall x y, int_cell x = int_cell y -> x = y.
Proof. intros x y H. unfold int_cell, int_lit in H. injection H as H _ _. exact H. Qed.

Theorem aggregates_order_independent : forall a g g' c c',
  Permutation g g' ->
  match g with r :: _ => rget r (a_in a) = Some c | [] => True end ->
  match g' with r :: _ => rget r (a_in a) = Some c' | [] => True end ->
  (a_acc a = AccCount -> reduce_column a g = reduce_column a g') /\
  (a_acc a = AccCountDistinct -> reduce_column a g = reduce_column a g') /\
  (a_acc a = AccSumInt -> forall vs, map (fun r => rget r (a_in a)) g = map int_cell vs ->
     reduce_column a g = reduce_column a g').
Proof.
  intros a g g' c c' P Hc Hc'.
  destruct g as [|r g0]; destruct g' as [|r' g0'].
  - repeat split; intros; reflexivity.
  - apply Permutation_nil in P. discriminate.
  - apply Permutation_sym, Permutation_nil in P. discriminate.
  - repeat split.
    + intro K. unfold reduce_column. rewrite Hc, Hc', K. rewrite (Permutation_length P). reflexivity.
    + intro K. unfold reduce_column. rewrite Hc, Hc', K. do 4 f_equal.
      rewrite !map_map. apply distinct_count_perm. apply Permutation_map. exact P.
    + intros K vs E. unfold reduce_column. rewrite Hc, Hc', K.
      pose proof (Permutation_map (fun r => rget r (a_in a)) P) as PM. rewrite E in PM.
      destruct (Permutation_map_inv _ _ (Permutation_sym PM)) as (vs' & E' & P').
      rewrite E, E', !sum_int_wraps. cbn [bind]. rewrite (zsum_perm vs vs' P'). reflexivity.
Qed.
