(* Proofs for C11: what the accumulators compute, the shape of the runs Reduce folds, the empty input. *)
From Coq Require Import List ZArith NArith Bool Permutation Sorted Lia.
From Coq.Strings Require Import Byte.
Import ListNotations.
From BWTable Require Import Cells Fmt StrOrder Sort SortProofs Reduce ReduceSpec.
Open Scope Z_scope.

(* ---- count distinct = size of the set of values ------------------------------------------------------------ *)
Lemma str_mem_In : forall s l, str_mem s l = true <-> In s l.
Proof.
  intros s l. induction l as [|x t IH]; cbn; [split; [discriminate | tauto]|].
  rewrite orb_true_iff, IH, str_eqb_eq. split; intros [H|H]; auto.
Qed.

Fixpoint distinct_final (seen : list str) (l : list str) : list str :=
  match l with
  | [] => seen
  | x :: t => if str_mem x seen then distinct_final seen t else distinct_final (x :: seen) t
  end.

Lemma distinct_count_final : forall l seen, distinct_count seen l = Z.of_nat (length (distinct_final seen l)).
Proof. induction l as [|x t IH]; intro seen; cbn; [reflexivity|]. destruct (str_mem x seen); apply IH. Qed.

Lemma distinct_final_spec : forall l seen, NoDup seen ->
  NoDup (distinct_final seen l) /\ (forall x, In x (distinct_final seen l) <-> In x seen \/ In x l).
Proof.
  induction l as [|y t IH]; intros seen Hs; cbn.
  - split; [exact Hs|]. intro x. tauto.
  - destruct (str_mem y seen) eqn:E.
    + destruct (IH seen Hs) as [N I]. split; [exact N|]. intro x. rewrite I.
      apply str_mem_In in E. split; [tauto|]. intros [H|[->|H]]; auto.
    + assert (Hy : ~ In y seen) by (intro H; apply str_mem_In in H; congruence).
      destruct (IH (y :: seen) (NoDup_cons y Hy Hs)) as [N I]. split; [exact N|]. intro x. rewrite I. cbn. tauto.
Qed.

Theorem distinct_count_is_set_size : forall l u,
  NoDup u -> (forall x, In x u <-> In x l) -> distinct_count [] l = Z.of_nat (length u).
Proof.
  intros l u Nu Iu. rewrite distinct_count_final.
  destruct (distinct_final_spec l [] (NoDup_nil _)) as [N I]. f_equal.
  apply Permutation_length. apply NoDup_Permutation; [exact N | exact Nu|].
  intro x. rewrite I, Iu. cbn. tauto.
Qed.

(* ---- sum ---------------------------------------------------------------------------------------------------- *)
Lemma wrap64_add_l : forall a b, wrap64 (wrap64 a + b) = wrap64 (a + b).
Proof.
  intros a b. unfold wrap64. f_equal.
  replace ((a + two63) mod two64 - two63 + b + two63) with ((a + two63) mod two64 + b) by lia.
  replace (a + b + two63) with ((a + two63) + b) by lia.
  rewrite Z.add_mod_idemp_l by (unfold two64; lia). reflexivity.
Qed.

Lemma wrap64_small : forall z, - two63 <= z < two63 -> wrap64 z = z.
Proof. intros z H. unfold wrap64. rewrite Z.mod_small by (unfold two63, two64 in *; lia). lia. Qed.

Definition int_cell (v : Z) : option cell := Some (CL (int_lit v)).
Definition zsum (vs : list Z) : Z := fold_right Z.add 0 vs.

Lemma sum_int_spec : forall vs st, sum_int (wrap64 st) (map int_cell vs) = Ok (wrap64 (st + zsum vs)).
Proof.
  induction vs as [|v vs IH]; intro st.
  - cbn. rewrite Z.add_0_r. reflexivity.
  - change (sum_int (wrap64 st) (map int_cell (v :: vs)))
      with (sum_int (wrap64 (wrap64 st + v)) (map int_cell vs)).
    rewrite wrap64_add_l. rewrite IH. unfold zsum. cbn [fold_right]. f_equal. f_equal. lia.
Qed.

(* sum over int64 values = the arithmetic sum reduced modulo 2^64 into the int64 range; equal to it when it fits *)
Theorem sum_int_wraps : forall vs, sum_int 0 (map int_cell vs) = Ok (wrap64 (zsum vs)).
Proof.
  intro vs. change 0 with (wrap64 0) at 1. rewrite sum_int_spec. reflexivity.
Qed.

Theorem sum_int_exact : forall vs, - two63 <= zsum vs < two63 -> sum_int 0 (map int_cell vs) = Ok (zsum vs).
Proof. intros vs H. rewrite sum_int_wraps, wrap64_small by exact H. reflexivity. Qed.

(* any cell that is not an int64 literal makes the int64 sum fail (never a wrong number) *)
Lemma sum_int_not_int : forall l st v, sum_int st l = Ok v ->
  Forall (fun c => exists z, int_of_cell c = Some z) l.
Proof.
  induction l as [|c t IH]; intros st v H; constructor.
  - destruct c as [[| | | |lt|]|]; cbn in H; try discriminate. cbn.
    destruct (l_val lt); try discriminate. eexists; reflexivity.
  - destruct c as [[| | | |lt|]|]; cbn in H; try discriminate.
    destruct (l_val lt); try discriminate. eapply IH; eauto.
Qed.

(* ---- the runs Reduce folds ---------------------------------------------------------------------------------- *)
Lemma runs_nonempty : forall ks l, Forall (fun g => g <> []) (runs ks l).
Proof.
  intros ks. induction l as [|x t IH]; cbn; [constructor|].
  destruct (runs ks t) as [|[|y g] gs] eqn:E.
  - repeat constructor. discriminate.
  - repeat constructor. discriminate.
  - inversion IH; subst. destruct (str_eqb (group_id ks x) (group_id ks y)); repeat constructor; try discriminate; auto.
Qed.

Lemma runs_concat : forall ks l, concat (runs ks l) = l.
Proof.
  intros ks. induction l as [|x t IH]; cbn; [reflexivity|].
  destruct (runs ks t) as [|[|y g] gs] eqn:E; cbn in *.
  - subst. reflexivity.
  - pose proof (runs_nonempty ks t) as N. rewrite E in N. inversion N; subst. congruence.
  - destruct (str_eqb (group_id ks x) (group_id ks y)); cbn; rewrite <- IH; reflexivity.
Qed.

(* within a run all rows have the same group id *)
Lemma runs_same_id : forall ks l,
  Forall (fun g => forall a b, In a g -> In b g -> group_id ks a = group_id ks b) (runs ks l).
Proof.
  intros ks. induction l as [|x t IH]; cbn; [constructor|].
  destruct (runs ks t) as [|[|y g] gs] eqn:E.
  - repeat constructor. intros a b [->|[]] [->|[]]. reflexivity.
  - repeat constructor. intros a b [->|[]] [->|[]]. reflexivity.
  - inversion IH as [|? ? Hg Hgs]; subst.
    destruct (str_eqb (group_id ks x) (group_id ks y)) eqn:Q.
    + apply str_eqb_eq in Q. constructor; [|exact Hgs].
      intros a b [->|Ha] [->|Hb]; auto.
      * rewrite Q. apply Hg; [left; reflexivity | exact Hb].
      * rewrite Q. apply Hg; [exact Ha | left; reflexivity].
    + constructor; [|constructor; assumption]. intros a b [->|[]] [->|[]]. reflexivity.
Qed.

(* adjacent runs have different ids (the runs are maximal) *)
Definition head_id (ks : list skey) (g : list row) : str :=
  match g with [] => [] | r :: _ => group_id ks r end.
Fixpoint adjacent_differ (ks : list skey) (gs : list (list row)) : Prop :=
  match gs with
  | g :: ((h :: _) as rest) => head_id ks g <> head_id ks h /\ adjacent_differ ks rest
  | _ => True
  end.

Lemma runs_head : forall ks x t, exists g gs, runs ks (x :: t) = (x :: g) :: gs.
Proof.
  intros ks x t. cbn. destruct (runs ks t) as [|[|y g] gs]; try (eexists; eexists; reflexivity).
  destruct (str_eqb (group_id ks x) (group_id ks y)); eexists; eexists; reflexivity.
Qed.

Lemma runs_maximal : forall ks l, adjacent_differ ks (runs ks l).
Proof.
  intros ks. induction l as [|x t IH]; cbn; [exact I|].
  destruct (runs ks t) as [|[|y g] gs] eqn:E; cbn; auto.
  destruct (str_eqb (group_id ks x) (group_id ks y)) eqn:Q.
  - cbn in IH. destruct gs as [|h gs']; [exact I|]. destruct IH as [D R]. split; [|exact R].
    cbn. apply str_eqb_eq in Q. rewrite Q. exact D.
  - split; [|exact IH]. cbn. intro H. rewrite H, str_eqb_refl in Q. discriminate.
Qed.

(* ---- one output row per run; the empty input -------------------------------------------------------------------- *)
Lemma map_res_length : forall {A B} (f : A -> res B) l out, map_res f l = Ok out -> length out = length l.
Proof.
  intros A B f. induction l as [|x t IH]; intros out H; cbn in H.
  - injection H as <-. reflexivity.
  - destruct (f x); try discriminate. cbn in H. destruct (map_res f t) eqn:E; try discriminate.
    cbn in H. injection H as <-. cbn. f_equal. apply IH. reflexivity.
Qed.

Theorem reduce_empty : forall srt c aaps bs, reduce_valid aaps (mkTable bs []) = true ->
  reduce_with srt c aaps (mkTable bs []) = Ok (mkTable bs []).
Proof. intros srt c aaps bs H. unfold reduce_with. rewrite H. reflexivity. Qed.

Theorem project_and_group_by_empty : forall srt fx group_by projs bs, fx_empty fx = true -> group_by <> [] ->
  project_and_group_by_with srt fx group_by projs (mkTable bs []) = Ok (mkTable bs []).
Proof.
  intros srt fx group_by projs bs H G. unfold project_and_group_by_with.
  destruct group_by; [congruence|]. rewrite H. reflexivity.
Qed.

(* ---- what one output column holds ---------------------------------------------------------------------------- *)
Lemma reduce_column_count : forall a first rest c, rget first (a_in a) = Some c -> a_acc a = AccCount ->
  reduce_column a (first :: rest) = Ok (Some (CL (int_lit (spec_count (first :: rest))))).
Proof. intros a first rest c H K. unfold reduce_column. rewrite H, K. reflexivity. Qed.

Lemma reduce_column_distinct : forall a first rest c u, rget first (a_in a) = Some c -> a_acc a = AccCountDistinct ->
  NoDup u -> (forall x, In x u <-> In x (map (fun r => distinct_key (rget r (a_in a))) (first :: rest))) ->
  reduce_column a (first :: rest) = Ok (Some (CL (int_lit (Z.of_nat (length u))))).
Proof.
  intros a first rest c u H K N I. unfold reduce_column. rewrite H, K.
  rewrite map_map. rewrite (distinct_count_is_set_size _ u N I). reflexivity.
Qed.

Lemma reduce_column_sum_int : forall a first rest c vs, rget first (a_in a) = Some c -> a_acc a = AccSumInt ->
  map (fun r => rget r (a_in a)) (first :: rest) = map int_cell vs ->
  reduce_column a (first :: rest) = Ok (Some (CL (int_lit (wrap64 (zsum vs))))).
Proof.
  intros a first rest c vs H K E. unfold reduce_column. rewrite H, K, E, sum_int_wraps. reflexivity.
Qed.

Lemma reduce_column_plain : forall a first rest c, rget first (a_in a) = Some c -> a_acc a = AccNone ->
  reduce_column a (first :: rest) = Ok (Some c).
Proof. intros a first rest c H K. unfold reduce_column. rewrite H, K. reflexivity. Qed.

(* ---- Reduce = one output row per run of the sorted table --------------------------------------------------------- *)
Theorem reduce_rows_are_runs : forall srt k ks aaps t out,
  t_rows t <> [] -> reduce_with srt (Some (k :: ks)) aaps t = Ok out ->
  exists sorted,
    table_sort_with srt (Some (k :: ks)) (t_rows t) = Ok sorted /\
    map_res (reduce_range_checked (to_map aaps)) (runs (k :: ks) sorted) = Ok (t_rows out) /\
    length (t_rows out) = length (runs (k :: ks) sorted).
Proof.
  intros srt k ks aaps t out Hne H. unfold reduce_with in H.
  destruct (negb (reduce_valid aaps t)); [discriminate|].
  destruct (t_rows t) as [|r rs] eqn:R; [congruence|].
  destruct (table_sort_with srt (Some (k :: ks)) (r :: rs)) as [sorted| | |] eqn:S; try discriminate.
  cbn [bind] in H.
  destruct (map_res (reduce_range_checked (to_map aaps)) (runs (k :: ks) sorted)) as [rows| | |] eqn:M; try discriminate.
  cbn [bind] in H. injection H as <-. exists sorted. cbn. repeat split; auto.
  eapply map_res_length; eauto.
Qed.
