(* On D12 the comparison made by rowLess IS the value order; hence any output of a contract-abiding sort is in
   value order. *)
From Coq Require Import List ZArith NArith Bool Permutation Sorted Lia.
From Coq.Floats Require Import SpecFloat.
From Coq.Strings Require Import Byte.
Import ListNotations.
From BWTable Require Import Cells Fmt StrOrder FmtProofs Sort SortProofs SortSpec.

Lemma trim_ok_eq : forall s, trim_ok s = true -> trim_space s = s.
Proof. intros s H. apply str_eqb_eq. exact H. Qed.

Lemma fkind_kind : forall a b, fkind_eqb (fine_kind a) (fine_kind b) = true ->
  kind_eqb (cell_kind a) (cell_kind b) = true.
Proof. intros [] [] H; cbn in *; try discriminate; reflexivity. Qed.

Section Generic.
  Variable tm_ok : tim -> bool.
  Variable tm_pair : tim -> tim -> bool.
  Variable fl_ok : lit -> bool.
  (* what the proofs need to know about the accepted anchors and float64 literals *)
  Hypothesis tm_law : forall a b, tm_ok a = true -> tm_ok b = true -> tm_pair a b = true ->
    str_compare (trim_space (t_str a)) (trim_space (t_str b)) = Z.compare (t_ns a) (t_ns b).
  Hypothesis fl_law : forall a b x y, fl_ok a = true -> fl_ok b = true -> l_val a = VFloat x -> l_val b = VFloat y ->
    str_compare (trim_space (l_cmp a)) (trim_space (l_cmp b)) = match SFcompare x y with Some o => o | None => Eq end.

  Let d12_cell' := d12_cell_gen tm_ok fl_ok.
  Let same_fine' := same_fine_kinds_gen tm_pair.
  Let d12_row' := d12_row_gen tm_ok fl_ok.
  Let d12' := d12_gen tm_ok tm_pair fl_ok.

  Lemma same_fine_same_kinds : forall c a b, same_fine' c a b = true -> same_kinds c a b = true.
  Proof.
    intros c a b H. unfold same_fine', same_fine_kinds_gen, same_kinds in *. rewrite forallb_forall in *.
    intros k Hk. specialize (H k Hk).
    destruct (rget a (k_b k)); [|discriminate]. destruct (rget b (k_b k)); [|discriminate].
    apply andb_prop in H. destruct H as [H _]. apply fkind_kind. exact H.
  Qed.

  Lemma d12_homogeneous : forall c rows, d12' c rows = true -> homogeneous c rows = true.
  Proof.
    intros c rows H. unfold d12', d12_gen, homogeneous in *. rewrite forallb_forall in *.
    intros a Ha. specialize (H a Ha). apply andb_prop in H. destruct H as [_ H].
    rewrite forallb_forall in *. intros b Hb. apply same_fine_same_kinds. apply H. exact Hb.
  Qed.

  (* the heart: on D12 cells of the same fine kind the compared strings order like the values *)
  Lemma cell_key_cmp_spec : forall a b, d12_cell' a = true -> d12_cell' b = true ->
    fkind_eqb (fine_kind a) (fine_kind b) = true -> pair_ok_gen tm_pair a b = true -> cell_key_cmp a b = spec_cmp a b.
  Proof.
    intros a b Da Db K P. unfold cell_key_cmp. unfold d12_cell' in *.
    destruct a as [|sa|sa|sa|la|ta]; destruct b as [|sb|sb|sb|lb|tb]; cbn in K; try discriminate;
      cbn [d12_cell_gen] in Da, Db; try discriminate.
    - reflexivity.
    - cbn [skey_of spec_cmp cell_string]. rewrite (trim_ok_eq _ Da), (trim_ok_eq _ Db). reflexivity.
    - cbn [skey_of spec_cmp cell_string]. rewrite (trim_ok_eq _ Da), (trim_ok_eq _ Db). reflexivity.
    - cbn [skey_of spec_cmp cell_string]. rewrite (trim_ok_eq _ Da), (trim_ok_eq _ Db). reflexivity.
    - unfold lit_ty in K. cbn [skey_of spec_cmp].
      destruct (l_val la) as [ba|za|fa|xa|xa] eqn:Va; destruct (l_val lb) as [bb|zb|fb|xb|xb] eqn:Vb;
        cbn in K; try discriminate.
      + apply andb_prop in Da, Db. destruct Da as [Ea Ta], Db as [Eb Tb].
        rewrite (trim_ok_eq _ Ta), (trim_ok_eq _ Tb).
        apply str_eqb_eq in Ea, Eb. rewrite Ea, Eb. reflexivity.
      + apply andb_prop in Da, Db. destruct Da as [Ra Ea], Db as [Rb Eb].
        apply andb_prop in Ra, Rb. destruct Ra as [Ra1 Ra2], Rb as [Rb1 Rb2].
        apply str_eqb_eq in Ea, Eb. rewrite Ea, Eb.
        apply Z.leb_le in Ra1, Rb1. apply Z.ltb_lt in Ra2, Rb2.
        rewrite !trim_int_cmp_string. apply int_cmp_string_compare; lia.
      + apply (fl_law la lb fa fb Da Db Va Vb).
      + apply andb_prop in Da, Db. destruct Da as [Aa Ea], Db as [Ab Eb].
        apply str_eqb_eq in Ea, Eb. rewrite Ea, Eb.
        rewrite !trim_text_string. apply text_string_compare; assumption.
    - cbn [skey_of spec_cmp]. cbn [pair_ok_gen] in P. apply tm_law; assumption.
  Qed.

  Lemma key_cmp_spec : forall c a b, d12_row' c a = true -> d12_row' c b = true -> same_fine' c a b = true ->
    key_cmp c a b = spec_row_cmp c a b.
  Proof.
    induction c as [|k rest IH]; intros a b Da Db K; [reflexivity|].
    unfold d12_row', same_fine' in *. cbn [d12_row_gen same_fine_kinds_gen forallb] in Da, Db, K.
    apply andb_prop in Da, Db, K. destruct Da as [Da1 Da2], Db as [Db1 Db2], K as [K1 K2].
    cbn [key_cmp spec_row_cmp]. rewrite (IH a b Da2 Db2 K2).
    destruct (rget a (k_b k)) as [x|]; [|discriminate]. destruct (rget b (k_b k)) as [y|]; [|discriminate].
    apply andb_prop in K1. destruct K1 as [K1 P1].
    cbn [opt_cell_cmp opt_spec_cmp]. rewrite (cell_key_cmp_spec x y Da1 Db1 K1 P1). reflexivity.
  Qed.

  Lemma d12_facts : forall c rows a b, d12' c rows = true -> In a rows -> In b rows ->
    d12_row' c a = true /\ d12_row' c b = true /\ same_fine' c a b = true.
  Proof.
    intros c rows a b H Ha Hb. unfold d12', d12_gen in H. rewrite forallb_forall in H.
    pose proof (H a Ha) as Xa. pose proof (H b Hb) as Xb.
    apply andb_prop in Xa, Xb. destruct Xa as [Xa1 Xa2], Xb as [Xb1 _].
    rewrite forallb_forall in Xa2. auto.
  Qed.

  Lemma spec_row_cmp_comparator_on_d12 : forall c rows a b, d12' c rows = true -> In a rows -> In b rows ->
    spec_row_cmp c b a = CompOpp (spec_row_cmp c a b).
  Proof.
    intros c rows a b H Ha Hb.
    destruct (d12_facts c rows a b H Ha Hb) as (Da & Db & K).
    destruct (d12_facts c rows b a H Hb Ha) as (_ & _ & K').
    rewrite <- (key_cmp_spec c a b Da Db K), <- (key_cmp_spec c b a Db Da K').
    apply (cmp_sym _ (key_cmp_comparator c)).
  Qed.

  (* MAIN: a D12 table, any permutation of it without inversions w.r.t. rowLess, is sorted by VALUE *)
  Theorem d12_no_inversion_spec_sorted : forall c rows out,
    d12' c rows = true -> Permutation rows out -> no_inversion (row_lt c) out -> spec_sorted c out.
  Proof.
    intros c rows out D P N. unfold spec_sorted, no_inversion in *.
    eapply ss_transfer; [exact N|]. cbn. intros a b Ha Hb Hba.
    assert (Ia : In a rows) by (eapply Permutation_in; [apply Permutation_sym; exact P | exact Ha]).
    assert (Ib : In b rows) by (eapply Permutation_in; [apply Permutation_sym; exact P | exact Hb]).
    destruct (d12_facts c rows b a D Ib Ia) as (Db & Da & K).
    rewrite (row_lt_key_cmp c b a (same_fine_same_kinds _ _ _ K)) in Hba.
    unfold lt_of in Hba. rewrite (key_cmp_spec c b a Db Da K) in Hba.
    rewrite (spec_row_cmp_comparator_on_d12 c rows b a D Ib Ia).
    destruct (spec_row_cmp c b a); cbn; congruence.
  Qed.

  Lemma d12_has_keys : forall ks rows, d12' ks rows = true -> forallb (has_keys ks) rows = true.
  Proof.
    intros ks rows D. unfold d12', d12_gen in D. rewrite forallb_forall in *. intros r Hr.
    specialize (D r Hr). apply andb_prop in D. destruct D as [D _].
    unfold d12_row_gen in D. unfold has_keys. rewrite forallb_forall in *. intros k Hk. specialize (D k Hk).
    destruct (rget r (k_b k)); [reflexivity | discriminate].
  Qed.
End Generic.

(* ---- the laws from the two oracle formats ----------------------------------------------------------------------- *)
Section OracleLaws.
  Variable fmt_time : Z -> Z -> str.
  Variable fmt_float : spec_float -> str.
  (* RFC3339Nano: within one zone, renderings of equal length (= same number of fraction digits) order like the
     instants; no outer white space *)
  Hypothesis fmt_time_order : forall off n1 n2, in_int64 n1 = true -> in_int64 n2 = true ->
    length (fmt_time n1 off) = length (fmt_time n2 off) ->
    str_compare (fmt_time n1 off) (fmt_time n2 off) = Z.compare n1 n2.
  Hypothesis fmt_time_trim : forall n off, trim_space (fmt_time n off) = fmt_time n off.
  (* %032f: on the domain (finite, 0 <= f < 10^25, at most six decimals) the renderings order like the values *)
  Hypothesis fmt_float_order : forall x y, sf_in_domain x = true -> sf_in_domain y = true ->
    str_compare (fmt_float x) (fmt_float y) = match SFcompare x y with Some o => o | None => Eq end.
  Hypothesis fmt_float_trim : forall x, trim_space (fmt_float x) = fmt_float x.

  Lemma tm_law_o : forall a b, tm_ok_o fmt_time a = true -> tm_ok_o fmt_time b = true -> tm_pair_o a b = true ->
    str_compare (trim_space (t_str a)) (trim_space (t_str b)) = Z.compare (t_ns a) (t_ns b).
  Proof.
    intros a b Ha Hb P. unfold tm_ok_o in *. apply andb_prop in Ha, Hb. destruct Ha as [Ra Ha], Hb as [Rb Hb].
    apply str_eqb_eq in Ha, Hb.
    unfold tm_pair_o in P. apply andb_prop in P. destruct P as [Po Pl]. apply Z.eqb_eq in Po. apply Nat.eqb_eq in Pl.
    rewrite Ha, Hb in Pl |- *. rewrite <- Po in Pl |- *. rewrite !fmt_time_trim. apply fmt_time_order; assumption.
  Qed.

  Lemma fl_law_o : forall a b x y, fl_ok_o fmt_float a = true -> fl_ok_o fmt_float b = true ->
    l_val a = VFloat x -> l_val b = VFloat y ->
    str_compare (trim_space (l_cmp a)) (trim_space (l_cmp b)) = match SFcompare x y with Some o => o | None => Eq end.
  Proof.
    intros a b x y Ha Hb Va Vb. unfold fl_ok_o in *. rewrite Va in Ha. rewrite Vb in Hb.
    apply andb_prop in Ha, Hb. destruct Ha as [Da Ea], Hb as [Db Eb]. apply str_eqb_eq in Ea, Eb.
    rewrite Ea, Eb, !fmt_float_trim. apply fmt_float_order; assumption.
  Qed.
End OracleLaws.

(* the oracle-free instance (names used by the rest of the development) *)
Lemma no_tim_law : forall a b, no_tim a = true -> no_tim b = true -> any_tim_pair a b = true ->
  str_compare (trim_space (t_str a)) (trim_space (t_str b)) = Z.compare (t_ns a) (t_ns b).
Proof. intros a b H. discriminate. Qed.
Lemma no_lit_law : forall a b x y, no_lit a = true -> no_lit b = true -> l_val a = VFloat x -> l_val b = VFloat y ->
  str_compare (trim_space (l_cmp a)) (trim_space (l_cmp b)) = match SFcompare x y with Some o => o | None => Eq end.
Proof. intros a b x y H. discriminate. Qed.
