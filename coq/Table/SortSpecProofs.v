(* On D12 the comparison made by rowLess IS the value order; hence any output of a contract-abiding sort is in
   value order. *)
From Coq Require Import List ZArith NArith Bool Permutation Sorted Lia.
From Coq.Strings Require Import Byte.
Import ListNotations.
From BWTable Require Import Cells Fmt StrOrder FmtProofs Sort SortProofs SortSpec.

Lemma trim_ok_eq : forall s, trim_ok s = true -> trim_space s = s.
Proof. intros s H. apply str_eqb_eq. exact H. Qed.

Lemma fkind_kind : forall a b, fkind_eqb (fine_kind a) (fine_kind b) = true ->
  kind_eqb (cell_kind a) (cell_kind b) = true.
Proof. intros [] [] H; cbn in *; try discriminate; reflexivity. Qed.

Lemma same_fine_same_kinds : forall c a b, same_fine_kinds c a b = true -> same_kinds c a b = true.
Proof.
  intros c a b H. unfold same_fine_kinds, same_kinds in *. rewrite forallb_forall in *.
  intros k Hk. specialize (H k Hk).
  destruct (rget a (k_b k)); [|discriminate]. destruct (rget b (k_b k)); [|discriminate].
  apply fkind_kind. exact H.
Qed.

Lemma d12_homogeneous : forall c rows, d12 c rows = true -> homogeneous c rows = true.
Proof.
  intros c rows H. unfold d12, homogeneous in *. rewrite forallb_forall in *.
  intros a Ha. specialize (H a Ha). apply andb_prop in H. destruct H as [_ H].
  rewrite forallb_forall in *. intros b Hb. apply same_fine_same_kinds. apply H. exact Hb.
Qed.

(* the heart: on D12 cells of the same fine kind the compared strings order like the values *)
Lemma cell_key_cmp_spec : forall a b, d12_cell a = true -> d12_cell b = true ->
  fkind_eqb (fine_kind a) (fine_kind b) = true -> cell_key_cmp a b = spec_cmp a b.
Proof.
  intros a b Da Db K. unfold cell_key_cmp.
  destruct a as [|sa|sa|sa|la|ta]; destruct b as [|sb|sb|sb|lb|tb]; cbn in K; try discriminate;
    cbn [d12_cell] in Da, Db; try discriminate.
  - reflexivity.
  - cbn [skey_of spec_cmp cell_string]. rewrite (trim_ok_eq _ Da), (trim_ok_eq _ Db). reflexivity.
  - cbn [skey_of spec_cmp cell_string]. rewrite (trim_ok_eq _ Da), (trim_ok_eq _ Db). reflexivity.
  - cbn [skey_of spec_cmp cell_string]. rewrite (trim_ok_eq _ Da), (trim_ok_eq _ Db). reflexivity.
  - unfold lit_ty in K. cbn [skey_of spec_cmp].
    destruct (l_val la) as [ba|za|fa|xa|xa] eqn:Va; destruct (l_val lb) as [bb|zb|fb|xb|xb] eqn:Vb;
      cbn in K; try discriminate.
    + apply andb_prop in Da, Db. destruct Da as [Ea Ta], Db as [Eb Tb].
      rewrite (trim_ok_eq _ Ta), (trim_ok_eq _ Tb).
      apply str_eqb_eq in Ea, Eb. rewrite Ea, Eb. reflexivity.
    + apply andb_prop in Da, Db. destruct Da as [Ra Ea], Db as [Rb Eb].
      apply andb_prop in Ra, Rb. destruct Ra as [Ra1 Ra2], Rb as [Rb1 Rb2].
      apply str_eqb_eq in Ea, Eb. rewrite Ea, Eb.
      apply Z.leb_le in Ra1, Rb1. apply Z.ltb_lt in Ra2, Rb2.
      assert (T : forall v, trim_space (int_cmp_string v) = int_cmp_string v).
      { intro v. apply trim_int_cmp_string. }
      rewrite !T. apply int_cmp_string_compare; lia.
    + apply andb_prop in Da, Db. destruct Da as [Aa Ea], Db as [Ab Eb].
      apply str_eqb_eq in Ea, Eb. rewrite Ea, Eb.
      rewrite !trim_text_string. apply text_string_compare; assumption.
    + apply andb_prop in Da, Db. destruct Da as [Ea Ta], Db as [Eb Tb].
      rewrite (trim_ok_eq _ Ta), (trim_ok_eq _ Tb).
      apply str_eqb_eq in Ea, Eb. rewrite Ea, Eb. reflexivity.
Qed.

Lemma key_cmp_spec : forall c a b, d12_row c a = true -> d12_row c b = true -> same_fine_kinds c a b = true ->
  key_cmp c a b = spec_row_cmp c a b.
Proof.
  induction c as [|k rest IH]; intros a b Da Db K; cbn in *; [reflexivity|].
  apply andb_prop in Da, Db, K. destruct Da as [Da1 Da2], Db as [Db1 Db2], K as [K1 K2].
  rewrite (IH a b Da2 Db2 K2).
  destruct (rget a (k_b k)) as [x|]; [|discriminate]. destruct (rget b (k_b k)) as [y|]; [|discriminate].
  cbn. rewrite (cell_key_cmp_spec x y Da1 Db1 K1). reflexivity.
Qed.

Lemma d12_facts : forall c rows a b, d12 c rows = true -> In a rows -> In b rows ->
  d12_row c a = true /\ d12_row c b = true /\ same_fine_kinds c a b = true.
Proof.
  intros c rows a b H Ha Hb. unfold d12 in H. rewrite forallb_forall in H.
  pose proof (H a Ha) as Xa. pose proof (H b Hb) as Xb.
  apply andb_prop in Xa, Xb. destruct Xa as [Xa1 Xa2], Xb as [Xb1 _].
  rewrite forallb_forall in Xa2. auto.
Qed.

Lemma spec_row_cmp_comparator_on_d12 : forall c rows a b, d12 c rows = true -> In a rows -> In b rows ->
  spec_row_cmp c b a = CompOpp (spec_row_cmp c a b).
Proof.
  intros c rows a b H Ha Hb.
  destruct (d12_facts c rows a b H Ha Hb) as (Da & Db & K).
  destruct (d12_facts c rows b a H Hb Ha) as (_ & _ & K').
  rewrite <- (key_cmp_spec c a b Da Db K), <- (key_cmp_spec c b a Db Da K').
  apply (cmp_sym _ (key_cmp_comparator c)).
Qed.

(* MAIN: a D12 table, any permutation of it without inversions w.r.t. rowLess, is sorted by VALUE *)
Theorem d12_no_inversion_spec_sorted : forall c rows out,
  d12 c rows = true -> Permutation rows out -> no_inversion (row_lt c) out -> spec_sorted c out.
Proof.
  intros c rows out D P N. unfold spec_sorted, no_inversion in *.
  eapply ss_transfer; [exact N|]. cbn. intros a b Ha Hb Hba.
  assert (Ia : In a rows) by (eapply Permutation_in; [apply Permutation_sym; exact P | exact Ha]).
  assert (Ib : In b rows) by (eapply Permutation_in; [apply Permutation_sym; exact P | exact Hb]).
  destruct (d12_facts c rows b a D Ib Ia) as (Db & Da & K).
  rewrite (row_lt_key_cmp c b a (same_fine_same_kinds _ _ _ K)) in Hba.
  unfold lt_of in Hba. rewrite (key_cmp_spec c b a Db Da K) in Hba.
  rewrite (spec_row_cmp_comparator_on_d12 c rows b a D Ib Ia).
  destruct (spec_row_cmp c b a); cbn; congruence.
Qed.
