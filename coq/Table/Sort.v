(* Table.Sort / rowLess / stringLess of bql/table/table.go, and the contract of sort.Sort.  Definitions only. *)
From Coq Require Import List ZArith NArith Bool Permutation Sorted.
From Coq.Strings Require Import Byte.
Import ListNotations.
From BWTable Require Import Cells.
Open Scope Z_scope.

Record skey := mkKey { k_b : binding; k_desc : bool }.
(* SortConfig is a slice: nil and the empty non-nil slice behave differently (rowLess: if c == nil) *)
Definition sort_cfg := option (list skey).

(* stringLess *)
Definition string_less (rsi rsj : str) (desc : bool) : Z :=
  let si := trim_space rsi in
  let sj := trim_space rsj in
  if str_eqb si sj then 0
  else let b := if str_ltb si sj then -1 else 1 in
       if desc then - b else b.

(* the five [if ci.X != nil && cj.X != nil] tests of rowLess: both strings stay empty for cells of different kinds
   and for NULL cells *)
Definition pair_strings (ci cj : cell) : str * str :=
  match ci, cj with
  | CS a, CS b => (a, b)
  | CN a, CN b => (a, b)
  | CP a, CP b => (a, b)
  | CL a, CL b => (l_cmp a, l_cmp b)
  | CT a, CT b => (t_str a, t_str b)
  | _, _ => ([], [])
  end.

(* rowLess on a non-nil config, exactly as written: c[0] panics on the empty slice; a missing binding is
   log.Fatalf; the recursion stops at the last key *)
Fixpoint row_less_keys (ri rj : row) (c : list skey) : res bool :=
  match c with
  | [] => Panic SIndexSortConfig
  | k :: rest =>
      match rget ri (k_b k), rget rj (k_b k) with
      | None, _ => Fatal
      | _, None => Fatal
      | Some ci, Some cj =>
          let '(si, sj) := pair_strings ci cj in
          let l := string_less si sj (k_desc k) in
          if l <? 0 then Ok true
          else if (0 <? l) || (match rest with [] => true | _ => false end) then Ok false
          else row_less_keys ri rj rest
      end
  end.

Definition row_less (ri rj : row) (c : sort_cfg) : res bool :=
  match c with
  | None => Ok false
  | Some ks => row_less_keys ri rj ks
  end.

(* ---- pure comparison used when every row has every key binding and the key list is not empty ------------ *)
Definition cells_less (ci cj : cell) (desc : bool) : Z :=
  let '(si, sj) := pair_strings ci cj in string_less si sj desc.

Fixpoint row_lt (c : list skey) (ri rj : row) : bool :=
  match c with
  | [] => false
  | k :: rest =>
      match rget ri (k_b k), rget rj (k_b k) with
      | Some ci, Some cj =>
          let l := cells_less ci cj (k_desc k) in
          if l <? 0 then true else if 0 <? l then false else row_lt rest ri rj
      | _, _ => false
      end
  end.

Definition has_keys (c : list skey) (r : row) : bool :=
  forallb (fun k => match rget r (k_b k) with Some _ => true | None => false end) c.

(* ---- sort.Sort -------------------------------------------------------------------------------------------
   Contract used by the theorems (Go documents no more than this): the result is a permutation of the input and,
   IF less is a strict weak order on the input, no later element is less than an earlier one.  Ties come in any
   order (sort.Sort is not stable). *)
Definition no_inversion {A} (less : A -> A -> bool) (l : list A) : Prop :=
  StronglySorted (fun a b => less b a = false) l.     (* a occurs before b *)

Definition strict_weak_on {A} (less : A -> A -> bool) (l : list A) : Prop :=
  (forall a, In a l -> less a a = false) /\
  (forall a b c, In a l -> In b l -> In c l -> less a b = true -> less b c = true -> less a c = true) /\
  (forall a b c, In a l -> In b l -> In c l ->
     less a b = false -> less b a = false -> less b c = false -> less c b = false ->
     less a c = false /\ less c a = false).

Definition sort_contract {A} (less : A -> A -> bool) (inp out : list A) : Prop :=
  Permutation inp out /\ (strict_weak_on less inp -> no_inversion less out).

(* Executable instance: insertion sort exactly as Go's insertionSort (sort.Sort uses it for slices of at most
   12 elements): element i moves left while it is less than its left neighbour.  The sorted prefix is kept
   reversed. *)
Fixpoint ins_back {A} (less : A -> A -> bool) (x : A) (revp : list A) : list A :=
  match revp with
  | [] => [x]
  | y :: r => if less x y then y :: ins_back less x r else x :: y :: r
  end.

Definition go_isort {A} (less : A -> A -> bool) (l : list A) : list A :=
  rev (fold_left (fun acc x => ins_back less x acc) l []).

(* Table.Sort / unsafeSort: nil config = no-op; fewer than two rows = Less is never called.  [srt] is the sorting
   routine: any function meeting sort_contract (theorems), go_isort (executable instance). *)
Definition sorter := (row -> row -> bool) -> list row -> list row.

Definition table_sort_with (srt : sorter) (c : sort_cfg) (rows : list row) : res (list row) :=
  match c with
  | None => Ok rows
  | Some ks =>
      match rows with
      | [] | [_] => Ok rows
      | _ =>
          match ks with
          | [] => Panic SIndexSortConfig
          | _ => if forallb (has_keys ks) rows then Ok (srt (row_lt ks) rows) else Fatal
          end
      end
  end.

Definition table_sort := table_sort_with (@go_isort row).

(* queryPlan.orderBy: if len(order) <= 0 return *)
Definition order_by_with (srt : sorter) (c : sort_cfg) (rows : list row) : res (list row) :=
  match c with
  | None | Some [] => Ok rows
  | Some _ => table_sort_with srt c rows
  end.

Definition order_by := order_by_with (@go_isort row).
