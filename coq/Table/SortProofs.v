(* Proofs about Sort.v: the insertion sort instance meets the contract of sort.Sort; rowLess is a strict weak
   order on tables whose key columns are homogeneous (one cell kind per column). *)
From Coq Require Import List ZArith NArith Bool Permutation Sorted Lia.
From Coq.Strings Require Import Byte.
Import ListNotations.
From BWTable Require Import Cells StrOrder Sort.

(* ---- StronglySorted helpers --------------------------------------------------------------------------- *)
Lemma ss_app_one : forall {A} (R : A -> A -> Prop) l x,
  StronglySorted R l -> Forall (fun y => R y x) l -> StronglySorted R (l ++ [x]).
Proof.
  intros A R l x Hs Hf. induction Hs as [|a l Hs IH Ha]; cbn.
  - constructor; constructor.
  - inversion Hf as [|? ? Hax Hf']; subst. constructor.
    + apply IH. exact Hf'.
    + apply Forall_app. split; [exact Ha | constructor; [exact Hax | constructor]].
Qed.

Lemma ss_rev : forall {A} (R : A -> A -> Prop) l,
  StronglySorted R l -> StronglySorted (fun a b => R b a) (rev l).
Proof.
  intros A R l Hs. induction Hs as [|a l Hs IH Ha]; cbn.
  - constructor.
  - apply ss_app_one; [exact IH|]. apply Forall_rev. exact Ha.
Qed.

Lemma ss_transfer : forall {A} (R R' : A -> A -> Prop) l,
  StronglySorted R l -> (forall a b, In a l -> In b l -> R a b -> R' a b) -> StronglySorted R' l.
Proof.
  intros A R R' l Hs. induction Hs as [|a l Hs IH Ha]; intro H; constructor.
  - apply IH. intros x y Hx Hy. apply H; right; assumption.
  - rewrite Forall_forall in *. intros b Hb. apply H; [left; reflexivity | right; exact Hb | apply Ha; exact Hb].
Qed.

(* ---- insertion sort ------------------------------------------------------------------------------------- *)
Section ISort.
  Context {A : Type}.

  Lemma ins_back_perm : forall (less : A -> A -> bool) x p, Permutation (x :: p) (ins_back less x p).
  Proof.
    intros less x p. induction p as [|y r IH]; cbn.
    - apply Permutation_refl.
    - destruct (less x y).
      + eapply perm_trans; [apply perm_swap|]. apply perm_skip. exact IH.
      + apply Permutation_refl.
  Qed.

  Lemma fold_ins_perm : forall (less : A -> A -> bool) l acc,
    Permutation (rev l ++ acc) (fold_left (fun acc x => ins_back less x acc) l acc).
  Proof.
    intros less l. induction l as [|x l IH]; intro acc; cbn.
    - apply Permutation_refl.
    - eapply perm_trans; [|apply IH].
      rewrite <- app_assoc. cbn. apply Permutation_app_head. apply ins_back_perm.
  Qed.

  Lemma go_isort_perm : forall (less : A -> A -> bool) l, Permutation l (go_isort less l).
  Proof.
    intros less l. unfold go_isort.
    eapply perm_trans; [|apply Permutation_rev].
    eapply perm_trans; [|apply fold_ins_perm]. rewrite app_nil_r. apply Permutation_rev.
  Qed.

  (* the result only depends on less between elements of the list *)
  Lemma ins_back_ext : forall (less less' : A -> A -> bool) x p,
    (forall y, In y p -> less x y = less' x y) -> ins_back less x p = ins_back less' x p.
  Proof.
    intros less less' x p. induction p as [|y r IH]; intro H; cbn; [reflexivity|].
    rewrite <- (H y (or_introl eq_refl)). destruct (less x y); [|reflexivity].
    f_equal. apply IH. intros z Hz. apply H. right. exact Hz.
  Qed.

  Lemma fold_ins_ext : forall (less less' : A -> A -> bool) l acc,
    (forall a b, In a (l ++ acc) -> In b (l ++ acc) -> less a b = less' a b) ->
    fold_left (fun acc x => ins_back less x acc) l acc = fold_left (fun acc x => ins_back less' x acc) l acc.
  Proof.
    intros less less' l. induction l as [|x l IH]; intros acc H; cbn; [reflexivity|].
    rewrite (ins_back_ext less less' x acc).
    - apply IH. intros a b Ha Hb. apply H.
      + apply in_app_or in Ha. destruct Ha as [Ha|Ha]; [right; apply in_or_app; left; exact Ha|].
        apply (Permutation_in _ (Permutation_sym (ins_back_perm less' x acc))) in Ha.
        destruct Ha as [->|Ha]; [left; reflexivity | right; apply in_or_app; right; exact Ha].
      + apply in_app_or in Hb. destruct Hb as [Hb|Hb]; [right; apply in_or_app; left; exact Hb|].
        apply (Permutation_in _ (Permutation_sym (ins_back_perm less' x acc))) in Hb.
        destruct Hb as [->|Hb]; [left; reflexivity | right; apply in_or_app; right; exact Hb].
    - intros y Hy. apply H; [left; reflexivity | right; apply in_or_app; right; exact Hy].
  Qed.

  Lemma go_isort_ext : forall (less less' : A -> A -> bool) l,
    (forall a b, In a l -> In b l -> less a b = less' a b) -> go_isort less l = go_isort less' l.
  Proof.
    intros less less' l H. unfold go_isort. f_equal. apply fold_ins_ext.
    rewrite app_nil_r. exact H.
  Qed.

  (* sortedness for a less that is the strict part of a comparator *)
  Context (cmp : A -> A -> comparison) (C : comparator cmp).
  Definition lt_of (a b : A) : bool := match cmp a b with Lt => true | _ => false end.

  Let R (y z : A) : Prop := lt_of y z = false.     (* in the reversed prefix: y was placed after z *)

  Lemma lt_of_false : forall a b, lt_of a b = false <-> cmp a b <> Lt.
  Proof. intros a b. unfold lt_of. destruct (cmp a b); split; congruence. Qed.

  Lemma ins_back_sorted : forall x p, StronglySorted R p -> StronglySorted R (ins_back lt_of x p).
  Proof.
    intros x p Hs. induction Hs as [|y r Hs IH Hy]; cbn.
    - constructor; constructor.
    - destruct (lt_of x y) eqn:E.
      + constructor; [exact IH|].
        assert (Hyx : R y x).
        { unfold R. apply lt_of_false. unfold lt_of in E. destruct (cmp x y) eqn:E'; try discriminate.
          rewrite (cmp_sym cmp C x y), E'. discriminate. }
        eapply Permutation_Forall; [apply ins_back_perm|]. constructor; assumption.
      + constructor; [constructor; assumption|]. constructor; [exact E|].
        eapply Forall_impl; [|exact Hy]. intros z Hz. unfold R in *.
        apply lt_of_false. apply lt_of_false in E. apply lt_of_false in Hz.
        eapply (cmp_neg_trans cmp C); eauto.
  Qed.

  Lemma fold_ins_sorted : forall l acc, StronglySorted R acc ->
    StronglySorted R (fold_left (fun acc x => ins_back lt_of x acc) l acc).
  Proof.
    induction l as [|x l IH]; intros acc H; cbn; [exact H|]. apply IH. apply ins_back_sorted. exact H.
  Qed.

  Lemma go_isort_no_inversion : forall l, no_inversion lt_of (go_isort lt_of l).
  Proof.
    intro l. unfold no_inversion, go_isort.
    apply (ss_rev R). apply fold_ins_sorted. constructor.
  Qed.
End ISort.

(* ---- the comparison rowLess makes on homogeneous columns --------------------------------------------------- *)
(* the string rowLess takes from a cell when both cells are of that cell's kind *)
Definition skey_of (c : cell) : str :=
  match c with
  | CNull => []
  | CS a | CN a | CP a => a
  | CL l => l_cmp l
  | CT t => t_str t
  end.

Definition cell_key_cmp (ci cj : cell) : comparison :=
  str_compare (trim_space (skey_of ci)) (trim_space (skey_of cj)).

Definition opt_cell_cmp (a b : option cell) : comparison :=
  match a, b with
  | Some x, Some y => cell_key_cmp x y
  | None, None => Eq
  | None, Some _ => Lt
  | Some _, None => Gt
  end.

Fixpoint key_cmp (c : list skey) (ri rj : row) : comparison :=
  match c with
  | [] => Eq
  | k :: rest =>
      lex_cmp (dir_cmp (k_desc k) (opt_cell_cmp (rget ri (k_b k)) (rget rj (k_b k)))) (key_cmp rest ri rj)
  end.

Lemma opt_cell_cmp_comparator : comparator opt_cell_cmp.
Proof.
  pose proof str_compare_comparator as S.
  constructor.
  - intros [a|]; cbn; [apply (cmp_refl _ S) | reflexivity].
  - intros [a|] [b|]; cbn; try reflexivity. apply (cmp_sym _ S).
  - intros [a|] [b|] [c|]; cbn; intros H1 H2; try discriminate; try reflexivity.
    eapply (cmp_trans_lt _ S); eauto.
  - intros [a|] [b|] [c|]; cbn; intro H; try discriminate; try reflexivity.
    apply (cmp_eq_l _ S). exact H.
Qed.

Lemma key_cmp_comparator : forall c, comparator (key_cmp c).
Proof.
  induction c as [|k rest IH]; cbn.
  - apply comparator_const_eq.
  - apply (comparator_lex (fun ri rj => dir_cmp (k_desc k) (opt_cell_cmp (rget ri (k_b k)) (rget rj (k_b k))))
                          (key_cmp rest)); [|exact IH].
    apply (comparator_dir (fun ri rj => opt_cell_cmp (rget ri (k_b k)) (rget rj (k_b k)))).
    apply (comparator_on (fun r => rget r (k_b k))). apply opt_cell_cmp_comparator.
Qed.

(* same kind in every key column *)
Definition same_kinds (c : list skey) (ri rj : row) : bool :=
  forallb (fun k => match rget ri (k_b k), rget rj (k_b k) with
                    | Some a, Some b => kind_eqb (cell_kind a) (cell_kind b)
                    | _, _ => false
                    end) c.

Definition homogeneous (c : list skey) (rows : list row) : bool :=
  forallb (fun ri => forallb (fun rj => same_kinds c ri rj) rows) rows.

Lemma pair_strings_same_kind : forall a b, kind_eqb (cell_kind a) (cell_kind b) = true ->
  pair_strings a b = (skey_of a, skey_of b).
Proof. intros [] [] H; cbn in *; try discriminate; reflexivity. Qed.

Lemma string_less_cmp : forall a b desc,
  string_less a b desc =
  match dir_cmp desc (str_compare (trim_space a) (trim_space b)) with Lt => (-1)%Z | Eq => 0%Z | Gt => 1%Z end.
Proof.
  intros a b desc. unfold string_less. rewrite str_eqb_compare, str_ltb_compare.
  destruct (str_compare (trim_space a) (trim_space b)); destruct desc; reflexivity.
Qed.

Lemma row_lt_key_cmp : forall c ri rj, same_kinds c ri rj = true ->
  row_lt c ri rj = lt_of (key_cmp c) ri rj.
Proof.
  induction c as [|k rest IH]; intros ri rj H; cbn in *; [reflexivity|].
  apply andb_prop in H. destruct H as [H1 H2]. unfold lt_of in *. cbn.
  destruct (rget ri (k_b k)) as [a|]; [|discriminate].
  destruct (rget rj (k_b k)) as [b|]; [|discriminate]. cbn.
  unfold cells_less. rewrite (pair_strings_same_kind a b H1). rewrite string_less_cmp.
  unfold cell_key_cmp.
  destruct (dir_cmp (k_desc k) (str_compare (trim_space (skey_of a)) (trim_space (skey_of b)))); cbn;
    try reflexivity.
  apply IH. exact H2.
Qed.

Lemma homogeneous_pair : forall c rows a b, homogeneous c rows = true -> In a rows -> In b rows ->
  same_kinds c a b = true.
Proof.
  intros c rows a b H Ha Hb. unfold homogeneous in H. rewrite forallb_forall in H.
  specialize (H a Ha). rewrite forallb_forall in H. apply H. exact Hb.
Qed.

Lemma strict_weak_of_comparator : forall {A} (cmp : A -> A -> comparison) (less : A -> A -> bool) l,
  comparator cmp -> (forall a b, In a l -> In b l -> less a b = lt_of cmp a b) -> strict_weak_on less l.
Proof.
  intros A cmp less l C E. repeat split.
  - intros a Ha. rewrite (E a a Ha Ha). unfold lt_of. rewrite (cmp_refl cmp C). reflexivity.
  - intros a b c Ha Hb Hc. rewrite (E a b Ha Hb), (E b c Hb Hc), (E a c Ha Hc). unfold lt_of.
    destruct (cmp a b) eqn:E1; try discriminate. destruct (cmp b c) eqn:E2; try discriminate.
    rewrite (cmp_trans_lt cmp C a b c E1 E2). reflexivity.
  - revert H H0 H1 H2 H3 H4 H5. intros Ha Hb Hc.
    rewrite (E a b Ha Hb), (E b a Hb Ha), (E b c Hb Hc), (E c b Hc Hb), (E a c Ha Hc).
    intros H1 H2 H3 H4. apply lt_of_false. apply lt_of_false in H1, H3. eapply (cmp_neg_trans cmp C); eauto.
  - revert H H0 H1 H2 H3 H4 H5. intros Ha Hb Hc.
    rewrite (E a b Ha Hb), (E b a Hb Ha), (E b c Hb Hc), (E c b Hc Hb), (E c a Hc Ha).
    intros H1 H2 H3 H4. apply lt_of_false. apply lt_of_false in H2, H4. eapply (cmp_neg_trans cmp C); eauto.
Qed.

Theorem row_lt_strict_weak : forall c rows, homogeneous c rows = true -> strict_weak_on (row_lt c) rows.
Proof.
  intros c rows H. apply (strict_weak_of_comparator (key_cmp c)).
  - apply key_cmp_comparator.
  - intros a b Ha Hb. apply row_lt_key_cmp. eapply homogeneous_pair; eauto.
Qed.

(* On homogeneous tables Go's insertion sort leaves no inversion w.r.t. rowLess; always a permutation. *)
Theorem go_isort_row_lt_sorted : forall c rows, homogeneous c rows = true ->
  no_inversion (row_lt c) (go_isort (row_lt c) rows).
Proof.
  intros c rows H.
  assert (E : forall a b, In a rows -> In b rows -> row_lt c a b = lt_of (key_cmp c) a b).
  { intros a b Ha Hb. apply row_lt_key_cmp. eapply homogeneous_pair; eauto. }
  rewrite (go_isort_ext (row_lt c) (lt_of (key_cmp c)) rows E).
  pose proof (go_isort_no_inversion (key_cmp c) (key_cmp_comparator c) rows) as Hn.
  pose proof (go_isort_perm (lt_of (key_cmp c)) rows) as Hp.
  unfold no_inversion in *.
  eapply ss_transfer; [exact Hn|]. cbn. intros a b Ha Hb Hab.
  rewrite E; [exact Hab| |]; eapply Permutation_in; try (apply Permutation_sym; exact Hp); assumption.
Qed.

(* The executable instance meets the contract for EVERY comparison that is the strict part of a comparator;
   for rowLess this is the case on homogeneous tables. *)
Theorem go_isort_contract_row_lt : forall c rows, homogeneous c rows = true ->
  sort_contract (row_lt c) rows (go_isort (row_lt c) rows).
Proof.
  intros c rows H. split; [apply go_isort_perm|]. intros _. apply go_isort_row_lt_sorted. exact H.
Qed.
