(* Table.Reduce / unsafeFullGroupRangeReduce / the accumulators (bql/table/table.go) and queryPlan.projectAndGroupBy
   (bql/planner/planner.go).  Definitions only. *)
From Coq Require Import List ZArith NArith Bool.
From Coq.Strings Require Import Byte.
Import ListNotations.
From BWTable Require Import Cells Fmt Sort.
Open Scope Z_scope.

(* ---- accumulators ---------------------------------------------------------------------------------------- *)
Inductive acc_kind :=
| AccNone            (* no accumulator: the value of the first row of the range is copied *)
| AccCount
| AccCountDistinct
| AccSumInt
| AccSumFloat.

Record aap := mkAap { a_in : binding; a_out : binding; a_acc : acc_kind }.   (* AliasAccPair *)

(* fmt.Sprintf("%v", cell) of a *Cell: Cell.String(); a nil pointer prints as <nil> *)
Definition nil_str : str := [x3c; x6e; x69; x6c; x3e].
Definition distinct_key (c : option cell) : str :=
  match c with Some x => cell_string x | None => nil_str end.

Fixpoint str_mem (s : str) (l : list str) : bool :=
  match l with [] => false | x :: t => str_eqb s x || str_mem s t end.

(* number of keys of the map[string]int64 after the range *)
Fixpoint distinct_count (seen : list str) (l : list str) : Z :=
  match l with
  | [] => Z.of_nat (length seen)
  | x :: t => if str_mem x seen then distinct_count seen t else distinct_count (x :: seen) t
  end.

(* sumInt64.Accumulate over a range: not a literal / not an int64 literal = error; s.state += iv wraps *)
Fixpoint sum_int (state : Z) (l : list (option cell)) : res Z :=
  match l with
  | [] => Ok state
  | None :: _ => Panic SNilCell
  | Some (CL lt) :: t =>
      match l_val lt with
      | VInt v => sum_int (wrap64 (state + v)) t
      | _ => Err EAccumulate
      end
  | Some _ :: _ => Err EAccumulate
  end.

Fixpoint sum_float (state : f64) (l : list (option cell)) : res f64 :=
  match l with
  | [] => Ok state
  | None :: _ => Panic SNilCell
  | Some (CL lt) :: t =>
      match l_val lt with
      | VFloat v => sum_float (f64_add state v) t
      | _ => Err EAccumulate
      end
  | Some _ :: _ => Err EAccumulate
  end.

(* the literal cell built from an accumulated float: its strings are produced by Go's %v / %032f (oracle); the model
   leaves them empty and the correspondence compares the value only *)
Definition float_cell (f : f64) : cell := CL (mkLit (VFloat f) [] []).

(* value of one output column for one range; None = the column is absent from the new row *)
Definition reduce_column (a : aap) (rng : list row) : res (option cell) :=
  let col := map (fun r => rget r (a_in a)) rng in
  match rng with
  | [] => Ok None
  | first :: _ =>
      match rget first (a_in a) with
      | None =>
          (* the first row has no such key: "for b, v := range rng[0]" never reaches this pair; the accumulators
             still ran over the range *)
          match a_acc a with
          | AccSumInt | AccSumFloat => Panic SNilCell
          | _ => Ok None
          end
      | Some v =>
          match a_acc a with
          | AccNone => Ok (Some v)
          | AccCount => Ok (Some (CL (int_lit (Z.of_nat (length rng)))))
          | AccCountDistinct => Ok (Some (CL (int_lit (distinct_count [] (map distinct_key col)))))
          | AccSumInt => bind (sum_int 0 col) (fun s => Ok (Some (CL (int_lit s))))
          | AccSumFloat => bind (sum_float f64_zero col) (fun s => Ok (Some (float_cell s)))
          end
      end
  end.

(* unsafeFullGroupRangeReduce *)
Fixpoint reduce_range (aaps : list aap) (rng : list row) : res row :=
  match aaps with
  | [] => Ok []
  | a :: rest =>
      bind (reduce_column a rng) (fun oc =>
      bind (reduce_range rest rng) (fun r =>
      Ok (match oc with Some c => rset r (a_out a) c | None => r end)))
  end.

(* The accumulation loop runs ROW by row (for each row, every accumulator): the outcome of a failing range is that of
   the first row on which some accumulator fails - a missing cell panics inside a sum, a cell that is not a literal of
   the summed type is an error; count and count distinct never fail. *)
Definition cell_fails (k : acc_kind) (c : option cell) : option bool :=     (* Some true = panic, Some false = error *)
  match k with
  | AccSumInt =>
      match c with
      | None => Some true
      | Some (CL l) => match l_val l with VInt _ => None | _ => Some false end
      | Some _ => Some false
      end
  | AccSumFloat =>
      match c with
      | None => Some true
      | Some (CL l) => match l_val l with VFloat _ => None | _ => Some false end
      | Some _ => Some false
      end
  | _ => None
  end.

Fixpoint row_failure (aaps : list aap) (r : row) : option bool :=
  match aaps with
  | [] => None
  | a :: rest => match cell_fails (a_acc a) (rget r (a_in a)) with Some b => Some b | None => row_failure rest r end
  end.

Fixpoint first_failure (aaps : list aap) (rng : list row) : option bool :=
  match rng with
  | [] => None
  | r :: t => match row_failure aaps r with Some b => Some b | None => first_failure aaps t end
  end.

Definition reduce_range_checked (aaps : list aap) (rng : list row) : res row :=
  match first_failure aaps rng with
  | Some true => Panic SNilCell
  | Some false => Err EAccumulate
  | None => bind (reduce_range aaps rng) (fun r => match r with [] => Err EReduceEmptyRow | _ => Ok r end)
  end.

(* toMap: a later pair with the same (in, out) replaces an earlier one *)
Definition aap_same (a b : aap) : bool := N.eqb (a_in a) (a_in b) && N.eqb (a_out a) (a_out b).
Fixpoint to_map (aaps : list aap) : list aap :=
  match aaps with
  | [] => []
  | a :: rest => if existsb (aap_same a) rest then to_map rest else a :: to_map rest
  end.

(* ---- grouping --------------------------------------------------------------------------------------------- *)
(* id(r): the concatenation of Cell.String() and ";" over the sort keys *)
Definition semicolon : byte := x3b.
Definition group_id (ks : list skey) (r : row) : str :=
  concat (map (fun k => distinct_key (rget r (k_b k)) ++ [semicolon]) ks).

(* maximal runs of adjacent rows with equal id (the loop of Reduce keeps the id of the first row of the run; ids
   are strings, so comparing with the neighbour is the same) *)
Fixpoint runs (ks : list skey) (l : list row) : list (list row) :=
  match l with
  | [] => []
  | x :: t =>
      match runs ks t with
      | (y :: g) :: gs => if str_eqb (group_id ks x) (group_id ks y) then (x :: y :: g) :: gs else [x] :: (y :: g) :: gs
      | _ => [[x]]
      end
  end.

Fixpoint dedup_bindings (l : list binding) (seen : list binding) : list binding :=
  match l with
  | [] => []
  | b :: t => if existsb (N.eqb b) seen then dedup_bindings t seen else b :: dedup_bindings t (b :: seen)
  end.

Fixpoint map_res {A B} (f : A -> res B) (l : list A) : res (list B) :=
  match l with
  | [] => Ok []
  | x :: t => bind (f x) (fun y => bind (map_res f t) (fun ys => Ok (y :: ys)))
  end.

(* Table.Reduce.  A failure after the sort leaves the table sorted (the caller used to ignore the error): the
   second component of Err-like outcomes is therefore reported through [reduce_leftover]. *)
Definition reduce_valid (aaps : list aap) (t : table) : bool :=
  let ins := dedup_bindings (map a_in aaps) [] in
  Nat.eqb (length (t_bindings t)) (length ins) &&
  forallb (fun b => existsb (N.eqb b) ins) (t_bindings t) &&
  forallb (fun b => existsb (N.eqb b) (t_bindings t)) ins.

Definition reduce_with (srt : sorter) (c : sort_cfg) (aaps : list aap) (t : table) : res table :=
  if negb (reduce_valid aaps t) then Err EReduceConfig
  else match t_rows t with
       | [] => Ok t
       | _ =>
           bind (table_sort_with srt c (t_rows t)) (fun sorted =>
           let ks := match c with Some ks => ks | None => [] end in
           (* With no sort key every id is the empty string, which the loop of Reduce also uses as its "no group
              seen yet" marker: each row restarts the group and only the LAST row is reduced. *)
           let groups := match ks with
                         | [] => match rev sorted with [] => [] | l :: _ => [[l]] end
                         | _ => runs ks sorted
                         end in
           bind (map_res (reduce_range_checked (to_map aaps)) groups) (fun rows =>
           Ok (mkTable (dedup_bindings (map a_out aaps) []) rows)))
       end.

(* what the table looks like when Reduce returned an error after sorting *)
Definition reduce_leftover (srt : sorter) (c : sort_cfg) (t : table) : res table :=
  bind (table_sort_with srt c (t_rows t)) (fun sorted => Ok (mkTable (t_bindings t) sorted)).

(* ---- queryPlan.projectAndGroupBy ------------------------------------------------------------------------------ *)
Inductive proj_op := OpNone | OpCount | OpSum.
Record proj := mkProj { p_bind : binding; p_alias : option binding; p_op : proj_op; p_distinct : bool }.

Definition proj_out (p : proj) : binding := match p_alias p with Some a => a | None => p_bind p end.

(* Table.ProjectBindings *)
Definition project_bindings (bs : list binding) (t : table) : res table :=
  match t_rows t, t_bindings t with
  | [], _ | _, [] => Ok t
  | _, _ =>
      if forallb (fun b => existsb (N.eqb b) (t_bindings t)) bs
      then Ok (mkTable (dedup_bindings bs []) (t_rows t))
      else Err EProject
  end.

Definition add_bindings (bs : list binding) (t : table) : table :=
  mkTable (t_bindings t ++ dedup_bindings bs (t_bindings t)) (t_rows t).

(* repairs applied to projectAndGroupBy; all false = the code as found *)
Record pg_fixes := mkFixes {
  fx_empty : bool;          (* F10: an empty table is returned as it is (no Rows()[0] peek, no Reduce validation) *)
  fx_alias : bool;          (* F18: a GROUP BY name may be the alias of a projection *)
  fx_reduce_err : bool;     (* F21: return the error of Table.Reduce *)
  fx_simul_alias : bool     (* F26: all projected values are read before any alias is written *)
}.

(* as found: "prj.Binding == g"; after the repair the rule of groupByBindingsChecker: the GROUP BY name is the alias
   of the projection if it has one, its binding otherwise *)
Definition group_matches (fx : pg_fixes) (p : proj) (g : binding) : bool :=
  if fx_alias fx
  then match p_alias p with Some a => N.eqb a g | None => N.eqb (p_bind p) g end
  else N.eqb (p_bind p) g.

Definition choose_acc (fx : pg_fixes) (p : proj) (t : table) : res acc_kind :=
  match p_op p with
  | OpNone => Ok AccNone
  | OpCount => Ok (if p_distinct p then AccCountDistinct else AccCount)
  | OpSum =>
      match t_rows t with
      | [] => Panic SRowsZero
      | first :: _ =>
          match rget first (p_bind p) with
          | None => Panic SNilCell
          | Some (CL l) =>
              match l_val l with
              | VInt _ => Ok AccSumInt
              | VFloat _ => Ok AccSumFloat
              | _ => Err ESumKind
              end
          | Some _ => Err ESumKind
          end
      end
  end.

Fixpoint build_cfg (fx : pg_fixes) (group_by : list binding) (projs : list proj) (seen : list binding) : list skey :=
  match projs with
  | [] => []
  | p :: rest =>
      if existsb (group_matches fx p) group_by && negb (existsb (N.eqb (p_bind p)) seen)
      then mkKey (p_bind p) false :: build_cfg fx group_by rest (p_bind p :: seen)
      else build_cfg fx group_by rest seen
  end.

Definition project_and_group_by_with (srt : sorter) (fx : pg_fixes) (group_by : list binding) (projs : list proj)
    (t : table) : res table :=
  match group_by with
  | [] =>
      let t1 := add_bindings (map proj_out projs) t in
      (* as found the aliases were written one after the other INTO the row the next projection reads from, so an
         alias with the name of a pattern binding corrupted a later projection of that binding *)
      let rows := map (fun r0 => fold_left (fun r p =>
                     match p_alias p, rget (if fx_simul_alias fx then r0 else r) (p_bind p) with
                     | Some a, Some c => rset r a c
                     | _, _ => r
                     end) projs r0) (t_rows t1) in
      project_bindings (map proj_out projs) (mkTable (t_bindings t1) rows)
  | _ =>
      if fx_empty fx && match t_rows t with [] => true | _ => false end then Ok t else
      let cfg := build_cfg fx group_by projs [] in
      bind (map_res (fun p => bind (choose_acc fx p t)
                                   (fun k => Ok (mkAap (p_bind p) (proj_out p) k))) projs) (fun aaps =>
      bind (project_bindings (map p_bind projs) t) (fun t1 =>
      match reduce_with srt (Some cfg) aaps t1 with
      | Ok t2 => Ok t2
      | Err e => if fx_reduce_err fx then Err e
                 else match e with
                      | EReduceConfig => Ok t1                       (* failed before touching the table *)
                      | _ => reduce_leftover srt (Some cfg) t1       (* failed after the sort *)
                      end
      | Panic s => Panic s
      | Fatal => Fatal
      end))
  end.

Definition project_and_group_by := project_and_group_by_with (@go_isort row).
Definition reduce := reduce_with (@go_isort row).
