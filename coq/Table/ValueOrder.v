(* Comparison BY VALUE: literal.Compare (triple/literal/literal.go), table.CompareCells and the rowLess built on it
   (bql/table/table.go) after the repair "compare cells by value instead of by their formatted strings".
   Definitions, and the proof that the comparison is a total preorder (comparator) on ALL cells / rows. *)
From Coq Require Import List ZArith NArith Bool Lia.
From Coq.Strings Require Import Byte.
From Coq.Floats Require Import SpecFloat.
Import ListNotations.
From BWTable Require Import Cells StrOrder Sort.
Open Scope Z_scope.

(* float64 ordered numerically: NaN before every other value and equal to itself, -0 = 0.  The key is the usual
   order-preserving reading of the IEEE bit pattern (biased exponent, fraction), negated for negative numbers. *)
Definition two52 : Z := 4503599627370496.
Definition f64_key (f : f64) : Z :=
  match f with
  | S754_nan => - (4096 * two52)
  | S754_zero _ => 0
  | S754_infinity s => if s then - (2047 * two52) else 2047 * two52
  | S754_finite s m e =>
      let mag := if two52 <=? Z.pos m then (e + 1075) * two52 + (Z.pos m - two52) else Z.pos m in
      if s then - mag else mag
  end.

Definition lit_rank (v : litval) : Z :=
  match v with VBool _ => 0 | VInt _ => 1 | VFloat _ => 2 | VText _ => 3 | VBlob _ => 4 end.

(* Literal.Compare *)
Definition lit_cmp (a b : litval) : comparison :=
  match a, b with
  | VBool x, VBool y => Z.compare (Z.b2z x) (Z.b2z y)
  | VInt x, VInt y => Z.compare x y
  | VFloat x, VFloat y => Z.compare (f64_key x) (f64_key y)
  | VText x, VText y => str_compare x y
  | VBlob x, VBlob y => str_compare x y
  | _, _ => Z.compare (lit_rank a) (lit_rank b)
  end.

Definition kind_rank (c : cell) : Z :=
  match c with CNull => 0 | CS _ => 1 | CN _ => 2 | CP _ => 3 | CL _ => 4 | CT _ => 5 end.

(* table.CompareCells: cells of different kinds by kind; strings, nodes, predicates by printed form; literals by value;
   time anchors as instants *)
Definition cell_cmp (a b : cell) : comparison :=
  match a, b with
  | CNull, CNull => Eq
  | CS x, CS y => str_compare x y
  | CN x, CN y => str_compare x y
  | CP x, CP y => str_compare x y
  | CL x, CL y => lit_cmp (l_val x) (l_val y)
  | CT x, CT y => Z.compare (t_ns x) (t_ns y)
  | _, _ => Z.compare (kind_rank a) (kind_rank b)
  end.

Definition opt_cmp (a b : option cell) : comparison :=
  match a, b with
  | Some x, Some y => cell_cmp x y
  | None, None => Eq
  | None, Some _ => Lt
  | Some _, None => Gt
  end.

(* rowLess: the keys in sequence, each in its direction *)
Fixpoint row_cmpv (c : list skey) (ri rj : row) : comparison :=
  match c with
  | [] => Eq
  | k :: rest => lex_cmp (dir_cmp (k_desc k) (opt_cmp (rget ri (k_b k)) (rget rj (k_b k)))) (row_cmpv rest ri rj)
  end.

Definition row_ltv (c : list skey) (ri rj : row) : bool :=
  match row_cmpv c ri rj with Lt => true | _ => false end.

(* ---- it is a comparator ---------------------------------------------------------------------------------------------- *)
Lemma Z_compare_comparator : comparator Z.compare.
Proof.
  constructor.
  - apply Z.compare_refl.
  - intros a b. apply Z.compare_antisym.
  - intros a b c H1 H2. rewrite Z.compare_lt_iff in *. lia.
  - intros a b c H. apply Z.compare_eq_iff in H. subst. reflexivity.
Qed.

(* a uniform key: (rank, number, string), compared lexicographically *)
Definition cell_key (c : cell) : Z * Z * str :=
  match c with
  | CNull => (0, 0, [])
  | CS s => (1, 0, s)
  | CN s => (2, 0, s)
  | CP s => (3, 0, s)
  | CL l => match l_val l with
            | VBool b => (4, Z.b2z b, [])
            | VInt v => (5, v, [])
            | VFloat f => (6, f64_key f, [])
            | VText s => (7, 0, s)
            | VBlob s => (8, 0, s)
            end
  | CT t => (9, t_ns t, [])
  end.

Definition key3_cmp (a b : Z * Z * str) : comparison :=
  lex_cmp (Z.compare (fst (fst a)) (fst (fst b)))
          (lex_cmp (Z.compare (snd (fst a)) (snd (fst b))) (str_compare (snd a) (snd b))).

Lemma key3_comparator : comparator key3_cmp.
Proof.
  unfold key3_cmp.
  apply (comparator_lex (fun a b => Z.compare (fst (fst a)) (fst (fst b)))
                        (fun a b => lex_cmp (Z.compare (snd (fst a)) (snd (fst b))) (str_compare (snd a) (snd b)))).
  - apply (comparator_on (fun a : Z * Z * str => fst (fst a))). apply Z_compare_comparator.
  - apply (comparator_lex (fun a b : Z * Z * str => Z.compare (snd (fst a)) (snd (fst b)))
                          (fun a b => str_compare (snd a) (snd b))).
    + apply (comparator_on (fun a : Z * Z * str => snd (fst a))). apply Z_compare_comparator.
    + apply (comparator_on (fun a : Z * Z * str => snd a)). apply str_compare_comparator.
Qed.

Lemma lex_eq_l : forall c, lex_cmp Eq c = c. Proof. reflexivity. Qed.
Lemma lex_cmp_eq_r' : forall x, lex_cmp x Eq = x. Proof. intros []; reflexivity. Qed.

Lemma cell_cmp_key : forall a b, cell_cmp a b = key3_cmp (cell_key a) (cell_key b).
Proof.
  intros a b. unfold key3_cmp.
  destruct a as [|sa|sa|sa|la|ta]; destruct b as [|sb|sb|sb|lb|tb]; cbn [cell_cmp cell_key kind_rank fst snd];
    try reflexivity;
    try (destruct (l_val la); reflexivity); try (destruct (l_val lb); reflexivity).
  - (* literals *)
    destruct (l_val la) as [xa|xa|xa|xa|xa]; destruct (l_val lb) as [xb|xb|xb|xb|xb];
      cbn [lit_cmp lit_rank fst snd]; try reflexivity.
    + rewrite Z.compare_refl. cbn. rewrite lex_cmp_eq_r'. reflexivity.
    + rewrite Z.compare_refl. cbn. rewrite lex_cmp_eq_r'. reflexivity.
    + rewrite Z.compare_refl. cbn. rewrite lex_cmp_eq_r'. reflexivity.
  - (* time *)
    rewrite lex_cmp_eq_r'. reflexivity.
Qed.

Theorem cell_cmp_comparator : comparator cell_cmp.
Proof.
  pose proof (comparator_on cell_key key3_cmp key3_comparator) as C.
  constructor.
  - intro a. rewrite cell_cmp_key. apply (cmp_refl _ C).
  - intros a b. rewrite !cell_cmp_key. apply (cmp_sym _ C).
  - intros a b c. rewrite !cell_cmp_key. apply (cmp_trans_lt _ C).
  - intros a b c. rewrite !cell_cmp_key. apply (cmp_eq_l _ C).
Qed.

Lemma opt_cmp_comparator : comparator opt_cmp.
Proof.
  pose proof cell_cmp_comparator as S.
  constructor.
  - intros [a|]; cbn; [apply (cmp_refl _ S) | reflexivity].
  - intros [a|] [b|]; cbn; try reflexivity. apply (cmp_sym _ S).
  - intros [a|] [b|] [c|]; cbn; intros H1 H2; try discriminate; try reflexivity.
    eapply (cmp_trans_lt _ S); eauto.
  - intros [a|] [b|] [c|]; cbn; intro H; try discriminate; try reflexivity.
    apply (cmp_eq_l _ S). exact H.
Qed.

Theorem row_cmpv_comparator : forall c, comparator (row_cmpv c).
Proof.
  induction c as [|k rest IH]; cbn.
  - apply comparator_const_eq.
  - apply (comparator_lex (fun ri rj => dir_cmp (k_desc k) (opt_cmp (rget ri (k_b k)) (rget rj (k_b k))))
                          (row_cmpv rest)); [|exact IH].
    apply (comparator_dir (fun ri rj => opt_cmp (rget ri (k_b k)) (rget rj (k_b k)))).
    apply (comparator_on (fun r => rget r (k_b k))). apply opt_cmp_comparator.
Qed.
