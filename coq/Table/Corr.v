(* Executable comparison of the Table-family model with observations of the real engine (cases written by
   checks/c11.py, c12.py, c13.py from the output of harness/cmd/h_table).  Not part of any theorem. *)
From Coq Require Import List ZArith NArith Bool.
From Coq.Strings Require Import Byte.
Import ListNotations.
From BWValues Require TimeCodec.
From BWTable Require Import Cells Fmt StrOrder Sort SortProofs ValueOrder SortSpec Limit TimeLaw Reduce ReduceSpec GroupProofs Expr ExprSpec Exec ValueEngine.
Open Scope Z_scope.

(* the repairs applied to /repo so far (the model follows the CURRENT tree) *)
Definition cur_reject_negative_limit : bool := true.    (* repo commit 0089c85 *)
Definition cur_repeated_keys_fixed : bool := true.      (* repo commit 67e0e70 *)
Definition cur_pushdown_guarded : bool := true.         (* repo commit e34ecad (planner builder) *)

(* [vm]: the implementation compares BY VALUE (repairs F27 / F28 applied); false = by formatted strings (as found).
   The checks pass the constant that describes the CURRENT tree. *)
Definition sort_m (vm : bool) := if vm then table_sortv else table_sort.
Definition less_m (vm : bool) (ks : list skey) := if vm then row_ltv ks else row_lt ks.
Definition strict_weak_m (vm : bool) (ks : list skey) (rows : list row) : bool :=
  if vm then forallb (has_keys ks) rows else homogeneous ks rows.
Definition reduce_m (vm : bool) := if vm then reducev else reduce.
Definition pgb_m (vm : bool) (fx : pg_fixes) := if vm then project_and_group_byv else project_and_group_by fx.
Definition leftover_m (vm : bool) := if vm then reducev_leftover (@go_isort row) else reduce_leftover (@go_isort row).
Definition spec_reduce_m (vm : bool) := if vm then spec_reducev else spec_reduce.
Definition eval_m (vm : bool) := if vm then evalv else eval.
Definition having_m (vm : bool) := if vm then havingv else having.
Definition exec_ol_m (vm : bool) := if vm then exec_order_limitv_with (@go_isort row) else exec_order_limit_with (@go_isort row).
Definition exec_tail_m (vm : bool) (fx : pg_fixes) := if vm then execute_tailv_with (@go_isort row) else execute_tail_with (@go_isort row) fx.

Fixpoint row_eqb (a b : row) : bool :=
  match a, b with
  | [], [] => true
  | (k, c) :: a', (k', c') :: b' => N.eqb k k' && cell_eqb c c' && row_eqb a' b'
  | _, _ => false
  end.

Fixpoint rows_eqb (a b : list row) : bool :=
  match a, b with
  | [], [] => true
  | x :: a', y :: b' => row_eqb x y && rows_eqb a' b'
  | _, _ => false
  end.

Definition count_row (r : row) (l : list row) : nat := length (filter (row_eqb r) l).
Definition perm_b (a b : list row) : bool :=
  Nat.eqb (length a) (length b) && forallb (fun r => Nat.eqb (count_row r a) (count_row r b)) a.

(* remove one occurrence *)
Fixpoint remove_one (r : row) (l : list row) : option (list row) :=
  match l with
  | [] => None
  | x :: t => if row_eqb r x then Some t else option_map (cons x) (remove_one r t)
  end.
(* l minus the multiset m (None when m is not a sub-multiset) *)
Fixpoint minus_rows (l m : list row) : option (list row) :=
  match m with
  | [] => Some l
  | r :: m' => match remove_one r l with Some l' => minus_rows l' m' | None => None end
  end.

(* the strings of int64 and text literal cells are the ones the Gallina formatters compute *)
Definition cell_fmt_ok (c : cell) : bool :=
  match c with
  | CL l =>
      match l_val l with
      | VInt v => str_eqb (l_cmp l) (int_cmp_string v) && str_eqb (l_str l) (int_string v)
      | VText s => str_eqb (l_cmp l) (text_string s) && str_eqb (l_str l) (text_string s)
      | VFloat _ => true
      | _ => str_eqb (l_cmp l) (l_str l)
      end
  | CT t =>
      (* anchors: the printed form is the rendering of the Gallina RFC3339Nano formatter of the Values family *)
      if ns_dom_b t then str_eqb (t_str t) (TimeCodec.fmt_rfc3339nano (vtime t)) else true
  | _ => true
  end.
Definition rows_fmt_ok (l : list row) : bool := forallb (fun r => forallb (fun p => cell_fmt_ok (snd p)) r) l.

(* verdict codes: 0 agrees (outside D12), 1 agrees (inside D12, value order checked), 2 disagrees, 3 a formatted
   string differs from the Gallina formatter *)
Definition verdict (fmt agree ind12 : bool) : N :=
  if negb fmt then 3%N else if negb agree then 2%N else if ind12 then 1%N else 0%N.

(* one fine kind (cell kind, literal type) per key column: the property speaks about such keys only *)
Definition fine_homog (ks : list skey) (rows : list row) : bool :=
  forallb (fun ri => forallb (fun rj => same_fine_kinds ks ri rj) rows) rows.

(* 4 = the engine agrees with the model, the key columns are of one kind each, but the output is NOT in value order
   (possible only outside D12): the check must classify the case as a known finding or report it *)
Definition value_order_code (ks : list skey) (inp out : list row) (v : N) : N :=
  if N.eqb v 0 && fine_homog ks inp && negb (spec_sorted_b ks out) then 4%N else v.

(* D12 as the correspondence uses it: the shipped renderings of anchors and float64 are taken as they are (that
   they obey the oracle laws is exactly what the value-order check then tests on every case) *)
Definition d12c : list skey -> list row -> bool :=
  d12_gen (fun _ => true) tm_pair_o
          (fun l => match l_val l with VFloat f => sf_in_domain f | _ => false end).

(* ---- Table.Sort ---- *)
Definition sort_verdict (vm : bool) (c : sort_cfg) (inp : list row) (out : option (list row)) : N :=
  let ind12 := match c with Some ks => d12c ks inp | None => false end in
  let agree :=
    match sort_m vm c inp, out with
    | Ok m, Some o =>
        (if Nat.leb (length inp) 12 then rows_eqb m o else true) &&
        perm_b inp o &&
        match c with
        | Some ks => (if strict_weak_m vm ks inp then no_inversion_b (less_m vm ks) o else true) &&
                     (if ind12 then spec_sorted_b ks o else true)
        | None => rows_eqb inp o
        end
    | Panic _, None => true
    | _, _ => false
    end in
  let v := verdict (rows_fmt_ok inp) agree ind12 in
  match c, out with
  | Some ks, Some o => value_order_code ks inp o v
  | _, _ => v
  end.

(* ---- Table.Limit ---- *)
Definition limit_verdict (n : Z) (inp : list row) (out : option (list row)) : N :=
  let agree := match table_limit n inp, out with
               | Ok m, Some o => rows_eqb m o
               | Panic _, None => true
               | _, _ => false
               end in
  verdict true agree false.

(* ---- LIMIT token through the statement parser; outcome 0 = accepted (limit value given), 1 = rejected, 2 = panic *)
Definition limtok_verdict (t : limit_tok) (outcome : N) (lim : Z) : N :=
  let r := bind (limit_collection cur_reject_negative_limit t)
                (fun n => bind (plan_limit (Some n) (@nil row)) (fun _ => Ok n)) in
  let agree := match r, outcome with
               | Ok n, 0%N => Z.eqb n lim
               | Err _, 1%N => true
               | Panic _, 2%N => true
               | _, _ => false
               end in
  verdict true agree false.

(* ---- ORDER BY / LIMIT end to end ---- *)
Definition skey_eqb (a b : skey) : bool := N.eqb (k_b a) (k_b b) && Bool.eqb (k_desc a) (k_desc b).
Fixpoint keys_eqb (a b : list skey) : bool :=
  match a, b with
  | [], [] => true
  | x :: a', y :: b' => skey_eqb x y && keys_eqb a' b'
  | _, _ => false
  end.
Definition keys_perm_b (a b : list skey) : bool :=
  Nat.eqb (length a) (length b) && forallb (fun k => existsb (skey_eqb k) b) a && forallb (fun k => existsb (skey_eqb k) a) b.

(* res = None: the statement was rejected by the parser/checker.  [exact]: the order of the rows before sorting is
   the same in both runs (single-clause statements), so small tables must match Go's insertion sort exactly. *)
Definition e2e12_verdict (vm : bool) (outs : list binding) (keys seen : list skey) (lim : option Z) (pushdown : option (list bool)) (exact : bool)
    (base : list row) (res : option (list row)) : N :=
  match checker_loop outs keys [] false, res with
  | inl _, None => verdict true true false
  | inl _, Some _ => 2%N
  | inr _, None => 2%N
  | inr (seen_m, dups), Some o =>
      let cfg_ok := if dups then (if cur_repeated_keys_fixed then keys_eqb seen seen_m else keys_perm_b seen seen_m)
                    else keys_eqb seen keys in
      let c : sort_cfg := match keys with [] => None | _ => Some seen end in
      let fetched := fetch_pushdown (pushdown_mask cur_pushdown_guarded c pushdown) lim base in
      let ind12 := match c with Some ks => d12c ks fetched | None => false end in
      let homog := match c with Some ks => strict_weak_m vm ks fetched | None => true end in
      let n_ok := match lim with
                  | Some n => Nat.eqb (length o) (Nat.min (Z.to_nat n) (length fetched))
                  | None => Nat.eqb (length o) (length fetched)
                  end in
      let rel :=
        match minus_rows fetched o with
        | None => false
        | Some dropped =>
            match c with
            | None => true
            | Some ks =>
                if homog then no_inversion_b (less_m vm ks) o &&
                              forallb (fun d => forallb (fun k => negb (less_m vm ks d k)) o) dropped
                else true
            end && (match c with Some ks => if ind12 then spec_sorted_b ks o else true | None => true end)
        end in
      let ex := if exact && Nat.leb (length fetched) 12
                then match exec_ol_m vm cur_pushdown_guarded pushdown c lim base with
                     | Ok m => rows_eqb m o
                     | _ => false
                     end
                else true in
      let v := verdict (rows_fmt_ok base) (cfg_ok && n_ok && rel && ex) ind12 in
      (* 6 = the engine agrees with the model but returns a number of rows other than min(n, N) *)
      let count_bad := match lim with
                       | Some n => negb (Nat.eqb (length o) (Nat.min (Z.to_nat n) (length base)))
                       | None => negb (Nat.eqb (length o) (length base))
                       end in
      if (N.eqb v 0 || N.eqb v 1) && count_bad then 6%N else
      match c with
      | Some ks =>
          let v1 := value_order_code keys fetched o v in
          if N.eqb v1 0 || N.eqb v1 1 then
            (* 5 = LIMIT kept the wrong rows: a dropped row of the FULL base table is smaller (by value) than a
               kept one *)
            match minus_rows base o with
            | Some dropped =>
                if fine_homog keys base &&
                   existsb (fun d => existsb (fun k => match spec_row_cmp keys d k with Lt => true | _ => false end) o)
                           dropped
                then 5%N else v1
            | None => v1
            end
          else v1
      | None => v
      end
  end.

(* ---- Table.Reduce / GROUP BY ------------------------------------------------------------------------------- *)
Definition cur_fixes : pg_fixes := mkFixes true true true true.   (* repo commits 3cb5b46+6f0bb79, 7999921, 33c29dc, 0ca8278 *)

(* float64 results: the model does not know Go's rendering of the sum, compare the value only *)
Definition cell_agree (m o : cell) : bool :=
  match m, o with
  | CL a, CL b => match l_val a, l_val b with
                  | VFloat x, VFloat y => sf_eqb x y
                  | _, _ => cell_eqb m o
                  end
  | _, _ => cell_eqb m o
  end.
Definition row_agree (bs : list binding) (m o : row) : bool :=
  forallb (fun b => match rget m b, rget o b with
                    | Some x, Some y => cell_agree x y
                    | None, None => true
                    | _, _ => false
                    end) bs.
Fixpoint rows_agree (bs : list binding) (m o : list row) : bool :=
  match m, o with
  | [], [] => true
  | x :: m', y :: o' => row_agree bs x y && rows_agree bs m' o'
  | _, _ => false
  end.
(* Multiset comparisons are made where the order of the rows before a sort is not determined (several clauses, more
   than 12 rows): there the REPRESENTATIVE of a group of equal values is not determined either, so two cells also agree
   when they hold the same value in another rendering (-0 / 0, one instant written in two zones). *)
Definition row_agree_val (bs : list binding) (m o : row) : bool :=
  forallb (fun b => match rget m b, rget o b with
                    | Some x, Some y => cell_agree x y || cell_val_eqb x y
                    | None, None => true
                    | _, _ => false
                    end) bs.
Fixpoint remove_agree (bs : list binding) (r : row) (l : list row) : option (list row) :=
  match l with
  | [] => None
  | x :: t => if row_agree_val bs r x then Some t else option_map (cons x) (remove_agree bs r t)
  end.
Fixpoint multiset_agree (bs : list binding) (m o : list row) : bool :=
  match m with
  | [] => match o with [] => true | _ => false end
  | r :: m' => match remove_agree bs r o with Some o' => multiset_agree bs m' o' | None => false end
  end.
Fixpoint bindings_eqb (a b : list binding) : bool :=
  match a, b with
  | [], [] => true
  | x :: a', y :: b' => N.eqb x y && bindings_eqb a' b'
  | _, _ => false
  end.

(* outcome codes of observations: 0 ok, 1 error, 2 panic *)
Definition reduce_verdict (vm : bool) (bs : list binding) (c : sort_cfg) (aaps : list aap) (inp : list row)
    (outcome : N) (obs : list binding) (out : list row) : N :=
  let t := mkTable bs inp in
  let small := Nat.leb (length inp) 12 in
  (* more than 12 rows outside D11 (a key column of several kinds: rowLess is no strict weak order; or rows that
     rowLess cannot tell apart but whose ids differ): pdqsort's output is unspecified and so is the grouping; only
     the spec comparison below is made *)
  let in_d11 := match c with Some ks => if vm then forallb (has_keys ks) inp else d11 ks inp | None => false end in
  let unspecified := negb small && negb in_d11 && match c with Some _ => true | None => false end in
  let agree :=
    match reduce_m vm c aaps t, outcome with
    | Ok m, 0%N => bindings_eqb (t_bindings m) obs &&
                   (if small then rows_agree obs (t_rows m) out
                    else if unspecified then true else multiset_agree obs (t_rows m) out)
    | Err EReduceConfig, 1%N => bindings_eqb bs obs && rows_agree bs inp out
    | Err _, 1%N => bindings_eqb bs obs &&
                    match leftover_m vm c t with
                    | Ok l => if small then rows_agree bs (t_rows l) out else multiset_agree bs (t_rows l) out
                    | _ => false
                    end
    | Panic _, 2%N => true
    | _, _ => false
    end in
  let v := verdict (rows_fmt_ok inp) agree false in
  (* the property: one row per distinct key combination with the right aggregates (4 = the engine agrees with the
     model but not with the spec) *)
  if N.eqb v 0 && N.eqb outcome 0 then
    match c with
    | Some ks =>
        (* inside D11 (theorem C11_groups_partial) a disagreement with the spec is a contradiction: 2 *)
        match spec_reduce_m vm (map k_b ks) aaps inp with
        | Ok sp => if multiset_agree obs sp out then (if in_d11 then 1%N else v)
                   else if in_d11 && negb vm then 2%N else 4%N
        | _ => if in_d11 && negb vm then 2%N else 4%N
        end
    | None => v
    end
  else v.

(* GROUP BY through the planner.  outcome: 0 ok, 1 execution error, 2 panic *)
Definition resolve_group (projs : list proj) (g : binding) : binding :=
  match find (fun p => match p_alias p with Some a => N.eqb a g | None => N.eqb (p_bind p) g end) projs with
  | Some p => p_bind p
  | None => g
  end.

Definition all_cells (f : cell -> bool) (b : binding) (rows : list row) : bool :=
  forallb (fun r => match rget r b with Some c => f c | None => false end) rows.
Definition is_int_cell (c : cell) : bool := match c with CL l => match l_val l with VInt _ => true | _ => false end | _ => false end.
Definition is_float_cell (c : cell) : bool := match c with CL l => match l_val l with VFloat _ => true | _ => false end | _ => false end.

(* the aggregates the PROPERTY asks for: sum is defined on all-int64 and on all-float64 columns *)
Definition spec_aaps (projs : list proj) (rows : list row) : option (list aap) :=
  fold_right (fun p acc =>
    match acc with
    | None => None
    | Some l =>
        let k := match p_op p with
                 | OpNone => Some AccNone
                 | OpCount => Some (if p_distinct p then AccCountDistinct else AccCount)
                 | OpSum => if all_cells is_int_cell (p_bind p) rows then Some AccSumInt
                            else if all_cells is_float_cell (p_bind p) rows then Some AccSumFloat else None
                 end in
        match k with Some k => Some (mkAap (p_bind p) (proj_out p) k :: l) | None => None end
    end) (Some []) projs.

Definition e2e11_verdict (vm : bool) (group_by : list binding) (projs : list proj) (bs : list binding) (base : list row)
    (exact : bool) (outcome : N) (obs : list binding) (out : list row) : N :=
  let outs := map proj_out projs in
  let model := bind (pgb_m vm cur_fixes group_by projs (mkTable bs base))
                    (fun t => Ok (match t_rows t with [] => mkTable outs [] | _ => t end)) in
  let small := exact && Nat.leb (length base) 12 in
  (* outside D11 the grouping depends on the order of the rows before the sort: it is determined only when that
     order is the same in both runs (single clause) and Go sorts by insertion (at most 12 rows) *)
  let unspecified := negb small && negb (if vm then true else d11 (build_cfg cur_fixes group_by projs []) base) in
  let agree :=
    match model, outcome with
    | Ok m, 0%N => bindings_eqb (t_bindings m) obs &&
                   (if small then rows_agree obs (t_rows m) out
                    else if unspecified then true else multiset_agree obs (t_rows m) out)
    | Err _, 1%N => true
    | Panic _, 2%N => true
    | _, _ => false
    end in
  let v := verdict (rows_fmt_ok base) agree false in
  if negb (N.eqb v 0) then v else
  (* the property *)
  match spec_aaps projs base with
  | None => if N.eqb outcome 0 then 8%N else v      (* no sum is defined: a result (instead of an error) is wrong *)
  | Some sa =>
      match spec_reduce_m vm (map (resolve_group projs) group_by) sa base with
      | Ok sp => if N.eqb outcome 0 then (if bindings_eqb outs obs && multiset_agree obs sp out then v else 4%N)
                 else 7%N                            (* the property demands a result, the engine failed *)
      | _ => v
      end
  end.

(* ---- HAVING ---------------------------------------------------------------------------------------------------- *)
Definition cop_eqb (a b : cop) : bool := match a, b with OLt, OLt | OGt, OGt | OEq, OEq => true | _, _ => false end.
Definition pconst_eqb (a b : parsed_const) : bool :=
  match a, b with
  | PCError, PCError | PCNil, PCNil => true
  | PC v c, PC v' c' => litval_eqb v v' && str_eqb c c'
  | _, _ => false
  end.
Definition optz_eqb (a b : option Z) : bool :=
  match a, b with Some x, Some y => Z.eqb x y | None, None => true | _, _ => false end.
Fixpoint expr_eqb (a b : expr) : bool :=
  match a, b with
  | EBind o l r, EBind o' l' r' => cop_eqb o o' && N.eqb l l' && N.eqb r r'
  | ELit o l c, ELit o' l' c' => cop_eqb o o' && N.eqb l l' && pconst_eqb c c'
  | ENode o l t, ENode o' l' t' | EPred o l t, EPred o' l' t' => cop_eqb o o' && N.eqb l l' && str_eqb t t'
  | ETime o l t, ETime o' l' t' => cop_eqb o o' && N.eqb l l' && optz_eqb t t'
  | ENot x, ENot y => expr_eqb x y
  | EAnd x y, EAnd x' y' | EOr x y, EOr x' y' => expr_eqb x x' && expr_eqb y y'
  | _, _ => false
  end.

(* result codes per row: 0 false, 1 true, 2 error, 3 panic *)
Definition res_code (r : res bool) : N :=
  match r with Ok false => 0%N | Ok true => 1%N | Err _ => 2%N | Panic _ => 3%N | Fatal => 4%N end.
Fixpoint codes_eqb (a b : list N) : bool :=
  match a, b with
  | [], [] => true
  | x :: a', y :: b' => N.eqb x y && codes_eqb a' b'
  | _, _ => false
  end.

(* does the value semantics disagree with the model on some row (where both are defined) *)
Definition spec_disagrees (vm : bool) (e : expr) (rows : list row) : bool :=
  existsb (fun r => match eval_m vm e r, spec_eval e r with
                    | Ok b, Some b' => negb (Bool.eqb b b')
                    | _, _ => false
                    end) rows.

(* the builder rejects a token list whose grammar derivation has a boolean meaning *)
Definition rejected_but_meaningful (ts : list tok) : bool :=
  match new_evaluator ts, derivation_of ts with
  | Err _, Some h => match denote h with Some _ => true | None => false end
  | _, _ => false
  end.
(* the builder's tree differs from the one the derivation denotes (never expected: theorem) *)
Definition tree_differs (ts : list tok) : bool :=
  match new_evaluator ts, derivation_of ts with
  | Ok e, Some h => match denote h with Some e' => negb (expr_eqb e e') | None => true end
  | _, _ => false
  end.

(* build outcome: 0 ok, 1 error, 2 panic *)
Definition expr_verdict (vm : bool) (ts : list tok) (outcome : N) (tree : option expr) (rows : list row) (results : list N) : N :=
  let agree :=
    match new_evaluator ts, outcome, tree with
    | Ok e, 0%N, Some t => expr_eqb e t && codes_eqb (map (fun r => res_code (eval_m vm e r)) rows) results
    | Err _, 1%N, _ => true
    | Panic _, 2%N, _ => true
    | _, _, _ => false
    end in
  if negb agree then 2%N
  else if tree_differs ts then 9%N
  else if rejected_but_meaningful ts then 7%N
  else match new_evaluator ts with
       | Ok e => if spec_disagrees vm e rows then 4%N else 0%N
       | _ => 0%N
       end.

(* HAVING through the planner; outcome: 0 ok, 1 rejected at parse time, 2 execution error, 3 panic *)
Definition e2e13_verdict (vm : bool) (ts : list tok) (bs : list binding) (base : list row) (exact : bool)
    (outcome : N) (out : list row) : N :=
  let agree :=
    match new_evaluator ts with
    | Ok e =>
        match having_m vm (Some e) base, outcome with
        | Ok kept, 0%N => if exact then rows_agree bs kept out else multiset_agree bs kept out
        | Err _, 2%N => true
        | Panic _, 3%N => true
        | _, _ => false
        end
    | Err _ => N.eqb outcome 1
    | _ => false
    end in
  if negb (rows_fmt_ok base) then 3%N
  else if negb agree then 2%N
  else if tree_differs ts then 9%N
  else if rejected_but_meaningful ts then 7%N
  else match new_evaluator ts with
       | Ok e => if spec_disagrees vm e base then 4%N else 0%N
       | _ => 0%N
       end.

(* ---- all clauses together: the tail of Execute (Exec.execute_tail) ------------------------------------------------- *)
(* outcome: 0 ok, 1 rejected at parse time, 2 execution error, 3 panic *)
Definition tail_verdict (vm : bool) (group_by : list binding) (projs : list proj) (keys : list skey) (having_toks : list tok)
    (lim : option Z) (bs : list binding) (base : list row) (outcome : N) (obs : list binding) (out : list row) : N :=
  let outs := map proj_out projs in
  let cfg : res sort_cfg :=
    match keys with
    | [] => Ok None
    | _ => match order_by_checker (fun l => l) outs keys with
           | inr c => Ok (Some c)
           | inl _ => Err EBuild
           end
    end in
  let hav : res (option expr) :=
    match having_toks with
    | [] => Ok None
    | _ => match new_evaluator having_toks with
           | Ok e => Ok (Some e)
           | Err x => Err x | Panic s => Panic s | Fatal => Fatal
           end
    end in
  let agree :=
    match cfg, hav with
    | Ok c, Ok h =>
        match exec_tail_m vm cur_fixes (mkTail group_by projs c h lim) (mkTable bs base), outcome with
        | Ok t, 0%N => bindings_eqb (t_bindings t) obs &&
                       (if Nat.leb (length base) 12 then rows_agree obs (t_rows t) out
                        else multiset_agree obs (t_rows t) out)
        | Err _, 2%N => true
        | Panic _, 3%N => true
        | _, _ => false
        end
    | _, _ => N.eqb outcome 1
    end in
  let v := verdict (rows_fmt_ok base) agree false in
  (* SPEC of a plain projection: every output column holds the value its binding has IN THE SOLUTION (all aliases are
     assigned simultaneously).  4 = the engine agrees with the model but not with that. *)
  match group_by, cfg, hav with
  | [], Ok c, Ok h =>
      let simul (r : row) : row :=
        fold_left (fun acc p => match rget r (p_bind p) with
                                | Some x => rset acc (proj_out p) x
                                | None => acc
                                end) projs r in
      let ident := map (fun p => mkProj (proj_out p) None OpNone false) projs in
      match exec_tail_m vm cur_fixes (mkTail [] ident c h lim)
                        (mkTable (bs ++ dedup_bindings outs bs) (map simul base)) with
      | Ok t => if N.eqb v 0 && N.eqb outcome 0 && negb (multiset_agree obs (t_rows t) out) then 4%N else v
      | _ => v
      end
  | _, _, _ => v
  end.

Definition verdicts {A} (f : A -> N) (l : list A) : list N := map f l.
