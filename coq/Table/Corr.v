(* Executable comparison of the Table-family model with observations of the real engine (cases written by
   checks/c11.py, c12.py, c13.py from the output of harness/cmd/h_table).  Not part of any theorem. *)
From Coq Require Import List ZArith NArith Bool.
From Coq.Strings Require Import Byte.
Import ListNotations.
From BWTable Require Import Cells Fmt StrOrder Sort SortProofs SortSpec Limit.
Open Scope Z_scope.

(* the repairs applied to /repo so far (the model follows the CURRENT tree) *)
Definition cur_reject_negative_limit : bool := true.    (* repo commit 0089c85 *)

Fixpoint row_eqb (a b : row) : bool :=
  match a, b with
  | [], [] => true
  | (k, c) :: a', (k', c') :: b' => N.eqb k k' && cell_eqb c c' && row_eqb a' b'
  | _, _ => false
  end.

Fixpoint rows_eqb (a b : list row) : bool :=
  match a, b with
  | [], [] => true
  | x :: a', y :: b' => row_eqb x y && rows_eqb a' b'
  | _, _ => false
  end.

Definition count_row (r : row) (l : list row) : nat := length (filter (row_eqb r) l).
Definition perm_b (a b : list row) : bool :=
  Nat.eqb (length a) (length b) && forallb (fun r => Nat.eqb (count_row r a) (count_row r b)) a.

(* remove one occurrence *)
Fixpoint remove_one (r : row) (l : list row) : option (list row) :=
  match l with
  | [] => None
  | x :: t => if row_eqb r x then Some t else option_map (cons x) (remove_one r t)
  end.
(* l minus the multiset m (None when m is not a sub-multiset) *)
Fixpoint minus_rows (l m : list row) : option (list row) :=
  match m with
  | [] => Some l
  | r :: m' => match remove_one r l with Some l' => minus_rows l' m' | None => None end
  end.

(* the strings of int64 and text literal cells are the ones the Gallina formatters compute *)
Definition cell_fmt_ok (c : cell) : bool :=
  match c with
  | CL l =>
      match l_val l with
      | VInt v => str_eqb (l_cmp l) (int_cmp_string v) && str_eqb (l_str l) (int_string v)
      | VText s => str_eqb (l_cmp l) (text_string s) && str_eqb (l_str l) (text_string s)
      | VFloat _ => true
      | _ => str_eqb (l_cmp l) (l_str l)
      end
  | _ => true
  end.
Definition rows_fmt_ok (l : list row) : bool := forallb (fun r => forallb (fun p => cell_fmt_ok (snd p)) r) l.

(* verdict codes: 0 agrees (outside D12), 1 agrees (inside D12, value order checked), 2 disagrees, 3 a formatted
   string differs from the Gallina formatter *)
Definition verdict (fmt agree ind12 : bool) : N :=
  if negb fmt then 3%N else if negb agree then 2%N else if ind12 then 1%N else 0%N.

(* one fine kind (cell kind, literal type) per key column: the property speaks about such keys only *)
Definition fine_homog (ks : list skey) (rows : list row) : bool :=
  forallb (fun ri => forallb (fun rj => same_fine_kinds ks ri rj) rows) rows.

(* 4 = the engine agrees with the model, the key columns are of one kind each, but the output is NOT in value order
   (possible only outside D12): the check must classify the case as a known finding or report it *)
Definition value_order_code (ks : list skey) (inp out : list row) (v : N) : N :=
  if N.eqb v 0 && fine_homog ks inp && negb (spec_sorted_b ks out) then 4%N else v.

(* ---- Table.Sort ---- *)
Definition sort_verdict (c : sort_cfg) (inp : list row) (out : option (list row)) : N :=
  let ind12 := match c with Some ks => d12 ks inp | None => false end in
  let agree :=
    match table_sort c inp, out with
    | Ok m, Some o =>
        (if Nat.leb (length inp) 12 then rows_eqb m o else true) &&
        perm_b inp o &&
        match c with
        | Some ks => (if homogeneous ks inp then no_inversion_b (row_lt ks) o else true) &&
                     (if ind12 then spec_sorted_b ks o else true)
        | None => rows_eqb inp o
        end
    | Panic _, None => true
    | _, _ => false
    end in
  let v := verdict (rows_fmt_ok inp) agree ind12 in
  match c, out with
  | Some ks, Some o => value_order_code ks inp o v
  | _, _ => v
  end.

(* ---- Table.Limit ---- *)
Definition limit_verdict (n : Z) (inp : list row) (out : option (list row)) : N :=
  let agree := match table_limit n inp, out with
               | Ok m, Some o => rows_eqb m o
               | Panic _, None => true
               | _, _ => false
               end in
  verdict true agree false.

(* ---- LIMIT token through the statement parser; outcome 0 = accepted (limit value given), 1 = rejected, 2 = panic *)
Definition limtok_verdict (t : limit_tok) (outcome : N) (lim : Z) : N :=
  let r := bind (limit_collection cur_reject_negative_limit t)
                (fun n => bind (plan_limit (Some n) (@nil row)) (fun _ => Ok n)) in
  let agree := match r, outcome with
               | Ok n, 0%N => Z.eqb n lim
               | Err _, 1%N => true
               | Panic _, 2%N => true
               | _, _ => false
               end in
  verdict true agree false.

(* ---- ORDER BY / LIMIT end to end ---- *)
Definition skey_eqb (a b : skey) : bool := N.eqb (k_b a) (k_b b) && Bool.eqb (k_desc a) (k_desc b).
Fixpoint keys_eqb (a b : list skey) : bool :=
  match a, b with
  | [], [] => true
  | x :: a', y :: b' => skey_eqb x y && keys_eqb a' b'
  | _, _ => false
  end.
Definition keys_perm_b (a b : list skey) : bool :=
  Nat.eqb (length a) (length b) && forallb (fun k => existsb (skey_eqb k) b) a && forallb (fun k => existsb (skey_eqb k) a) b.

(* res = None: the statement was rejected by the parser/checker.  [exact]: the order of the rows before sorting is
   the same in both runs (single-clause statements), so small tables must match Go's insertion sort exactly. *)
Definition e2e12_verdict (outs : list binding) (keys seen : list skey) (lim : option Z) (pushdown : option (list bool)) (exact : bool)
    (base : list row) (res : option (list row)) : N :=
  match checker_loop outs keys [] false, res with
  | inl _, None => verdict true true false
  | inl _, Some _ => 2%N
  | inr _, None => 2%N
  | inr (seen_m, dups), Some o =>
      let cfg_ok := if dups then keys_perm_b seen seen_m else keys_eqb seen keys in
      let c : sort_cfg := match keys with [] => None | _ => Some seen end in
      let fetched := fetch_pushdown pushdown lim base in
      let ind12 := match c with Some ks => d12 ks fetched | None => false end in
      let homog := match c with Some ks => homogeneous ks fetched | None => true end in
      let n_ok := match lim with
                  | Some n => Nat.eqb (length o) (Nat.min (Z.to_nat n) (length fetched))
                  | None => Nat.eqb (length o) (length fetched)
                  end in
      let rel :=
        match minus_rows fetched o with
        | None => false
        | Some dropped =>
            match c with
            | None => true
            | Some ks =>
                if homog then no_inversion_b (row_lt ks) o &&
                              forallb (fun d => forallb (fun k => negb (row_lt ks d k)) o) dropped
                else true
            end && (match c with Some ks => if ind12 then spec_sorted_b ks o else true | None => true end)
        end in
      let ex := if exact && Nat.leb (length fetched) 12
                then match exec_order_limit_with (@go_isort row) pushdown c lim base with
                     | Ok m => rows_eqb m o
                     | _ => false
                     end
                else true in
      let v := verdict (rows_fmt_ok base) (cfg_ok && n_ok && rel && ex) ind12 in
      (* 6 = the engine agrees with the model but returns a number of rows other than min(n, N) *)
      let count_bad := match lim with
                       | Some n => negb (Nat.eqb (length o) (Nat.min (Z.to_nat n) (length base)))
                       | None => negb (Nat.eqb (length o) (length base))
                       end in
      if (N.eqb v 0 || N.eqb v 1) && count_bad then 6%N else
      match c with
      | Some ks =>
          let v1 := value_order_code keys fetched o v in
          if N.eqb v1 0 || N.eqb v1 1 then
            (* 5 = LIMIT kept the wrong rows: a dropped row of the FULL base table is smaller (by value) than a
               kept one *)
            match minus_rows base o with
            | Some dropped =>
                if fine_homog keys base &&
                   existsb (fun d => existsb (fun k => match spec_row_cmp keys d k with Lt => true | _ => false end) o)
                           dropped
                then 5%N else v1
            | None => v1
            end
          else v1
      | None => v
      end
  end.

Definition verdicts {A} (f : A -> N) (l : list A) : list N := map f l.
