(* Table.Limit, limitCollection (semantic/hooks.go) and queryPlan.limit.  Definitions only. *)
From Coq Require Import List ZArith NArith Bool.
Import ListNotations.
From BWTable Require Import Cells Fmt Sort.
Open Scope Z_scope.

(* Table.Limit(i): if int64(len(t.Data)) > i { td := make([]Row, i, i); copy(td, t.Data[:i]) } *)
Definition table_limit {A} (i : Z) (rows : list A) : res (list A) :=
  if i <? Z.of_nat (length rows)
  then if i <? 0 then Panic SMakeNegative else Ok (firstn (Z.to_nat i) rows)
  else Ok rows.

(* What limitCollection sees: the token kind and the outcome of literal.DefaultBuilder().Parse on its text (the
   parser is the oracle: the harness ships type and value). *)
Inductive parsed_lit := PLError | PLNil (* (nil, nil): unknown type *) | PL (v : litval).
Record limit_tok := mkLimTok { lt_is_literal : bool; lt_parsed : parsed_lit }.

(* limitCollection after the repair (fix: negative LIMIT rejected); [reject_negative = false] is the code as
   found, kept so that the defect stays reproducible in the model. *)
Definition limit_collection (reject_negative : bool) (t : limit_tok) : res Z :=
  if negb (lt_is_literal t) then Err ELimit
  else match lt_parsed t with
       | PLError => Err ELimit
       | PLNil => Panic SNilCell               (* l.Type() on a nil *Literal *)
       | PL (VInt v) => if reject_negative && (v <? 0) then Err ELimit else Ok v
       | PL _ => Err ELimit
       end.

(* queryPlan.limit *)
Definition plan_limit {A} (lim : option Z) (rows : list A) : res (list A) :=
  match lim with
  | None => Ok rows
  | Some n => table_limit n rows
  end.

(* the tail of queryPlan.Execute that C12 is about: orderBy, (having: see Expr.v), limit *)
Definition order_limit_with (srt : sorter) (c : sort_cfg) (lim : option Z) (rows : list row) : res (list row) :=
  bind (order_by_with srt c rows) (plan_limit lim).

(* LIMIT push-down (processClause / addSpecifiedData -> simpleFetch): when the statement has ONE clause, no GROUP BY
   and no HAVING, and the clause fixes neither subject, predicate nor object (the "full data request": {?s ?p ?o}, but
   also {?s "t"@[?t] ?o}, whose predicate is only known by id), a positive limit becomes MaxElements of the driver
   lookup: only the first n TRIPLES of the graph (in the driver's order) are looked at, and those that do not match
   the clause are then dropped.  [mask] says, for each triple of the graph in driver order, whether it matches the
   clause (None = no push-down for this statement); [rows] are the rows of the matching triples, in the same order. *)
Definition count_true (l : list bool) : nat := length (filter (fun b => b) l).

Definition fetch_pushdown {A} (mask : option (list bool)) (lim : option Z) (rows : list A) : list A :=
  match mask, lim with
  | Some m, Some n => if 0 <? n then firstn (count_true (firstn (Z.to_nat n) m)) rows else rows
  | _, _ => rows
  end.

(* queryPlan.limitToPushDown (repair e34ecad): the limit is handed to the driver only if, in addition, there is no
   ORDER BY and every retrieved triple becomes exactly one row (no predicate / object id filter, no anchor binding,
   no repeated binding): the mask is all true.  [guarded] = false is the code as found. *)
Definition pushdown_mask (guarded : bool) (c : sort_cfg) (mask : option (list bool)) : option (list bool) :=
  if guarded then
    match c, mask with
    | None, Some m | Some [], Some m => if forallb (fun b => b) m then Some m else None
    | _, _ => None
    end
  else mask.

Definition exec_order_limit_with (srt : sorter) (guarded : bool) (mask : option (list bool)) (c : sort_cfg)
    (lim : option Z) (rows : list row) : res (list row) :=
  order_limit_with srt c lim (fetch_pushdown (pushdown_mask guarded c mask) lim rows).

(* orderByBindingsChecker: a key may be repeated with the same direction; then the SortConfig is REBUILT by ranging
   over the map of seen bindings - in Go's unspecified map order, modelled by the argument [perm]. *)
Fixpoint seen_dir (seen : list skey) (b : binding) : option bool :=
  match seen with
  | [] => None
  | k :: r => if N.eqb (k_b k) b then Some (k_desc k) else seen_dir r b
  end.

Inductive chk_err := CInconsistent | CUnknown.

Fixpoint checker_loop (outs : list binding) (keys seen : list skey) (dups : bool)
  : chk_err + (list skey * bool) :=
  match keys with
  | [] => inr (seen, dups)
  | k :: rest =>
      match seen_dir seen (k_b k) with
      | Some d =>
          if negb (Bool.eqb d (k_desc k)) then inl CInconsistent
          else if existsb (N.eqb (k_b k)) outs then checker_loop outs rest seen true else inl CUnknown
      | None =>
          if existsb (N.eqb (k_b k)) outs then checker_loop outs rest (seen ++ [k]) dups else inl CUnknown
      end
  end.

Definition order_by_checker (perm : list skey -> list skey) (outs : list binding) (keys : list skey)
  : chk_err + list skey :=
  match checker_loop outs keys [] false with
  | inl e => inl e
  | inr (seen, dups) => inr (if dups then perm seen else keys)
  end.
