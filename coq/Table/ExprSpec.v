(* SPEC for C13: (1) the derivation trees of the grammar's HAVING_CLAUSE (bql/grammar/grammar.go: havingClauses,
   havingClausesBinaryCompositeClauses) and the expression a derivation denotes; (2) evaluation by VALUE. *)
From Coq Require Import List ZArith NArith Bool.
From Coq.Strings Require Import Byte.
From Coq.Floats Require Import SpecFloat.
Import ListNotations.
From BWTable Require Import Cells Fmt StrOrder Expr.
Open Scope Z_scope.

(* HAVING_CLAUSE -> operand COMPOSITE | NOT HAVING_CLAUSE | ( HAVING_CLAUSE ) COMPOSITE
   COMPOSITE     -> (AND | OR | = | < | >) HAVING_CLAUSE | empty
   operand       -> binding | node | literal | time | predicate                                   *)
Inductive hc :=
| HOperand (t : tok) (c : comp)
| HNot (n : tok) (h : hc)
| HParen (l : tok) (h : hc) (r : tok) (c : comp)
with comp :=
| CEmpty
| COp (o : tok) (h : hc).

Definition is_operand (k : tkind) : bool :=
  match k with KBinding | KNode | KLiteral | KTime | KPredicate => true | _ => false end.
Definition is_compop (k : tkind) : bool :=
  match k with KAnd | KOr | KEq | KLt | KGt => true | _ => false end.
Definition tkind_eqb (a b : tkind) : bool :=
  match a, b with
  | KBinding, KBinding | KLiteral, KLiteral | KNode, KNode | KTime, KTime | KPredicate, KPredicate
  | KNot, KNot | KAnd, KAnd | KOr, KOr | KEq, KEq | KLt, KLt | KGt, KGt | KLPar, KLPar | KRPar, KRPar
  | KOther, KOther => true
  | _, _ => false
  end.

(* the tree is a derivation: every token has the kind the grammar asks for at its place *)
Fixpoint wf_hc (h : hc) : bool :=
  match h with
  | HOperand t c => is_operand (tk t) && wf_comp c
  | HNot n h' => tkind_eqb (tk n) KNot && wf_hc h'
  | HParen l h' r c => tkind_eqb (tk l) KLPar && wf_hc h' && tkind_eqb (tk r) KRPar && wf_comp c
  end
with wf_comp (c : comp) : bool :=
  match c with
  | CEmpty => true
  | COp o h => is_compop (tk o) && wf_hc h
  end.

(* the token string derived *)
Fixpoint yield (h : hc) : list tok :=
  match h with
  | HOperand t c => t :: yield_comp c
  | HNot n h' => n :: yield h'
  | HParen l h' r c => l :: yield h' ++ r :: yield_comp c
  end
with yield_comp (c : comp) : list tok :=
  match c with
  | CEmpty => []
  | COp o h => o :: yield h
  end.

(* The boolean expression a derivation denotes, when it is well typed:
   - "binding op operand" with op among = < > is a comparison;
   - NOT negates the clause that follows; parentheses group;
   - "( A ) AND/OR B" combines two clauses;
   everything else the grammar admits (a lone operand, "?a AND ...", "( A ) = ( B )", "5 < ?a", chains
   "?a < ?b < ?c") has no boolean meaning: None. *)
Definition comparison_of (op : cop) (l r : tok) : option expr :=
  match mk_comparison op l r with Ok e => Some e | _ => None end.

Fixpoint denote (h : hc) : option expr :=
  match h with
  | HOperand t c =>
      match c with
      | COp o (HOperand t2 CEmpty) =>
          match tk t, cop_of (tk o) with
          | KBinding, Some op => comparison_of op t t2
          | _, _ => None
          end
      | _ => None
      end
  | HNot _ h' => option_map ENot (denote h')
  | HParen _ h' _ c =>
      match c with
      | CEmpty => denote h'
      | COp o h2 =>
          match tk o, denote h', denote h2 with
          | KAnd, Some a, Some b => Some (EAnd a b)
          | KOr, Some a, Some b => Some (EOr a b)
          | _, _, _ => None
          end
      end
  end.

(* ---- evaluation by value -------------------------------------------------------------------------------------- *)
Definition cmp_holds (op : cop) (c : comparison) : bool :=
  match op, c with
  | OEq, Eq | OLt, Lt | OGt, Gt => true
  | _, _ => false
  end.

(* a binding compared with a literal constant: numbers numerically, text and extracted ids/types lexicographically,
   blob by its bytes, bool by printed form; a constant of another kind never holds *)
Definition spec_lit (op : cop) (cl : cell) (v : litval) (cmp : str) : bool :=
  match cl, v with
  | CL l, _ =>
      match l_val l, v with
      | VInt a, VInt b => cmp_holds op (Z.compare a b)
      | VFloat a, VFloat b => match SFcompare a b with Some c => cmp_holds op c | None => false end
      | VText a, VText b => cmp_holds op (str_compare a b)
      | VBlob a, VBlob b => cmp_holds op (str_compare a b)
      | VBool _, VBool _ => cmp_holds op (str_compare (l_str l) cmp)
      | _, _ => false
      end
  | CS s, VText b => cmp_holds op (str_compare s b)
  | _, _ => false
  end.

(* two bindings: specified only for two cells of the same kind (and literal type) *)
Definition spec_bind (op : cop) (a b : cell) : option bool :=
  match a, b with
  | CL la, CL lb =>
      match l_val la, l_val lb with
      | VInt x, VInt y => Some (cmp_holds op (Z.compare x y))
      | VFloat x, VFloat y => Some (match SFcompare x y with Some c => cmp_holds op c | None => false end)
      | VText x, VText y => Some (cmp_holds op (str_compare x y))
      | VBlob x, VBlob y => Some (cmp_holds op (str_compare x y))
      | VBool _, VBool _ => Some (cmp_holds op (str_compare (l_str la) (l_str lb)))
      | _, _ => None
      end
  | CS x, CS y => Some (cmp_holds op (str_compare x y))
  | CN x, CN y | CP x, CP y => Some (cmp_holds op (str_compare x y))
  | CT x, CT y => Some (cmp_holds op (Z.compare (t_ns x) (t_ns y)))
  | _, _ => None
  end.

(* value semantics of an expression on a row; None = not specified (missing binding, unparsable constant, two
   bindings of different kinds).  Node, predicate and time comparisons are by printed form / by instant in the
   implementation as well, so they are taken from it. *)
Fixpoint spec_eval (e : expr) (r : row) : option bool :=
  match e with
  | ELit op l c =>
      match rget r l, c with
      | Some cl, PC v cmp => Some (spec_lit op cl v cmp)
      | _, _ => None
      end
  | EBind op a b =>
      match rget r a, rget r b with
      | Some ca, Some cb => spec_bind op ca cb
      | _, _ => None
      end
  | ENode _ _ _ | EPred _ _ _ | ETime _ _ _ => match eval e r with Ok b => Some b | _ => None end
  | ENot a => option_map negb (spec_eval a r)
  | EAnd a b => match spec_eval a r with
                | Some false => Some false
                | Some true => spec_eval b r
                | None => None
                end
  | EOr a b => match spec_eval a r with
               | Some true => Some true
               | Some false => spec_eval b r
               | None => None
               end
  end.

(* ---- a recogniser for the grammar (recursive descent, one token of look-ahead, as the real LL(1) parser) --------- *)
Fixpoint parse_hc (fuel : nat) (ts : list tok) : option (hc * list tok) :=
  match fuel with
  | O => None
  | S f =>
      let parse_comp (ts : list tok) : option (comp * list tok) :=
        match ts with
        | o :: rest => if is_compop (tk o)
                       then match parse_hc f rest with Some (h, rest') => Some (COp o h, rest') | None => None end
                       else Some (CEmpty, ts)
        | [] => Some (CEmpty, [])
        end in
      match ts with
      | [] => None
      | t :: rest =>
          if is_operand (tk t) then
            match parse_comp rest with Some (c, rest') => Some (HOperand t c, rest') | None => None end
          else match tk t with
               | KNot => match parse_hc f rest with Some (h, rest') => Some (HNot t h, rest') | None => None end
               | KLPar =>
                   match parse_hc f rest with
                   | Some (h, r :: rest') =>
                       match tk r with
                       | KRPar => match parse_comp rest' with
                                  | Some (c, rest'') => Some (HParen t h r c, rest'')
                                  | None => None
                                  end
                       | _ => None
                       end
                   | _ => None
                   end
               | _ => None
               end
      end
  end.

Definition derivation_of (ts : list tok) : option hc :=
  match parse_hc (S (length ts)) ts with
  | Some (h, []) => Some h
  | _ => None
  end.
