(* Gallina instances of the two formatting functions whose ORDER properties the theorems need:
   fmt.Sprintf(%032d, int64) and Literal.ToComparableString / Literal.String for int64 literals.
   The correspondence compares these with the strings produced by Go for every int64 cell it sees. *)
From Coq Require Import List ZArith NArith Bool.
From Coq.Strings Require Import Byte.
Import ListNotations.
From BWTable Require Import Cells.
Open Scope Z_scope.

Definition digit (d : Z) : byte :=
  match d with
  | 0 => x30 | 1 => x31 | 2 => x32 | 3 => x33 | 4 => x34
  | 5 => x35 | 6 => x36 | 7 => x37 | 8 => x38 | _ => x39
  end.

(* exactly n decimal digits of v mod 10^n, most significant first *)
Fixpoint digits_fix (n : nat) (v : Z) : str :=
  match n with
  | O => []
  | S k => digits_fix k (v / 10) ++ [digit (v mod 10)]
  end.

(* %032d: width 32 including the sign, zero padded (an int64 has at most 19 digits) *)
Definition fmt_d032 (v : Z) : str :=
  if v <? 0 then x2d :: digits_fix 31 (- v) else digits_fix 32 v.

(* %d / %v of an int64: no padding *)
Fixpoint digits_var (fuel : nat) (v : Z) (acc : str) : str :=
  match fuel with
  | O => acc
  | S k => if v <? 10 then digit v :: acc else digits_var k (v / 10) (digit (v mod 10) :: acc)
  end.
Definition fmt_d (v : Z) : str :=
  if v <? 0 then x2d :: digits_var 20 (- v) [] else digits_var 20 v [].

Definition quote : byte := x22.
(* quote ^^type:int64 *)
Definition sfx_int64 : str := [x22; x5e; x5e; x74; x79; x70; x65; x3a; x69; x6e; x74; x36; x34].
(* quote ^^type:text *)
Definition sfx_text : str := [x22; x5e; x5e; x74; x79; x70; x65; x3a; x74; x65; x78; x74].

Definition int_cmp_string (v : Z) : str := quote :: fmt_d032 v ++ sfx_int64.
Definition int_string (v : Z) : str := quote :: fmt_d v ++ sfx_int64.
Definition text_string (s : str) : str := quote :: s ++ sfx_text.

(* the literal cell the engine builds for an int64 (groupRangeReduce: literal.DefaultBuilder().Build(Int64, acc)) *)
Definition int_lit (v : Z) : lit := mkLit (VInt v) (int_string v) (int_cmp_string v).
Definition text_lit (s : str) : lit := mkLit (VText s) (text_string s) (text_string s).

(* int64 arithmetic: s.state += iv wraps around *)
Definition two63 : Z := 9223372036854775808.
Definition two64 : Z := 18446744073709551616.
Definition wrap64 (z : Z) : Z := (z + two63) mod two64 - two63.
Definition in_int64 (z : Z) : bool := (- two63 <=? z) && (z <? two63).
