(* The RFC3339Nano order law that the theorems about the comparator AS FOUND (anchors compared through
   Time.Format(RFC3339Nano)) need, DISCHARGED with the Go-faithful formatter of the Values family
   (coq/Values/TimeCodec.v: fmt_rfc3339nano, tied to time.Format by the C05 correspondence) and its order theorem
   (coq/Values/TimeOrder.v: same zone offset and same fraction length => bytewise order of the renderings = order of the
   instants).  Across zones or precisions the law is false (C05_rfc3339nano_order_zone_refuted / _precision_refuted,
   C12_zone_refuted / C12_precision_refuted): the instance below therefore admits exactly "one zone, one precision". *)
From Coq Require Import List ZArith NArith Bool Lia.
From Coq.Strings Require Import Byte.
Import ListNotations.
From BWValues Require Values TimeCodec TimeCodecProofs TimeOrder Io.
From BWTable Require Import Cells StrOrder FmtProofs Sort SortProofs SortSpec SortSpecProofs Limit LimitProofs.
Open Scope Z_scope.

Definition vtime (t : tim) : Values.time := Values.mkTime (t_ns t) (t_off t).

(* the domain of the formatter (years 0000-9999 in the anchor's own zone, zone offset a whole number of minutes) *)
Definition ns_dom_b (t : tim) : bool :=
  (-62167219200 <=? t_ns t / 1000000000 + t_off t) && (t_ns t / 1000000000 + t_off t <? 253402300800) &&
  (t_off t mod 60 =? 0) && (-90000 <? t_off t) && (t_off t <? 90000).

Lemma ns_dom_b_sound : forall t, ns_dom_b t = true -> TimeCodecProofs.ns_dom (vtime t).
Proof.
  intros t H. unfold ns_dom_b in H. repeat (apply andb_prop in H; destruct H as [H ?]).
  unfold TimeCodecProofs.ns_dom, TimeCodecProofs.zone_ok, vtime. cbn.
  apply Z.leb_le in H. apply Z.ltb_lt in H0, H1, H3. apply Z.eqb_eq in H2. lia.
Qed.

(* an anchor cell is accepted when its printed form IS the rendering of its instant and zone *)
Definition tm_ok_v (t : tim) : bool :=
  ns_dom_b t && str_eqb (t_str t) (TimeCodec.fmt_rfc3339nano (vtime t)).
(* two anchors are comparable through their printed forms: same zone offset, same number of fraction digits *)
Definition tm_pair_v (a b : tim) : bool :=
  Z.eqb (t_off a) (t_off b) && Nat.eqb (TimeOrder.frac_len (vtime a)) (TimeOrder.frac_len (vtime b)).

Lemma io_str_ltb_eq : forall a b, Io.str_ltb a b = str_ltb a b.
Proof.
  induction a as [|x a IH]; destruct b as [|y b]; cbn; try reflexivity.
  rewrite byte_eqb_to_N. unfold byte_ltb.
  destruct (N.ltb_spec (Byte.to_N x) (Byte.to_N y)) as [L|L].
  - replace (N.eqb _ _) with false by (symmetry; apply N.eqb_neq; lia). reflexivity.
  - destruct (N.ltb_spec (Byte.to_N y) (Byte.to_N x)) as [L2|L2].
    + replace (N.eqb _ _) with false by (symmetry; apply N.eqb_neq; lia). reflexivity.
    + replace (N.eqb _ _) with true by (symmetry; apply N.eqb_eq; lia). apply IH.
Qed.

Lemma talpha_no_space : forall b, In b TimeCodecProofs.talpha -> is_space b = false.
Proof. intros b H. unfold TimeCodecProofs.talpha in H. cbn in H. repeat (destruct H as [<-|H]; [reflexivity|]). contradiction. Qed.

Lemma fmt_trim : forall t, trim_space (TimeCodec.fmt_rfc3339nano t) = TimeCodec.fmt_rfc3339nano t.
Proof.
  intro t. apply trim_space_no_space. intros b Hb. apply talpha_no_space. eapply TimeCodecProofs.fmt_alphabet; exact Hb.
Qed.

(* THE LAW, proved: no hypothesis about time.Format is left *)
Theorem tm_law_v : forall a b, tm_ok_v a = true -> tm_ok_v b = true -> tm_pair_v a b = true ->
  str_compare (trim_space (t_str a)) (trim_space (t_str b)) = Z.compare (t_ns a) (t_ns b).
Proof.
  intros a b Ha Hb P. unfold tm_ok_v in *. apply andb_prop in Ha, Hb. destruct Ha as [Da Ea], Hb as [Db Eb].
  apply str_eqb_eq in Ea, Eb. apply ns_dom_b_sound in Da, Db.
  unfold tm_pair_v in P. apply andb_prop in P. destruct P as [Po Pl]. apply Z.eqb_eq in Po. apply Nat.eqb_eq in Pl.
  rewrite Ea, Eb, !fmt_trim.
  pose proof (TimeOrder.fmt_order_same_zone_same_precision (vtime a) (vtime b) Da Db Po Pl) as L1.
  pose proof (TimeOrder.fmt_order_same_zone_same_precision (vtime b) (vtime a) Db Da (eq_sym Po) (eq_sym Pl)) as L2.
  rewrite io_str_ltb_eq, str_ltb_compare in L1, L2. cbn [vtime Values.t_ns] in L1, L2.
  rewrite (str_compare_sym (TimeCodec.fmt_rfc3339nano (vtime a)) (TimeCodec.fmt_rfc3339nano (vtime b))) in L2.
  destruct (Z.compare_spec (t_ns a) (t_ns b)) as [E|E|E].
  - replace (t_ns a <? t_ns b) with false in L1 by (symmetry; apply Z.ltb_ge; lia).
    replace (t_ns b <? t_ns a) with false in L2 by (symmetry; apply Z.ltb_ge; lia).
    destruct (str_compare _ _); cbn in *; congruence.
  - replace (t_ns a <? t_ns b) with true in L1 by (symmetry; apply Z.ltb_lt; lia).
    destruct (str_compare _ _); congruence.
  - replace (t_ns b <? t_ns a) with true in L2 by (symmetry; apply Z.ltb_lt; lia).
    destruct (str_compare _ _); cbn in *; congruence.
Qed.

(* the comparator AS FOUND: key columns of anchors rendered by RFC3339Nano, all in one zone and of one precision (plus the
   other D12 kinds) come out in CHRONOLOGICAL / value order - no oracle hypothesis *)
Definition d12_time := d12_gen tm_ok_v tm_pair_v no_lit.

Theorem order_by_sorted_d12_time_proved : forall srt ks rows out, sorter_ok srt -> ks <> [] ->
  d12_time ks rows = true -> order_by_with srt (Some ks) rows = Ok out ->
  Permutation.Permutation rows out /\ spec_sorted ks out.
Proof. exact (order_by_sorted_d12_gen tm_ok_v tm_pair_v no_lit tm_law_v no_lit_law). Qed.
