(* The HAVING evaluator of bql/semantic/expression.go: NewEvaluator / internalNewEvaluator (the hand-written recursive
   builder over the collected token list), Evaluate of the five comparison nodes and of booleanNode, and
   queryPlan.having (Table.Filter).  Definitions only. *)
From Coq Require Import List ZArith NArith Bool.
From Coq.Strings Require Import Byte.
Import ListNotations.
From BWTable Require Import Cells Fmt.
Open Scope Z_scope.

Inductive tkind :=
| KBinding | KLiteral | KNode | KTime | KPredicate
| KNot | KAnd | KOr | KEq | KLt | KGt | KLPar | KRPar | KOther.

(* what literal.DefaultBuilder().Parse makes of a literal token (oracle, shipped with the token) *)
Inductive parsed_const :=
| PCError
| PCNil                                     (* (nil, nil) *)
| PC (v : litval) (cmp : str).               (* value and ToComparableString() of the constant *)

Definition litval_ty (v : litval) : lit_type :=
  match v with VBool _ => TBool | VInt _ => TInt64 | VFloat _ => TFloat64 | VText _ => TText | VBlob _ => TBlob end.

Record tok := mkTok {
  tk : tkind;
  t_text : str;                             (* Token.Text *)
  t_bind : binding;                         (* bindings: the number of the name *)
  t_lit : parsed_const;                     (* literal tokens: the parse of the text *)
  t_time : option Z                         (* time tokens: time.Parse(RFC3339Nano, trimmed text), ns; None = error *)
}.

Inductive cop := OLt | OGt | OEq.

Inductive expr :=
| EBind (op : cop) (l r : binding)                       (* evaluationNode *)
| ELit (op : cop) (l : binding) (c : parsed_const)       (* comparisonForLiteral *)
| ENode (op : cop) (l : binding) (text : str)            (* comparisonForNodeLiteral (text trimmed) *)
| ETime (op : cop) (l : binding) (t : option Z)          (* comparisonForTimeLiteral *)
| EPred (op : cop) (l : binding) (text : str)            (* comparisonForPredicateLiteral *)
| ENot (e : expr)
| EAnd (a b : expr)
| EOr (a b : expr).

Definition cop_of (k : tkind) : option cop :=
  match k with KEq => Some OEq | KLt => Some OLt | KGt => Some OGt | _ => None end.

Definition is_nil {A} (l : list A) : bool := match l with [] => true | _ => false end.

(* NewEvaluationExpression...: operands must not be empty after TrimSpace *)
Definition mk_comparison (op : cop) (l r : tok) : res expr :=
  if is_nil (trim_space (t_text l)) || is_nil (trim_space (t_text r)) then Err EBuild
  else match tk r with
       | KBinding => Ok (EBind op (t_bind l) (t_bind r))
       | KLiteral => Ok (ELit op (t_bind l) (t_lit r))
       | KNode => Ok (ENode op (t_bind l) (trim_space (t_text r)))
       | KTime => Ok (ETime op (t_bind l) (t_time r))
       | KPredicate => Ok (EPred op (t_bind l) (trim_space (t_text r)))
       | _ => Err EBuild
       end.

(* internalNewEvaluator.  [lenient] = the repair of the parenthesis case is applied: a token other than AND / OR
   after "( clause )" is left to the caller instead of being an error (false = the code as found, which rejects
   "( ( A ) and ( B ) ) or ( C )" and "( ( ( A ) ) )"). *)
Fixpoint build (lenient : bool) (fuel : nat) (ce : list tok) : res (expr * list tok) :=
  match fuel with
  | O => Err EFuel
  | S f =>
      match ce with
      | [] => Err EBuild
      | head :: tail =>
          match tk head with
          | KNot =>
              match build lenient f tail with
              | Ok (e, rest) => Ok (ENot e, rest)
              | Err x => Err x | Panic s => Panic s | Fatal => Fatal
              end
          | KBinding =>
              match tail with
              | opT :: bT :: rest =>
                  match cop_of (tk opT) with
                  | None => Err EBuild
                  | Some op => match mk_comparison op head bT with
                               | Ok e => Ok (e, rest)
                               | Err x => Err x | Panic s => Panic s | Fatal => Fatal
                               end
                  end
              | _ => Err EBuild
              end
          | KLPar =>
              match build lenient f tail with
              | Ok (e, ce') =>
                  match ce' with
                  | [] => Err EBuild                                  (* missing ')' *)
                  | h :: tl =>
                      match tk h with
                      | KRPar =>
                          match tl with
                          | opT :: (_ :: _) as rhs =>                 (* len(tail) > 1: binary boolean expression *)
                              let mk := match tk opT with
                                        | KAnd => Some EAnd
                                        | KOr => Some EOr
                                        | _ => None
                                        end in
                              match mk with
                              | None => if lenient then Ok (e, tl) else Err EBuild
                              | Some con =>
                                  match build lenient f rhs with
                                  | Ok (e2, rest) => Ok (con e e2, rest)
                                  | Err x => Err x | Panic s => Panic s | Fatal => Fatal
                                  end
                              end
                          | _ => Ok (e, tl)
                          end
                      | _ => Err EBuild
                      end
                  end
              | Err x => Err x | Panic s => Panic s | Fatal => Fatal
              end
          | _ => Err EBuild
          end
      end
  end.

(* NewEvaluator: everything must be consumed, except that ONE trailing ')' is tolerated *)
Definition new_evaluator_with (lenient : bool) (ce : list tok) : res expr :=
  match build lenient (S (length ce)) ce with
  | Ok (e, tail) =>
      match tail with
      | [] => Ok e
      | [t] => match tk t with KRPar => Ok e | _ => Err EBuild end
      | _ => Err EBuild
      end
  | Err x => Err x | Panic s => Panic s | Fatal => Fatal
  end.

(* the current tree (repairs applied so far) *)
Definition cur_lenient_parens : bool := true.     (* repo commit baa1aee *)
Definition new_evaluator := new_evaluator_with cur_lenient_parens.

(* ---- Evaluate ----------------------------------------------------------------------------------------------- *)
(* formatCell *)
Definition format_cell (c : cell) : str :=
  match c with
  | CL l => trim_space (l_cmp l)
  | CS s => trim_space (text_string s)
  | _ => trim_space (cell_string c)
  end.

Definition str_cmp_op (op : cop) (a b : str) : bool :=
  match op with
  | OEq => str_eqb a b
  | OLt => str_ltb a b
  | OGt => str_ltb b a
  end.

Definition is_S (c : cell) : bool := match c with CS _ => true | _ => false end.

Fixpoint eval (e : expr) (r : row) : res bool :=
  match e with
  | EBind op l rb =>
      match rget r l, rget r rb with
      | Some cl, Some cr => Ok (str_cmp_op op (format_cell cl) (format_cell cr))
      | _, _ => Err EEval
      end
  | ELit op l c =>
      match rget r l with
      | None => Err EEval
      | Some cl =>
          match cl with
          | CL _ | CS _ =>
              match c with
              | PCError => Err EEval
              | PCNil => Panic SNilCell
              | PC v cmp =>
                  let ty := litval_ty v in
                  match cl with
                  | CS _ => if lit_type_eqb ty TText then Ok (str_cmp_op op (format_cell cl) cmp) else Err EEval
                  | CL lt => if lit_type_eqb (lit_ty lt) ty then Ok (str_cmp_op op (format_cell cl) cmp) else Ok false
                  | _ => Ok false
                  end
              end
          | _ => Ok false
          end
      end
  | ENode op l text =>
      match rget r l with
      | None => Err EEval
      | Some (CS _) => Err EEval
      | Some (CN _ as cl) =>
          match op with OEq => Ok (str_eqb (format_cell cl) (trim_space text)) | _ => Err EEval end
      | Some _ => Ok false
      end
  | ETime op l t =>
      match rget r l with
      | None => Err EEval
      | Some (CS _) => Err EEval
      | Some (CT tm) =>
          match t with
          | None => Err EEval
          | Some ns => Ok (match op with
                           | OEq => Z.eqb (t_ns tm) ns
                           | OLt => Z.ltb (t_ns tm) ns
                           | OGt => Z.ltb ns (t_ns tm)
                           end)
          end
      | Some _ => Ok false
      end
  | EPred op l text =>
      match rget r l with
      | None => Err EEval
      | Some (CS _) => Err EEval
      | Some (CP _ as cl) =>
          match op with OEq => Ok (str_eqb (format_cell cl) (trim_space text)) | _ => Err EEval end
      | Some _ => Ok false
      end
  | ENot a => match eval a r with Ok b => Ok (negb b) | x => x end
  | EAnd a b => match eval a r with Ok true => eval b r | x => x end       (* short cut *)
  | EOr a b => match eval a r with Ok false => eval b r | x => x end
  end.

(* queryPlan.having = Table.Filter with the evaluator: every row is evaluated; a row whose evaluation fails is
   dropped and the (last) error is returned at the end *)
Fixpoint having_rows (e : expr) (rows : list row) : res (list row) :=
  match rows with
  | [] => Ok []
  | r :: t =>
      match eval e r with
      | Ok b =>
          match having_rows e t with
          | Ok kept => Ok (if b then r :: kept else kept)
          | x => x
          end
      | Err x => match having_rows e t with Panic s => Panic s | Fatal => Fatal | _ => Err x end
      | Panic s => Panic s
      | Fatal => Fatal
      end
  end.

Definition having (e : option expr) (rows : list row) : res (list row) :=
  match e with
  | None => Ok rows                       (* no HAVING clause *)
  | Some x => having_rows x rows
  end.
