(* Order properties of the formatted strings: zero-padded decimal (%032d) orders like the integers on v >= 0;
   the printed form of a text literal orders like the text when no byte is below or equal to the closing quote. *)
From Coq Require Import List ZArith NArith Bool Lia.
From Coq.Strings Require Import Byte.
Import ListNotations.
From BWTable Require Import Cells Fmt StrOrder.
Open Scope Z_scope.

Lemma str_compare_app : forall p q s t, length p = length q ->
  str_compare (p ++ s) (q ++ t) = lex_cmp (str_compare p q) (str_compare s t).
Proof.
  induction p as [|x p IH]; destruct q as [|y q]; cbn; intros s t H; try discriminate.
  - reflexivity.
  - destruct (N.compare (Byte.to_N x) (Byte.to_N y)); cbn; try reflexivity. apply IH. lia.
Qed.

Lemma digits_fix_length : forall n v, length (digits_fix n v) = n.
Proof. induction n as [|n IH]; intro v; cbn; [reflexivity|]. rewrite app_length, IH. cbn. lia. Qed.

Lemma digit_to_N : forall d, 0 <= d < 10 -> Byte.to_N (digit d) = Z.to_N (48 + d).
Proof.
  intros d H.
  assert (d = 0 \/ d = 1 \/ d = 2 \/ d = 3 \/ d = 4 \/ d = 5 \/ d = 6 \/ d = 7 \/ d = 8 \/ d = 9) as Hd by lia.
  repeat (destruct Hd as [->|Hd]; [reflexivity|]). subst. reflexivity.
Qed.

Lemma digit_compare : forall d e, 0 <= d < 10 -> 0 <= e < 10 ->
  N.compare (Byte.to_N (digit d)) (Byte.to_N (digit e)) = Z.compare d e.
Proof.
  intros d e Hd He. rewrite (digit_to_N d Hd), (digit_to_N e He).
  destruct (Z.compare_spec d e) as [E|E|E].
  - subst. apply N.compare_refl.
  - apply N.compare_lt_iff. lia.
  - apply N.compare_gt_iff. lia.
Qed.

Lemma compare_div_mod : forall a b, 0 <= a -> 0 <= b ->
  Z.compare a b = lex_cmp (Z.compare (a / 10) (b / 10)) (Z.compare (a mod 10) (b mod 10)).
Proof.
  intros a b Ha Hb.
  pose proof (Z.div_mod a 10 ltac:(lia)) as Da. pose proof (Z.div_mod b 10 ltac:(lia)) as Db.
  pose proof (Z.mod_pos_bound a 10 ltac:(lia)) as Ma. pose proof (Z.mod_pos_bound b 10 ltac:(lia)) as Mb.
  destruct (Z.compare_spec (a / 10) (b / 10)) as [E|E|E]; cbn.
  - destruct (Z.compare_spec (a mod 10) (b mod 10)) as [E'|E'|E'].
    + apply Z.compare_eq_iff. lia.
    + apply Z.compare_lt_iff. lia.
    + apply Z.compare_gt_iff. lia.
  - apply Z.compare_lt_iff. lia.
  - apply Z.compare_gt_iff. lia.
Qed.

Lemma split_div : forall a m, 0 < m -> (a mod (10 * m)) / 10 = (a / 10) mod m.
Proof.
  intros a m Hm. rewrite Z.rem_mul_r by lia.
  pose proof (Z.mod_pos_bound a 10 ltac:(lia)).
  symmetry. apply Z.div_unique with (a mod 10); lia.
Qed.

Lemma split_mod : forall a m, 0 < m -> (a mod (10 * m)) mod 10 = a mod 10.
Proof.
  intros a m Hm. rewrite Z.rem_mul_r by lia.
  pose proof (Z.mod_pos_bound a 10 ltac:(lia)).
  symmetry. apply Z.mod_unique with ((a / 10) mod m); lia.
Qed.

Lemma digits_fix_compare : forall n a b, 0 <= a -> 0 <= b ->
  str_compare (digits_fix n a) (digits_fix n b) = Z.compare (a mod 10 ^ Z.of_nat n) (b mod 10 ^ Z.of_nat n).
Proof.
  induction n as [|n IH]; intros a b Ha Hb.
  - cbn. rewrite !Z.mod_1_r. reflexivity.
  - cbn [digits_fix]. rewrite str_compare_app by (rewrite !digits_fix_length; reflexivity).
    rewrite IH by (apply Z.div_pos; lia). cbn [str_compare].
    rewrite digit_compare by (apply Z.mod_pos_bound; lia).
    assert (P : 0 < 10 ^ Z.of_nat n) by (apply Z.pow_pos_nonneg; lia).
    replace (10 ^ Z.of_nat (S n)) with (10 * 10 ^ Z.of_nat n)
      by (rewrite Nat2Z.inj_succ, Z.pow_succ_r by lia; reflexivity).
    rewrite (compare_div_mod (a mod (10 * 10 ^ Z.of_nat n)) (b mod (10 * 10 ^ Z.of_nat n))) by (apply Z.mod_pos_bound; lia).
    rewrite (split_div a _ P), (split_div b _ P), (split_mod a _ P), (split_mod b _ P).
    destruct (Z.compare ((a / 10) mod 10 ^ Z.of_nat n) ((b / 10) mod 10 ^ Z.of_nat n)); cbn; try reflexivity.
    destruct (Z.compare (a mod 10) (b mod 10)); reflexivity.
Qed.

(* non-negative int64 values: the comparable string orders exactly like the numbers *)
Theorem int_cmp_string_compare : forall a b, 0 <= a < two63 -> 0 <= b < two63 ->
  str_compare (int_cmp_string a) (int_cmp_string b) = Z.compare a b.
Proof.
  intros a b Ha Hb. unfold int_cmp_string, fmt_d032.
  replace (a <? 0) with false by (symmetry; apply Z.ltb_ge; lia).
  replace (b <? 0) with false by (symmetry; apply Z.ltb_ge; lia).
  cbn [str_compare]. rewrite N.compare_refl.
  rewrite str_compare_app by (rewrite !digits_fix_length; reflexivity).
  rewrite digits_fix_compare by lia. rewrite str_compare_refl.
  unfold two63 in *.
  rewrite (Z.mod_small a) by (split; [lia|]; change (10 ^ Z.of_nat 32) with 100000000000000000000000000000000; lia).
  rewrite (Z.mod_small b) by (split; [lia|]; change (10 ^ Z.of_nat 32) with 100000000000000000000000000000000; lia).
  destruct (a ?= b); reflexivity.
Qed.

(* text literals *)
Definition above_quote (s : str) : bool := forallb (fun b => N.ltb 34 (Byte.to_N b)) s.

Lemma quoted_suffix_compare : forall t a b, above_quote a = true -> above_quote b = true ->
  str_compare (a ++ x22 :: t) (b ++ x22 :: t) = str_compare a b.
Proof.
  intros t. induction a as [|x a IH]; destruct b as [|y b]; cbn [app above_quote forallb]; intros Ha Hb.
  - apply str_compare_refl.
  - apply andb_prop in Hb. destruct Hb as [Hy _]. apply N.ltb_lt in Hy.
    cbn [str_compare]. change (Byte.to_N x22) with 34%N.
    replace (N.compare 34 (Byte.to_N y)) with Lt by (symmetry; apply N.compare_lt_iff; exact Hy). reflexivity.
  - apply andb_prop in Ha. destruct Ha as [Hx _]. apply N.ltb_lt in Hx.
    cbn [str_compare]. change (Byte.to_N x22) with 34%N.
    replace (N.compare (Byte.to_N x) 34) with Gt by (symmetry; apply N.compare_gt_iff; exact Hx). reflexivity.
  - apply andb_prop in Ha. destruct Ha as [_ Ha]. apply andb_prop in Hb. destruct Hb as [_ Hb].
    cbn [str_compare]. destruct (N.compare (Byte.to_N x) (Byte.to_N y)); try reflexivity.
    apply IH; assumption.
Qed.

Theorem text_string_compare : forall a b, above_quote a = true -> above_quote b = true ->
  str_compare (text_string a) (text_string b) = str_compare a b.
Proof.
  intros a b Ha Hb. unfold text_string, quote. cbn [str_compare]. rewrite N.compare_refl.
  unfold sfx_text. apply quoted_suffix_compare; assumption.
Qed.

(* the compared strings of int64 and text literals have no outer white space: TrimSpace leaves them alone *)
Lemma trim_space_quoted : forall s c, is_space c = false -> trim_space (x22 :: s ++ [c]) = x22 :: s ++ [c].
Proof.
  intros s c Hc. unfold trim_space. cbn [trim_left is_space].
  replace (rev (x22 :: s ++ [c])) with (c :: rev s ++ [x22]).
  2:{ cbn [rev]. rewrite rev_app_distr. reflexivity. }
  cbn [trim_left]. rewrite Hc. cbn [rev]. rewrite rev_app_distr, rev_involutive. reflexivity.
Qed.

Lemma trim_int_cmp_string : forall v, trim_space (int_cmp_string v) = int_cmp_string v.
Proof.
  intro v. unfold int_cmp_string, sfx_int64, quote.
  replace (fmt_d032 v ++ [x22; x5e; x5e; x74; x79; x70; x65; x3a; x69; x6e; x74; x36; x34])
    with ((fmt_d032 v ++ [x22; x5e; x5e; x74; x79; x70; x65; x3a; x69; x6e; x74; x36]) ++ [x34])
    by (rewrite <- app_assoc; reflexivity).
  apply trim_space_quoted. reflexivity.
Qed.

Lemma trim_text_string : forall s, trim_space (text_string s) = text_string s.
Proof.
  intro s. unfold text_string, sfx_text, quote.
  replace (s ++ [x22; x5e; x5e; x74; x79; x70; x65; x3a; x74; x65; x78; x74])
    with ((s ++ [x22; x5e; x5e; x74; x79; x70; x65; x3a; x74; x65; x78]) ++ [x74])
    by (rewrite <- app_assoc; reflexivity).
  apply trim_space_quoted. reflexivity.
Qed.
