(* The tail of queryPlan.Execute (bql/planner/planner.go): projectAndGroupBy, orderBy, having, limit, and the final
   "no rows => fresh table with the output bindings".  Definitions only. *)
From Coq Require Import List ZArith NArith Bool.
Import ListNotations.
From BWTable Require Import Cells Fmt Sort Limit Reduce Expr.
Open Scope Z_scope.

Record stmt_tail := mkTail {
  st_group_by : list binding;
  st_projs : list proj;
  st_order : sort_cfg;                  (* Statement.OrderByConfig() *)
  st_having : option expr;              (* the evaluator built at parse time; None = no HAVING clause *)
  st_limit : option Z
}.

Definition execute_tail_with (srt : sorter) (fx : pg_fixes) (s : stmt_tail) (t : table) : res table :=
  bind (project_and_group_by_with srt fx (st_group_by s) (st_projs s) t) (fun t1 =>
  bind (order_by_with srt (st_order s) (t_rows t1)) (fun rows2 =>
  bind (having (st_having s) rows2) (fun rows3 =>
  bind (plan_limit (st_limit s) rows3) (fun rows4 =>
  Ok (match rows4 with
      | [] => mkTable (map proj_out (st_projs s)) []
      | _ => mkTable (t_bindings t1) rows4
      end))))).
