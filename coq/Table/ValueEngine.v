(* The engine after the repair "compare by value" (repo commits F27 / F28): Table.Sort, queryPlan.orderBy, Table.Reduce
   (groups = runs of rows the sort cannot tell apart), projectAndGroupBy, the HAVING comparison nodes and the tail of
   Execute, all on top of ValueOrder.cell_cmp.  The definitions of Sort.v / Reduce.v / Expr.v / Exec.v stay as the
   model of the code AS FOUND (the _refuted theorems are about them).  Definitions only. *)
From Coq Require Import List ZArith NArith Bool.
From Coq.Strings Require Import Byte.
Import ListNotations.
From BWTable Require Import Cells Fmt StrOrder Sort ValueOrder Limit Reduce Expr Exec.
Open Scope Z_scope.

(* ---- Table.Sort / orderBy ----------------------------------------------------------------------------------------- *)
(* rowLess now ranges over the keys: an empty configuration compares nothing (no c[0] panic any more) *)
Definition table_sortv_with (srt : sorter) (c : sort_cfg) (rows : list row) : res (list row) :=
  match c with
  | None => Ok rows
  | Some ks =>
      match rows with
      | [] | [_] => Ok rows
      | _ => if forallb (has_keys ks) rows then Ok (srt (row_ltv ks) rows) else Fatal
      end
  end.
Definition table_sortv := table_sortv_with (@go_isort row).

Definition order_byv_with (srt : sorter) (c : sort_cfg) (rows : list row) : res (list row) :=
  match c with
  | None | Some [] => Ok rows
  | Some _ => table_sortv_with srt c rows
  end.
Definition order_byv := order_byv_with (@go_isort row).

Definition order_limitv_with (srt : sorter) (c : sort_cfg) (lim : option Z) (rows : list row) : res (list row) :=
  bind (order_byv_with srt c rows) (plan_limit lim).

Definition exec_order_limitv_with (srt : sorter) (guarded : bool) (mask : option (list bool)) (c : sort_cfg)
    (lim : option Z) (rows : list row) : res (list row) :=
  order_limitv_with srt c lim (fetch_pushdown (pushdown_mask guarded c mask) lim rows).

(* ---- Table.Reduce ---------------------------------------------------------------------------------------------------- *)
(* maximal runs of adjacent rows that compare equal on the keys *)
Definition same_group (ks : list skey) (a b : row) : bool :=
  match row_cmpv ks a b with Eq => true | _ => false end.

Fixpoint runs_by (same : row -> row -> bool) (l : list row) : list (list row) :=
  match l with
  | [] => []
  | x :: t =>
      match runs_by same t with
      | (y :: g) :: gs => if same x y then (x :: y :: g) :: gs else [x] :: (y :: g) :: gs
      | _ => [[x]]
      end
  end.

Definition reducev_with (srt : sorter) (c : sort_cfg) (aaps : list aap) (t : table) : res table :=
  if negb (reduce_valid aaps t) then Err EReduceConfig
  else match t_rows t with
       | [] => Ok t
       | _ =>
           bind (table_sortv_with srt c (t_rows t)) (fun sorted =>
           let ks := match c with Some ks => ks | None => [] end in
           bind (map_res (reduce_range_checked (to_map aaps)) (runs_by (same_group ks) sorted)) (fun rows =>
           Ok (mkTable (dedup_bindings (map a_out aaps) []) rows)))
       end.
Definition reducev := reducev_with (@go_isort row).

(* projectAndGroupBy (all repairs applied: empty table returned as it is, alias rule of the checker, Reduce error
   returned, aliases assigned simultaneously) *)
Definition project_and_group_byv_with (srt : sorter) (group_by : list binding) (projs : list proj) (t : table)
  : res table :=
  let fx := mkFixes true true true true in
  match group_by with
  | [] => project_and_group_by_with srt fx [] projs t          (* no sorting involved *)
  | _ =>
      match t_rows t with
      | [] => Ok t
      | _ =>
          let cfg := build_cfg fx group_by projs [] in
          bind (map_res (fun p => bind (choose_acc fx p t)
                                       (fun k => Ok (mkAap (p_bind p) (proj_out p) k))) projs) (fun aaps =>
          bind (project_bindings (map p_bind projs) t) (fun t1 =>
          reducev_with srt (Some cfg) aaps t1))
      end
  end.
Definition project_and_group_byv := project_and_group_byv_with (@go_isort row).

(* ---- HAVING: the comparison nodes by value -------------------------------------------------------------------------------- *)
(* textCell: an extracted id / type (string cell) compares as the text literal with the same characters *)
Definition text_cell (c : cell) : cell :=
  match c with
  | CS s => CL (text_lit s)
  | _ => c
  end.

Definition same_fine (a b : cell) : bool :=
  match a, b with
  | CNull, CNull | CS _, CS _ | CN _, CN _ | CP _, CP _ | CT _, CT _ => true
  | CL x, CL y => lit_type_eqb (lit_ty x) (lit_ty y)
  | _, _ => false
  end.

Definition cmp_op (op : cop) (c : comparison) : bool :=
  match op, c with
  | OEq, Eq | OLt, Lt | OGt, Gt => true
  | _, _ => false
  end.

Fixpoint evalv (e : expr) (r : row) : res bool :=
  match e with
  | EBind op l rb =>
      match rget r l, rget r rb with
      | Some cl, Some cr =>
          let a := text_cell cl in
          let b := text_cell cr in
          if same_fine a b then Ok (cmp_op op (cell_cmp a b)) else Ok false
      | _, _ => Err EEval
      end
  | ELit op l c =>
      match rget r l with
      | None => Err EEval
      | Some cl =>
          match cl with
          | CL _ | CS _ =>
              match c with
              | PCError => Err EEval
              | PCNil => Panic SNilCell
              | PC v _ =>
                  let ty := litval_ty v in
                  match cl with
                  | CS s => if lit_type_eqb ty TText then Ok (cmp_op op (lit_cmp (VText s) v)) else Err EEval
                  | CL lt => if lit_type_eqb (lit_ty lt) ty then Ok (cmp_op op (lit_cmp (l_val lt) v)) else Ok false
                  | _ => Ok false
                  end
              end
          | _ => Ok false
          end
      end
  | ENode _ _ _ | EPred _ _ _ | ETime _ _ _ => eval e r                 (* unchanged by the repair *)
  | ENot a => match evalv a r with Ok b => Ok (negb b) | x => x end
  | EAnd a b => match evalv a r with Ok true => evalv b r | x => x end
  | EOr a b => match evalv a r with Ok false => evalv b r | x => x end
  end.

Fixpoint havingv_rows (e : expr) (rows : list row) : res (list row) :=
  match rows with
  | [] => Ok []
  | r :: t =>
      match evalv e r with
      | Ok b =>
          match havingv_rows e t with
          | Ok kept => Ok (if b then r :: kept else kept)
          | x => x
          end
      | Err x => match havingv_rows e t with Panic s => Panic s | Fatal => Fatal | _ => Err x end
      | Panic s => Panic s
      | Fatal => Fatal
      end
  end.

Definition havingv (e : option expr) (rows : list row) : res (list row) :=
  match e with
  | None => Ok rows
  | Some x => havingv_rows x rows
  end.

(* ---- the tail of Execute ---------------------------------------------------------------------------------------------------- *)
Definition execute_tailv_with (srt : sorter) (s : stmt_tail) (t : table) : res table :=
  bind (project_and_group_byv_with srt (st_group_by s) (st_projs s) t) (fun t1 =>
  bind (order_byv_with srt (st_order s) (t_rows t1)) (fun rows2 =>
  bind (havingv (st_having s) rows2) (fun rows3 =>
  bind (plan_limit (st_limit s) rows3) (fun rows4 =>
  Ok (match rows4 with
      | [] => mkTable (map proj_out (st_projs s)) []
      | _ => mkTable (t_bindings t1) rows4
      end))))).

(* what the table looks like when Reduce returned an error after sorting *)
Definition reducev_leftover (srt : sorter) (c : sort_cfg) (t : table) : res table :=
  bind (table_sortv_with srt c (t_rows t)) (fun sorted => Ok (mkTable (t_bindings t) sorted)).

(* ---- SPEC of grouping by value: two cells are the same grouping value iff they are of the same kind and hold the same
   value (numbers numerically: -0 = 0, NaN = NaN; anchors as instants; text / blob by their bytes; the rest by printed
   form) -------------------------------------------------------------------------------------------------------------- *)
Definition lit_val_eqb (a b : litval) : bool :=
  match a, b with
  | VBool x, VBool y => Bool.eqb x y
  | VInt x, VInt y => Z.eqb x y
  | VFloat x, VFloat y => Z.eqb (f64_key x) (f64_key y)
  | VText x, VText y | VBlob x, VBlob y => str_eqb x y
  | _, _ => false
  end.

Definition cell_val_eqb (a b : cell) : bool :=
  match a, b with
  | CNull, CNull => true
  | CS x, CS y | CN x, CN y | CP x, CP y => str_eqb x y
  | CL x, CL y => lit_val_eqb (l_val x) (l_val y)
  | CT x, CT y => Z.eqb (t_ns x) (t_ns y)
  | _, _ => false
  end.

Definition same_values (gs : list binding) (a b : row) : bool :=
  forallb (fun g => match rget a g, rget b g with
                    | Some x, Some y => cell_val_eqb x y
                    | None, None => true
                    | _, _ => false
                    end) gs.

(* the groups: for each row that is the first of its value combination, all rows with that combination *)
Fixpoint first_of_class (same : row -> row -> bool) (seen : list row) (l : list row) : list row :=
  match l with
  | [] => []
  | r :: t => if existsb (same r) seen then first_of_class same seen t else r :: first_of_class same (r :: seen) t
  end.

Definition spec_groupsv (gs : list binding) (rows : list row) : list (list row) :=
  map (fun h => filter (same_values gs h) rows) (first_of_class (same_values gs) [] rows).

Definition spec_reducev (gs : list binding) (aaps : list aap) (rows : list row) : res (list row) :=
  map_res (reduce_range_checked (to_map aaps)) (spec_groupsv gs rows).
