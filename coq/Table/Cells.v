(* Cells, rows and outcomes of bql/table (table.go: Cell, Row, Cell.String) as used by Sort / Reduce / Limit /
   Filter and by the HAVING evaluator.  Definitions only.

   A Go Cell is a struct of five pointers (S, N, P, L, T) of which the engine sets at most one; the model is the
   corresponding sum (CNull = the all-nil cell that OPTIONAL joins create).  The strings that Go's comparisons use
   (Node.String, Predicate.String, Literal.String, Literal.ToComparableString, Time.Format(RFC3339Nano)) are
   carried as DATA inside the cell: the comparison LOGIC of table.go / expression.go is what is modelled.  For int64
   literals the zero-padded form is also defined in Gallina (Fmt.v) and compared with the shipped string. *)
From Coq Require Import List ZArith NArith Bool.
From Coq.Strings Require Import Byte.
From Coq.Floats Require Import SpecFloat.
Import ListNotations.

Definition str := list byte.

(* ---- outcomes ---------------------------------------------------------------------------------------- *)
Inductive err :=
| EReduceConfig      (* table.Reduce input validation *)
| EAccumulate        (* an accumulator refused a cell (not a literal / wrong literal type) *)
| EReduceEmptyRow    (* "failed to reduced row range returning an empty one" *)
| ESumKind           (* projectAndGroupBy: can only sum int64 and float64 literals *)
| EProject           (* ProjectBindings: unknown binding *)
| ELimit             (* limitCollection rejected the LIMIT token *)
| EBuild             (* NewEvaluator rejected the token list *)
| EFuel              (* model artefact: recursion fuel exhausted (excluded by build_fuel_enough) *)
| EEval.             (* Evaluate returned an error *)

Inductive site :=
| SIndexSortConfig   (* rowLess: c[0] on an empty, non-nil SortConfig *)
| SRowsZero          (* projectAndGroupBy: p.tbl.Rows()[0] on an empty table *)
| SMakeNegative      (* Table.Limit: make([]Row, i, i) with i < 0 *)
| SNilCell.          (* dereference of a missing (nil) *Cell *)

Inductive res (A : Type) :=
| Ok (a : A)
| Err (e : err)
| Panic (s : site)
| Fatal.             (* log.Fatalf in rowLess: the process exits *)
Arguments Ok {A} a. Arguments Err {A} e. Arguments Panic {A} s. Arguments Fatal {A}.

Definition bind {A B} (r : res A) (f : A -> res B) : res B :=
  match r with Ok a => f a | Err e => Err e | Panic s => Panic s | Fatal => Fatal end.

(* ---- literal values ---------------------------------------------------------------------------------- *)
Inductive lit_type := TBool | TInt64 | TFloat64 | TText | TBlob.

Definition lit_type_eqb (a b : lit_type) : bool :=
  match a, b with
  | TBool, TBool | TInt64, TInt64 | TFloat64, TFloat64 | TText, TText | TBlob, TBlob => true
  | _, _ => false
  end.

(* float64 = IEEE binary64 as Coq's specification floats (pure Gallina, no primitive floats) *)
Definition f64 := spec_float.
Definition f64_add (a b : f64) : f64 := SFadd 53 1024 a b.
Definition f64_zero : f64 := S754_zero false.

Inductive litval :=
| VBool (b : bool)
| VInt (z : Z)            (* int64: -2^63 <= z < 2^63 *)
| VFloat (f : f64)
| VText (s : str)
| VBlob (s : str).

Record lit := mkLit {
  l_val : litval;
  l_str : str;             (* Literal.String() *)
  l_cmp : str              (* Literal.ToComparableString() = %032d / %032f forms, else String() *)
}.

Definition lit_ty (l : lit) : lit_type :=
  match l_val l with
  | VBool _ => TBool | VInt _ => TInt64 | VFloat _ => TFloat64 | VText _ => TText | VBlob _ => TBlob
  end.

Record tim := mkTim {
  t_ns : Z;                (* instant, nanoseconds since the epoch *)
  t_off : Z;               (* zone offset, seconds east of UTC *)
  t_str : str              (* Time.Format(time.RFC3339Nano) *)
}.

Inductive cell :=
| CNull                    (* &Cell{} *)
| CS (s : str)             (* extracted id / type / alias strings *)
| CN (s : str)             (* node, printed form *)
| CP (s : str)             (* predicate, printed form *)
| CL (l : lit)
| CT (t : tim).

Definition null_str : str := [x3c; x4e; x55; x4c; x4c; x3e].   (* <NULL> *)

(* Cell.String() *)
Definition cell_string (c : cell) : str :=
  match c with
  | CNull => null_str
  | CS s => s
  | CN s => s
  | CP s => s
  | CL l => l_str l
  | CT t => t_str t
  end.

Inductive kind := KNull | KS | KN | KP | KL | KT.
Definition cell_kind (c : cell) : kind :=
  match c with CNull => KNull | CS _ => KS | CN _ => KN | CP _ => KP | CL _ => KL | CT _ => KT end.
Definition kind_eqb (a b : kind) : bool :=
  match a, b with
  | KNull, KNull | KS, KS | KN, KN | KP, KP | KL, KL | KT, KT => true
  | _, _ => false
  end.

(* ---- byte strings ------------------------------------------------------------------------------------- *)
Definition byte_ltb (a b : byte) : bool := N.ltb (Byte.to_N a) (Byte.to_N b).

Fixpoint str_eqb (a b : str) : bool :=
  match a, b with
  | [], [] => true
  | x :: a', y :: b' => Byte.eqb x y && str_eqb a' b'
  | _, _ => false
  end.

(* Go's < on strings: bytewise lexicographic, a proper prefix is smaller *)
Fixpoint str_ltb (a b : str) : bool :=
  match a, b with
  | _, [] => false
  | [], _ :: _ => true
  | x :: a', y :: b' => if Byte.eqb x y then str_ltb a' b' else byte_ltb x y
  end.

(* strings.TrimSpace restricted to the ASCII white space \t \n \v \f \r and space.  (Go also trims U+0085, U+00A0
   and the other Unicode spaces; strings that begin or end with those are outside the model's domain and are not
   generated.) *)
Definition is_space (b : byte) : bool :=
  match b with x09 | x0a | x0b | x0c | x0d | x20 => true | _ => false end.
Fixpoint trim_left (s : str) : str :=
  match s with
  | [] => []
  | b :: r => if is_space b then trim_left r else s
  end.
Definition trim_space (s : str) : str := rev (trim_left (rev (trim_left s))).

(* ---- rows --------------------------------------------------------------------------------------------- *)
(* Row = map[string]*Cell; bindings are numbered by the harness (only equality of names matters) *)
Definition binding := N.
Definition row := list (binding * cell).

Fixpoint rget (r : row) (b : binding) : option cell :=
  match r with
  | [] => None
  | (k, c) :: r' => if N.eqb k b then Some c else rget r' b
  end.

(* r[b] = c on a Go map: replaces an existing entry *)
Fixpoint rset (r : row) (b : binding) (c : cell) : row :=
  match r with
  | [] => [(b, c)]
  | (k, c') :: r' => if N.eqb k b then (k, c) :: r' else (k, c') :: rset r' b c
  end.

Record table := mkTable {
  t_bindings : list binding;   (* AvailableBindings *)
  t_rows : list row            (* Data *)
}.

(* ---- decidable equality of cells (used only by the correspondence, to compare multisets of rows) -------- *)
Definition sf_eqb (a b : f64) : bool :=
  match a, b with
  | S754_zero s, S754_zero s' => Bool.eqb s s'
  | S754_infinity s, S754_infinity s' => Bool.eqb s s'
  | S754_nan, S754_nan => true
  | S754_finite s m e, S754_finite s' m' e' => Bool.eqb s s' && Pos.eqb m m' && Z.eqb e e'
  | _, _ => false
  end.

Definition litval_eqb (a b : litval) : bool :=
  match a, b with
  | VBool x, VBool y => Bool.eqb x y
  | VInt x, VInt y => Z.eqb x y
  | VFloat x, VFloat y => sf_eqb x y
  | VText x, VText y => str_eqb x y
  | VBlob x, VBlob y => str_eqb x y
  | _, _ => false
  end.

Definition cell_eqb (a b : cell) : bool :=
  match a, b with
  | CNull, CNull => true
  | CS x, CS y | CN x, CN y | CP x, CP y => str_eqb x y
  | CL x, CL y => litval_eqb (l_val x) (l_val y) && str_eqb (l_str x) (l_str y) && str_eqb (l_cmp x) (l_cmp y)
  | CT x, CT y => Z.eqb (t_ns x) (t_ns y) && Z.eqb (t_off x) (t_off y) && str_eqb (t_str x) (t_str y)
  | _, _ => false
  end.
