(* The lexer goroutine / parser protocol (bql/lexer: run() sends tokens on a channel of capacity c and closes it;
   bql/grammar/llk.go: the parser receives, pads with EOF once the channel is closed, and may stop early on a parse
   error).  Small-step model with one producer and one consumer over a bounded FIFO channel. *)
From Coq Require Import List Arith Bool.
Import ListNotations.

Section Chan.
  Variable A : Type.

  Inductive cphase :=
  | Reading (n : nat)     (* the parser still wants n tokens (appendNextToken calls) *)
  | Draining              (* Parse has finished and drains the channel until it is closed (the fix) *)
  | Done.                 (* Parse has returned *)

  Record st := mk {
    todo : list A;        (* tokens the lexer has not sent yet *)
    buf : list A;         (* channel buffer *)
    closed : bool;        (* close(l.tokens) executed: the lexer goroutine has terminated *)
    cons : cphase
  }.

  Variable cap : nat.       (* channel capacity (2k in NewLLk; lexer.New allows 0) *)
  Variable drain : bool.    (* does Parse drain the channel before returning? *)

  Definition after_read (n : nat) : cphase :=
    match n with
    | O => if drain then Draining else Done
    | S _ => Reading n
    end.

  Definition wants (c : cphase) : bool := match c with Reading (S _) => true | Draining => true | _ => false end.

  (* the consumer has just obtained one token (or the EOF pad) *)
  Definition consumed (c : cphase) : cphase :=
    match c with
    | Reading (S n) => after_read n
    | c => c
    end.

  Inductive step : st -> st -> Prop :=
  | P_send : forall x r b cl c, length b < cap ->
      step (mk (x :: r) b cl c) (mk r (b ++ [x]) cl c)
  | P_handoff : forall x r cl c, wants c = true ->            (* receiver ready, empty buffer: direct delivery *)
      step (mk (x :: r) [] cl c) (mk r [] cl (consumed c))
  | P_close : forall b c,
      step (mk [] b false c) (mk [] b true c)
  | C_recv : forall t x b cl c, wants c = true ->
      step (mk t (x :: b) cl c) (mk t b cl (consumed c))
  | C_eof_pad : forall t n,                                   (* range over a closed empty channel ends: append EOF *)
      step (mk t [] true (Reading (S n))) (mk t [] true (after_read n))
  | C_drained : forall t,
      step (mk t [] true Draining) (mk t [] true Done)
  | C_start_nothing_to_read : forall t b cl,                  (* Parse needs no further token *)
      step (mk t b cl (Reading 0)) (mk t b cl (after_read 0)).

  Inductive steps : st -> st -> Prop :=
  | steps_refl : forall s, steps s s
  | steps_cons : forall s1 s2 s3, step s1 s2 -> steps s2 s3 -> steps s1 s3.

  Definition terminal (s : st) : Prop := forall s', ~ step s s'.

  Definition init (toks : list A) (n : nat) : st := mk toks [] false (Reading n).

  (* termination measure *)
  Definition phase_size (c : cphase) : nat :=
    match c with Reading n => 2 * n + 2 | Draining => 1 | Done => 0 end.
  Definition measure (s : st) : nat :=
    2 * length (todo s) + length (buf s) + (if closed s then 0 else 1) + phase_size (cons s).
End Chan.
