(* C08 — any statement text yields a table or an error: no crash, hang or leak.  PARTIAL: the theorems cover the
   front end (parser termination and totality, the hook closure that dereferences a pointer, and the lexer-goroutine /
   parser channel protocol: every run is finite and, with the drain, ends with the lexer goroutine terminated).
   Planning and execution are covered by the crash-mode differential run only (see the claim text). *)
From Coq Require Import List NArith Bool Arith.
Import ListNotations.
From BWGrammar Require Import Grammar GrammarProofs Hooks HooksProofs LLk LLkProofs.
From BWGrammar.Gen Require Import GrammarGen.
From BWEngine Require Import Chan ChanProofs ChanVals.
From Coq.Strings Require Import Byte.
From BWLexer Require Unicode Lexer LexerProofs.
From BWLexer.Gen Require LexTablesGen.

(* the parser model terminates on every token sequence and answers accept or reject *)
Theorem C08_parser_total : forall ts,
  (exists rest tr, Grammar.parse bql tok_eof START ts = Ok rest tr) \/ Grammar.parse bql tok_eof START ts = Reject.
Proof.
  intros ts. destruct (Grammar.parse bql tok_eof START ts) as [rest tr| |] eqn:E; [left; eauto | right; reflexivity |].
  exfalso. revert E. unfold Grammar.parse.
  destruct (Grammar.consume bql tok_eof (Grammar.fuel_for ts) START ts) eqn:Ec; try discriminate.
  - destruct (N.eqb (Grammar.cur tok_eof rest) tok_eof); discriminate.
  - intros _. eapply consume_fuel_enough; [| | exact Ec].
    + assert (H : ll1_ok bql START tok_eof = true) by (vm_compute; reflexivity).
      apply (ll1_ok_parts bql START tok_eof H).
    + unfold Grammar.fuel_for. auto.
Qed.
Print Assumptions C08_parser_total.

(* collectGlobalBounds reads opToken.Type: never with opToken == nil, for every token sequence *)
Theorem C08_global_bounds_no_nil_deref : forall inp, ~ In GbPanic (fst (gb_run gb_step (None, None) inp)).
Proof. intros inp. apply gb_no_panic. intros H. cbn in H. contradiction. Qed.
Print Assumptions C08_global_bounds_no_nil_deref.

(* lexer goroutine / parser: for every token list, channel capacity and number of tokens the parser reads before it
   stops, every step decreases a measure (no run is infinite: no hang in this protocol) ... *)
Theorem C08_every_run_finite : forall (A : Type) cap drain (s s' : st A),
  step A cap drain s s' -> (measure A s' < measure A s)%nat.
Proof. exact step_decreases. Qed.
Print Assumptions C08_every_run_finite.

(* ... and with the drain (the repo after the fix) a state where nothing can move any more has the channel closed
   — the lexer goroutine has run to its end — and Parse has returned: no goroutine is left behind *)
Theorem C08_drained_no_leak : forall (A : Type) cap toks n (s : st A),
  steps A cap true (init A toks n) s -> terminal A cap true s -> closed A s = true /\ cons A s = Done.
Proof. exact drained_no_leak. Qed.
Print Assumptions C08_drained_no_leak.

(* (what the fix repaired) without the drain a parse that stops early leaves the lexer goroutine blocked for ever *)
Theorem C08_undrained_leak_refuted :
  exists s, steps nat 2 false (init nat [1; 2; 3; 4]%nat 0) s /\ terminal nat 2 false s /\ closed nat s = false.
Proof. exact undrained_leak_refuted. Qed.
Print Assumptions C08_undrained_leak_refuted.

(* the same protocol with the values that travel (ChanVals.v: a ghost records what was received and what the parser
   obtained; every step of the protocol above is a step there and conversely).  In every reachable state, for every
   token list, capacity, drain setting and number of tokens the parser asks for: nothing is lost, duplicated or
   reordered (received ++ buffer ++ not yet sent = the lexer's token list), and the parser has obtained a prefix of the
   list followed by EOF pads, pads only after the whole list.  This is the stream the look-ahead window starts from. *)
Theorem C08_channel_delivers_in_order : forall (A : Type) cap drain (toks : list A) n s,
  steps A cap drain (init A toks n) s ->
  exists g, vsteps A cap drain (init A toks n, mkG A [] []) (s, g) /\
    recv A g ++ buf A s ++ todo A s = toks /\
    exists k m, got A g = map Some (firstn k toks) ++ repeat None m /\ (k <= List.length toks)%nat /\ (m <> 0%nat -> k = List.length toks).
Proof.
  intros A cap drain toks n s H. destruct (steps_lift A cap drain _ _ H (mkG A [] [])) as [g V].
  exists g. split; [exact V|]. exact (delivered_in_order A cap drain toks n s g V).
Qed.
Print Assumptions C08_channel_delivers_in_order.

Example C08_channel_nonvacuous :
  exists s g, vsteps nat 1 true (init nat [7]%nat 2, mkG nat [] []) (s, g) /\ got nat g = [Some 7%nat; None].
Proof.
  eexists. eexists. split.
  - eapply vsteps_cons; [apply V_send; cbn; auto|].
    eapply vsteps_cons; [apply V_recv; reflexivity|].
    eapply vsteps_cons; [apply V_close|].
    eapply vsteps_cons; [apply V_eof_pad|].
    apply vsteps_refl.
  - reflexivity.
Qed.

(* the token source of the parser (llk.go): `&l.tkns[0]` in Current / CanAccept / Consume and `&l.tkns[j]` in Peek index
   the look-ahead window.  For every look-ahead k, token list and run of Consume attempts the window holds exactly k+1
   tokens: none of these index expressions can be out of range, however long or short the statement is. *)
Theorem C08_llk_no_index_panic : forall (Tok : Type) (pad : Tok) (kind : Tok -> N) toks k tys,
  let l := fst (consumes Tok pad kind (new_llk Tok pad toks k) tys) in
  la Tok l = k /\ length (win Tok l) = S k /\ current Tok l <> None /\
  (forall j, (1 <= j <= k)%nat -> peek Tok l j <> None).
Proof.
  intros Tok pad kind toks k tys l.
  destruct (new_R Tok pad toks k) as [HR Hk].
  destruct (consumes_spec Tok pad kind tys _ _ HR) as [_ HR'].
  fold l in HR'.
  assert (Hla : la Tok l = k).
  { clear HR'. subst l. revert HR Hk. generalize (new_llk Tok pad toks k) as l0. generalize toks as ts.
    induction tys as [|ty r IH]; intros ts l0 HR0 Hk0; cbn [consumes fst]; [exact Hk0|].
    pose proof (consume_spec Tok pad kind l0 ts ty HR0) as Hc.
    destruct (consume_tok Tok pad kind l0 ty) as [l1 b]. destruct Hc as [_ [HR1 Hl1]].
    specialize (IH _ l1 HR1 (eq_trans Hl1 Hk0)).
    destruct (consumes Tok pad kind l1 r) as [l2 bs]. exact IH. }
  split; [exact Hla|]. split; [destruct HR' as [Hlen _]; rewrite Hlen, Hla; reflexivity|].
  split.
  - rewrite (current_spec Tok pad l _ HR'). discriminate.
  - intros j Hj. rewrite (peek_spec Tok pad l _ j HR') by (rewrite Hla; exact Hj). discriminate.
Qed.
Print Assumptions C08_llk_no_index_panic.

(* front end composed: for EVERY byte string, the lexer model terminates (run loop reaches nil: the channel is closed),
   emits exactly one terminal token (EOF or Error) in last position, and the parser model over the emitted token kinds
   terminates with accept or reject.  (Lexer model and its theorems: property C16, coq/Lexer; token numbering of both
   generated tables agrees on EOF.) *)
Theorem C08_front_end_total : forall text : list byte,
  snd (BWLexer.Lexer.lex_with BWLexer.Unicode.go_uni text) = true /\
  (exists pre t, fst (BWLexer.Lexer.lex_with BWLexer.Unicode.go_uni text) = pre ++ [t] /\ (BWLexer.Lexer.tk_kind t = BWLexer.Gen.LexTablesGen.ItemError \/ BWLexer.Lexer.tk_kind t = BWLexer.Gen.LexTablesGen.ItemEOF) /\
                 Forall (fun x => ~ (BWLexer.Lexer.tk_kind x = BWLexer.Gen.LexTablesGen.ItemError \/ BWLexer.Lexer.tk_kind x = BWLexer.Gen.LexTablesGen.ItemEOF)) pre) /\
  ((exists rest tr, Grammar.parse bql tok_eof START (map BWLexer.Lexer.tk_kind (fst (BWLexer.Lexer.lex_with BWLexer.Unicode.go_uni text))) = Ok rest tr) \/
   Grammar.parse bql tok_eof START (map BWLexer.Lexer.tk_kind (fst (BWLexer.Lexer.lex_with BWLexer.Unicode.go_uni text))) = Reject) /\
  BWLexer.Gen.LexTablesGen.ItemEOF = tok_eof /\ BWLexer.Gen.LexTablesGen.ItemError = tok_error.
Proof.
  intros text. destruct (BWLexer.Lexer.lex_with BWLexer.Unicode.go_uni text) as [ts fin] eqn:E.
  destruct (BWLexer.LexerProofs.lex_with_good BWLexer.Unicode.go_uni text ts fin E) as (H1 & _ & H3). cbn [fst snd].
  split; [exact H1|]. split; [exact H3|]. split; [apply C08_parser_total|]. split; reflexivity.
Qed.
Print Assumptions C08_front_end_total.
