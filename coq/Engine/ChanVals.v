(* The channel protocol of Chan.v with the VALUES that travel: a ghost component records every token received from the
   channel and the sequence the parser obtained while it was reading (Some token, or None for the EOF pad appended once
   the channel is closed and empty).  Every step of Chan.v is a step here and conversely (the ghost is determined by the
   step), and in every reachable state no token has been lost, duplicated or reordered: what was received, what is in
   the buffer and what the lexer still holds is the lexer's token list, and the parser obtained a prefix of it followed
   by EOF pads - pads only after the whole list. This is the [stream] that LLk.v (the look-ahead window) starts from. *)
From Coq Require Import List Arith Bool Lia.
Import ListNotations.
From BWEngine Require Import Chan.

Section Vals.
  Variable A : Type.
  Variable cap : nat.
  Variable drain : bool.

  Notation st := (st A).

  Record ghost := mkG { recv : list A; got : list (option A) }.

  Definition reading (c : cphase) : bool := match c with Reading (S _) => true | _ => false end.

  (* what the consumer does with a token it has just received: the parser keeps it while reading, the drain drops it *)
  Definition take (c : cphase) (x : A) (g : ghost) : ghost :=
    mkG (recv g ++ [x]) (if reading c then got g ++ [Some x] else got g).

  Inductive vstep : st * ghost -> st * ghost -> Prop :=
  | V_send : forall x r b cl c g, length b < cap ->
      vstep (mk A (x :: r) b cl c, g) (mk A r (b ++ [x]) cl c, g)
  | V_handoff : forall x r cl c g, wants c = true ->
      vstep (mk A (x :: r) [] cl c, g) (mk A r [] cl (consumed drain c), take c x g)
  | V_close : forall b c g,
      vstep (mk A [] b false c, g) (mk A [] b true c, g)
  | V_recv : forall t x b cl c g, wants c = true ->
      vstep (mk A t (x :: b) cl c, g) (mk A t b cl (consumed drain c), take c x g)
  | V_eof_pad : forall t n g,
      vstep (mk A t [] true (Reading (S n)), g) (mk A t [] true (after_read drain n), mkG (recv g) (got g ++ [None]))
  | V_drained : forall t g,
      vstep (mk A t [] true Draining, g) (mk A t [] true Done, g)
  | V_start_nothing_to_read : forall t b cl g,
      vstep (mk A t b cl (Reading 0), g) (mk A t b cl (after_read drain 0), g).

  Inductive vsteps : st * ghost -> st * ghost -> Prop :=
  | vsteps_refl : forall p, vsteps p p
  | vsteps_cons : forall p1 p2 p3, vstep p1 p2 -> vsteps p2 p3 -> vsteps p1 p3.

  (* the ghost changes nothing: projection and lifting *)
  Theorem vstep_project p p' : vstep p p' -> step A cap drain (fst p) (fst p').
  Proof. intros H. destruct H; cbn [fst]; constructor; assumption. Qed.

  Theorem step_lift s s' : step A cap drain s s' -> forall g, exists g', vstep (s, g) (s', g').
  Proof. intros H g. destruct H; eexists; constructor; assumption. Qed.

  Theorem steps_lift s s' : steps A cap drain s s' -> forall g, exists g', vsteps (s, g) (s', g').
  Proof.
    intros H. induction H as [s|s1 s2 s3 H12 _ IH]; intros g; [exists g; constructor|].
    destruct (step_lift _ _ H12 g) as [g2 V]. destruct (IH g2) as [g3 Vs]. exists g3. econstructor; eassumption.
  Qed.

  (* ---- the invariant *)
  Variable toks : list A.

  Definition J (p : st * ghost) : Prop :=
    let (s, g) := p in
    recv g ++ buf A s ++ todo A s = toks /\
    (closed A s = true -> todo A s = []) /\
    exists k m, got g = map Some (firstn k (recv g)) ++ repeat None m /\ k <= length (recv g) /\
                (reading (cons A s) = true -> k = length (recv g)) /\
                (m <> 0 -> closed A s = true /\ buf A s = [] /\ k = length (recv g)).

  Lemma repeat_snoc (X : Type) (x : X) m : repeat x m ++ [x] = repeat x (S m).
  Proof. induction m as [|m IH]; cbn; [reflexivity|]. rewrite IH. reflexivity. Qed.

  Lemma firstn_app_le (X : Type) (l l' : list X) k : k <= length l -> firstn k (l ++ l') = firstn k l.
  Proof. intros H. rewrite firstn_app. replace (k - length l) with 0 by lia. cbn. apply app_nil_r. Qed.

  Lemma wants_cases c : wants c = true -> reading c = true \/ c = Draining.
  Proof. destruct c as [[|n]| |]; cbn; intros H; try discriminate; [left; reflexivity | right; reflexivity]. Qed.

  Lemma reading_consumed_draining : reading (consumed drain Draining) = false.
  Proof. reflexivity. Qed.

  (* a token is received while the buffer/lexer side is non-empty, so no pad has been appended yet (m = 0) *)
  Lemma J_take s s' (g : ghost) x c :
    wants c = true -> cons A s = c -> cons A s' = consumed drain c ->
    recv g ++ [x] ++ buf A s' ++ todo A s' = toks ->
    (closed A s' = true -> todo A s' = []) ->
    (exists k m, got g = map Some (firstn k (recv g)) ++ repeat None m /\ k <= length (recv g) /\
                 (reading c = true -> k = length (recv g)) /\ (m <> 0 -> False)) ->
    J (s', take c x g).
  Proof.
    intros Hw Hc Hc' E I1 [k [m [Eg [Hk [Hr Hm]]]]].
    assert (m = 0) by (destruct m; [reflexivity | exfalso; apply Hm; discriminate]). subst m.
    cbn [repeat] in Eg. rewrite app_nil_r in Eg.
    unfold J, take. cbn [recv got]. split; [rewrite <- app_assoc; exact E|]. split; [exact I1|].
    destruct (wants_cases c Hw) as [Hrd|Hdr].
    - rewrite Hrd. specialize (Hr Hrd). subst k. exists (S (length (recv g))), 0. cbn [repeat]. rewrite app_nil_r.
      split.
      + rewrite Eg, firstn_all. rewrite firstn_all2 by (rewrite app_length; cbn; lia). rewrite map_app. reflexivity.
      + split; [rewrite app_length; cbn; lia|]. split; [intros _; rewrite app_length; cbn; lia | intros C; contradiction].
    - rewrite Hdr in *. cbn [reading]. exists k, 0. cbn [repeat]. rewrite app_nil_r. split.
      + rewrite Eg, firstn_app_le by exact Hk. reflexivity.
      + split; [rewrite app_length; lia|]. split; [rewrite Hc'; cbn; intros C; discriminate | intros C; contradiction].
  Qed.

  Lemma J_step p p' : J p -> vstep p p' -> J p'.
  Proof.
    intros HJ H. destruct H.
    - (* send *)
      destruct HJ as [E [I1 [k [m [Eg [Hk [Hr Hm]]]]]]]. cbn [todo buf closed cons] in *.
      assert (Hcl : cl = false) by (destruct cl; [specialize (I1 eq_refl); discriminate | reflexivity]). subst cl.
      unfold J. cbn [todo buf closed cons]. split; [rewrite <- app_assoc; cbn; exact E|].
      split; [intros C; discriminate|]. exists k, m. split; [exact Eg|]. split; [exact Hk|]. split; [exact Hr|].
      intros Hm0. destruct (Hm Hm0) as [C _]. discriminate.
    - (* handoff *)
      destruct HJ as [E [I1 [k [m [Eg [Hk [Hr Hm]]]]]]]. cbn [todo buf closed cons] in *.
      apply (J_take (mk A (x :: r) [] cl c) (mk A r [] cl (consumed drain c)) g x c H eq_refl eq_refl).
      + cbn [todo buf]. cbn. cbn in E. exact E.
      + cbn [closed todo]. intros C. specialize (I1 C). discriminate.
      + exists k, m. split; [exact Eg|]. split; [exact Hk|]. split; [exact Hr|].
        intros Hm0. destruct (Hm Hm0) as [C _]. specialize (I1 C). discriminate.
    - (* close *)
      destruct HJ as [E [I1 [k [m [Eg [Hk [Hr Hm]]]]]]]. cbn [todo buf closed cons] in *.
      unfold J. cbn [todo buf closed cons]. split; [exact E|]. split; [reflexivity|].
      exists k, m. split; [exact Eg|]. split; [exact Hk|]. split; [exact Hr|].
      intros Hm0. destruct (Hm Hm0) as [C _]. discriminate.
    - (* recv *)
      destruct HJ as [E [I1 [k [m [Eg [Hk [Hr Hm]]]]]]]. cbn [todo buf closed cons] in *.
      apply (J_take (mk A t (x :: b) cl c) (mk A t b cl (consumed drain c)) g x c H eq_refl eq_refl).
      + cbn [todo buf]. cbn. cbn in E. exact E.
      + exact I1.
      + exists k, m. split; [exact Eg|]. split; [exact Hk|]. split; [exact Hr|].
        intros Hm0. destruct (Hm Hm0) as [_ [C _]]. discriminate.
    - (* eof pad *)
      destruct HJ as [E [I1 [k [m [Eg [Hk [Hr Hm]]]]]]]. cbn [todo buf closed cons] in *.
      unfold J. cbn [todo buf closed cons recv got]. split; [exact E|]. split; [exact I1|].
      exists k, (S m). split; [rewrite Eg, <- app_assoc, repeat_snoc; reflexivity|]. split; [exact Hk|].
      specialize (Hr eq_refl). split; [intros _; exact Hr|]. intros _. repeat split; exact Hr.
    - (* drained *)
      destruct HJ as [E [I1 [k [m [Eg [Hk [Hr Hm]]]]]]]. cbn [todo buf closed cons] in *.
      unfold J. cbn [todo buf closed cons]. split; [exact E|]. split; [exact I1|].
      exists k, m. split; [exact Eg|]. split; [exact Hk|]. split; [intros C; discriminate | exact Hm].
    - (* nothing to read *)
      destruct HJ as [E [I1 [k [m [Eg [Hk [Hr Hm]]]]]]]. cbn [todo buf closed cons] in *.
      unfold J. cbn [todo buf closed cons]. split; [exact E|]. split; [exact I1|].
      exists k, m. split; [exact Eg|]. split; [exact Hk|]. split; [|exact Hm].
      destruct drain; cbn; intros C; discriminate.
  Qed.

  Lemma J_steps p p' : J p -> vsteps p p' -> J p'.
  Proof. intros HJ H. induction H as [p|p1 p2 p3 H12 _ IH]; [exact HJ|]. apply IH. eapply J_step; eassumption. Qed.
End Vals.

(* every reachable state of the protocol started on the lexer's token list [toks] *)
Theorem delivered_in_order (A : Type) cap drain (toks : list A) n s g :
  vsteps A cap drain (init A toks n, mkG A [] []) (s, g) ->
  recv A g ++ buf A s ++ todo A s = toks /\
  exists k m, got A g = map Some (firstn k toks) ++ repeat None m /\ k <= length toks /\ (m <> 0 -> k = length toks).
Proof.
  intros H.
  assert (J0 : J A toks (init A toks n, mkG A [] [])).
  { unfold J, init. cbn. split; [reflexivity|]. split; [intros C; discriminate|]. exists 0, 0. cbn.
    split; [reflexivity|]. split; [lia|]. split; [intros _; reflexivity | intros C; contradiction]. }
  pose proof (J_steps A cap drain toks _ _ J0 H) as [E [I1 [k [m [Eg [Hk [_ Hm]]]]]]].
  split; [exact E|]. exists k, m.
  assert (Hlen : length (recv A g) <= length toks) by (rewrite <- E, app_length; lia).
  split; [rewrite Eg, <- E, firstn_app_le by exact Hk; reflexivity|].
  split; [lia|]. intros Hm0. destruct (Hm Hm0) as [Hc [Hb Hkk]]. specialize (I1 Hc).
  rewrite <- E, Hb, I1, !app_nil_r. exact Hkk.
Qed.
