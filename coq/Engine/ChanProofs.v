From Coq Require Import List Arith Bool Lia.
Import ListNotations.
From BWEngine Require Import Chan.

Section Proofs.
  Variable A : Type.
  Variable cap : nat.

  Notation st := (st A).
  Notation step := (step A cap).
  Notation steps := (steps A cap).

  Lemma phase_after_read drain n : phase_size (after_read drain n) < phase_size (Reading (S n)).
  Proof. destruct n; cbn; [destruct drain; cbn; lia | lia]. Qed.

  Lemma phase_consumed drain c : phase_size (consumed drain c) <= phase_size c.
  Proof.
    destruct c as [[|n]| |]; cbn [consumed]; try lia.
    pose proof (phase_after_read drain n). lia.
  Qed.

  (* every step strictly decreases the measure: every run of lexer + parser is finite *)
  Theorem step_decreases drain s s' : step drain s s' -> measure A s' < measure A s.
  Proof.
    intros H. destruct H; unfold measure; cbn [todo buf closed cons length].
    - rewrite app_length. cbn. lia.
    - pose proof (phase_consumed drain c). destruct cl; lia.
    - lia.
    - pose proof (phase_consumed drain c). destruct cl; lia.
    - pose proof (phase_after_read drain n). lia.
    - cbn. lia.
    - destruct drain; cbn; destruct cl; lia.
  Qed.

  Definition inv (drain : bool) (s : st) : Prop :=
    (closed A s = true -> todo A s = []) /\ (drain = true -> cons A s = Done -> closed A s = true /\ buf A s = []).

  Lemma inv_init drain toks n : inv drain (init A toks n).
  Proof. split; cbn; intros; discriminate. Qed.

  Lemma consumed_done drain c : wants c = true -> drain = true -> consumed drain c <> Done.
  Proof.
    intros Hw Hd. subst drain. destruct c as [[|n]| |]; cbn in *; try discriminate.
    destruct n; cbn; discriminate.
  Qed.

  Lemma inv_step drain s s' : inv drain s -> step drain s s' -> inv drain s'.
  Proof.
    intros [I1 I2] H. destruct H; unfold inv in *; cbn [todo buf closed cons] in *.
    - split; [intros C; specialize (I1 C); discriminate|]. intros Hd Hc. destruct (I2 Hd Hc) as [-> Hb].
      specialize (I1 eq_refl). discriminate.
    - split; [intros C; specialize (I1 C); discriminate|]. intros Hd Hc. exfalso. eapply consumed_done; eassumption.
    - split; [reflexivity|]. intros Hd Hc. destruct (I2 Hd Hc) as [C _]. discriminate.
    - split; [exact I1|]. intros Hd Hc. exfalso. eapply consumed_done; eassumption.
    - split; [exact I1|]. intros Hd Hc. subst drain. destruct n; cbn in Hc; discriminate.
    - split; [exact I1|]. intros _ _. split; reflexivity.
    - split; [exact I1|]. intros Hd Hc. subst drain. cbn in Hc. discriminate.
  Qed.

  Lemma inv_steps drain s s' : inv drain s -> steps drain s s' -> inv drain s'.
  Proof. intros Hi H. induction H as [|s1 s2 s3 H12 _ IH]; [exact Hi|]. apply IH. eapply inv_step; eassumption. Qed.

  (* with the drain, a state in which nothing can move has the channel closed (the lexer goroutine has run to its
     end) and Parse has returned *)
  Theorem terminal_all_done s :
    inv true s -> terminal A cap true s -> closed A s = true /\ cons A s = Done /\ todo A s = [] /\ buf A s = [].
  Proof.
    intros [I1 I2] Ht. destruct s as [t b cl c]. cbn [todo buf closed cons] in *.
    assert (Hstuck : wants c = true -> False).
    { intros Hw. destruct b as [|x b].
      - destruct cl.
        + destruct c as [[|n]| |]; cbn in Hw; try discriminate;
            [eapply Ht; apply C_eof_pad | eapply Ht; apply C_drained].
        + destruct t as [|x r]; [eapply Ht; apply P_close | eapply Ht; apply P_handoff; exact Hw].
      - eapply Ht. apply C_recv. exact Hw. }
    destruct c as [[|n]| |].
    - exfalso. eapply Ht. apply C_start_nothing_to_read.
    - exfalso. apply Hstuck. reflexivity.
    - exfalso. apply Hstuck. reflexivity.
    - destruct (I2 eq_refl eq_refl) as [-> ->]. repeat split. apply I1. reflexivity.
  Qed.

  Theorem drained_no_leak toks n s :
    steps true (init A toks n) s -> terminal A cap true s -> closed A s = true /\ cons A s = Done.
  Proof.
    intros Hs Ht. pose proof (inv_steps true _ _ (inv_init true toks n) Hs) as Hi.
    destruct (terminal_all_done s Hi Ht) as [H1 [H2 _]]. split; assumption.
  Qed.
End Proofs.

(* without the drain (the tree before the fix) the lexer goroutine can stay blocked for ever: 4 tokens, capacity 2,
   a parser that stops without reading *)
Theorem undrained_leak_refuted :
  exists s, steps nat 2 false (init nat [1; 2; 3; 4] 0) s /\ terminal nat 2 false s /\ closed nat s = false.
Proof.
  exists (mk nat [3; 4] [1; 2] false Done). split; [|split; [|reflexivity]].
  - eapply steps_cons; [apply C_start_nothing_to_read|]. cbn.
    eapply steps_cons; [apply P_send; cbn; auto|]. cbn.
    eapply steps_cons; [apply P_send; cbn; auto|]. cbn. apply steps_refl.
  - intros s' H. inversion H; subst; cbn in *; try discriminate; try lia.
Qed.
