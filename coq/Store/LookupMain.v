(* Main theorems for C02 / C09: lookup = spec_lookup on every graph with the index invariant; reachable graphs. *)
From Coq Require Import List NArith ZArith Bool Permutation Sorted Lia.
Import ListNotations.
From BWStore Require Import AMap AMapProofs Store StoreSpec StoreProofs Lookup LookupSpec PageProofs LookupProofs.

(* the rank (order of Triple.String()) identifies the stored triple *)
Definition rank_inj (g : graph) : Prop :=
  forall a b, In a (listing g) -> In b (listing g) -> trank a = trank b -> a = b.

Lemma filter_ranked : forall f l, ranked l -> ranked (filter f l).
Proof.
  intros f l. unfold ranked. induction l as [|a r IH]; cbn; intros H; [constructor|].
  inversion H as [|? ? Hr Hall]. subst. destruct (f a).
  - constructor; auto. rewrite Forall_forall in *. intros x Hx. apply filter_In in Hx. apply Hall. tauto.
  - auto.
Qed.

Lemma listing_ranked : forall g, ranked (listing g).
Proof. intros. apply sort_ranked. Qed.

Lemma sorted_eq : forall g X Y,
  same_set X Y -> NoDup X -> NoDup Y -> ranked Y -> (forall t, In t Y -> In t (listing g)) -> rank_inj g ->
  sort_by_rank X = Y.
Proof.
  intros g X Y Hxy Hx Hy Hr Hsub Hinj. apply ranked_unique; auto.
  - apply sort_ranked.
  - eapply Permutation_NoDup; [symmetry; apply sort_perm|exact Hx].
  - intros t. rewrite sort_In. apply Hxy.
  - intros a b Ha Hb Hab. apply (proj1 (sort_In _ _)) in Ha. apply (proj1 (sort_In _ _)) in Hb. apply Hinj; auto; apply Hsub; [apply (proj1 (Hxy a)); exact Ha|apply (proj1 (Hxy b)); exact Hb].
Qed.

Lemma window_sub : forall g q lo t, In t (window lo (candidates q g)) -> In t (listing g).
Proof. intros g q lo t H. unfold window, candidates in H. rewrite !filter_In in H. tauto. Qed.

Lemma window_ranked : forall g q lo, ranked (window lo (candidates q g)).
Proof. intros. unfold window, candidates. repeat apply filter_ranked. apply listing_ranked. Qed.

Lemma spec_filter_ranked : forall fo Y Y', spec_filter fo Y = inl Y' -> ranked Y -> ranked Y'.
Proof.
  intros [o f] Y Y'. unfold spec_filter. cbn [fst snd].
  destruct o; try discriminate; destruct (field_ok f); try discriminate;
    intros E; inversion E; subst; apply filter_ranked.
Qed.

Theorem select_eq_spec : forall g q lo, GInv g -> rank_inj g -> select current q lo g = spec_select q lo g.
Proof.
  intros g q lo H Hinj. unfold select, spec_select.
  set (X := apply_bounds current (q_chk_pred q) lo (vals (q_bucket q g))).
  set (Y := window lo (candidates q g)).
  assert (Hxy : same_set X Y) by (intros t; now apply sel_In).
  assert (Hx : NoDup X) by now apply sel_NoDup.
  assert (Hy : NoDup Y) by now apply window_NoDup.
  destruct (effective_filter lo) as [[fo|]|e]; auto.
  - assert (Hq : forall x, In x X -> query_pred_ok current (q_flt_pred q) x = true).
    { intros x Hin. apply query_pred_redundant. apply (window_matches g q lo). now apply Hxy. }
    pose proof (filter_stage (q_flt_pred q) fo X Y Hxy Hx Hy Hq) as Hst.
    destruct (execute_filter current (q_flt_pred q) fo X) as [X'|e] eqn:EX;
      destruct (spec_filter fo Y) as [Y'|e'] eqn:EY; try contradiction.
    + destruct Hst as [Hs [Hnx [Hny Hsub]]]. f_equal. apply (sorted_eq g); auto.
      * eapply spec_filter_ranked; eauto. apply window_ranked.
      * intros t Ht. apply (window_sub g q lo). now apply Hsub.
    + now subst.
  - f_equal. apply (sorted_eq g); auto.
    + apply window_ranked.
    + apply window_sub.
Qed.

Theorem lookup_eq_spec : forall g q lo, GInv g -> rank_inj g -> lookup q lo g = spec_lookup q lo g.
Proof.
  intros g q lo H Hinj. unfold lookup, lookup_v, spec_lookup. rewrite select_eq_spec by assumption.
  destruct (spec_select q lo g); auto. now rewrite page_is_spec_page.
Qed.

(* ---------------------------------------------------------------- reachable graphs *)
Definition op_triples (o : op) : list triple := match o with OAdd _ ts => ts | _ => [] end.
Definition within (U : list triple) (ops : list op) : Prop :=
  forall o t, In o ops -> In t (op_triples o) -> In t U.
Definition rank_faithful (U : list triple) : Prop :=
  forall a b, In a U -> In b U -> trank a = trank b -> a = b.
Definition stored_in (U : list triple) (s : store) : Prop :=
  forall h g k t, aget N.eqb h (heap s) = Some g -> tget k (idx g) = Some t -> In t U.

Lemma add_triples_get : forall ts g k t,
  tget k (idx (add_triples ts g)) = Some t -> In t ts \/ tget k (idx g) = Some t.
Proof.
  unfold add_triples. induction ts as [|a r IH]; intros g k t H; cbn in *; auto.
  apply IH in H. destruct H as [H|H]; auto. cbn in H.
  rewrite (aget_aset tkey_eqb tkey_eqb_spec) in H. destruct (tkey_eqb k (tkey_of a)); auto.
  inversion H. auto.
Qed.

Lemma remove_triples_get : forall ts g k t,
  tget k (idx (remove_triples ts g)) = Some t -> tget k (idx g) = Some t.
Proof.
  unfold remove_triples. induction ts as [|a r IH]; intros g k t H; cbn in *; auto.
  apply IH in H. cbn in H. rewrite (aget_adel tkey_eqb tkey_eqb_spec) in H.
  destruct (tkey_eqb k (tkey_of a)); [discriminate|auto].
Qed.

Lemma stored_step : forall U s o, stored_in U s -> (forall t, In t (op_triples o) -> In t U) -> stored_in U (fst (step s o)).
Proof.
  intros U s o Hs Ho. destruct o as [n|n|n| |h ts|h ts|h t|h]; cbn; unfold with_graph.
  - destruct (aget N.eqb n (binds s)); cbn; auto.
    intros h g k t Hh Hg. cbn in Hh. rewrite (aget_aset N.eqb N.eqb_spec) in Hh.
    destruct (N.eqb h (next s)); [|eauto]. inversion Hh. subst g. discriminate.
  - destruct (aget N.eqb n (binds s)); cbn; auto.
  - destruct (aget N.eqb n (binds s)); cbn; auto.
  - auto.
  - destruct (aget N.eqb h (heap s)) as [g0|] eqn:E; cbn; auto.
    intros h' g k t Hh Hg. cbn in Hh. rewrite (aget_aset N.eqb N.eqb_spec) in Hh.
    destruct (N.eqb h' h); [|eauto]. inversion Hh. subst g.
    apply add_triples_get in Hg. destruct Hg as [Hg|Hg]; [apply Ho; exact Hg|eauto].
  - destruct (aget N.eqb h (heap s)) as [g0|] eqn:E; cbn; auto.
    intros h' g k t Hh Hg. cbn in Hh. rewrite (aget_aset N.eqb N.eqb_spec) in Hh.
    destruct (N.eqb h' h); [|eauto]. inversion Hh. subst g.
    apply remove_triples_get in Hg. eauto.
  - destruct (aget N.eqb h (heap s)); cbn; auto.
  - destruct (aget N.eqb h (heap s)); cbn; auto.
Qed.

Lemma stored_run_from : forall U ops s, stored_in U s -> within U ops -> stored_in U (run_from s ops).
Proof.
  intros U. unfold run_from. induction ops as [|o r IH]; intros s Hs Hw; cbn; auto.
  apply IH.
  - apply stored_step; auto. intros t Ht. apply (Hw o t); auto. now left.
  - intros o' t Ho Ht. apply (Hw o' t); auto. now right.
Qed.

Theorem rank_inj_reachable : forall U ops h g,
  rank_faithful U -> within U ops -> graph_of (run ops) h = Some g -> rank_inj g.
Proof.
  intros U ops h g Hf Hw Hg a b Ha Hb Hr.
  assert (Hs : stored_in U (run ops)).
  { apply stored_run_from; auto. intros h' g' k t Hh. discriminate. }
  pose proof (GInv_reachable ops h g Hg) as HI.
  apply listing_In in Ha; auto. apply listing_In in Hb; auto.
  apply Hf; auto; eapply Hs; eauto.
Qed.

Theorem lookup_eq_spec_reachable : forall U ops h g q lo,
  rank_faithful U -> within U ops -> graph_of (run ops) h = Some g ->
  lookup q lo g = spec_lookup q lo g.
Proof.
  intros U ops h g q lo Hf Hw Hg. apply lookup_eq_spec.
  - eapply GInv_reachable; eauto.
  - eapply rank_inj_reachable; eauto.
Qed.

(* ---------------------------------------------------------------- consequences *)
Definition results (o : outcome) : list res := match o with LOk l => l | LErr _ => [] end.

Lemma firstn_In_local : forall (A : Type) n (l : list A) x, In x (firstn n l) -> In x l.
Proof.
  intros A n. induction n as [|n IH]; intros l x H; cbn in H; [destruct H|].
  destruct l as [|a r]; cbn in *; [destruct H|]. destruct H as [H|H]; auto.
Qed.

Lemma skipn_In_local : forall (A : Type) n (l : list A) x, In x (skipn n l) -> In x l.
Proof.
  intros A n. induction n as [|n IH]; intros l x H; cbn in H; auto.
  destruct l as [|a r]; cbn in *; [destruct H|]. right. auto.
Qed.

Lemma spec_page_sub : forall (A : Type) lo (l : list A) x, In x (spec_page lo l) -> In x l.
Proof.
  intros A lo l x. unfold spec_page. destruct (lo_max lo >? 0)%Z; intros H.
  - apply firstn_In_local in H. now apply skipn_In_local in H.
  - now apply skipn_In_local in H.
Qed.

Lemma spec_select_sub : forall q lo g l t, spec_select q lo g = inl l -> In t l -> In t (candidates q g).
Proof.
  intros q lo g l t. unfold spec_select.
  assert (Hw : forall x, In x (window lo (candidates q g)) -> In x (candidates q g)).
  { intros x Hx. unfold window in Hx. apply filter_In in Hx. tauto. }
  destruct (effective_filter lo) as [[[o f]|]|e]; try discriminate.
  - unfold spec_filter. cbn [fst snd].
    destruct o; try discriminate; destruct (field_ok f); try discriminate;
      intros E Hin; inversion E; subst; apply filter_In in Hin; apply Hw; tauto.
  - intros E Hin. inversion E. subst. auto.
Qed.

(* no ghosts: whatever the options, every result is the projection of a triple that is stored now and matches *)
Theorem no_ghosts : forall g q lo r, GInv g -> rank_inj g ->
  In r (results (lookup q lo g)) ->
  exists t, r = q_proj q t /\ tget (tkey_of t) (idx g) = Some t /\ matches q t = true.
Proof.
  intros g q lo r H Hinj. rewrite lookup_eq_spec by assumption. unfold spec_lookup.
  destruct (spec_select q lo g) as [l|e] eqn:E; cbn; [|tauto].
  rewrite in_map_iff. intros [t [Er Hin]]. exists t. split; auto.
  apply spec_page_sub in Hin. apply (spec_select_sub q lo g l t E) in Hin.
  unfold candidates in Hin. apply filter_In in Hin. destruct Hin as [Hl Hm]. split; auto.
  now apply listing_In.
Qed.

(* default options: the lookup is the projected scan *)
Theorem lookup_default_is_scan : forall g q, GInv g -> rank_inj g ->
  lookup q default_lo g = LOk (map (q_proj q) (filter (matches q) (listing g))).
Proof.
  intros g q H Hinj. rewrite lookup_eq_spec by assumption.
  unfold spec_lookup, spec_select, default_lo, effective_filter, spec_page, window, in_window, candidates. cbn.
  f_equal. f_equal. rewrite <- (filter_ext (fun _ => true)).
  - induction (filter (matches q) (listing g)) as [|a r IH]; cbn; auto. now rewrite IH.
  - intros t. destruct (panchor (tpred t)); reflexivity.
Qed.

(* pages *)
Lemma select_page_indep : forall v q lo n k g, select v q (with_page lo n k) g = select v q lo g.
Proof. intros. reflexivity. Qed.

Theorem page_of_unpaged : forall q lo g l (n : Z) (k : nat),
  (0 < n < 9223372036854775808)%Z -> (Z.of_nat k < 9223372036854775808)%Z ->
  (Z.of_nat (length l) < 9223372036854775808)%Z ->
  lookup q (unpaged lo) g = LOk l ->
  lookup q (with_page lo n (Z.of_nat k)) g = LOk (firstn (Z.to_nat n) (skipn (Z.to_nat n * k) l)).
Proof.
  intros q lo g l n k Hn Hk Hlen. unfold lookup, lookup_v.
  change (select current q (unpaged lo) g) with (select current q lo g).
  change (select current q (with_page lo n (Z.of_nat k)) g) with (select current q lo g).
  destruct (select current q lo g) as [s|e]; [|discriminate].
  intros E. inversion E. subst l. f_equal. rewrite map_length, page_unpaged in Hlen. rewrite page_unpaged.
  rewrite page_block by assumption. rewrite skipn_map, firstn_map. reflexivity.
Qed.

Theorem pages_partition : forall q lo g l (n : Z) (K : nat),
  (0 < n < 9223372036854775808)%Z -> (Z.of_nat K < 9223372036854775808)%Z ->
  (Z.of_nat (length l) < 9223372036854775808)%Z ->
  lookup q (unpaged lo) g = LOk l -> (length l <= Z.to_nat n * K)%nat ->
  concat (map (fun k => results (lookup q (with_page lo n (Z.of_nat k)) g)) (seq 0 K)) = l.
Proof.
  intros q lo g l n K Hn HK Hlen Hl Hcov.
  rewrite (map_ext_in _ (fun k => firstn (Z.to_nat n) (skipn (Z.to_nat n * k) l))).
  - now apply blocks_cover.
  - intros k Hk. apply in_seq in Hk. rewrite (page_of_unpaged q lo g l n k Hn); auto. lia.
Qed.

Theorem paged_error_iff : forall q lo g n k e,
  lookup q (with_page lo n k) g = LErr e <-> lookup q (unpaged lo) g = LErr e.
Proof.
  intros. unfold lookup, lookup_v.
  change (select current q (unpaged lo) g) with (select current q lo g).
  change (select current q (with_page lo n k) g) with (select current q lo g).
  destruct (select current q lo g); split; intros H; try discriminate; auto.
Qed.

(* ---------------------------------------------------------------- without any hypothesis on the rank *)
Lemma in_window_default : forall p, in_window default_lo p = true.
Proof. intros p. unfold in_window, default_lo. cbn. destruct (panchor p); reflexivity. Qed.

(* default options, results as a multiset: needs only the index invariant (no assumption that the order of
   Triple.String() identifies the triple) *)
Theorem lookup_default_perm : forall g q, GInv g ->
  exists l, lookup q default_lo g = LOk l /\
            Permutation l (map (q_proj q) (filter (matches q) (listing g))).
Proof.
  intros g q H. unfold lookup, lookup_v, select. cbn [effective_filter default_lo lo_latest lo_filter].
  eexists. split; [reflexivity|].
  rewrite page_is_spec_page. unfold spec_page. cbn [lo_max lo_offset]. cbn [Z.gtb Z.compare Z.mul Z.to_nat skipn].
  apply Permutation_map. etransitivity; [apply sort_perm|].
  apply NoDup_Permutation.
  - now apply sel_NoDup.
  - apply NoDup_filter. now apply NoDup_listing.
  - intros t. rewrite (sel_In g q default_lo t H). unfold window. rewrite filter_In.
    fold (candidates q g). rewrite in_window_default. tauto.
Qed.

(* ---------------------------------------------------------------- observations depend only on the set *)
(* two graphs (in any two histories) that hold the same set of triples answer every lookup with every options value
   identically: the result does not depend on how the set was built *)
Theorem lookup_history_independent : forall g1 g2 q lo,
  GInv g1 -> GInv g2 -> rank_inj g1 ->
  (forall k, tget k (idx g1) = tget k (idx g2)) ->
  lookup q lo g1 = lookup q lo g2.
Proof.
  intros g1 g2 q lo H1 H2 Hinj Hsame.
  assert (Hl : listing g1 = listing g2).
  { apply ranked_unique.
    - apply listing_ranked.
    - apply listing_ranked.
    - now apply NoDup_listing.
    - now apply NoDup_listing.
    - intros t. rewrite !listing_In by assumption. now rewrite Hsame.
    - exact Hinj. }
  assert (Hinj2 : rank_inj g2) by (unfold rank_inj in *; now rewrite <- Hl).
  rewrite !lookup_eq_spec by assumption.
  unfold spec_lookup, spec_select, candidates. now rewrite Hl.
Qed.

(* ---------------------------------------------------------------- latest does not depend on the iteration order *)
(* memory.go ranges over a Go map; the model folds over a list: any two orders give the same set *)
Theorem latest_order_independent : forall qp f X X' t,
  Permutation X X' -> NoDup X -> (forall x, In x X -> query_pred_ok current qp x = true) ->
  (In t (latest_filter current qp f X) <-> In t (latest_filter current qp f X')).
Proof.
  intros qp f X X' t Hp Hnd Hq.
  assert (Hnd' : NoDup X') by (eapply Permutation_NoDup; eauto).
  assert (Hq' : forall x, In x X' -> query_pred_ok current qp x = true).
  { intros x Hx. apply Hq. eapply Permutation_in; [symmetry; exact Hp|exact Hx]. }
  assert (Hmem : forall x, In x X <-> In x X').
  { intros x. split; apply Permutation_in; [exact Hp|symmetry; exact Hp]. }
  rewrite (latest_filter_In qp f X t Hnd Hq), (latest_filter_In qp f X' t Hnd' Hq').
  rewrite (is_latest_ext f X X' t Hmem). now rewrite (Hmem t).
Qed.

(* ---------------------------------------------------------------- removed triples are gone from every lookup *)
Lemma remove_triples_gone : forall ts g t, In t ts -> tget (tkey_of t) (idx (remove_triples ts g)) = None.
Proof.
  unfold remove_triples. induction ts as [|a r IH]; intros g t Hin; [destruct Hin|].
  cbn [fold_left]. destruct Hin as [E|Hin]; [|now apply IH].
  subst a. destruct (tget (tkey_of t) (idx (fold_left (fun g0 t0 => remove_triple t0 g0) r (remove_triple t g)))) eqn:E; auto.
  apply (remove_triples_get r (remove_triple t g)) in E. cbn in E.
  rewrite (aget_adel_eq tkey_eqb) in E. discriminate.
Qed.

Theorem removed_never_returned : forall U ops h g0 g ts t q lo r,
  rank_faithful U -> within U ops ->
  graph_of (run ops) h = Some g0 ->
  graph_of (run (ops ++ [ORemove h ts])) h = Some g ->
  In t ts -> In r (results (lookup q lo g)) ->
  exists t', r = q_proj q t' /\ tget (tkey_of t') (idx g) = Some t' /\ tkey_of t' <> tkey_of t.
Proof.
  intros U ops h g0 g ts t q lo r Hf Hw Hg0 Hg Hin Hr.
  assert (Hw' : within U (ops ++ [ORemove h ts])).
  { intros o x Ho Hx. apply in_app_iff in Ho. destruct Ho as [Ho|[Ho|[]]]; [eapply Hw; eauto|]. subst o. destruct Hx. }
  destruct (no_ghosts g q lo r (GInv_reachable _ h g Hg) (rank_inj_reachable U _ h g Hf Hw' Hg) Hr) as [t' [Er [Hs _]]].
  exists t'. repeat split; auto. intros Ek.
  assert (Hgone : tget (tkey_of t) (idx g) = None).
  { unfold run in Hg. rewrite run_from_app in Hg. fold (run ops) in Hg. cbn in Hg. unfold with_graph in Hg.
    unfold graph_of in Hg0. rewrite Hg0 in Hg. cbn in Hg. unfold graph_of, set_graph in Hg. cbn in Hg.
    rewrite (aget_aset_eq N.eqb N.eqb_spec) in Hg. inversion Hg. now apply remove_triples_gone. }
  rewrite Ek in Hs. rewrite Hs in Hgone. discriminate.
Qed.
