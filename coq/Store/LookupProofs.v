(* Proofs for C02 / C09: in every graph that satisfies the index invariant, the lookup model (bucket -> bounds ->
   filter -> sort -> page -> projection) equals the specification (filters of the master listing). *)
From Coq Require Import List NArith ZArith Bool Permutation Sorted Lia Btauto.
Import ListNotations.
From BWStore Require Import AMap AMapProofs Store StoreSpec StoreProofs Lookup LookupSpec PageProofs.

(* ---------------------------------------------------------------- small boolean facts *)
Lemma negb_ltb : forall a b : Z, negb (a <? b)%Z = (b <=? a)%Z.
Proof. intros. rewrite Z.leb_antisym. reflexivity. Qed.

Lemma negb_gtb : forall a b : Z, negb (a >? b)%Z = (a <=? b)%Z.
Proof. intros. rewrite Z.gtb_ltb. apply negb_ltb. Qed.

Lemma reflect_sym {A : Type} (e : A -> A -> bool) :
  (forall a b, reflect (a = b) (e a b)) -> forall a b, e a b = e b a.
Proof. intros H a b. destruct (H a b); destruct (H b a); congruence. Qed.

Lemma okey_eqb_sym : forall a b, okey_eqb a b = okey_eqb b a.
Proof. exact (reflect_sym okey_eqb okey_eqb_spec). Qed.

Lemma NoDup_snoc : forall (A : Type) (l : list A) x, NoDup l -> ~ In x l -> NoDup (l ++ [x]).
Proof.
  intros A l x. induction l as [|a r IH]; intros Hnd Hx; cbn.
  - repeat constructor. intros [].
  - inversion Hnd as [|? ? Ha Hr]. subst. constructor.
    + rewrite in_app_iff. cbn. intros [H|[H|[]]]; [tauto|]. subst. apply Hx. now left.
    + apply IH; auto. intros H. apply Hx. now right.
Qed.

Lemma NoDup_app_intro : forall (A : Type) (a b : list A),
  NoDup a -> NoDup b -> (forall x, In x a -> ~ In x b) -> NoDup (a ++ b).
Proof.
  intros A a b. induction a as [|x r IH]; intros Ha Hb Hd; cbn; auto.
  inversion Ha as [|? ? Hx Hr]. subst. constructor.
  - rewrite in_app_iff. intros [H|H]; [tauto|]. apply (Hd x); auto. now left.
  - apply IH; auto. intros y Hy. apply Hd. now right.
Qed.

Lemma NoDup_app_l : forall (A : Type) (a b : list A), NoDup (a ++ b) -> NoDup a.
Proof.
  intros A a b. induction a as [|x r IH]; cbn; intros H; [constructor|].
  inversion H as [|? ? Hx Hr]. subst. constructor; auto. intros Hin. apply Hx. apply in_app_iff. now left.
Qed.

(* ---------------------------------------------------------------- the bucket of a query *)
Definition kmatch (q : query) (k : tkey) : bool :=
  match q with
  | QObjects s p | QTrSP s p => nn_eqb (kSP k) (s, pid p)
  | QSubjects p o | QTrPO p o => no_eqb (kPO k) (pid p, okey_of o)
  | QPredsSO s o => no_eqb (kSO k) (s, okey_of o)
  | QPredsS s | QTrS s => N.eqb (kS k) s
  | QPredsO o | QTrO o => okey_eqb (kO k) (okey_of o)
  | QTrP p => N.eqb (kP k) (pid p)
  | QAll => true
  end.

Lemma bucket_get : forall g q k, GInv g ->
  tget k (q_bucket q g) = if kmatch q k then tget k (idx g) else None.
Proof.
  intros g q k H. destruct H. destruct q; cbn [q_bucket kmatch]; auto.
Qed.

Lemma bucket_nodup : forall g q, GInv g -> NoDup (keys (q_bucket q g)).
Proof.
  intros g q H. destruct H. destruct q; cbn [q_bucket]; auto;
    try (apply (bget_NoDup nn_eqb nn_eqb_spec); assumption);
    try (apply (bget_NoDup no_eqb no_eqb_spec); assumption);
    try (apply (bget_NoDup N.eqb N.eqb_spec); assumption);
    try (apply (bget_NoDup okey_eqb okey_eqb_spec); assumption).
Qed.

Lemma bucket_vals_In : forall g q t, GInv g ->
  (In t (vals (q_bucket q g)) <-> kmatch q (tkey_of t) = true /\ tget (tkey_of t) (idx g) = Some t).
Proof.
  intros g q t H. unfold vals. rewrite in_map_iff. split.
  - intros [[k t'] [E Hin]]. cbn in E. subst t'.
    pose proof (In_aget tkey_eqb tkey_eqb_spec k t _ (bucket_nodup g q H) Hin) as Hg.
    rewrite bucket_get in Hg by assumption.
    destruct (kmatch q k) eqn:Ek; [|discriminate].
    pose proof (gi_coh g H k t Hg) as Ec. subst k. auto.
  - intros [Hk Hg]. exists (tkey_of t, t). split; auto.
    apply (aget_In tkey_eqb tkey_eqb_spec). rewrite bucket_get by assumption. now rewrite Hk.
Qed.

Lemma bucket_vals_NoDup : forall g q, GInv g -> NoDup (vals (q_bucket q g)).
Proof.
  intros g q H. apply (NoDup_map_inv tkey_of).
  replace (map tkey_of (vals (q_bucket q g))) with (keys (q_bucket q g)); [now apply bucket_nodup|].
  unfold vals, keys. rewrite map_map. apply map_ext_in. intros [k t] Hin. cbn.
  pose proof (In_aget tkey_eqb tkey_eqb_spec k t _ (bucket_nodup g q H) Hin) as Hg.
  rewrite bucket_get in Hg by assumption.
  destruct (kmatch q k); [|discriminate]. symmetry. now apply (gi_coh g H).
Qed.

(* ---------------------------------------------------------------- bounds = predicate check + window *)
(* what the checker adds to the bucket when it was given a predicate: same kind, same instant *)
Definition pcheck (qp : option pred) (p : pred) : bool :=
  match qp with
  | None => true
  | Some q => kind_eqb q p && match panchor q, panchor p with
                              | Some a, Some b => Z.eqb (ns a) (ns b)
                              | _, _ => true
                              end
  end.

Lemma check_bounds_split : forall qp lo p, check_bounds current qp lo p = pcheck qp p && in_window lo p.
Proof.
  intros qp lo p. unfold check_bounds, pcheck, in_window, kind_eqb, is_temporal. cbn [v_kind current].
  destruct qp as [q|]; destruct (panchor p) as [t|]; try destruct (panchor q) as [qt|];
    destruct (lo_lower lo) as [l|]; destruct (lo_upper lo) as [u|]; cbn;
    rewrite ?negb_ltb, ?negb_gtb; btauto.
Qed.

Lemma window_is_bounds : forall lo l,
  apply_bounds current None lo l = window lo l.
Proof.
  intros lo l. unfold apply_bounds, window. apply filter_ext. intros t. now rewrite check_bounds_split.
Qed.

Lemma pmatch_split : forall q p, pmatch q p = N.eqb (pid p) (pid q) && pcheck (Some q) p.
Proof.
  intros q p. unfold pmatch, pcheck, kind_eqb, is_temporal. rewrite (N.eqb_sym (pid p) (pid q)).
  destruct (panchor q); destruct (panchor p); cbn; btauto.
Qed.

Lemma matches_split : forall q t, matches q t = kmatch q (tkey_of t) && pcheck (q_chk_pred q) (tpred t).
Proof.
  intros q t. destruct q; cbn [matches kmatch q_chk_pred]; unfold omatch, nn_eqb, no_eqb, pair_eqb, kSP, kPO, kSO, kS, kP, kO, tkey_of;
    cbn [fst snd pkey_of]; rewrite ?pmatch_split; cbn [pcheck];
    rewrite ?(N.eqb_sym (tsub t)), ?(okey_eqb_sym (okey_of (tobj t))); btauto.
Qed.

Lemma flt_is_chk : forall q, q_flt_pred q = q_chk_pred q.
Proof. destruct q; reflexivity. Qed.

(* the selected triples (after the bounds) are the windowed candidates of the spec *)
Lemma sel_In : forall g q lo t, GInv g ->
  (In t (apply_bounds current (q_chk_pred q) lo (vals (q_bucket q g))) <-> In t (window lo (candidates q g))).
Proof.
  intros g q lo t H. unfold apply_bounds, window, candidates. rewrite !filter_In.
  rewrite bucket_vals_In by assumption. rewrite listing_In by assumption.
  rewrite check_bounds_split, matches_split, !andb_true_iff. tauto.
Qed.

Lemma sel_NoDup : forall g q lo, GInv g -> NoDup (apply_bounds current (q_chk_pred q) lo (vals (q_bucket q g))).
Proof. intros. unfold apply_bounds. apply NoDup_filter. now apply bucket_vals_NoDup. Qed.

Lemma window_NoDup : forall g q lo, GInv g -> NoDup (window lo (candidates q g)).
Proof. intros. unfold window, candidates. repeat apply NoDup_filter. now apply NoDup_listing. Qed.

(* after the bucket and the bounds the "same predicate as the query" test of the filter functions is always true *)
Lemma query_pred_redundant : forall q t, matches q t = true -> query_pred_ok current (q_flt_pred q) t = true.
Proof.
  intros q t. unfold query_pred_ok. cbn [v_inst current].
  destruct q; cbn [matches q_flt_pred]; auto; rewrite ?andb_true_iff; unfold pmatch, same_predicate; tauto.
Qed.

Lemma window_matches : forall g q lo t, In t (window lo (candidates q g)) -> matches q t = true.
Proof.
  intros g q lo t Hin. unfold window, candidates in Hin. rewrite !filter_In in Hin. tauto.
Qed.

(* ---------------------------------------------------------------- kind filters *)
Lemma kind_filter_In : forall qp tmp f X t,
  (forall x, In x X -> query_pred_ok current qp x = true) ->
  (In t (kind_filter current tmp qp f X) <-> In t X /\ has_kind f tmp t = true).
Proof.
  intros qp tmp f X t Hq. unfold kind_filter, has_kind. rewrite filter_In. split.
  - intros [Hin Hb]. rewrite (Hq t Hin) in Hb. cbn in Hb. auto.
  - intros [Hin Hb]. rewrite (Hq t Hin). cbn. auto.
Qed.

(* ---------------------------------------------------------------- latest *)
Definition cand := (N * Z * triple)%type.
Definition gacc := list (N * (Z * list triple)).

Definition acc_ok (P : list cand) (acc : gacc) : Prop :=
  NoDup (keys acc) /\
  (forall i m ts, aget N.eqb i acc = Some (m, ts) ->
     (exists t, In (i, m, t) P) /\
     (forall m' t', In (i, m', t') P -> (m' <= m)%Z) /\
     (forall t, In t ts <-> In (i, m, t) P) /\
     NoDup ts) /\
  (forall i m t, In (i, m, t) P -> aget N.eqb i acc <> None).

Lemma acc_ok_nil : acc_ok [] [].
Proof.
  split; [constructor|]. split.
  - intros; discriminate.
  - intros i m t [].
Qed.

Lemma in_snoc : forall (A : Type) (l : list A) (c x : A), In x (l ++ [c]) <-> In x l \/ x = c.
Proof. intros. rewrite in_app_iff. cbn. intuition. Qed.

Lemma acc_ok_step : forall P acc c, NoDup (P ++ [c]) -> acc_ok P acc -> acc_ok (P ++ [c]) (latest_step acc c).
Proof.
  intros P acc [[i n] t] Hnd [Hk [Hgrp Hcov]].
  assert (HcP : ~ In (i, n, t) P).
  { apply NoDup_remove_2 in Hnd. rewrite app_nil_r in Hnd. exact Hnd. }
  unfold latest_step.
  destruct (aget N.eqb i acc) as [[m ts]|] eqn:Ei.
  - destruct (Hgrp i m ts Ei) as [[t0 Ht0] [Hmax [Hts Hndts]]].
    destruct (Z.gtb_spec n m) as [Hgt|Hle].
    + (* a later anchor replaces the group *)
      split; [now apply (NoDup_keys_aset N.eqb N.eqb_spec)|]. split.
      * intros j m' ts' Hj. rewrite (aget_aset N.eqb N.eqb_spec) in Hj. destruct (N.eqb_spec j i) as [E|E].
        -- subst j. inversion Hj. subst m' ts'. split; [|split; [|split]].
           ++ exists t. apply in_snoc. now right.
           ++ intros m' t' Hin. apply in_snoc in Hin. destruct Hin as [Hin|Hin].
              ** specialize (Hmax m' t' Hin). lia.
              ** inversion Hin. lia.
           ++ intros x. cbn. rewrite in_snoc. split.
              ** intros [Ex|[]]. subst x. now right.
              ** intros [Hin|Hin]; [|inversion Hin; auto]. specialize (Hmax n x Hin). lia.
           ++ repeat constructor. intros [].
        -- destruct (Hgrp j m' ts' Hj) as [[t1 Ht1] [Hmax1 [Hts1 Hnd1]]]. split; [|split; [|split]]; auto.
           ++ exists t1. apply in_snoc. now left.
           ++ intros m2 t2 Hin. apply in_snoc in Hin. destruct Hin as [Hin|Hin]; eauto. inversion Hin. congruence.
           ++ intros x. rewrite Hts1, in_snoc. split; [auto|]. intros [Hin|Hin]; auto. inversion Hin. congruence.
      * intros j m' t' Hin. rewrite (aget_aset N.eqb N.eqb_spec). destruct (N.eqb_spec j i); [discriminate|].
        apply in_snoc in Hin. destruct Hin as [Hin|Hin]; eauto. inversion Hin. congruence.
    + destruct (Z.eqb_spec n m) as [Heq|Hne].
      * (* a tie is appended *)
        subst n. split; [now apply (NoDup_keys_aset N.eqb N.eqb_spec)|]. split.
        -- intros j m' ts' Hj. rewrite (aget_aset N.eqb N.eqb_spec) in Hj. destruct (N.eqb_spec j i) as [E|E].
           ++ subst j. inversion Hj. subst m' ts'. split; [|split; [|split]].
              ** exists t. apply in_snoc. now right.
              ** intros m' t' Hin. apply in_snoc in Hin. destruct Hin as [Hin|Hin]; eauto. inversion Hin. lia.
              ** intros x. rewrite !in_snoc, Hts. split; intros [Hx|Hx]; auto.
                 --- subst x. now right.
                 --- inversion Hx. now right.
              ** apply NoDup_snoc; auto. intros Hin. apply Hts in Hin. contradiction.
           ++ destruct (Hgrp j m' ts' Hj) as [[t1 Ht1] [Hmax1 [Hts1 Hnd1]]]. split; [|split; [|split]]; auto.
              ** exists t1. apply in_snoc. now left.
              ** intros m2 t2 Hin. apply in_snoc in Hin. destruct Hin as [Hin|Hin]; eauto. inversion Hin. congruence.
              ** intros x. rewrite Hts1, in_snoc. split; [auto|]. intros [Hin|Hin]; auto. inversion Hin. congruence.
        -- intros j m' t' Hin. rewrite (aget_aset N.eqb N.eqb_spec). destruct (N.eqb_spec j i); [discriminate|].
           apply in_snoc in Hin. destruct Hin as [Hin|Hin]; eauto. inversion Hin. congruence.
      * (* an earlier anchor is ignored *)
        split; auto. split.
        -- intros j m' ts' Hj. destruct (Hgrp j m' ts' Hj) as [[t1 Ht1] [Hmax1 [Hts1 Hnd1]]]. split; [|split; [|split]]; auto.
           ++ exists t1. apply in_snoc. now left.
           ++ intros m2 t2 Hin. apply in_snoc in Hin. destruct Hin as [Hin|Hin]; eauto.
              inversion Hin. subst j m2 t2. rewrite Ei in Hj. inversion Hj. lia.
           ++ intros x. rewrite Hts1, in_snoc. split; [auto|]. intros [Hin|Hin]; auto.
              inversion Hin. subst j m' x. rewrite Ei in Hj. inversion Hj. lia.
        -- intros j m' t' Hin. apply in_snoc in Hin. destruct Hin as [Hin|Hin]; eauto. inversion Hin. congruence.
  - (* first candidate of this id *)
    assert (Hnone : forall m' t', ~ In (i, m', t') P).
    { intros m' t' Hin. apply (Hcov i m' t' Hin). exact Ei. }
    split; [now apply (NoDup_keys_aset N.eqb N.eqb_spec)|]. split.
    + intros j m' ts' Hj. rewrite (aget_aset N.eqb N.eqb_spec) in Hj. destruct (N.eqb_spec j i) as [E|E].
      * subst j. inversion Hj. subst m' ts'. split; [|split; [|split]].
        -- exists t. apply in_snoc. now right.
        -- intros m' t' Hin. apply in_snoc in Hin. destruct Hin as [Hin|Hin].
           ++ exfalso. eapply Hnone; eauto.
           ++ inversion Hin. lia.
        -- intros x. cbn. rewrite in_snoc. split.
           ++ intros [Ex|[]]. subst x. now right.
           ++ intros [Hin|Hin]; [exfalso; eapply Hnone; eauto|inversion Hin; auto].
        -- repeat constructor. intros [].
      * destruct (Hgrp j m' ts' Hj) as [[t1 Ht1] [Hmax1 [Hts1 Hnd1]]]. split; [|split; [|split]]; auto.
        -- exists t1. apply in_snoc. now left.
        -- intros m2 t2 Hin. apply in_snoc in Hin. destruct Hin as [Hin|Hin]; eauto. inversion Hin. congruence.
        -- intros x. rewrite Hts1, in_snoc. split; [auto|]. intros [Hin|Hin]; auto. inversion Hin. congruence.
    + intros j m' t' Hin. rewrite (aget_aset N.eqb N.eqb_spec). destruct (N.eqb_spec j i); [discriminate|].
      apply in_snoc in Hin. destruct Hin as [Hin|Hin]; eauto. inversion Hin. congruence.
Qed.

Lemma acc_ok_fold : forall cs P acc, NoDup (P ++ cs) -> acc_ok P acc -> acc_ok (P ++ cs) (fold_left latest_step cs acc).
Proof.
  induction cs as [|c r IH]; intros P acc Hnd H; cbn.
  - now rewrite app_nil_r.
  - replace (P ++ c :: r) with ((P ++ [c]) ++ r) in * by (rewrite <- app_assoc; reflexivity).
    apply IH; auto. apply acc_ok_step; auto.
    apply NoDup_app_l in Hnd. exact Hnd.
Qed.

Lemma NoDup_flat_map_disjoint : forall (A B : Type) (f : A -> list B) (l : list A),
  NoDup l -> (forall x, In x l -> NoDup (f x)) ->
  (forall x y b, In x l -> In y l -> In b (f x) -> In b (f y) -> x = y) ->
  NoDup (flat_map f l).
Proof.
  intros A B f l. induction l as [|a r IH]; intros Hnd Hf Hdis; cbn.
  - constructor.
  - inversion Hnd as [|? ? Hna Hnd']. subst.
    apply NoDup_app_intro.
    + apply Hf. now left.
    + apply IH; auto.
      * intros x Hx. apply Hf. now right.
      * intros x y b Hx Hy. apply Hdis; now right.
    + intros b Hb Hb'. apply in_flat_map in Hb'. destruct Hb' as [y [Hy Hby]].
      assert (a = y) by (apply (Hdis a y b); auto; [now left|now right]). subst y. contradiction.
Qed.

(* the result of the one-pass maximum: the candidates whose anchor is maximal within their id *)
Lemma latest_fold_In : forall cs t,
  NoDup cs ->
  (In t (flat_map (fun e => snd (snd e)) (fold_left latest_step cs [])) <->
   exists i m, In (i, m, t) cs /\ forall m' t', In (i, m', t') cs -> (m' <= m)%Z).
Proof.
  intros cs t Hnd.
  pose proof (acc_ok_fold cs [] [] Hnd acc_ok_nil) as [Hk [Hgrp Hcov]]. cbn [app] in *.
  set (acc := fold_left latest_step cs []) in *.
  rewrite in_flat_map. split.
  - intros [[i [m ts]] [Hin Ht]]. cbn in Ht.
    pose proof (In_aget N.eqb N.eqb_spec i (m, ts) acc Hk Hin) as Hg.
    destruct (Hgrp i m ts Hg) as [_ [Hmax [Hts _]]]. exists i, m. split; auto. now apply Hts.
  - intros [i [m [Hin Hmax]]].
    destruct (aget N.eqb i acc) as [[m0 ts0]|] eqn:Ei; [|exfalso; eapply Hcov; eauto].
    destruct (Hgrp i m0 ts0 Ei) as [[t0 Ht0] [Hmax0 [Hts0 _]]].
    assert (m = m0) by (pose proof (Hmax m0 t0 Ht0); pose proof (Hmax0 m t Hin); lia). subst m0.
    exists (i, (m, ts0)). split; [now apply (aget_In N.eqb N.eqb_spec)|]. cbn. now apply Hts0.
Qed.

Lemma latest_fold_NoDup : forall cs,
  NoDup cs ->
  (forall i m i' m' x, In (i, m, x) cs -> In (i', m', x) cs -> i = i' /\ m = m') ->
  NoDup (flat_map (fun e => snd (snd e)) (fold_left latest_step cs [])).
Proof.
  intros cs Hnd Hfun.
  pose proof (acc_ok_fold cs [] [] Hnd acc_ok_nil) as [Hk [Hgrp Hcov]]. cbn [app] in *.
  set (acc := fold_left latest_step cs []) in *.
  apply NoDup_flat_map_disjoint.
  - apply (NoDup_map_inv fst). exact Hk.
  - intros [i [m ts]] Hin. cbn.
    pose proof (In_aget N.eqb N.eqb_spec i (m, ts) acc Hk Hin) as Hg.
    now destruct (Hgrp i m ts Hg) as [_ [_ [_ Hn]]].
  - intros [i [m ts]] [i' [m' ts']] b Hx Hy Hbx Hby. cbn in Hbx, Hby.
    pose proof (In_aget N.eqb N.eqb_spec i (m, ts) acc Hk Hx) as Hgx.
    pose proof (In_aget N.eqb N.eqb_spec i' (m', ts') acc Hk Hy) as Hgy.
    destruct (Hgrp i m ts Hgx) as [_ [_ [Htsx _]]]. destruct (Hgrp i' m' ts' Hgy) as [_ [_ [Htsy _]]].
    apply Htsx in Hbx. apply Htsy in Hby. destruct (Hfun _ _ _ _ _ Hbx Hby) as [E1 E2]. subst i' m'.
    rewrite Hgx in Hgy. inversion Hgy. reflexivity.
Qed.

(* candidates of latest: one per triple that carries a temporal predicate in the selected field *)
Lemma latest_cands_In : forall qp f X i m t,
  (forall x, In x X -> query_pred_ok current qp x = true) ->
  (In (i, m, t) (latest_cands current qp f X) <->
   In t X /\ exists p a, fsel f t = Some p /\ panchor p = Some a /\ i = pid p /\ m = ns a).
Proof.
  intros qp f X i m t Hq. unfold latest_cands. rewrite in_flat_map. split.
  - intros [x [Hx Hin]]. rewrite (Hq x Hx) in Hin.
    destruct (fsel f x) as [p|] eqn:Ef; [|destruct Hin].
    destruct (panchor p) as [a|] eqn:Ea; [|destruct Hin].
    destruct Hin as [E|[]]. inversion E. subst. split; auto. exists p, a. auto.
  - intros [Hin [p [a [Ef [Ea [Ei Em]]]]]]. exists t. split; auto.
    rewrite (Hq t Hin), Ef, Ea. subst. now left.
Qed.

Lemma latest_cands_NoDup : forall qp f X, NoDup X -> NoDup (latest_cands current qp f X).
Proof.
  intros qp f X Hnd. unfold latest_cands. apply NoDup_flat_map_disjoint; auto.
  - intros x _. destruct (query_pred_ok current qp x); [|constructor].
    destruct (fsel f x) as [p|]; [|constructor]. destruct (panchor p); repeat constructor. intros [].
  - intros x y b _ _ Hx Hy.
    destruct (query_pred_ok current qp x); [|destruct Hx]. destruct (query_pred_ok current qp y); [|destruct Hy].
    destruct (fsel f x) as [p|]; [|destruct Hx]. destruct (fsel f y) as [p'|]; [|destruct Hy].
    destruct (panchor p); [|destruct Hx]. destruct (panchor p'); [|destruct Hy].
    destruct Hx as [Hx|[]]. destruct Hy as [Hy|[]]. subst b. inversion Hy. reflexivity.
Qed.

Lemma is_latest_iff : forall f Y t,
  is_latest f Y t = true <->
  exists p a, fsel f t = Some p /\ panchor p = Some a /\
    forall t' p' a', In t' Y -> fsel f t' = Some p' -> panchor p' = Some a' -> pid p' = pid p -> (ns a' <= ns a)%Z.
Proof.
  intros f Y t. unfold is_latest. destruct (fsel f t) as [p|] eqn:Ef.
  - destruct (panchor p) as [a|] eqn:Ea.
    + rewrite forallb_forall. split.
      * intros H. exists p, a. repeat split; auto. intros t' p' a' Hin Ef' Ea' Ei.
        specialize (H t' Hin). rewrite Ef', Ea' in H. rewrite Ei, N.eqb_refl in H. cbn in H. lia.
      * intros [p0 [a0 [E1 [E2 H]]]]. inversion E1. subst p0. rewrite Ea in E2. inversion E2. subst a0.
        intros t' Hin. destruct (fsel f t') as [p'|] eqn:Ef'; auto. destruct (panchor p') as [a'|] eqn:Ea'; auto.
        destruct (N.eqb_spec (pid p') (pid p)) as [Ei|Ei]; cbn; auto.
        specialize (H t' p' a' Hin Ef' Ea' Ei). lia.
    + split; [discriminate|]. intros [p0 [a0 [E1 [E2 _]]]]. inversion E1. subst. congruence.
  - split; [discriminate|]. intros [p0 [a0 [E1 _]]]. discriminate.
Qed.

Lemma latest_filter_In : forall qp f X t,
  NoDup X -> (forall x, In x X -> query_pred_ok current qp x = true) ->
  (In t (latest_filter current qp f X) <-> In t X /\ is_latest f X t = true).
Proof.
  intros qp f X t Hnd Hq. unfold latest_filter.
  rewrite (latest_fold_In (latest_cands current qp f X) t (latest_cands_NoDup qp f X Hnd)).
  rewrite is_latest_iff. split.
  - intros [i [m [Hc Hmax]]]. apply latest_cands_In in Hc; auto.
    destruct Hc as [HtX [p [a [Ef [Ea [Ei Em]]]]]]. subst i m. split; auto.
    exists p, a. repeat split; auto. intros t' p' a' Hin' Ef' Ea' Eid.
    apply (Hmax (ns a') t'). apply latest_cands_In; auto. split; auto. exists p', a'. auto.
  - intros [HtX [p [a [Ef [Ea Hmax]]]]]. exists (pid p), (ns a). split.
    + apply latest_cands_In; auto. split; auto. exists p, a. auto.
    + intros m' t' Hc. apply latest_cands_In in Hc; auto.
      destruct Hc as [Hin' [p' [a' [Ef' [Ea' [Ei Em]]]]]]. subst m'. eapply Hmax; eauto.
Qed.

Lemma latest_filter_NoDup : forall qp f X,
  NoDup X -> (forall x, In x X -> query_pred_ok current qp x = true) -> NoDup (latest_filter current qp f X).
Proof.
  intros qp f X Hnd Hq. unfold latest_filter. apply latest_fold_NoDup.
  - now apply latest_cands_NoDup.
  - intros i m i' m' x H1 H2. apply latest_cands_In in H1; auto. apply latest_cands_In in H2; auto.
    destruct H1 as [_ [p [a [E1 [E2 [E3 E4]]]]]]. destruct H2 as [_ [p' [a' [E1' [E2' [E3' E4']]]]]].
    rewrite E1 in E1'. inversion E1'. subst p'. rewrite E2 in E2'. inversion E2'. subst. auto.
Qed.

Lemma is_latest_ext : forall f X Y t, (forall x, In x X <-> In x Y) -> is_latest f X t = is_latest f Y t.
Proof.
  intros f X Y t Hxy. apply eq_true_iff_eq. rewrite !is_latest_iff.
  split; intros [p [a [E1 [E2 H]]]]; exists p, a; repeat split; auto; intros t' p' a' Hin; apply H; now apply Hxy.
Qed.

(* ---------------------------------------------------------------- the filter stage *)
Definition same_set (X Y : list triple) : Prop := forall t, In t X <-> In t Y.

Lemma filter_stage : forall qp fo X Y,
  same_set X Y -> NoDup X -> NoDup Y ->
  (forall x, In x X -> query_pred_ok current qp x = true) ->
  match execute_filter current qp fo X, spec_filter fo Y with
  | inl X', inl Y' => same_set X' Y' /\ NoDup X' /\ NoDup Y' /\ (forall t, In t Y' -> In t Y)
  | inr e, inr e' => e = e'
  | _, _ => False
  end.
Proof.
  intros qp [o f] X Y Hxy Hx Hy Hq. unfold execute_filter, spec_filter. cbn [fst snd].
  destruct o; auto; destruct (field_ok f); auto.
  - (* latest *)
    split; [|split; [|split]].
    + intros t. rewrite (latest_filter_In qp f X t Hx Hq), filter_In.
      rewrite (is_latest_ext f X Y t Hxy). now rewrite (Hxy t).
    + now apply latest_filter_NoDup.
    + now apply NoDup_filter.
    + intros t Hin. apply filter_In in Hin. tauto.
  - split; [|split; [|split]].
    + intros t. rewrite kind_filter_In by assumption. rewrite filter_In. now rewrite (Hxy t).
    + unfold kind_filter. now apply NoDup_filter.
    + now apply NoDup_filter.
    + intros t Hin. apply filter_In in Hin. tauto.
  - split; [|split; [|split]].
    + intros t. rewrite kind_filter_In by assumption. rewrite filter_In. now rewrite (Hxy t).
    + unfold kind_filter. now apply NoDup_filter.
    + now apply NoDup_filter.
    + intros t Hin. apply filter_In in Hin. tauto.
Qed.
