(* Model of storage/memory: memoryStore (name -> graph object) and memory (master index + six secondary indexes).
   Definitions only.  Follows memory.go: NewGraph/Graph/DeleteGraph/GraphNames, AddTriples (seven inserts per
   triple), RemoveTriples (seven deletes per triple; SP/PO/SO buckets dropped when empty, S/P/O buckets kept),
   Exist, and the unfiltered listing.

   Keys.  memory.go keys its maps by the 16-byte UUID strings of the components (and by concatenations of two of
   them, which is injective because the width is fixed).  The model works on the pre-images of those UUIDs:
     subject key   = number of the node            (Node.UUID)
     predicate key = (id number, None | Some uns)  (Predicate.UUID hashes id ++ "immutable" | id ++ varint(UnixNano):
                                                    the zone of the anchor is NOT part of the identity)
     partial key   = id number                     (Predicate.PartialUUID)
     object key    = node | literal | predicate key
   "Different component keys have different UUIDs" is property C06, not part of this model; the harness checks it on
   every universe it generates (uuid equal <-> key equal) before it sends a case.
   A stored value carries more than its key: the anchor's zone offset (it decides the printed form) and the rank
   of Triple.String() in Go string order (the lookups sort by that string). *)
From Coq Require Import List NArith ZArith Bool.
Import ListNotations.
From BWStore Require Import AMap.

(* ---------------------------------------------------------------- values *)
(* ns = the instant in nanoseconds since the Unix epoch (unbounded: Equal/Before/After/Sub compare instants);
   off = zone offset in seconds; uns = Time.UnixNano() as Go computes it (the int64 that Predicate.UUID hashes):
   equal to ns for instants between 1677-09-21 and 2262-04-11, wrapped outside (the harness supplies Go's value) *)
Record time := { ns : Z; off : Z; uns : Z }.
Record pred := { pid : N; panchor : option time }.        (* anchor = None: immutable *)
Inductive obj := ONode (n : N) | OLit (n : N) | OPred (p : pred).
Record triple := { tsub : N; tpred : pred; tobj : obj; trank : N }.

Definition is_temporal (p : pred) : bool := match panchor p with Some _ => true | None => false end.
Definition is_immutable (p : pred) : bool := negb (is_temporal p).

(* ---------------------------------------------------------------- keys *)
Definition pkey := (N * option Z)%type.
Inductive okey := OKnode (n : N) | OKlit (n : N) | OKpred (k : pkey).
Definition tkey := (N * pkey * okey)%type.

Definition pkey_of (p : pred) : pkey := (pid p, option_map uns (panchor p)).
Definition okey_of (o : obj) : okey :=
  match o with ONode n => OKnode n | OLit n => OKlit n | OPred p => OKpred (pkey_of p) end.
Definition tkey_of (t : triple) : tkey := (tsub t, pkey_of (tpred t), okey_of (tobj t)).

Definition pkey_eqb (a b : pkey) : bool := N.eqb (fst a) (fst b) && opt_eqb Z.eqb (snd a) (snd b).
Definition okey_eqb (a b : okey) : bool :=
  match a, b with
  | OKnode x, OKnode y => N.eqb x y
  | OKlit x, OKlit y => N.eqb x y
  | OKpred x, OKpred y => pkey_eqb x y
  | _, _ => false
  end.
Definition tkey_eqb (a b : tkey) : bool :=
  N.eqb (fst (fst a)) (fst (fst b)) && pkey_eqb (snd (fst a)) (snd (fst b)) && okey_eqb (snd a) (snd b).

(* the component keys memory.go derives from a triple (functions of the triple key) *)
Definition kS (k : tkey) : N := fst (fst k).
Definition kP (k : tkey) : N := fst (snd (fst k)).                 (* PartialUUID: the id only *)
Definition kO (k : tkey) : okey := snd k.
Definition kSP (k : tkey) : N * N := (kS k, kP k).                 (* sUUID + pUUID *)
Definition kPO (k : tkey) : N * okey := (kP k, kO k).              (* pUUID + oUUID *)
Definition kSO (k : tkey) : N * okey := (kS k, kO k).              (* sUUID + oUUID *)

Definition nn_eqb := pair_eqb N.eqb N.eqb.
Definition no_eqb := pair_eqb N.eqb okey_eqb.

(* ---------------------------------------------------------------- one graph *)
Definition bucket := list (tkey * triple).

Record graph := {
  idx   : bucket;
  idxS  : list (N * bucket);
  idxP  : list (N * bucket);
  idxO  : list (okey * bucket);
  idxSP : list ((N * N) * bucket);
  idxPO : list ((N * okey) * bucket);
  idxSO : list ((N * okey) * bucket)
}.

Definition empty_graph : graph :=
  {| idx := []; idxS := []; idxP := []; idxO := []; idxSP := []; idxPO := []; idxSO := [] |}.

Section Sec.
  Context {KX : Type}.
  Variable eqx : KX -> KX -> bool.

  (* m[kx] read for lookups and deletes: a missing bucket behaves as the nil map *)
  Definition bget (kx : KX) (sec : list (KX * bucket)) : bucket :=
    match aget eqx kx sec with Some b => b | None => [] end.

  (* if _, ok := m[kx]; !ok { m[kx] = make(...) }; m[kx][tuuid] = t *)
  Definition sec_add (kx : KX) (k : tkey) (t : triple) (sec : list (KX * bucket)) : list (KX * bucket) :=
    aset eqx kx (aset tkey_eqb k t (bget kx sec)) sec.

  (* delete(m[kx], tuuid)   -- the bucket object is mutated in place; an empty bucket stays *)
  Definition sec_del (kx : KX) (k : tkey) (sec : list (KX * bucket)) : list (KX * bucket) :=
    match aget eqx kx sec with
    | Some b => aset eqx kx (adel tkey_eqb k b) sec
    | None => sec
    end.

  (* delete(m[kx], tuuid); if len(m[kx]) == 0 { delete(m, kx) } *)
  Definition sec_del_drop (kx : KX) (k : tkey) (sec : list (KX * bucket)) : list (KX * bucket) :=
    match aget eqx kx sec with
    | Some b => match adel tkey_eqb k b with
                | [] => adel eqx kx sec
                | b' => aset eqx kx b' sec
                end
    | None => sec
    end.
End Sec.

Definition add_triple (t : triple) (g : graph) : graph :=
  let k := tkey_of t in
  {| idx   := aset tkey_eqb k t (idx g);
     idxS  := sec_add N.eqb (kS k) k t (idxS g);
     idxP  := sec_add N.eqb (kP k) k t (idxP g);
     idxO  := sec_add okey_eqb (kO k) k t (idxO g);
     idxSP := sec_add nn_eqb (kSP k) k t (idxSP g);
     idxPO := sec_add no_eqb (kPO k) k t (idxPO g);
     idxSO := sec_add no_eqb (kSO k) k t (idxSO g) |}.

Definition remove_triple (t : triple) (g : graph) : graph :=
  let k := tkey_of t in
  {| idx   := adel tkey_eqb k (idx g);
     idxS  := sec_del N.eqb (kS k) k (idxS g);
     idxP  := sec_del N.eqb (kP k) k (idxP g);
     idxO  := sec_del okey_eqb (kO k) k (idxO g);
     idxSP := sec_del_drop nn_eqb (kSP k) k (idxSP g);
     idxPO := sec_del_drop no_eqb (kPO k) k (idxPO g);
     idxSO := sec_del_drop no_eqb (kSO k) k (idxSO g) |}.

Definition add_triples (ts : list triple) (g : graph) : graph := fold_left (fun g t => add_triple t g) ts g.
Definition remove_triples (ts : list triple) (g : graph) : graph := fold_left (fun g t => remove_triple t g) ts g.

Definition exist (t : triple) (g : graph) : bool := amem tkey_eqb (tkey_of t) (idx g).

(* sort.Strings over Triple.String(): insertion sort on the rank *)
Fixpoint insert_by_rank (t : triple) (l : list triple) : list triple :=
  match l with
  | [] => [t]
  | u :: r => if N.leb (trank t) (trank u) then t :: u :: r else u :: insert_by_rank t r
  end.
Fixpoint sort_by_rank (l : list triple) : list triple :=
  match l with
  | [] => []
  | t :: r => insert_by_rank t (sort_by_rank r)
  end.

(* Triples(DefaultLookup): every stored triple, sorted *)
Definition listing (g : graph) : list triple := sort_by_rank (vals (idx g)).

(* ---------------------------------------------------------------- the store *)
(* Graph objects live in a heap addressed by a generation number (the Go pointer): DeleteGraph only removes the
   binding, a handle obtained earlier keeps working on the old object, NewGraph always allocates a fresh one. *)
Record store := { binds : list (N * N); heap : list (N * graph); next : N }.

Definition init : store := {| binds := []; heap := []; next := 0%N |}.

Inductive op :=
| ONew (n : N) | OGet (n : N) | ODrop (n : N) | ONames
| OAdd (h : N) (ts : list triple) | ORemove (h : N) (ts : list triple)
| OExist (h : N) (t : triple) | OList (h : N).

Inductive result :=
| RHandle (h : N) | ROk | RErr | RNames (l : list N) | RBool (b : bool) | RTriples (l : list triple)
| RNoHandle.      (* an operation on a handle that was never handed out: impossible in Go, explicit in the model *)

Definition with_graph (s : store) (h : N) (f : graph -> store * result) : store * result :=
  match aget N.eqb h (heap s) with
  | Some g => f g
  | None => (s, RNoHandle)
  end.

Definition set_graph (s : store) (h : N) (g : graph) : store :=
  {| binds := binds s; heap := aset N.eqb h g (heap s); next := next s |}.

Definition step (s : store) (o : op) : store * result :=
  match o with
  | ONew n =>
      match aget N.eqb n (binds s) with
      | Some _ => (s, RErr)
      | None => ({| binds := aset N.eqb n (next s) (binds s);
                    heap := aset N.eqb (next s) empty_graph (heap s);
                    next := N.succ (next s) |}, RHandle (next s))
      end
  | OGet n =>
      match aget N.eqb n (binds s) with
      | Some h => (s, RHandle h)
      | None => (s, RErr)
      end
  | ODrop n =>
      match aget N.eqb n (binds s) with
      | Some _ => ({| binds := adel N.eqb n (binds s); heap := heap s; next := next s |}, ROk)
      | None => (s, RErr)
      end
  | ONames => (s, RNames (keys (binds s)))
  | OAdd h ts => with_graph s h (fun g => (set_graph s h (add_triples ts g), ROk))
  | ORemove h ts => with_graph s h (fun g => (set_graph s h (remove_triples ts g), ROk))
  | OExist h t => with_graph s h (fun g => (s, RBool (exist t g)))
  | OList h => with_graph s h (fun g => (s, RTriples (listing g)))
  end.

Definition run_from (s : store) (ops : list op) : store := fold_left (fun s o => fst (step s o)) ops s.
Definition run (ops : list op) : store := run_from init ops.

Definition graph_of (s : store) (h : N) : option graph := aget N.eqb h (heap s).
