(* SPEC for C02 / C09: a lookup is a filter of the graph's full listing.
     candidates = the stored triples whose fixed components equal the given ones
     window     = closed interval on the anchor, immutable triples always kept
     filter     = isImmutable / isTemporal on the predicate (or predicate-valued object); latest = per predicate id
                  the temporal candidates (left by the window) with the greatest anchor, ties kept
     page       = the k-th block of n elements of that list in its rank order
   The listing is in rank order and every stage is an order-preserving filter, so no sort appears in the spec. *)
From Coq Require Import List NArith ZArith Bool.
Import ListNotations.
From BWStore Require Import AMap Store Lookup.

(* a predicate handed to a lookup matches a stored predicate: same identifier, same kind, and same instant when
   temporal (the zone in which the instant is written is irrelevant) *)
Definition pmatch (q p : pred) : bool :=
  N.eqb (pid q) (pid p) &&
  match panchor q, panchor p with
  | None, None => true
  | Some a, Some b => Z.eqb (ns a) (ns b)
  | _, _ => false
  end.

Definition omatch (o : obj) (t : triple) : bool := okey_eqb (okey_of o) (okey_of (tobj t)).

Definition matches (q : query) (t : triple) : bool :=
  match q with
  | QObjects s p | QTrSP s p => N.eqb s (tsub t) && pmatch p (tpred t)
  | QSubjects p o | QTrPO p o => pmatch p (tpred t) && omatch o t
  | QPredsSO s o => N.eqb s (tsub t) && omatch o t
  | QPredsS s | QTrS s => N.eqb s (tsub t)
  | QPredsO o | QTrO o => omatch o t
  | QTrP p => pmatch p (tpred t)
  | QAll => true
  end.

Definition candidates (q : query) (g : graph) : list triple := filter (matches q) (listing g).

Definition in_window (lo : lopts) (p : pred) : bool :=
  match panchor p with
  | None => true
  | Some t => match lo_lower lo with Some l => Z.leb l (ns t) | None => true end &&
              match lo_upper lo with Some u => Z.leb (ns t) u | None => true end
  end.

Definition window (lo : lopts) (l : list triple) : list triple := filter (fun t => in_window lo (tpred t)) l.

(* t carries, in the selected field, a temporal predicate whose anchor is maximal among the candidates with the same
   predicate id in that field *)
Definition is_latest (f : ffield) (cands : list triple) (t : triple) : bool :=
  match fsel f t with
  | Some p =>
      match panchor p with
      | Some a =>
          forallb (fun t' => match fsel f t' with
                             | Some p' => match panchor p' with
                                          | Some a' => negb (N.eqb (pid p') (pid p)) || Z.leb (ns a') (ns a)
                                          | None => true
                                          end
                             | None => true
                             end) cands
      | None => false
      end
  | None => false
  end.

Definition has_kind (f : ffield) (temporal : bool) (t : triple) : bool :=
  match fsel f t with Some p => Bool.eqb (is_temporal p) temporal | None => false end.

Definition spec_filter (fo : fop * ffield) (l : list triple) : list triple + lerr :=
  match fst fo with
  | FOpOther => inr EBadOp
  | FLatest => if field_ok (snd fo) then inl (filter (is_latest (snd fo) l) l) else inr EBadField
  | FIsImmutable => if field_ok (snd fo) then inl (filter (has_kind (snd fo) false) l) else inr EBadField
  | FIsTemporal => if field_ok (snd fo) then inl (filter (has_kind (snd fo) true) l) else inr EBadField
  end.

(* MaxElements n, Offset k.  For n > 0 and k >= 0: the k-th block of n elements.  The other sign combinations are
   characterised (not forbidden): n > 0, k < 0 behaves as k = 0; n <= 0 returns everything, except that n < 0 and
   k < 0 skip the first n*k elements. *)
Definition spec_page {A : Type} (lo : lopts) (l : list A) : list A :=
  let n := lo_max lo in let k := lo_offset lo in
  let skip := skip_count n k in        (* = n * k below 2^63, and 2^63-1 (beyond every list) when n, k > 0 overflow *)
  if Z.gtb n 0 then firstn (Z.to_nat n) (skipn (Z.to_nat skip) l)
  else skipn (Z.to_nat skip) l.

Definition spec_select (q : query) (lo : lopts) (g : graph) : list triple + lerr :=
  let w := window lo (candidates q g) in
  match effective_filter lo with
  | inr e => inr e
  | inl None => inl w
  | inl (Some fo) => spec_filter fo w
  end.

Definition spec_lookup (q : query) (lo : lopts) (g : graph) : outcome :=
  match spec_select q lo g with
  | inr e => LErr e
  | inl l => LOk (map (q_proj q) (spec_page lo l))
  end.
