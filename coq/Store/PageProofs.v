(* Paging: the checker counters select the k-th block; blocks partition the list. *)
From Coq Require Import List NArith ZArith Bool Lia.
Import ListNotations.
From BWStore Require Import AMap Store Lookup LookupSpec.
Open Scope Z_scope.

Lemma page_from_nomax : forall (A : Type) (l : list A) ps pad,
  page_from {| c_max := false; c_page := ps; c_padded := pad |} l = skipn (Z.to_nat pad) l.
Proof.
  induction l as [|x r IH]; intros ps pad.
  - cbn. now rewrite skipn_nil.
  - cbn [page_from]. unfold check_limit. cbn [c_max c_page c_padded andb].
    destruct (Z.gtb_spec pad 0) as [Hp|Hp].
    + rewrite IH. replace (Z.to_nat pad) with (S (Z.to_nat (pad - 1))) by lia. reflexivity.
    + rewrite IH. replace (Z.to_nat pad) with O by lia. reflexivity.
Qed.

Lemma page_from_max : forall (A : Type) (l : list A) ps pad, 0 <= ps ->
  page_from {| c_max := true; c_page := ps; c_padded := pad |} l = firstn (Z.to_nat ps) (skipn (Z.to_nat pad) l).
Proof.
  induction l as [|x r IH]; intros ps pad Hps.
  - cbn. rewrite skipn_nil. now rewrite firstn_nil.
  - cbn [page_from]. unfold check_limit. cbn [c_max c_page c_padded andb].
    destruct (Z.leb_spec ps 0) as [H0|H0].
    + assert (ps = 0) by lia. subst ps. rewrite IH by lia. reflexivity.
    + destruct (Z.gtb_spec pad 0) as [Hp|Hp].
      * rewrite IH by lia. replace (Z.to_nat pad) with (S (Z.to_nat (pad - 1))) by lia. reflexivity.
      * rewrite IH by lia. replace (Z.to_nat pad) with O by lia. cbn [skipn].
        replace (Z.to_nat ps) with (S (Z.to_nat (ps - 1))) by lia. reflexivity.
Qed.

(* the counters implement exactly the declarative page *)
Theorem page_is_spec_page : forall (A : Type) (lo : lopts) (l : list A), page lo l = spec_page lo l.
Proof.
  intros A lo l. unfold page, spec_page, new_counters.
  destruct (Z.gtb_spec (lo_max lo) 0) as [H|H].
  - apply page_from_max. lia.
  - apply page_from_nomax.
Qed.

(* ---------------------------------------------------------------- blocks partition a list *)
Lemma firstn_add : forall (A : Type) (a b : nat) (l : list A), firstn (a + b) l = firstn a l ++ firstn b (skipn a l).
Proof.
  induction a as [|a IH]; intros b l; cbn; auto.
  destruct l as [|x r]; cbn.
  - now rewrite firstn_nil.
  - now rewrite IH.
Qed.

Lemma blocks_concat : forall (A : Type) (n K : nat) (l : list A),
  concat (map (fun k => firstn n (skipn (n * k) l)) (seq 0 K)) = firstn (n * K) l.
Proof.
  intros A n K l. induction K as [|K IH].
  - cbn. now rewrite Nat.mul_0_r.
  - rewrite seq_S, map_app, concat_app, IH. cbn [map concat]. rewrite app_nil_r. cbn [plus].
    replace (n * S K)%nat with (n * K + n)%nat by lia. now rewrite firstn_add.
Qed.

Lemma blocks_cover : forall (A : Type) (n K : nat) (l : list A), (length l <= n * K)%nat ->
  concat (map (fun k => firstn n (skipn (n * k) l)) (seq 0 K)) = l.
Proof. intros. rewrite blocks_concat. now apply firstn_all2. Qed.

(* page n, offset k, on the unpaged list *)
Definition with_page (lo : lopts) (n k : Z) : lopts :=
  {| lo_max := n; lo_lower := lo_lower lo; lo_upper := lo_upper lo; lo_latest := lo_latest lo;
     lo_filter := lo_filter lo; lo_offset := k |}.
Definition unpaged (lo : lopts) : lopts := with_page lo 0 0.

Lemma wrap64_small : forall z, -9223372036854775808 <= z < 9223372036854775808 -> wrap64 z = z.
Proof. intros z H. unfold wrap64. rewrite Z.mod_small by lia. lia. Qed.

Lemma wrap64_range : forall z, -9223372036854775808 <= wrap64 z < 9223372036854775808.
Proof.
  intros z. unfold wrap64.
  pose proof (Z.mod_pos_bound (z + 9223372036854775808) 18446744073709551616). lia.
Qed.

(* the number of skipped elements for a positive page size n and a non-negative offset k (both Go ints):
   n * k when it fits, and MaxInt - beyond the end of every list - when it does not *)
Lemma skip_count_spec : forall n k,
  0 < n < 9223372036854775808 -> 0 <= k < 9223372036854775808 ->
  (n * k < 9223372036854775808 -> skip_count n k = n * k) /\
  (9223372036854775808 <= n * k -> skip_count n k = max_int).
Proof.
  intros n k Hn Hk. unfold skip_count.
  destruct (Z.gtb_spec n 0) as [_|]; [|lia]. cbn [andb].
  destruct (Z.gtb_spec k 0) as [Hk0|Hk0]; cbn [andb].
  - split; intros Hp.
    + rewrite wrap64_small by nia. rewrite Z.quot_mul by lia. rewrite Z.eqb_refl. reflexivity.
    + pose proof (wrap64_range (n * k)) as Hr.
      destruct (Z.eqb_spec (Z.quot (wrap64 (n * k)) k) n) as [E|E]; [|reflexivity]. exfalso.
      destruct (Z_lt_le_dec (wrap64 (n * k)) 0) as [Hneg|Hpos].
      * assert (Z.quot (wrap64 (n * k)) k <= 0).
        { replace (wrap64 (n * k)) with (- (- wrap64 (n * k))) by lia.
          rewrite Z.quot_opp_l by lia.
          pose proof (Z.quot_pos (- wrap64 (n * k)) k). lia. }
        lia.
      * rewrite Z.quot_div_nonneg in E by lia.
        pose proof (Z.mul_div_le (wrap64 (n * k)) k). rewrite E in H. nia.
  - assert (k = 0) by lia. subst k. split; intros Hp; [|lia].
    rewrite Z.mul_0_r. reflexivity.
Qed.

Lemma page_block : forall (A : Type) (lo : lopts) (n : Z) (k : nat) (l : list A),
  0 < n < 9223372036854775808 -> Z.of_nat k < 9223372036854775808 -> Z.of_nat (length l) < 9223372036854775808 ->
  page (with_page lo n (Z.of_nat k)) l = firstn (Z.to_nat n) (skipn (Z.to_nat n * k) l).
Proof.
  intros A lo n k l Hn Hk Hl. rewrite page_is_spec_page. unfold spec_page, with_page. cbn [lo_max lo_offset].
  destruct (Z.gtb_spec n 0); [|lia].
  destruct (skip_count_spec n (Z.of_nat k)) as [Hsmall Hbig]; [lia|lia|].
  destruct (Z_lt_le_dec (n * Z.of_nat k) 9223372036854775808) as [Hp|Hp].
  - rewrite Hsmall by assumption.
    replace (Z.to_nat (n * Z.of_nat k)) with (Z.to_nat n * k)%nat by lia. reflexivity.
  - rewrite Hbig by assumption.
    rewrite (skipn_all2 l) by (unfold max_int; lia).
    rewrite (skipn_all2 l) by nia.
    reflexivity.
Qed.

Lemma page_unpaged : forall (A : Type) (lo : lopts) (l : list A), page (unpaged lo) l = l.
Proof.
  intros. rewrite page_is_spec_page. unfold spec_page, unpaged, with_page. cbn. reflexivity.
Qed.
