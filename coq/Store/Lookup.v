(* Model of the lookups of storage/memory/memory.go (definitions only).
   The ten indexed lookups (and Triples) are textual copies of one body; the model is ONE function, instantiated by
   the query constructor the way the Go methods choose (a) the bucket, (b) the predicate handed to newChecker,
   (c) the predicate handed to executeFilter, (d) the projection sent on the channel:

      bucket  ->  applyGlobalTimeBounds (checker.CheckGlobalTimeBounds)
              ->  LatestAnchor / FilterOptions (executeFilter)          [errors stop here, nothing is sent]
              ->  SortByString (sort.Strings over Triple.String(); model: rank)
              ->  CheckLimitAndUpdate per element (paging counters)
              ->  projection

   The record [variant] keeps the two behaviours that were repaired in /repo available for the refutation witnesses:
     v_kind  = false : CheckGlobalTimeBounds does not compare the kind of the query predicate (defect F6)
     v_inst  = false : the filter functions compare the query predicate by printed form, zone-sensitive (defect F19)
   [current] is the behaviour of the working tree. *)
From Coq Require Import List NArith ZArith Bool.
Import ListNotations.
From BWStore Require Import AMap Store.

Record variant := { v_kind : bool; v_inst : bool }.
Definition legacy : variant := {| v_kind := false; v_inst := false |}.
Definition current : variant := {| v_kind := true; v_inst := true |}.

(* ---------------------------------------------------------------- options *)
Inductive fop := FLatest | FIsImmutable | FIsTemporal | FOpOther.          (* filter.Operation; other = unsupported *)
Inductive ffield := FSubject | FPredicate | FObject | FFieldOther.         (* filter.Field *)

Record lopts := {
  lo_max : Z;                       (* MaxElements *)
  lo_lower : option Z;              (* LowerAnchor (instant; Before/After ignore the zone) *)
  lo_upper : option Z;              (* UpperAnchor *)
  lo_latest : bool;                 (* LatestAnchor *)
  lo_filter : option (fop * ffield);(* FilterOptions *)
  lo_offset : Z                     (* Offset *)
}.
Definition default_lo : lopts :=
  {| lo_max := 0; lo_lower := None; lo_upper := None; lo_latest := false; lo_filter := None; lo_offset := 0 |}.

(* ---------------------------------------------------------------- queries *)
Inductive query :=
| QObjects (s : N) (p : pred)          (* Objects(s, p)                          idxSP, checker p, filter p, Object()   *)
| QSubjects (p : pred) (o : obj)       (* Subjects(p, o)                         idxPO, p, p, Subject()                 *)
| QPredsSO (s : N) (o : obj)           (* PredicatesForSubjectAndObject(s, o)    idxSO, nil, nil, Predicate()           *)
| QPredsS (s : N)                      (* PredicatesForSubject(s)                idxS,  nil, nil, Predicate()           *)
| QPredsO (o : obj)                    (* PredicatesForObject(o)                 idxO,  nil, nil, Predicate()           *)
| QTrS (s : N)                         (* TriplesForSubject(s)                   idxS,  nil, nil, triple                *)
| QTrP (p : pred)                      (* TriplesForPredicate(p)                 idxP,  p, p, triple                    *)
| QTrO (o : obj)                       (* TriplesForObject(o)                    idxO,  nil, nil, triple                *)
| QTrSP (s : N) (p : pred)             (* TriplesForSubjectAndPredicate(s, p)    idxSP, p, p, triple                    *)
| QTrPO (p : pred) (o : obj)           (* TriplesForPredicateAndObject(p, o)     idxPO, p, p, triple                    *)
| QAll.                                (* Triples()                              idx,   nil, nil, triple                *)

Definition q_bucket (q : query) (g : graph) : bucket :=
  match q with
  | QObjects s p | QTrSP s p => bget nn_eqb (s, pid p) (idxSP g)
  | QSubjects p o | QTrPO p o => bget no_eqb (pid p, okey_of o) (idxPO g)
  | QPredsSO s o => bget no_eqb (s, okey_of o) (idxSO g)
  | QPredsS s | QTrS s => bget N.eqb s (idxS g)
  | QPredsO o | QTrO o => bget okey_eqb (okey_of o) (idxO g)
  | QTrP p => bget N.eqb (pid p) (idxP g)
  | QAll => idx g
  end.

(* the predicate given to newChecker *)
Definition q_chk_pred (q : query) : option pred :=
  match q with
  | QObjects _ p | QSubjects p _ | QTrP p | QTrSP _ p | QTrPO p _ => Some p
  | _ => None
  end.

(* the predicate given to executeFilter *)
Definition q_flt_pred (q : query) : option pred :=
  match q with
  | QObjects _ p | QSubjects p _ | QTrP p | QTrSP _ p | QTrPO p _ => Some p
  | _ => None
  end.

Inductive res := RsNode (n : N) | RsPred (p : pred) | RsObj (o : obj) | RsTriple (t : triple).

Definition q_proj (q : query) (t : triple) : res :=
  match q with
  | QObjects _ _ => RsObj (tobj t)
  | QSubjects _ _ => RsNode (tsub t)
  | QPredsSO _ _ | QPredsS _ | QPredsO _ => RsPred (tpred t)
  | _ => RsTriple t
  end.

(* ---------------------------------------------------------------- checker.CheckGlobalTimeBounds *)
Definition kind_eqb (p q : pred) : bool := Bool.eqb (is_temporal p) (is_temporal q).

Definition check_bounds (v : variant) (qp : option pred) (lo : lopts) (p : pred) : bool :=
  (if v_kind v then match qp with Some q => kind_eqb q p | None => true end else true) &&
  match panchor p with
  | None => true                                                 (* immutable: always kept *)
  | Some t =>
      match qp with
      | Some q => match panchor q with Some qt => Z.eqb (ns qt) (ns t) | None => true end   (* c.ota.Equal(t) *)
      | None => true
      end &&
      match lo_lower lo with Some l => negb (Z.ltb (ns t) l) | None => true end &&         (* !t.Before(lower) *)
      match lo_upper lo with Some u => negb (Z.gtb (ns t) u) | None => true end            (* !t.After(upper) *)
  end.

Definition apply_bounds (v : variant) (qp : option pred) (lo : lopts) (b : list triple) : list triple :=
  filter (fun t => check_bounds v qp lo (tpred t)) b.

(* ---------------------------------------------------------------- filter functions *)
Definition time_eqb (a b : time) : bool := Z.eqb (ns a) (ns b) && Z.eqb (off a) (off b).
(* equality of Predicate.String(): quoted id and the anchor rendered in its own zone *)
Definition pred_print_eqb (p q : pred) : bool := N.eqb (pid p) (pid q) && opt_eqb time_eqb (panchor p) (panchor q).

(* samePredicate of memory.go (after fix F19): same id, same type and, when temporal, Equal anchors *)
Definition same_predicate (p q : pred) : bool :=
  N.eqb (pid p) (pid q) &&
  match panchor p, panchor q with
  | None, None => true
  | Some a, Some b => Z.eqb (ns a) (ns b)
  | _, _ => false
  end.

(* the "pQuery != nil && <differs from t.Predicate()>" test at the top of the three filter loops *)
Definition query_pred_ok (v : variant) (qp : option pred) (t : triple) : bool :=
  match qp with
  | None => true
  | Some q => if v_inst v then same_predicate q (tpred t) else pred_print_eqb q (tpred t)
  end.

(* the predicate the filter looks at: the triple's predicate, or the predicate boxed in the object *)
Definition fsel (f : ffield) (t : triple) : option pred :=
  match f with
  | FPredicate => Some (tpred t)
  | FObject => match tobj t with OPred p => Some p | _ => None end
  | _ => None
  end.

Definition field_ok (f : ffield) : bool := match f with FPredicate | FObject => true | _ => false end.

Definition kind_filter (v : variant) (temporal : bool) (qp : option pred) (f : ffield) (l : list triple) : list triple :=
  filter (fun t => query_pred_ok v qp t &&
                   match fsel f t with Some p => Bool.eqb (is_temporal p) temporal | None => false end) l.

(* latestFilter: one pass; per PartialUUID of the selected predicate the greatest anchor seen so far and the triples
   that carry it (ta.Sub(lta) > 0 replaces, == 0 appends) *)
Definition latest_step (acc : list (N * (Z * list triple))) (c : N * Z * triple) : list (N * (Z * list triple)) :=
  let '(i, n, t) := c in
  match aget N.eqb i acc with
  | None => aset N.eqb i (n, [t]) acc
  | Some (m, ts) => if Z.gtb n m then aset N.eqb i (n, [t]) acc
                    else if Z.eqb n m then aset N.eqb i (m, ts ++ [t]) acc
                    else acc
  end.

Definition latest_cands (v : variant) (qp : option pred) (f : ffield) (l : list triple) : list (N * Z * triple) :=
  flat_map (fun t => if query_pred_ok v qp t
                     then match fsel f t with
                          | Some p => match panchor p with Some a => [(pid p, ns a, t)] | None => [] end
                          | None => []
                          end
                     else []) l.

Definition latest_filter (v : variant) (qp : option pred) (f : ffield) (l : list triple) : list triple :=
  flat_map (fun e => snd (snd e)) (fold_left latest_step (latest_cands v qp f l) []).

Inductive lerr := ELatestAndFilter | EBadField | EBadOp.

Definition execute_filter (v : variant) (qp : option pred) (fo : fop * ffield) (l : list triple)
  : list triple + lerr :=
  match fst fo with
  | FOpOther => inr EBadOp
  | FLatest => if field_ok (snd fo) then inl (latest_filter v qp (snd fo) l) else inr EBadField
  | FIsImmutable => if field_ok (snd fo) then inl (kind_filter v false qp (snd fo) l) else inr EBadField
  | FIsTemporal => if field_ok (snd fo) then inl (kind_filter v true qp (snd fo) l) else inr EBadField
  end.

(* LatestAnchor installs {Latest, PredicateField}; together with FilterOptions it is an error *)
Definition effective_filter (lo : lopts) : option (fop * ffield) + lerr :=
  if lo_latest lo
  then match lo_filter lo with Some _ => inr ELatestAndFilter | None => inl (Some (FLatest, FPredicate)) end
  else inl (lo_filter lo).

(* ---------------------------------------------------------------- paging: checker counters *)
Record counters := { c_max : bool; c_page : Z; c_padded : Z }.
(* Go's int is 64 bits wide and MaxElements * Offset is computed in it: the product wraps *)
Definition wrap64 (z : Z) : Z := (z + 9223372036854775808) mod 18446744073709551616 - 9223372036854775808.

(* newChecker: paddedPageSize = MaxElements * Offset; when both are positive and the product overflows
   (padded / Offset != MaxElements) it is math.MaxInt: the page lies beyond any possible result *)
Definition max_int : Z := 9223372036854775807.
Definition skip_count (m o : Z) : Z :=
  let w := wrap64 (m * o) in
  if Z.gtb m 0 && Z.gtb o 0 && negb (Z.eqb (Z.quot w o) m) then max_int else w.

Definition new_counters (lo : lopts) : counters :=
  {| c_max := Z.gtb (lo_max lo) 0; c_page := lo_max lo; c_padded := skip_count (lo_max lo) (lo_offset lo) |}.

(* CheckLimitAndUpdate *)
Definition check_limit (c : counters) : bool * counters :=
  if c_max c && Z.leb (c_page c) 0 then (false, c)
  else if Z.gtb (c_padded c) 0 then (false, {| c_max := c_max c; c_page := c_page c; c_padded := c_padded c - 1 |})
  else (true, {| c_max := c_max c; c_page := c_page c - 1; c_padded := c_padded c |}).

Fixpoint page_from {A : Type} (c : counters) (l : list A) : list A :=
  match l with
  | [] => []
  | x :: r => let (emit, c') := check_limit c in
              if emit then x :: page_from c' r else page_from c' r
  end.

Definition page {A : Type} (lo : lopts) (l : list A) : list A := page_from (new_counters lo) l.

(* ---------------------------------------------------------------- the lookup *)
Inductive outcome := LOk (l : list res) | LErr (e : lerr).

(* the sorted, unpaged triples selected by a lookup (or the error) *)
Definition select (v : variant) (q : query) (lo : lopts) (g : graph) : list triple + lerr :=
  let sel := apply_bounds v (q_chk_pred q) lo (vals (q_bucket q g)) in
  match effective_filter lo with
  | inr e => inr e
  | inl None => inl (sort_by_rank sel)
  | inl (Some fo) => match execute_filter v (q_flt_pred q) fo sel with
                     | inr e => inr e
                     | inl sel' => inl (sort_by_rank sel')
                     end
  end.

Definition lookup_v (v : variant) (q : query) (lo : lopts) (g : graph) : outcome :=
  match select v q lo g with
  | inr e => LErr e
  | inl sorted => LOk (map (q_proj q) (page lo sorted))
  end.

Definition lookup := lookup_v current.
