(* Association lists used as the model of Go maps (definitions only).
   A Go map is a finite partial function; iteration order is unspecified, so nothing observable may depend on the
   order of these lists (the lookups sort before they emit, GraphNames is compared as a set). *)
From Coq Require Import List Bool.
Import ListNotations.

Section AMap.
  Context {K V : Type}.
  Variable eqb : K -> K -> bool.

  Fixpoint aget (k : K) (m : list (K * V)) : option V :=
    match m with
    | [] => None
    | (k', v) :: r => if eqb k k' then Some v else aget k r
    end.

  (* m[k] = v : replace in place when present, else append *)
  Fixpoint aset (k : K) (v : V) (m : list (K * V)) : list (K * V) :=
    match m with
    | [] => [(k, v)]
    | (k', v') :: r => if eqb k k' then (k', v) :: r else (k', v') :: aset k v r
    end.

  (* delete(m, k) *)
  Fixpoint adel (k : K) (m : list (K * V)) : list (K * V) :=
    match m with
    | [] => []
    | (k', v') :: r => if eqb k k' then adel k r else (k', v') :: adel k r
    end.

  Definition keys (m : list (K * V)) : list K := map fst m.
  Definition vals (m : list (K * V)) : list V := map snd m.
  Definition amem (k : K) (m : list (K * V)) : bool := match aget k m with Some _ => true | None => false end.
End AMap.

Definition opt_eqb {A : Type} (e : A -> A -> bool) (a b : option A) : bool :=
  match a, b with
  | Some x, Some y => e x y
  | None, None => true
  | _, _ => false
  end.

Definition pair_eqb {A B : Type} (ea : A -> A -> bool) (eb : B -> B -> bool) (a b : A * B) : bool :=
  ea (fst a) (fst b) && eb (snd a) (snd b).
