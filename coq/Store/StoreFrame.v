(* More C01 lemmas: frame conditions, operations without effect, drop + re-create, identity on keys,
   declarative content of a batch. *)
From Coq Require Import List NArith ZArith Bool Permutation Sorted Lia.
Import ListNotations.
From BWStore Require Import AMap AMapProofs Store StoreSpec StoreProofs.

(* ---------------------------------------------------------------- re-adding / removing absent: no effect at all *)
Section SecNoEffect.
  Context {KX : Type}.
  Variable eqx : KX -> KX -> bool.
  Hypothesis eqx_spec : forall a b, reflect (a = b) (eqx a b).
  Variable proj : tkey -> KX.

  Lemma sec_add_same : forall ix sec k t,
    sec_ok eqx proj ix sec -> tget k ix = Some t -> sec_add eqx (proj k) k t sec = sec.
  Proof.
    intros ix sec k t H Hg. unfold sec_add.
    assert (Hb : tget k (bget eqx (proj k) sec) = Some t).
    { rewrite H. destruct (eqx_spec (proj k) (proj k)); congruence. }
    rewrite (aset_same tkey_eqb tkey_eqb_spec _ _ _ Hb).
    apply (aset_same eqx eqx_spec). unfold bget in *.
    destruct (aget eqx (proj k) sec); auto. discriminate.
  Qed.

  Lemma sec_del_absent : forall ix sec k,
    sec_ok eqx proj ix sec -> tget k ix = None -> sec_del eqx (proj k) k sec = sec.
  Proof.
    intros ix sec k H Hg. unfold sec_del.
    destruct (aget eqx (proj k) sec) as [b|] eqn:Eb; auto.
    assert (Hb : tget k b = None).
    { specialize (H (proj k) k). unfold bget in H. rewrite Eb in H. rewrite H.
      destruct (eqx (proj k) (proj k)); auto. }
    rewrite (adel_absent tkey_eqb tkey_eqb_spec _ _ Hb).
    now apply (aset_same eqx eqx_spec).
  Qed.

  Lemma sec_del_drop_absent : forall ix sec k,
    sec_ok eqx proj ix sec -> no_empty sec -> tget k ix = None -> sec_del_drop eqx (proj k) k sec = sec.
  Proof.
    intros ix sec k H Hne Hg. unfold sec_del_drop.
    destruct (aget eqx (proj k) sec) as [b|] eqn:Eb; auto.
    assert (Hb : tget k b = None).
    { specialize (H (proj k) k). unfold bget in H. rewrite Eb in H. rewrite H.
      destruct (eqx (proj k) (proj k)); auto. }
    rewrite (adel_absent tkey_eqb tkey_eqb_spec _ _ Hb).
    destruct b as [|x r].
    - exfalso. apply (Hne (proj k) []); auto. now apply (aget_In eqx eqx_spec).
    - now apply (aset_same eqx eqx_spec).
  Qed.
End SecNoEffect.

Lemma add_triple_same : forall t g, GInv g -> tget (tkey_of t) (idx g) = Some t -> add_triple t g = g.
Proof.
  intros t g H Hg. destruct g as [i iS iP iO iSP iPO iSO]. destruct H.
  cbn [idx idxS idxP idxO idxSP idxPO idxSO] in *.
  unfold add_triple. cbn [idx idxS idxP idxO idxSP idxPO idxSO]. f_equal.
  - apply (aset_same tkey_eqb tkey_eqb_spec _ _ _ Hg).
  - apply (sec_add_same N.eqb N.eqb_spec kS i iS _ t gi_S Hg).
  - apply (sec_add_same N.eqb N.eqb_spec kP i iP _ t gi_P Hg).
  - apply (sec_add_same okey_eqb okey_eqb_spec kO i iO _ t gi_O Hg).
  - apply (sec_add_same nn_eqb nn_eqb_spec kSP i iSP _ t gi_SP Hg).
  - apply (sec_add_same no_eqb no_eqb_spec kPO i iPO _ t gi_PO Hg).
  - apply (sec_add_same no_eqb no_eqb_spec kSO i iSO _ t gi_SO Hg).
Qed.

Lemma remove_triple_absent : forall t g, GInv g -> tget (tkey_of t) (idx g) = None -> remove_triple t g = g.
Proof.
  intros t g H Hg. destruct g as [i iS iP iO iSP iPO iSO]. destruct H.
  cbn [idx idxS idxP idxO idxSP idxPO idxSO] in *.
  unfold remove_triple. cbn [idx idxS idxP idxO idxSP idxPO idxSO]. f_equal.
  - apply (adel_absent tkey_eqb tkey_eqb_spec _ _ Hg).
  - apply (sec_del_absent N.eqb N.eqb_spec kS i iS _ gi_S Hg).
  - apply (sec_del_absent N.eqb N.eqb_spec kP i iP _ gi_P Hg).
  - apply (sec_del_absent okey_eqb okey_eqb_spec kO i iO _ gi_O Hg).
  - apply (sec_del_drop_absent nn_eqb nn_eqb_spec kSP i iSP _ gi_SP gi_neSP Hg).
  - apply (sec_del_drop_absent no_eqb no_eqb_spec kPO i iPO _ gi_PO gi_nePO Hg).
  - apply (sec_del_drop_absent no_eqb no_eqb_spec kSO i iSO _ gi_SO gi_neSO Hg).
Qed.

Lemma add_triples_same : forall ts g, GInv g ->
  (forall t, In t ts -> tget (tkey_of t) (idx g) = Some t) -> add_triples ts g = g.
Proof.
  unfold add_triples. induction ts as [|t r IH]; cbn; auto.
  intros g H Hall. rewrite (add_triple_same t g H) by auto. apply IH; auto.
Qed.

Lemma remove_triples_absent : forall ts g, GInv g ->
  (forall t, In t ts -> tget (tkey_of t) (idx g) = None) -> remove_triples ts g = g.
Proof.
  unfold remove_triples. induction ts as [|t r IH]; cbn; auto.
  intros g H Hall. rewrite (remove_triple_absent t g H) by auto. apply IH; auto.
Qed.

Lemma set_graph_same : forall s h g, aget N.eqb h (heap s) = Some g -> set_graph s h g = s.
Proof.
  intros [b hp nx] h g Hg. unfold set_graph. cbn in *.
  now rewrite (aset_same N.eqb N.eqb_spec _ _ _ Hg).
Qed.

Theorem readd_no_effect : forall ops h g ts,
  graph_of (run ops) h = Some g ->
  (forall t, In t ts -> tget (tkey_of t) (idx g) = Some t) ->
  step (run ops) (OAdd h ts) = (run ops, ROk).
Proof.
  intros ops h g ts Hg Hall. cbn. unfold with_graph. unfold graph_of in Hg. rewrite Hg.
  rewrite add_triples_same; auto.
  - now rewrite set_graph_same.
  - eapply GInv_reachable; eauto.
Qed.

Theorem remove_absent_no_effect : forall ops h g ts,
  graph_of (run ops) h = Some g ->
  (forall t, In t ts -> tget (tkey_of t) (idx g) = None) ->
  step (run ops) (ORemove h ts) = (run ops, ROk).
Proof.
  intros ops h g ts Hg Hall. cbn. unfold with_graph. unfold graph_of in Hg. rewrite Hg.
  rewrite remove_triples_absent; auto.
  - now rewrite set_graph_same.
  - eapply GInv_reachable; eauto.
Qed.

(* ---------------------------------------------------------------- errors leave the state alone *)
Theorem error_no_effect : forall s o, snd (step s o) = RErr -> fst (step s o) = s.
Proof.
  intros s o. destruct o as [n|n|n| |h ts|h ts|h t|h]; cbn; unfold with_graph;
    try (destruct (aget N.eqb n (binds s)); cbn; auto; discriminate);
    try (destruct (aget N.eqb h (heap s)); cbn; auto; discriminate).
  discriminate.
Qed.

Theorem create_existing_fails : forall s n, In n (keys (binds s)) -> step s (ONew n) = (s, RErr).
Proof.
  intros s n Hin. cbn. apply (in_keys_aget N.eqb N.eqb_spec) in Hin. destruct Hin as [h Hh]. now rewrite Hh.
Qed.

Theorem get_drop_missing_fail : forall s n, ~ In n (keys (binds s)) ->
  step s (OGet n) = (s, RErr) /\ step s (ODrop n) = (s, RErr).
Proof.
  intros s n Hin. cbn. now rewrite (notin_aget_None N.eqb N.eqb_spec _ _ Hin).
Qed.

(* ---------------------------------------------------------------- frame conditions *)
Lemma snoc_run : forall ops o, run (ops ++ [o]) = fst (step (run ops) o).
Proof. intros. unfold run. rewrite run_from_app. reflexivity. Qed.

(* an update through handle h touches neither the bindings nor any other graph object *)
Theorem frame_update : forall ops h h' ts,
  h <> h' ->
  (graph_of (run (ops ++ [OAdd h ts])) h' = graph_of (run ops) h' /\ binds (run (ops ++ [OAdd h ts])) = binds (run ops)) /\
  (graph_of (run (ops ++ [ORemove h ts])) h' = graph_of (run ops) h' /\ binds (run (ops ++ [ORemove h ts])) = binds (run ops)).
Proof.
  intros ops h h' ts Hne. rewrite !snoc_run. unfold step, with_graph, graph_of.
  destruct (aget N.eqb h (heap (run ops))) as [g|]; auto.
  unfold set_graph, fst, heap, binds.
  split; (split; [apply (aget_aset_neq N.eqb N.eqb_spec); exact Hne|reflexivity]).
Qed.

(* creating or dropping a name leaves every other binding and every existing graph object as it is *)
Theorem frame_names : forall ops n,
  (forall h g, graph_of (run ops) h = Some g -> graph_of (run (ops ++ [ONew n])) h = Some g) /\
  (forall h, graph_of (run (ops ++ [ODrop n])) h = graph_of (run ops) h) /\
  (forall n', n' <> n -> aget N.eqb n' (binds (run (ops ++ [ONew n]))) = aget N.eqb n' (binds (run ops)) /\
                         aget N.eqb n' (binds (run (ops ++ [ODrop n]))) = aget N.eqb n' (binds (run ops))).
Proof.
  intros ops n. rewrite !snoc_run. pose proof (SInv_reachable ops) as HI.
  split; [|split].
  - intros h g Hg. cbn. destruct (aget N.eqb n (binds (run ops))); cbn; auto.
    unfold graph_of in *. cbn. rewrite (aget_aset_neq N.eqb N.eqb_spec); auto.
    destruct (si_heap _ HI h g Hg). lia.
  - intros h. cbn. destruct (aget N.eqb n (binds (run ops))); cbn; auto.
  - intros n' Hne. cbn. destruct (aget N.eqb n (binds (run ops))); cbn; auto.
    + rewrite (aget_adel_neq N.eqb N.eqb_spec) by auto. auto.
    + rewrite (aget_aset_neq N.eqb N.eqb_spec) by auto. auto.
Qed.

(* two names are never bound to the same graph object *)
Theorem names_independent : forall ops n1 n2 h,
  aget N.eqb n1 (binds (run ops)) = Some h -> aget N.eqb n2 (binds (run ops)) = Some h -> n1 = n2.
Proof. intros ops. apply (si_inj _ (SInv_reachable ops)). Qed.

(* ---------------------------------------------------------------- drop and re-create *)
Theorem recreate_empty : forall ops n h,
  aget N.eqb n (binds (run ops)) = Some h ->
  let s' := run (ops ++ [ODrop n; ONew n]) in
  exists h', step s' (OGet n) = (s', RHandle h') /\ h' <> h /\
             graph_of s' h' = Some empty_graph /\
             step s' (OList h') = (s', RTriples []) /\
             graph_of s' h = graph_of (run ops) h.
Proof.
  intros ops n h Hb s'. pose proof (SInv_reachable ops) as HI.
  destruct (si_bound _ HI n h Hb) as [Hlt Hne].
  subst s'. unfold run. rewrite run_from_app. fold (run ops). cbn.
  rewrite Hb. cbn. rewrite (aget_adel_eq N.eqb). cbn.
  exists (next (run ops)).
  rewrite (aget_aset_eq N.eqb N.eqb_spec). unfold graph_of, with_graph. cbn.
  rewrite (aget_aset_eq N.eqb N.eqb_spec).
  repeat split; auto.
  - lia.
  - rewrite (aget_aset_neq N.eqb N.eqb_spec); auto. lia.
Qed.

(* ---------------------------------------------------------------- identity of triples on keys *)
Definition same_pred (p q : pred) : Prop :=
  pid p = pid q /\
  match panchor p, panchor q with
  | None, None => True
  | Some a, Some b => uns a = uns b
  | _, _ => False
  end.

Definition same_obj (a b : obj) : Prop :=
  match a, b with
  | ONode x, ONode y => x = y
  | OLit x, OLit y => x = y
  | OPred p, OPred q => same_pred p q
  | _, _ => False
  end.

Lemma pkey_of_eq : forall p q, pkey_of p = pkey_of q <-> same_pred p q.
Proof.
  intros [i1 a1] [i2 a2]. unfold pkey_of, same_pred. cbn.
  destruct a1 as [t1|]; destruct a2 as [t2|]; cbn; split; intros H.
  - inversion H. auto.
  - destruct H as [-> ->]. reflexivity.
  - discriminate.
  - tauto.
  - discriminate.
  - tauto.
  - inversion H. auto.
  - destruct H as [-> _]. reflexivity.
Qed.

Lemma okey_of_eq : forall a b, okey_of a = okey_of b <-> same_obj a b.
Proof.
  intros [x|x|p] [y|y|q]; unfold okey_of, same_obj; split; intros H;
    try discriminate; try tauto; try congruence.
  - apply pkey_of_eq. congruence.
  - apply pkey_of_eq in H. congruence.
Qed.

Theorem tkey_identity : forall t1 t2,
  tkey_of t1 = tkey_of t2 <->
  tsub t1 = tsub t2 /\ same_pred (tpred t1) (tpred t2) /\ same_obj (tobj t1) (tobj t2).
Proof.
  intros t1 t2. unfold tkey_of. rewrite <- pkey_of_eq, <- okey_of_eq. split.
  - intros H. split; [|split].
    + apply (f_equal (fun k => fst (fst k))) in H. exact H.
    + apply (f_equal (fun k => snd (fst k))) in H. exact H.
    + apply (f_equal (fun k => snd k)) in H. exact H.
  - intros [Hs [Hp Ho]]. rewrite Hs, Hp, Ho. reflexivity.
Qed.

(* ---------------------------------------------------------------- content of a batch, declaratively *)
Lemma find_app_local {A : Type} (f : A -> bool) : forall l1 l2,
  find f (l1 ++ l2) = match find f l1 with Some x => Some x | None => find f l2 end.
Proof. induction l1 as [|a r IH]; intros l2; cbn; auto. destruct (f a); auto. Qed.

Lemma sadd_spec : forall ts g k,
  sadd ts g k = match find (fun t => tkey_eqb k (tkey_of t)) (rev ts) with Some t => Some t | None => g k end.
Proof.
  unfold sadd. induction ts as [|t r IH]; intros g k; cbn; auto.
  rewrite IH. rewrite find_app_local. destruct (find (fun t0 => tkey_eqb k (tkey_of t0)) (rev r)); auto.
  cbn. unfold supd. destruct (tkey_eqb k (tkey_of t)); auto.
Qed.

Lemma sremove_spec : forall ts g k,
  sremove ts g k = if existsb (fun t => tkey_eqb k (tkey_of t)) ts then None else g k.
Proof.
  unfold sremove. induction ts as [|t r IH]; intros g k; cbn; auto.
  rewrite IH. unfold supd. destruct (tkey_eqb k (tkey_of t)); cbn.
  - destruct (existsb _ r); auto.
  - reflexivity.
Qed.

(* ---------------------------------------------------------------- observables depend only on the set *)
(* two graph objects (of any two histories, under any names) that hold the same set of triples answer the existence
   test and the full listing identically: nothing observable remembers how the set was built *)
Theorem observers_history_independent : forall ops1 ops2 h1 h2 g1 g2,
  graph_of (run ops1) h1 = Some g1 -> graph_of (run ops2) h2 = Some g2 ->
  (forall k, tget k (idx g1) = tget k (idx g2)) ->
  (forall a b, In a (listing g1) -> In b (listing g1) -> trank a = trank b -> a = b) ->
  (forall t, snd (step (run ops1) (OExist h1 t)) = snd (step (run ops2) (OExist h2 t))) /\
  snd (step (run ops1) (OList h1)) = snd (step (run ops2) (OList h2)).
Proof.
  intros ops1 ops2 h1 h2 g1 g2 Hg1 Hg2 Hsame Hinj.
  pose proof (GInv_reachable ops1 h1 g1 Hg1) as H1. pose proof (GInv_reachable ops2 h2 g2 Hg2) as H2.
  unfold graph_of in Hg1, Hg2. cbn. unfold with_graph. rewrite Hg1, Hg2. cbn. split.
  - intros t. unfold exist, amem. now rewrite Hsame.
  - f_equal. apply ranked_unique.
    + apply sort_ranked.
    + apply sort_ranked.
    + now apply NoDup_listing.
    + now apply NoDup_listing.
    + intros t. rewrite !listing_In by assumption. now rewrite Hsame.
    + exact Hinj.
Qed.
