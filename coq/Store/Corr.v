(* Executable comparison of the store / lookup model with observations of storage/memory (written by h_store).
   A case is one history: a universe of triples (position = rank), pools of query arguments, and for every step the
   operation together with everything observed on the real store after it.  Lookup results are compared through a
   digest (polynomial hash modulo 2^64 over a canonical encoding) computed on both sides, so that hundreds of
   lookups per state cost one number of case text; the detail functions below list per-lookup digests for the
   failing-input search. *)
From Coq Require Import List NArith ZArith Bool.
Import ListNotations.
From BWStore Require Import AMap Store Lookup LookupSpec.
Open Scope N_scope.

(* ---------------------------------------------------------------- digest *)
Definition dMask : N := 18446744073709551615.     (* 2^64 - 1: the arithmetic of Go's uint64 *)
Definition dP : N := 1000003.
Definition dmix (h x : N) : N := N.land (dP * h + x + 1) dMask.
Definition dlist (h : N) (l : list N) : N := fold_left dmix l h.

Definition zenc (z : Z) : N := match z with Z0 => 0 | Zpos p => 2 * Npos p | Zneg p => 2 * Npos p + 1 end.
Definition enc_pred (p : pred) : list N :=
  pid p :: match panchor p with
           | None => [0]
           | Some t => [1; zenc (ns t / 1000000000); Z.to_N (ns t mod 1000000000); zenc (off t)]   (* Unix(), Nanosecond(), zone *)
           end.
Definition enc_obj (o : obj) : list N :=
  match o with ONode n => [0; n] | OLit n => [1; n] | OPred p => 2 :: enc_pred p end.
Definition enc_triple (t : triple) : list N := tsub t :: enc_pred (tpred t) ++ enc_obj (tobj t) ++ [trank t].
Definition enc_res (r : res) : list N :=
  match r with
  | RsNode n => [0; n]
  | RsPred p => 1 :: enc_pred p
  | RsObj o => 2 :: enc_obj o
  | RsTriple t => 3 :: enc_triple t
  end.
Definition enc_err (e : lerr) : N := match e with ELatestAndFilter => 1 | EBadField => 2 | EBadOp => 3 end.
Definition enc_outcome (o : outcome) : list N :=
  match o with
  | LErr e => [1; enc_err e]
  | LOk l => 0 :: N.of_nat (length l) :: flat_map enc_res l
  end.

(* ---------------------------------------------------------------- pools and query enumeration *)
Record pools := { p_nodes : list N; p_preds : list pred; p_objs : list obj }.

Definition all_queries (P : pools) : list query :=
  flat_map (fun s => map (QObjects s) (p_preds P)) (p_nodes P) ++
  flat_map (fun p => map (QSubjects p) (p_objs P)) (p_preds P) ++
  flat_map (fun s => map (QPredsSO s) (p_objs P)) (p_nodes P) ++
  map QPredsS (p_nodes P) ++ map QPredsO (p_objs P) ++
  map QTrS (p_nodes P) ++ map QTrP (p_preds P) ++ map QTrO (p_objs P) ++
  flat_map (fun s => map (QTrSP s) (p_preds P)) (p_nodes P) ++
  flat_map (fun p => map (QTrPO p) (p_objs P)) (p_preds P) ++
  [QAll].

Definition digest_lookups (lk : query -> lopts -> graph -> outcome) (qs : list query) (los : list lopts)
           (g : graph) (h0 : N) : N :=
  fold_left (fun h q => fold_left (fun h lo => dlist h (enc_outcome (lk q lo g))) los h) qs h0.

Definition graphs_of (s : store) : list graph :=
  flat_map (fun i => match graph_of s (N.of_nat i) with Some g => [g] | None => [] end) (seq 0 (N.to_nat (next s))).

Definition digest_state (lk : query -> lopts -> graph -> outcome) (qs : list query) (los : list lopts) (s : store) : N :=
  fold_left (fun h g => digest_lookups lk qs los g h) (graphs_of s) 0.

(* the same over the graph objects that hold at least one triple (used for the option products of C09) *)
Definition digest_state_ne (lk : query -> lopts -> graph -> outcome) (qs : list query) (los : list lopts) (s : store) : N :=
  fold_left (fun h g => digest_lookups lk qs los g h)
            (filter (fun g => match idx g with [] => false | _ => true end) (graphs_of s)) 0.

(* ---------------------------------------------------------------- observations of the store itself *)
Fixpoint ninsert (x : N) (l : list N) : list N :=
  match l with [] => [x] | y :: r => if N.leb x y then x :: y :: r else y :: ninsert x r end.
Definition nsort (l : list N) : list N := fold_right ninsert [] l.

Fixpoint list_eqb {A : Type} (e : A -> A -> bool) (a b : list A) : bool :=
  match a, b with
  | [], [] => true
  | x :: r, y :: s => e x y && list_eqb e r s
  | _, _ => false
  end.

Definition exist_mask (U : list triple) (g : graph) : N :=
  fst (fold_left (fun (a : N * N) t => (if exist t g then fst a + snd a else fst a, 2 * snd a)) U (0, 1)).

Definition obs_names (s : store) : list N := nsort (keys (binds s)).
Definition obs_gets (nn : nat) (s : store) : list N :=
  map (fun i => match aget N.eqb (N.of_nat i) (binds s) with Some h => h + 1 | None => 0 end) (seq 0 nn).
Definition obs_graphs (U : list triple) (s : store) : list (N * list N) :=
  map (fun g => (exist_mask U g, map trank (listing g))) (graphs_of s).

Definition res_code (r : result) : N :=
  match r with
  | ROk => 0 | RErr => 1 | RHandle h => 2 + h | RNames _ => 0 | RBool _ => 0 | RTriples _ => 0 | RNoHandle => 99
  end.

(* ---------------------------------------------------------------- cases *)
Inductive xop := XNew (n : N) | XGet (n : N) | XDrop (n : N) | XNames
               | XAdd (h : N) (is : list N) | XRemove (h : N) (is : list N).

Definition dummy_triple : triple := {| tsub := 0; tpred := {| pid := 0; panchor := None |}; tobj := ONode 0; trank := 0 |}.
Definition pick (U : list triple) (is : list N) : list triple := map (fun i => nth (N.to_nat i) U dummy_triple) is.

Definition to_op (U : list triple) (x : xop) : op :=
  match x with
  | XNew n => ONew n | XGet n => OGet n | XDrop n => ODrop n | XNames => ONames
  | XAdd h is => OAdd h (pick U is) | XRemove h is => ORemove h (pick U is)
  end.

(* what was observed after one step *)
Record obs := {
  o_res : N;                                 (* result code of the operation *)
  o_names : list N;                          (* GraphNames, sorted *)
  o_gets : list N;                           (* Graph(name) for every name of the pool: 0 = error, 1 + object number *)
  o_graphs : list (N * list N);              (* per graph object ever created: Exist mask over U, Triples() as ranks *)
  o_c02 : N;                                 (* digest of every query of the pools with default options, all objects *)
  o_c09 : list (list query * list lopts * N) (* digests of query x options products *)
}.

Definition pair_n_ln_eqb (a b : N * list N) : bool := N.eqb (fst a) (fst b) && list_eqb N.eqb (snd a) (snd b).

Record cfg := { c_c01 : bool; c_c02 : bool; c_c09 : bool }.

(* codes of the components on which model and observation differ after this step *)
Definition compare_step (c : cfg) (U : list triple) (P : pools) (nn : nat) (r : result) (s : store) (o : obs) : list N :=
  (if c_c01 c then
     (if N.eqb (res_code r) (o_res o) then [] else [0]) ++
     (if list_eqb N.eqb (obs_names s) (o_names o) then [] else [1]) ++
     (if list_eqb N.eqb (obs_gets nn s) (o_gets o) then [] else [2]) ++
     (if list_eqb pair_n_ln_eqb (obs_graphs U s) (o_graphs o) then [] else [3])
   else []) ++
  (if c_c02 c then
     (if N.eqb (digest_state lookup (all_queries P) [default_lo] s) (o_c02 o) then [] else [4])
   else []) ++
  (if c_c09 c then
     (if forallb (fun e => match e with (qs, los, d) => N.eqb (digest_state_ne lookup qs los s) d end) (o_c09 o)
      then [] else [5])
   else []).

Fixpoint run_steps (c : cfg) (U : list triple) (P : pools) (nn : nat) (s : store) (i : N)
         (steps : list (xop * obs)) : list N :=
  match steps with
  | [] => []
  | (x, o) :: rest =>
      let (s', r) := step s (to_op U x) in
      map (fun code => 16 * i + code) (compare_step c U P nn r s' o) ++ run_steps c U P nn s' (i + 1) rest
  end.

Record hist := { h_univ : list triple; h_pools : pools; h_names : nat; h_steps : list (xop * obs) }.

Definition check_hist (c : cfg) (h : hist) : list N := run_steps c (h_univ h) (h_pools h) (h_names h) init 0 (h_steps h).

(* indexes (and codes) of the histories with a mismatch *)
Fixpoint mismatches_from (c : cfg) (i : N) (l : list hist) : list (N * list N) :=
  match l with
  | [] => []
  | h :: r => match check_hist c h with
              | [] => mismatches_from c (i + 1) r
              | codes => (i, codes) :: mismatches_from c (i + 1) r
              end
  end.

(* ---------------------------------------------------------------- detail: per-lookup digests of one state *)
Definition state_after (U : list triple) (xs : list xop) : store := run (map (to_op U) xs).

Definition detail (lk : query -> lopts -> graph -> outcome) (qs : list query) (los : list lopts) (s : store) : list N :=
  flat_map (fun g => flat_map (fun q => map (fun lo => dlist 0 (enc_outcome (lk q lo g))) los) qs) (graphs_of s).
Definition detail_ne (lk : query -> lopts -> graph -> outcome) (qs : list query) (los : list lopts) (s : store) : list N :=
  flat_map (fun g => flat_map (fun q => map (fun lo => dlist 0 (enc_outcome (lk q lo g))) los) qs)
           (filter (fun g => match idx g with [] => false | _ => true end) (graphs_of s)).

(* the three reference behaviours used to classify a disagreement *)
Definition lk_current := lookup_v current.
Definition lk_legacy := lookup_v legacy.
Definition lk_legacy_kind := lookup_v {| v_kind := false; v_inst := true |}.
Definition lk_legacy_inst := lookup_v {| v_kind := true; v_inst := false |}.
Definition lk_spec := spec_lookup.

(* ---------------------------------------------------------------- exhaustive short histories *)
(* all operation lists of length n over an alphabet, in lexicographic order of alphabet positions *)
Fixpoint all_lists {A : Type} (alpha : list A) (n : nat) : list (list A) :=
  match n with
  | O => [[]]
  | S m => flat_map (fun a => map (cons a) (all_lists alpha m)) alpha
  end.

(* digest of everything observable along one history (after every step) *)
Definition obs_digest (U : list triple) (P : pools) (nn : nat) (with_lookups : bool) (r : result) (s : store) (h : N) : N :=
  let h1 := dmix h (res_code r) in
  let h2 := dlist h1 (obs_names s) in
  let h3 := dlist (dmix h2 77) (obs_gets nn s) in
  let h4 := fold_left (fun h e => dlist (dmix (dmix h 78) (fst e)) (snd e)) (obs_graphs U s) h3 in
  if with_lookups then dmix h4 (digest_state lookup (all_queries P) [default_lo] s) else h4.

Fixpoint hist_digest (U : list triple) (P : pools) (nn : nat) (wl : bool) (s : store) (h : N) (xs : list xop) : N :=
  match xs with
  | [] => h
  | x :: rest => let (s', r) := step s (to_op U x) in hist_digest U P nn wl s' (obs_digest U P nn wl r s' h) rest
  end.

(* one digest per first operation (a group), folded over every history of the group *)
Definition exhaustive_digests (U : list triple) (P : pools) (nn : nat) (wl : bool) (alpha : list xop) (n : nat) : list N :=
  map (fun a => fold_left (fun h xs => dmix h (hist_digest U P nn wl init 0 (a :: xs))) (all_lists alpha (Nat.pred n)) 0) alpha.

(* ---------------------------------------------------------------- exhaustive option space on all sub-graphs of a tiny universe *)
(* (LatestAnchor, FilterOptions): no filter, the six valid filters, three invalid ones, LatestAnchor alone / with a filter *)
Definition all_modes : list (bool * option (fop * ffield)) :=
  (false, None) ::
  flat_map (fun o => map (fun f => (false, Some (o, f))) [FPredicate; FObject]) [FLatest; FIsImmutable; FIsTemporal] ++
  [(false, Some (FLatest, FSubject)); (false, Some (FOpOther, FPredicate)); (false, Some (FIsTemporal, FFieldOther));
   (true, None); (true, Some (FLatest, FPredicate))].

Definition all_lopts (bs : list (option Z)) (pgs : list Z) : list lopts :=
  flat_map (fun l => flat_map (fun u => flat_map (fun md =>
    flat_map (fun m => map (fun o => Build_lopts m l u (fst md) (snd md) o) pgs) pgs) all_modes) bs) bs.

Fixpoint subsets {A : Type} (l : list A) : list (list A) :=
  match l with
  | [] => [[]]
  | x :: r => let s := subsets r in s ++ map (cons x) s
  end.

(* one digest per subset of the universe: every query x every options value on the graph holding that subset *)
Definition options_digests (U : list triple) (qs : list query) (los : list lopts) : list N :=
  map (fun sub => digest_lookups lookup qs los (add_triples sub empty_graph) 0) (subsets U).
