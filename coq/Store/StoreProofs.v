(* Proofs for C01: index invariant in every reachable state, refinement to the set-map specification. *)
From Coq Require Import List NArith ZArith Bool Permutation Sorted Lia.
Import ListNotations.
From BWStore Require Import AMap AMapProofs Store StoreSpec.

(* ---------------------------------------------------------------- decidable equalities *)
Lemma opt_eqb_spec {A : Type} (e : A -> A -> bool) :
  (forall a b, reflect (a = b) (e a b)) -> forall a b, reflect (a = b) (opt_eqb e a b).
Proof.
  intros He [x|] [y|]; cbn; try (constructor; congruence).
  destruct (He x y); constructor; congruence.
Qed.

Lemma pair_eqb_spec {A B : Type} (ea : A -> A -> bool) (eb : B -> B -> bool) :
  (forall a b, reflect (a = b) (ea a b)) -> (forall a b, reflect (a = b) (eb a b)) ->
  forall a b, reflect (a = b) (pair_eqb ea eb a b).
Proof.
  intros Ha Hb [a1 b1] [a2 b2]. unfold pair_eqb. cbn.
  destruct (Ha a1 a2); destruct (Hb b1 b2); cbn; constructor; congruence.
Qed.

Lemma pkey_eqb_spec : forall a b, reflect (a = b) (pkey_eqb a b).
Proof. exact (pair_eqb_spec N.eqb (opt_eqb Z.eqb) N.eqb_spec (opt_eqb_spec Z.eqb Z.eqb_spec)). Qed.

Lemma okey_eqb_spec : forall a b, reflect (a = b) (okey_eqb a b).
Proof.
  intros [x|x|x] [y|y|y]; cbn; try (constructor; congruence).
  - destruct (N.eqb_spec x y); constructor; congruence.
  - destruct (N.eqb_spec x y); constructor; congruence.
  - destruct (pkey_eqb_spec x y); constructor; congruence.
Qed.

Lemma tkey_eqb_spec : forall a b, reflect (a = b) (tkey_eqb a b).
Proof.
  intros [[s1 p1] o1] [[s2 p2] o2]. unfold tkey_eqb. cbn.
  destruct (N.eqb_spec s1 s2); destruct (pkey_eqb_spec p1 p2); destruct (okey_eqb_spec o1 o2); cbn;
    constructor; congruence.
Qed.

Lemma nn_eqb_spec : forall a b, reflect (a = b) (nn_eqb a b).
Proof. exact (pair_eqb_spec N.eqb N.eqb N.eqb_spec N.eqb_spec). Qed.

Lemma no_eqb_spec : forall a b, reflect (a = b) (no_eqb a b).
Proof. exact (pair_eqb_spec N.eqb okey_eqb N.eqb_spec okey_eqb_spec). Qed.

Notation tget := (aget tkey_eqb).
Notation tset := (aset tkey_eqb).
Notation tdel := (adel tkey_eqb).

(* ---------------------------------------------------------------- one secondary index *)
Section SecProofs.
  Context {KX : Type}.
  Variable eqx : KX -> KX -> bool.
  Hypothesis eqx_spec : forall a b, reflect (a = b) (eqx a b).
  Variable proj : tkey -> KX.

  (* the bucket stored under kx is exactly the part of the master index whose projection is kx *)
  Definition sec_ok (ix : bucket) (sec : list (KX * bucket)) : Prop :=
    forall kx k, tget k (bget eqx kx sec) = if eqx (proj k) kx then tget k ix else None.

  Definition sec_wf (sec : list (KX * bucket)) : Prop :=
    NoDup (keys sec) /\ forall kx b, In (kx, b) sec -> NoDup (keys b).

  Definition no_empty (sec : list (KX * bucket)) : Prop := forall kx b, In (kx, b) sec -> b <> [].

  Lemma bget_aset : forall kx kx' b sec,
    bget eqx kx' (aset eqx kx b sec) = if eqx kx' kx then b else bget eqx kx' sec.
  Proof. intros. unfold bget. rewrite (aget_aset eqx eqx_spec). destruct (eqx kx' kx); auto. Qed.

  Lemma bget_adel : forall kx kx' sec,
    bget eqx kx' (adel eqx kx sec) = if eqx kx' kx then [] else bget eqx kx' sec.
  Proof. intros. unfold bget. rewrite (aget_adel eqx eqx_spec). destruct (eqx kx' kx); auto. Qed.

  Lemma sec_ok_nil : sec_ok [] [].
  Proof. intros kx k. cbn. destruct (eqx (proj k) kx); auto. Qed.

  Lemma sec_ok_add : forall ix sec k t,
    sec_ok ix sec -> sec_ok (tset k t ix) (sec_add eqx (proj k) k t sec).
  Proof.
    intros ix sec k t H kx k'. unfold sec_add. rewrite bget_aset.
    rewrite (aget_aset tkey_eqb tkey_eqb_spec k k' t ix).
    destruct (eqx_spec kx (proj k)) as [E|E].
    - subst kx. rewrite (aget_aset tkey_eqb tkey_eqb_spec). rewrite H.
      destruct (tkey_eqb_spec k' k) as [E2|E2].
      + subst k'. destruct (eqx_spec (proj k) (proj k)); congruence.
      + reflexivity.
    - rewrite H. destruct (eqx_spec (proj k') kx) as [E3|E3]; auto.
      destruct (tkey_eqb_spec k' k); auto. subst k'. congruence.
  Qed.

  Lemma sec_ok_del : forall ix sec k,
    sec_ok ix sec -> sec_ok (tdel k ix) (sec_del eqx (proj k) k sec).
  Proof.
    intros ix sec k H kx k'. unfold sec_del.
    rewrite (aget_adel tkey_eqb tkey_eqb_spec k k' ix).
    destruct (aget eqx (proj k) sec) as [b|] eqn:Eb.
    - rewrite bget_aset. destruct (eqx_spec kx (proj k)) as [E|E].
      + subst kx. rewrite (aget_adel tkey_eqb tkey_eqb_spec).
        assert (Hb : b = bget eqx (proj k) sec) by (unfold bget; now rewrite Eb).
        rewrite Hb, H. destruct (tkey_eqb_spec k' k) as [E2|E2]; auto.
        destruct (eqx (proj k') (proj k)); auto.
      + rewrite H. destruct (eqx_spec (proj k') kx) as [E3|E3]; auto.
        destruct (tkey_eqb_spec k' k); auto. subst k'. congruence.
    - rewrite H. destruct (eqx_spec (proj k') kx) as [E3|E3]; auto.
      destruct (tkey_eqb_spec k' k) as [E2|E2]; auto. subst k' kx.
      specialize (H (proj k) k). unfold bget in H at 1. rewrite Eb in H. cbn in H.
      destruct (eqx_spec (proj k) (proj k)); congruence.
  Qed.

  Lemma bget_del_drop : forall kx k sec kx',
    bget eqx kx' (sec_del_drop eqx kx k sec) = bget eqx kx' (sec_del eqx kx k sec).
  Proof.
    intros kx k sec kx'. unfold sec_del_drop, sec_del.
    destruct (aget eqx kx sec) as [b|] eqn:Eb; auto.
    destruct (tdel k b) as [|x r] eqn:Ed; auto.
    rewrite bget_adel, bget_aset. destruct (eqx kx' kx); auto.
  Qed.

  Lemma sec_ok_del_drop : forall ix sec k,
    sec_ok ix sec -> sec_ok (tdel k ix) (sec_del_drop eqx (proj k) k sec).
  Proof.
    intros ix sec k H kx k'. rewrite bget_del_drop. now apply sec_ok_del.
  Qed.

  Lemma bget_NoDup : forall sec kx, sec_wf sec -> NoDup (keys (bget eqx kx sec)).
  Proof.
    intros sec kx [_ Hb]. unfold bget. destruct (aget eqx kx sec) as [b|] eqn:E.
    - apply (aget_In eqx eqx_spec) in E. eauto.
    - constructor.
  Qed.

  Lemma sec_wf_nil : sec_wf [].
  Proof. split; [constructor|]. intros ? ? []. Qed.

  Lemma sec_wf_add : forall sec kx k t, sec_wf sec -> sec_wf (sec_add eqx kx k t sec).
  Proof.
    intros sec kx k t Hwf. pose proof Hwf as [Hnd Hb]. unfold sec_add. split.
    - now apply (NoDup_keys_aset eqx eqx_spec).
    - intros kx' b Hin. apply (In_aset eqx eqx_spec) in Hin. destruct Hin as [E|Hin]; eauto.
      inversion E. subst. apply (NoDup_keys_aset tkey_eqb tkey_eqb_spec). now apply bget_NoDup.
  Qed.

  Lemma sec_wf_del : forall sec kx k, sec_wf sec -> sec_wf (sec_del eqx kx k sec).
  Proof.
    intros sec kx k Hwf. pose proof Hwf as [Hnd Hb]. unfold sec_del.
    destruct (aget eqx kx sec) as [b|] eqn:Eb; auto. split.
    - now apply (NoDup_keys_aset eqx eqx_spec).
    - intros kx' b' Hin. apply (In_aset eqx eqx_spec) in Hin. destruct Hin as [E|Hin]; eauto.
      inversion E. subst. apply (NoDup_keys_adel tkey_eqb tkey_eqb_spec).
      apply (aget_In eqx eqx_spec) in Eb. eauto.
  Qed.

  Lemma sec_wf_del_drop : forall sec kx k, sec_wf sec -> sec_wf (sec_del_drop eqx kx k sec).
  Proof.
    intros sec kx k Hwf. pose proof Hwf as [Hnd Hb]. unfold sec_del_drop.
    destruct (aget eqx kx sec) as [b|] eqn:Eb; auto.
    destruct (tdel k b) as [|x r] eqn:Ed.
    - split.
      + now apply (NoDup_keys_adel eqx eqx_spec).
      + intros kx' b' Hin. apply In_adel in Hin. eauto.
    - split.
      + now apply (NoDup_keys_aset eqx eqx_spec).
      + intros kx' b' Hin. apply (In_aset eqx eqx_spec) in Hin. destruct Hin as [E|Hin]; eauto.
        inversion E. subst. rewrite <- Ed. apply (NoDup_keys_adel tkey_eqb tkey_eqb_spec).
        apply (aget_In eqx eqx_spec) in Eb. eauto.
  Qed.

  Lemma no_empty_nil : no_empty [].
  Proof. intros ? ? []. Qed.

  Lemma no_empty_add : forall sec kx k t, no_empty sec -> no_empty (sec_add eqx kx k t sec).
  Proof.
    intros sec kx k t H kx' b Hin. unfold sec_add in Hin.
    apply (In_aset eqx eqx_spec) in Hin. destruct Hin as [E|Hin]; eauto.
    inversion E. subst. intros Hnil.
    assert (Hg : tget k (tset k t (bget eqx kx sec)) = Some t) by apply (aget_aset_eq tkey_eqb tkey_eqb_spec).
    rewrite Hnil in Hg. discriminate.
  Qed.

  Lemma no_empty_del_drop : forall sec kx k, no_empty sec -> no_empty (sec_del_drop eqx kx k sec).
  Proof.
    intros sec kx k H kx' b Hin. unfold sec_del_drop in Hin.
    destruct (aget eqx kx sec) as [b0|] eqn:Eb; eauto.
    destruct (tdel k b0) as [|x r] eqn:Ed.
    - apply In_adel in Hin. eauto.
    - apply (In_aset eqx eqx_spec) in Hin. destruct Hin as [E|Hin]; eauto.
      inversion E. discriminate.
  Qed.
End SecProofs.

(* ---------------------------------------------------------------- graph invariant *)
Record GInv (g : graph) : Prop := {
  gi_coh : forall k t, tget k (idx g) = Some t -> tkey_of t = k;
  gi_nd : NoDup (keys (idx g));
  gi_S : sec_ok N.eqb kS (idx g) (idxS g);
  gi_P : sec_ok N.eqb kP (idx g) (idxP g);
  gi_O : sec_ok okey_eqb kO (idx g) (idxO g);
  gi_SP : sec_ok nn_eqb kSP (idx g) (idxSP g);
  gi_PO : sec_ok no_eqb kPO (idx g) (idxPO g);
  gi_SO : sec_ok no_eqb kSO (idx g) (idxSO g);
  gi_wS : sec_wf (idxS g);
  gi_wP : sec_wf (idxP g);
  gi_wO : sec_wf (idxO g);
  gi_wSP : sec_wf (idxSP g);
  gi_wPO : sec_wf (idxPO g);
  gi_wSO : sec_wf (idxSO g);
  gi_neSP : no_empty (idxSP g);
  gi_nePO : no_empty (idxPO g);
  gi_neSO : no_empty (idxSO g)
}.

Lemma GInv_empty : GInv empty_graph.
Proof.
  constructor; cbn; try apply sec_ok_nil; try apply sec_wf_nil; try apply no_empty_nil;
    try (intros; discriminate); try constructor.
Qed.

Lemma GInv_add : forall t g, GInv g -> GInv (add_triple t g).
Proof.
  intros t g H. destruct H. unfold add_triple. constructor; cbn.
  - intros k t' Hg. rewrite (aget_aset tkey_eqb tkey_eqb_spec) in Hg.
    destruct (tkey_eqb_spec k (tkey_of t)).
    + inversion Hg. now subst.
    + auto.
  - now apply (NoDup_keys_aset tkey_eqb tkey_eqb_spec).
  - apply (sec_ok_add N.eqb N.eqb_spec kS); auto.
  - apply (sec_ok_add N.eqb N.eqb_spec kP); auto.
  - apply (sec_ok_add okey_eqb okey_eqb_spec kO); auto.
  - apply (sec_ok_add nn_eqb nn_eqb_spec kSP); auto.
  - apply (sec_ok_add no_eqb no_eqb_spec kPO); auto.
  - apply (sec_ok_add no_eqb no_eqb_spec kSO); auto.
  - apply (sec_wf_add N.eqb N.eqb_spec); auto.
  - apply (sec_wf_add N.eqb N.eqb_spec); auto.
  - apply (sec_wf_add okey_eqb okey_eqb_spec); auto.
  - apply (sec_wf_add nn_eqb nn_eqb_spec); auto.
  - apply (sec_wf_add no_eqb no_eqb_spec); auto.
  - apply (sec_wf_add no_eqb no_eqb_spec); auto.
  - apply (no_empty_add nn_eqb nn_eqb_spec); auto.
  - apply (no_empty_add no_eqb no_eqb_spec); auto.
  - apply (no_empty_add no_eqb no_eqb_spec); auto.
Qed.

Lemma GInv_remove : forall t g, GInv g -> GInv (remove_triple t g).
Proof.
  intros t g H. destruct H. unfold remove_triple. constructor; cbn.
  - intros k t' Hg. rewrite (aget_adel tkey_eqb tkey_eqb_spec) in Hg.
    destruct (tkey_eqb k (tkey_of t)); [discriminate|auto].
  - now apply (NoDup_keys_adel tkey_eqb tkey_eqb_spec).
  - apply (sec_ok_del N.eqb N.eqb_spec kS); auto.
  - apply (sec_ok_del N.eqb N.eqb_spec kP); auto.
  - apply (sec_ok_del okey_eqb okey_eqb_spec kO); auto.
  - apply (sec_ok_del_drop nn_eqb nn_eqb_spec kSP); auto.
  - apply (sec_ok_del_drop no_eqb no_eqb_spec kPO); auto.
  - apply (sec_ok_del_drop no_eqb no_eqb_spec kSO); auto.
  - apply (sec_wf_del N.eqb N.eqb_spec); auto.
  - apply (sec_wf_del N.eqb N.eqb_spec); auto.
  - apply (sec_wf_del okey_eqb okey_eqb_spec); auto.
  - apply (sec_wf_del_drop nn_eqb nn_eqb_spec); auto.
  - apply (sec_wf_del_drop no_eqb no_eqb_spec); auto.
  - apply (sec_wf_del_drop no_eqb no_eqb_spec); auto.
  - apply (no_empty_del_drop nn_eqb nn_eqb_spec); auto.
  - apply (no_empty_del_drop no_eqb no_eqb_spec); auto.
  - apply (no_empty_del_drop no_eqb no_eqb_spec); auto.
Qed.

Lemma GInv_add_triples : forall ts g, GInv g -> GInv (add_triples ts g).
Proof.
  unfold add_triples. induction ts as [|t r IH]; cbn; auto.
  intros g H. apply IH. now apply GInv_add.
Qed.

Lemma GInv_remove_triples : forall ts g, GInv g -> GInv (remove_triples ts g).
Proof.
  unfold remove_triples. induction ts as [|t r IH]; cbn; auto.
  intros g H. apply IH. now apply GInv_remove.
Qed.

(* ---------------------------------------------------------------- store invariant *)
Record SInv (s : store) : Prop := {
  si_bnd : NoDup (keys (binds s));
  si_hnd : NoDup (keys (heap s));
  si_bound : forall n h, aget N.eqb n (binds s) = Some h -> (h < next s)%N /\ aget N.eqb h (heap s) <> None;
  si_heap : forall h g, aget N.eqb h (heap s) = Some g -> (h < next s)%N /\ GInv g;
  si_inj : forall n1 n2 h, aget N.eqb n1 (binds s) = Some h -> aget N.eqb n2 (binds s) = Some h -> n1 = n2
}.

Lemma SInv_init : SInv init.
Proof. constructor; cbn; try constructor; intros; discriminate. Qed.

Lemma SInv_set_graph : forall s h g g', SInv s -> aget N.eqb h (heap s) = Some g -> GInv g' -> SInv (set_graph s h g').
Proof.
  intros s h g g' H Hg Hg'. destruct H. constructor; cbn; auto.
  - now apply (NoDup_keys_aset N.eqb N.eqb_spec).
  - intros n h' Hb. destruct (si_bound0 n h' Hb) as [Hlt Hne]. split; auto.
    rewrite (aget_aset N.eqb N.eqb_spec). destruct (N.eqb h' h); congruence.
  - intros h' g2 Hh. rewrite (aget_aset N.eqb N.eqb_spec) in Hh. destruct (N.eqb_spec h' h).
    + subst h'. inversion Hh. subst g2. split; auto. now destruct (si_heap0 h g Hg).
    + eauto.
Qed.

Lemma SInv_step : forall s o, SInv s -> SInv (fst (step s o)).
Proof.
  intros s o H. destruct o as [n|n|n| |h ts|h ts|h t|h]; cbn.
  - (* ONew *)
    destruct (aget N.eqb n (binds s)) as [h|] eqn:E; cbn; auto.
    destruct H. constructor; cbn.
    + now apply (NoDup_keys_aset N.eqb N.eqb_spec).
    + now apply (NoDup_keys_aset N.eqb N.eqb_spec).
    + intros n' h' Hb. rewrite (aget_aset N.eqb N.eqb_spec) in Hb.
      rewrite (aget_aset N.eqb N.eqb_spec).
      destruct (N.eqb_spec n' n).
      * inversion Hb. subst. rewrite N.eqb_refl. split; [lia|discriminate].
      * destruct (si_bound0 n' h' Hb) as [Hlt Hne]. split; [lia|].
        destruct (N.eqb h' (next s)); [discriminate|auto].
    + intros h' g Hh. rewrite (aget_aset N.eqb N.eqb_spec) in Hh.
      destruct (N.eqb_spec h' (next s)).
      * inversion Hh. subst. split; [lia|apply GInv_empty].
      * destruct (si_heap0 h' g Hh). split; [lia|auto].
    + intros n1 n2 h' H1 H2. rewrite (aget_aset N.eqb N.eqb_spec) in H1, H2.
      destruct (N.eqb_spec n1 n); destruct (N.eqb_spec n2 n); subst; auto.
      * inversion H1. subst h'. destruct (si_bound0 n2 (next s) H2). lia.
      * inversion H2. subst h'. destruct (si_bound0 n1 (next s) H1). lia.
      * eauto.
  - destruct (aget N.eqb n (binds s)); cbn; auto.
  - (* ODrop *)
    destruct (aget N.eqb n (binds s)) as [h|] eqn:E; cbn; auto.
    destruct H. constructor; cbn; auto.
    + now apply (NoDup_keys_adel N.eqb N.eqb_spec).
    + intros n' h' Hb. rewrite (aget_adel N.eqb N.eqb_spec) in Hb.
      destruct (N.eqb n' n); [discriminate|eauto].
    + intros n1 n2 h' H1 H2. rewrite (aget_adel N.eqb N.eqb_spec) in H1, H2.
      destruct (N.eqb n1 n); [discriminate|]. destruct (N.eqb n2 n); [discriminate|]. eauto.
  - auto.
  - unfold with_graph. destruct (aget N.eqb h (heap s)) as [g|] eqn:E; cbn; auto.
    apply (SInv_set_graph s h g); auto. apply GInv_add_triples. now destruct (si_heap s H h g E).
  - unfold with_graph. destruct (aget N.eqb h (heap s)) as [g|] eqn:E; cbn; auto.
    apply (SInv_set_graph s h g); auto. apply GInv_remove_triples. now destruct (si_heap s H h g E).
  - unfold with_graph. destruct (aget N.eqb h (heap s)); cbn; auto.
  - unfold with_graph. destruct (aget N.eqb h (heap s)); cbn; auto.
Qed.

Lemma SInv_run_from : forall ops s, SInv s -> SInv (run_from s ops).
Proof.
  unfold run_from. induction ops as [|o r IH]; cbn; auto.
  intros s H. apply IH. now apply SInv_step.
Qed.

Theorem SInv_reachable : forall ops, SInv (run ops).
Proof. intros. apply SInv_run_from. apply SInv_init. Qed.

Theorem GInv_reachable : forall ops h g, graph_of (run ops) h = Some g -> GInv g.
Proof.
  intros ops h g Hg. destruct (si_heap _ (SInv_reachable ops) h g Hg). assumption.
Qed.

(* ---------------------------------------------------------------- sorting by rank *)
Lemma insert_perm : forall t l, Permutation (insert_by_rank t l) (t :: l).
Proof.
  intros t l. induction l as [|u r IH]; cbn; auto.
  destruct (N.leb (trank t) (trank u)); auto.
  rewrite IH. apply perm_swap.
Qed.

Lemma sort_perm : forall l, Permutation (sort_by_rank l) l.
Proof.
  induction l as [|t r IH]; cbn; auto.
  rewrite insert_perm. now constructor.
Qed.

Lemma insert_ranked : forall t l, ranked l -> ranked (insert_by_rank t l).
Proof.
  intros t l. induction l as [|u r IH]; cbn; intros H.
  - repeat constructor.
  - destruct (N.leb_spec (trank t) (trank u)) as [Hle|Hgt].
    + constructor; auto. inversion H as [|? ? Hr Hall]. subst.
      constructor; auto. eapply Forall_impl; [|exact Hall]. cbn. intros. lia.
    + inversion H as [|? ? Hr Hall]. subst. constructor.
      * apply IH. exact Hr.
      * eapply Permutation_Forall; [symmetry; apply insert_perm|].
        constructor; auto. lia.
Qed.

Lemma sort_ranked : forall l, ranked (sort_by_rank l).
Proof.
  induction l as [|t r IH]; cbn.
  - constructor.
  - now apply insert_ranked.
Qed.

Lemma sort_In : forall l t, In t (sort_by_rank l) <-> In t l.
Proof.
  intros l t. split; apply Permutation_in; [apply sort_perm|symmetry; apply sort_perm].
Qed.

(* a list sorted by rank is determined by its members when the rank identifies the member *)
Lemma ranked_unique : forall l1 l2,
  ranked l1 -> ranked l2 -> NoDup l1 -> NoDup l2 ->
  (forall t, In t l1 <-> In t l2) ->
  (forall a b, In a l1 -> In b l1 -> trank a = trank b -> a = b) ->
  l1 = l2.
Proof.
  induction l1 as [|a r1 IH]; intros l2 H1 H2 N1 N2 Hmem Hinj.
  - destruct l2 as [|b r2]; auto. exfalso. apply (Hmem b). now left.
  - destruct l2 as [|b r2].
    + exfalso. apply (Hmem a). now left.
    + inversion H1 as [|? ? S1 A1]. inversion H2 as [|? ? S2 A2]. subst.
      inversion N1 as [|? ? Na N1']. inversion N2 as [|? ? Nb N2']. subst.
      assert (Eab : a = b).
      { assert (Hb : In b (a :: r1)) by (apply Hmem; now left).
        assert (Ha : In a (b :: r2)) by (apply Hmem; now left).
        destruct Hb as [E|Hb]; auto. destruct Ha as [E|Ha]; auto.
        rewrite Forall_forall in A1, A2. pose proof (A1 b Hb). pose proof (A2 a Ha).
        apply Hinj; [now left|now right|lia]. }
      subst b. f_equal. apply IH; auto.
      * intros t. split; intros Ht.
        -- assert (Hx : In t (a :: r2)) by (apply Hmem; now right).
           destruct Hx as [E|Hx]; auto. subst t. tauto.
        -- assert (Hx : In t (a :: r1)) by (apply Hmem; now right).
           destruct Hx as [E|Hx]; auto. subst t. tauto.
      * intros x y Hx Hy. apply Hinj; now right.
Qed.

(* ---------------------------------------------------------------- master index as a set *)
Lemma vals_In : forall g t, GInv g -> (In t (vals (idx g)) <-> tget (tkey_of t) (idx g) = Some t).
Proof.
  intros g t H. unfold vals. rewrite in_map_iff. split.
  - intros [[k t'] [E Hin]]. cbn in E. subst t'.
    pose proof (In_aget tkey_eqb tkey_eqb_spec k t (idx g) (gi_nd g H) Hin) as Hg.
    rewrite (gi_coh g H k t Hg). exact Hg.
  - intros Hg. exists (tkey_of t, t). split; auto. now apply (aget_In tkey_eqb tkey_eqb_spec).
Qed.

Lemma keys_of_vals : forall g, GInv g -> map tkey_of (vals (idx g)) = keys (idx g).
Proof.
  intros g H. unfold vals, keys. rewrite map_map. apply map_ext_in.
  intros [k t] Hin. cbn.
  apply (gi_coh g H). now apply (In_aget tkey_eqb tkey_eqb_spec _ _ _ (gi_nd g H)).
Qed.

Lemma NoDup_vals : forall g, GInv g -> NoDup (vals (idx g)).
Proof.
  intros g H. apply (NoDup_map_inv tkey_of). rewrite keys_of_vals; auto. apply (gi_nd g H).
Qed.

Lemma listing_In : forall g t, GInv g -> (In t (listing g) <-> tget (tkey_of t) (idx g) = Some t).
Proof. intros g t H. unfold listing. rewrite sort_In. now apply vals_In. Qed.

Lemma listing_is_listing : forall g sg, GInv g -> Rg g sg -> is_listing sg (listing g).
Proof.
  intros g sg H HR. unfold is_listing. split; [|split].
  - unfold listing. eapply Permutation_NoDup.
    + apply Permutation_map. symmetry. apply sort_perm.
    + rewrite keys_of_vals; auto. apply (gi_nd g H).
  - intros t. rewrite listing_In; auto. now rewrite HR.
  - apply sort_ranked.
Qed.

Lemma NoDup_listing : forall g, GInv g -> NoDup (listing g).
Proof.
  intros g H. unfold listing. eapply Permutation_NoDup; [symmetry; apply sort_perm|]. now apply NoDup_vals.
Qed.

(* ---------------------------------------------------------------- refinement *)
Lemma Rg_add : forall t g sg, Rg g sg -> Rg (add_triple t g) (supd sg (tkey_of t) (Some t)).
Proof.
  intros t g sg H k. unfold supd. cbn. rewrite (aget_aset tkey_eqb tkey_eqb_spec). now rewrite H.
Qed.

Lemma Rg_remove : forall t g sg, Rg g sg -> Rg (remove_triple t g) (supd sg (tkey_of t) None).
Proof.
  intros t g sg H k. unfold supd. cbn. rewrite (aget_adel tkey_eqb tkey_eqb_spec). now rewrite H.
Qed.

Lemma Rg_add_triples : forall ts g sg, Rg g sg -> Rg (add_triples ts g) (sadd ts sg).
Proof.
  unfold add_triples, sadd. induction ts as [|t r IH]; cbn; auto.
  intros g sg H. apply IH. now apply Rg_add.
Qed.

Lemma Rg_remove_triples : forall ts g sg, Rg g sg -> Rg (remove_triples ts g) (sremove ts sg).
Proof.
  unfold remove_triples, sremove. induction ts as [|t r IH]; cbn; auto.
  intros g sg H. apply IH. now apply Rg_remove.
Qed.

Lemma Rg_empty : Rg empty_graph sempty.
Proof. intros k. reflexivity. Qed.

Lemma R_init : R init sinit.
Proof. repeat split; cbn; auto. Qed.

Lemma R_heap_some : forall s a h g, R s a -> aget N.eqb h (heap s) = Some g -> exists sg, sheap a h = Some sg /\ Rg g sg.
Proof.
  intros s a h g [_ [Hh _]] Hg. specialize (Hh h). rewrite Hg in Hh.
  destruct (sheap a h) as [sg|]; [eauto|tauto].
Qed.

Lemma R_heap_none : forall s a h, R s a -> aget N.eqb h (heap s) = None -> sheap a h = None.
Proof.
  intros s a h [_ [Hh _]] Hg. specialize (Hh h). rewrite Hg in Hh.
  destruct (sheap a h); [tauto|auto].
Qed.

Lemma R_set_graph : forall s a h g' sg',
  R s a -> Rg g' sg' ->
  R (set_graph s h g') {| sbinds := sbinds a; sheap := nupd (sheap a) h (Some sg'); snext := snext a |}.
Proof.
  intros s a h g' sg' [Hb [Hh Hn]] Hg. repeat split; cbn; auto.
  intros h'. rewrite (aget_aset N.eqb N.eqb_spec). unfold nupd.
  destruct (N.eqb h' h); auto. apply Hh.
Qed.

Theorem step_refines : forall s a o,
  SInv s -> R s a -> R (fst (step s o)) (sstep a o) /\ sout a o (snd (step s o)).
Proof.
  intros s a o HI HR. pose proof HR as [Hb [Hh Hn]].
  destruct o as [n|n|n| |h ts|h ts|h t|h]; cbn.
  - (* ONew *)
    rewrite <- Hb. destruct (aget N.eqb n (binds s)) as [h|] eqn:E; cbn; auto.
    split; [|now rewrite Hn]. repeat split; cbn.
    + intros n'. rewrite (aget_aset N.eqb N.eqb_spec). unfold nupd. rewrite Hn.
      destruct (N.eqb n' n); auto.
    + intros h'. rewrite (aget_aset N.eqb N.eqb_spec). unfold nupd. rewrite <- Hn.
      destruct (N.eqb h' (next s)); [apply Rg_empty|apply Hh].
    + now rewrite Hn.
  - rewrite <- Hb. destruct (aget N.eqb n (binds s)); cbn; auto.
  - (* ODrop *)
    rewrite <- Hb. destruct (aget N.eqb n (binds s)) as [h|] eqn:E; cbn; auto.
    split; auto. repeat split; cbn; auto.
    intros n'. rewrite (aget_adel N.eqb N.eqb_spec). unfold nupd. destruct (N.eqb n' n); auto.
  - (* ONames *)
    split; auto. exists (keys (binds s)). split; auto. split; [apply (si_bnd s HI)|].
    intros n. rewrite <- Hb. split.
    + intros Hin. apply (in_keys_aget N.eqb N.eqb_spec) in Hin. destruct Hin as [v Hv]. congruence.
    + intros Hne. destruct (aget N.eqb n (binds s)) eqn:E; [|congruence].
      eapply aget_Some_in_keys; eauto. exact N.eqb_spec.
  - (* OAdd *)
    unfold with_graph. destruct (aget N.eqb h (heap s)) as [g|] eqn:E; cbn.
    + destruct (R_heap_some s a h g HR E) as [sg [Es Hg]]. rewrite Es. split; auto.
      apply R_set_graph; auto. now apply Rg_add_triples.
    + rewrite (R_heap_none s a h HR E). auto.
  - (* ORemove *)
    unfold with_graph. destruct (aget N.eqb h (heap s)) as [g|] eqn:E; cbn.
    + destruct (R_heap_some s a h g HR E) as [sg [Es Hg]]. rewrite Es. split; auto.
      apply R_set_graph; auto. now apply Rg_remove_triples.
    + rewrite (R_heap_none s a h HR E). auto.
  - (* OExist *)
    unfold with_graph. destruct (aget N.eqb h (heap s)) as [g|] eqn:E; cbn.
    + destruct (R_heap_some s a h g HR E) as [sg [Es Hg]]. rewrite Es. split; auto.
      unfold exist, amem. rewrite Hg. reflexivity.
    + rewrite (R_heap_none s a h HR E). auto.
  - (* OList *)
    unfold with_graph. destruct (aget N.eqb h (heap s)) as [g|] eqn:E; cbn.
    + destruct (R_heap_some s a h g HR E) as [sg [Es Hg]]. rewrite Es. split; auto.
      exists (listing g). split; auto. apply listing_is_listing; auto.
      now destruct (si_heap s HI h g E).
    + rewrite (R_heap_none s a h HR E). auto.
Qed.

Lemma run_from_app : forall ops1 ops2 s, run_from s (ops1 ++ ops2) = run_from (run_from s ops1) ops2.
Proof. intros. unfold run_from. apply fold_left_app. Qed.

Lemma srun_from_app : forall ops1 ops2 a, srun_from a (ops1 ++ ops2) = srun_from (srun_from a ops1) ops2.
Proof. intros. unfold srun_from. apply fold_left_app. Qed.

Lemma R_run_from : forall ops s a, SInv s -> R s a -> R (run_from s ops) (srun_from a ops).
Proof.
  induction ops as [|o r IH]; cbn; auto.
  intros s a HI HR. apply IH.
  - now apply SInv_step.
  - now apply step_refines.
Qed.

Theorem R_reachable : forall ops, R (run ops) (srun ops).
Proof. intros. apply R_run_from; [apply SInv_init|apply R_init]. Qed.

Theorem refines : forall ops o,
  R (run (ops ++ [o])) (srun (ops ++ [o])) /\ sout (srun ops) o (snd (step (run ops) o)).
Proof.
  intros ops o. split; [apply R_reachable|].
  apply step_refines; [apply SInv_reachable|apply R_reachable].
Qed.
