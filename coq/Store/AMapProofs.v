(* Lemmas about association lists as finite maps. *)
From Coq Require Import List Bool Permutation.
Import ListNotations.
From BWStore Require Import AMap.

Section AMapProofs.
  Context {K V : Type}.
  Variable eqb : K -> K -> bool.
  Hypothesis eqb_spec : forall a b, reflect (a = b) (eqb a b).

  Lemma eqb_refl : forall a, eqb a a = true.
  Proof. intros a. destruct (eqb_spec a a); congruence. Qed.

  Lemma eqb_neq : forall a b, a <> b -> eqb a b = false.
  Proof. intros a b H. destruct (eqb_spec a b); congruence. Qed.

  Notation aget := (aget (V:=V) eqb).
  Notation aset := (aset (V:=V) eqb).
  Notation adel := (adel (V:=V) eqb).

  Lemma aget_aset_eq : forall k v m, aget k (aset k v m) = Some v.
  Proof.
    intros k v m. induction m as [|[k' v'] r IH]; cbn.
    - now rewrite eqb_refl.
    - destruct (eqb k k') eqn:E; cbn; rewrite E; auto.
  Qed.

  Lemma aget_aset_neq : forall k k' v m, k <> k' -> aget k' (aset k v m) = aget k' m.
  Proof.
    intros k k' v m Hn. induction m as [|[k2 v2] r IH]; cbn.
    - rewrite eqb_neq; auto.
    - destruct (eqb k k2) eqn:E; cbn.
      + destruct (eqb_spec k k2); try discriminate. subst k2. rewrite eqb_neq; auto.
      + destruct (eqb k' k2); auto.
  Qed.

  Lemma aget_aset : forall k k' v m, aget k' (aset k v m) = if eqb k' k then Some v else aget k' m.
  Proof.
    intros k k' v m. destruct (eqb_spec k' k).
    - subst. apply aget_aset_eq.
    - apply aget_aset_neq. congruence.
  Qed.

  Lemma aget_adel_eq : forall k m, aget k (adel k m) = None.
  Proof.
    intros k m. induction m as [|[k' v'] r IH]; cbn; auto.
    destruct (eqb k k') eqn:E; cbn; auto. now rewrite E.
  Qed.

  Lemma aget_adel_neq : forall k k' m, k <> k' -> aget k' (adel k m) = aget k' m.
  Proof.
    intros k k' m Hn. induction m as [|[k2 v2] r IH]; cbn; auto.
    destruct (eqb k k2) eqn:E; cbn.
    - destruct (eqb_spec k k2); try discriminate. subst k2. rewrite eqb_neq; auto.
    - destruct (eqb k' k2); auto.
  Qed.

  Lemma aget_adel : forall k k' m, aget k' (adel k m) = if eqb k' k then None else aget k' m.
  Proof.
    intros k k' m. destruct (eqb_spec k' k).
    - subst. apply aget_adel_eq.
    - apply aget_adel_neq. congruence.
  Qed.

  Lemma aget_In : forall k v m, aget k m = Some v -> In (k, v) m.
  Proof.
    intros k v m. induction m as [|[k' v'] r IH]; cbn; try discriminate.
    destruct (eqb_spec k k').
    - intros H. inversion H. subst. now left.
    - intros H. right. auto.
  Qed.

  Lemma aget_None_notin : forall k m, aget k m = None -> ~ In k (keys m).
  Proof.
    intros k m. induction m as [|[k' v'] r IH]; cbn; auto.
    destruct (eqb_spec k k'); try discriminate.
    intros H [E|Hin]; [congruence|]. now apply IH.
  Qed.

  Lemma notin_aget_None : forall k m, ~ In k (keys m) -> aget k m = None.
  Proof.
    intros k m. induction m as [|[k' v'] r IH]; cbn; auto.
    intros H. destruct (eqb_spec k k').
    - subst. exfalso. apply H. now left.
    - apply IH. intros Hin. apply H. now right.
  Qed.

  Lemma In_aget : forall k v m, NoDup (keys m) -> In (k, v) m -> aget k m = Some v.
  Proof.
    intros k v m. induction m as [|[k' v'] r IH]; cbn; [tauto|].
    intros Hnd [E|Hin].
    - inversion E. subst. now rewrite eqb_refl.
    - inversion Hnd as [|? ? Hni Hnd']. subst.
      destruct (eqb_spec k k').
      + subst. exfalso. apply Hni. change k' with (fst (k', v)). now apply in_map.
      + auto.
  Qed.

  Lemma keys_aset_in : forall k v m x, In x (keys (aset k v m)) <-> x = k \/ In x (keys m).
  Proof.
    intros k v m x. induction m as [|[k' v'] r IH]; cbn.
    - intuition.
    - destruct (eqb_spec k k'); cbn.
      + subst. intuition.
      + rewrite IH. intuition.
  Qed.

  Lemma NoDup_keys_aset : forall k v m, NoDup (keys m) -> NoDup (keys (aset k v m)).
  Proof.
    intros k v m. induction m as [|[k' v'] r IH]; cbn; intros Hnd.
    - repeat constructor. intros [].
    - inversion Hnd as [|? ? Hni Hnd']. subst.
      destruct (eqb_spec k k'); cbn.
      + constructor; auto.
      + constructor; auto. intros Hin. apply keys_aset_in in Hin. destruct Hin; [congruence|tauto].
  Qed.

  Lemma keys_adel_in : forall k m x, In x (keys (adel k m)) <-> x <> k /\ In x (keys m).
  Proof.
    intros k m x. induction m as [|[k' v'] r IH]; cbn.
    - intuition.
    - destruct (eqb_spec k k'); cbn.
      + subst. rewrite IH. intuition. congruence.
      + rewrite IH. intuition. congruence.
  Qed.

  Lemma NoDup_keys_adel : forall k m, NoDup (keys m) -> NoDup (keys (adel k m)).
  Proof.
    intros k m. induction m as [|[k' v'] r IH]; cbn; intros Hnd; auto.
    inversion Hnd as [|? ? Hni Hnd']. subst.
    destruct (eqb_spec k k'); cbn; auto.
    constructor; auto. intros Hin. apply keys_adel_in in Hin. tauto.
  Qed.

  Lemma In_adel : forall k m x, In x (adel k m) -> In x m.
  Proof.
    intros k m x. induction m as [|[k' v'] r IH]; cbn; auto.
    destruct (eqb k k'); cbn; intuition.
  Qed.

  Lemma In_aset : forall k v m x, In x (aset k v m) -> x = (k, v) \/ In x m.
  Proof.
    intros k v m x. induction m as [|[k' v'] r IH]; cbn.
    - intuition.
    - destruct (eqb_spec k k'); cbn.
      + subst. intuition.
      + intuition.
  Qed.

  Lemma aset_same : forall k v m, aget k m = Some v -> aset k v m = m.
  Proof.
    intros k v m. induction m as [|[k' v'] r IH]; cbn; try discriminate.
    destruct (eqb_spec k k').
    - intros H. inversion H. now subst.
    - intros H. f_equal. auto.
  Qed.

  Lemma adel_absent : forall k m, aget k m = None -> adel k m = m.
  Proof.
    intros k m. induction m as [|[k' v'] r IH]; cbn; auto.
    destruct (eqb_spec k k'); try discriminate.
    intros H. f_equal. auto.
  Qed.

  Lemma aget_Some_in_keys : forall k v m, aget k m = Some v -> In k (keys m).
  Proof.
    intros k v m H. apply aget_In in H. change k with (fst (k, v)). now apply in_map.
  Qed.

  Lemma in_keys_aget : forall k m, In k (keys m) -> exists v, aget k m = Some v.
  Proof.
    intros k m H. destruct (aget k m) eqn:E; eauto.
    apply aget_None_notin in E. tauto.
  Qed.

  Lemma adel_nil_aget : forall k m, adel k m = [] -> forall k', aget k' m = if eqb k' k then aget k' m else None.
  Proof.
    intros k m H k'. destruct (eqb_spec k' k); auto.
    rewrite <- (aget_adel_neq k k' m) by congruence. now rewrite H.
  Qed.
End AMapProofs.
