(* C01 — a store is a map from graph names to independent sets of triples.
   Model: BWStore.Store (memoryStore + memory of storage/memory/memory.go: master index + six secondary indexes).
   Spec:  BWStore.StoreSpec (name -> generation number -> partial function from triple keys to the stored triple).
   All statements quantify over every finite operation list (run ops = the state after ops from the empty store). *)
From Coq Require Import List NArith ZArith Bool.
Import ListNotations.
From BWStore Require Import AMap Store StoreSpec StoreProofs StoreFrame.

(* ---- invariant: in every reachable state every secondary bucket is the projection of the master index ---------- *)
Theorem C01_inv_reachable : forall ops h g, graph_of (run ops) h = Some g ->
  let master k := aget tkey_eqb k (idx g) in
  (forall k t, master k = Some t -> tkey_of t = k) /\ NoDup (keys (idx g)) /\
  (forall x k, aget tkey_eqb k (bget N.eqb x (idxS g))  = if N.eqb (kS k) x then master k else None) /\
  (forall x k, aget tkey_eqb k (bget N.eqb x (idxP g))  = if N.eqb (kP k) x then master k else None) /\
  (forall x k, aget tkey_eqb k (bget okey_eqb x (idxO g)) = if okey_eqb (kO k) x then master k else None) /\
  (forall x k, aget tkey_eqb k (bget nn_eqb x (idxSP g)) = if nn_eqb (kSP k) x then master k else None) /\
  (forall x k, aget tkey_eqb k (bget no_eqb x (idxPO g)) = if no_eqb (kPO k) x then master k else None) /\
  (forall x k, aget tkey_eqb k (bget no_eqb x (idxSO g)) = if no_eqb (kSO k) x then master k else None).
Proof.
  intros ops h g Hg. destruct (GInv_reachable ops h g Hg). cbv zeta. repeat split; assumption.
Qed.
Print Assumptions C01_inv_reachable.

(* store level: names are bound at most once, to allocated and pairwise different graph objects *)
Theorem C01_store_inv_reachable : forall ops,
  NoDup (keys (binds (run ops))) /\ NoDup (keys (heap (run ops))) /\
  (forall n h, aget N.eqb n (binds (run ops)) = Some h -> graph_of (run ops) h <> None) /\
  (forall n1 n2 h, aget N.eqb n1 (binds (run ops)) = Some h -> aget N.eqb n2 (binds (run ops)) = Some h -> n1 = n2).
Proof.
  intros ops. destruct (SInv_reachable ops). repeat split; auto.
  intros n h Hb. now destruct (si_bound n h Hb).
Qed.
Print Assumptions C01_store_inv_reachable.

(* the pair buckets never stay behind empty (memory.go deletes them), a fidelity detail of RemoveTriples *)
Theorem C01_no_empty_pair_buckets : forall ops h g, graph_of (run ops) h = Some g ->
  (forall x b, In (x, b) (idxSP g) -> b <> []) /\ (forall x b, In (x, b) (idxPO g) -> b <> []) /\
  (forall x b, In (x, b) (idxSO g) -> b <> []).
Proof. intros ops h g Hg. destruct (GInv_reachable ops h g Hg). auto. Qed.
Print Assumptions C01_no_empty_pair_buckets.

(* ---- refinement: after any history the model state abstracts to the spec state, and the answer the model gives
        to ANY next operation (names, get error or handle, exist, full listing, ok/error of updates) is a correct
        answer of the spec ---------------------------------------------------------------------------------------- *)
Theorem C01_refines : forall ops o,
  R (run ops) (srun ops) /\ sout (srun ops) o (snd (step (run ops) o)).
Proof.
  intros ops o. split; [apply R_reachable|].
  apply step_refines; [apply SInv_reachable|apply R_reachable].
Qed.
Print Assumptions C01_refines.

(* the two observers spelled out on a live graph: existence test and full listing reflect exactly the set *)
Theorem C01_exist_and_listing : forall ops h sg, sheap (srun ops) h = Some sg ->
  (forall t, snd (step (run ops) (OExist h t)) = RBool (is_some (sg (tkey_of t)))) /\
  (exists l, snd (step (run ops) (OList h)) = RTriples l /\
             NoDup (map tkey_of l) /\ (forall t, In t l <-> sg (tkey_of t) = Some t) /\ ranked l).
Proof.
  intros ops h sg Hs. split.
  - intros t. pose proof (proj2 (C01_refines ops (OExist h t))) as H. cbn in H. now rewrite Hs in H.
  - pose proof (proj2 (C01_refines ops (OList h))) as H. cbn in H. rewrite Hs in H. exact H.
Qed.
Print Assumptions C01_exist_and_listing.

(* what a batch does to the set, declaratively: union (last representative of a key wins) and difference *)
Theorem C01_batch_content : forall ts sg k,
  sadd ts sg k = match find (fun t => tkey_eqb k (tkey_of t)) (rev ts) with Some t => Some t | None => sg k end /\
  sremove ts sg k = if existsb (fun t => tkey_eqb k (tkey_of t)) ts then None else sg k.
Proof. intros. split; [apply sadd_spec|apply sremove_spec]. Qed.
Print Assumptions C01_batch_content.

(* ---- frame conditions ------------------------------------------------------------------------------------------- *)
Theorem C01_frame_update : forall ops h h' ts, h <> h' ->
  (graph_of (run (ops ++ [OAdd h ts])) h' = graph_of (run ops) h' /\ binds (run (ops ++ [OAdd h ts])) = binds (run ops)) /\
  (graph_of (run (ops ++ [ORemove h ts])) h' = graph_of (run ops) h' /\ binds (run (ops ++ [ORemove h ts])) = binds (run ops)).
Proof. exact frame_update. Qed.
Print Assumptions C01_frame_update.

Theorem C01_frame_names : forall ops n,
  (forall h g, graph_of (run ops) h = Some g -> graph_of (run (ops ++ [ONew n])) h = Some g) /\
  (forall h, graph_of (run (ops ++ [ODrop n])) h = graph_of (run ops) h) /\
  (forall n', n' <> n -> aget N.eqb n' (binds (run (ops ++ [ONew n]))) = aget N.eqb n' (binds (run ops)) /\
                         aget N.eqb n' (binds (run (ops ++ [ODrop n]))) = aget N.eqb n' (binds (run ops))).
Proof. exact frame_names. Qed.
Print Assumptions C01_frame_names.

(* ---- failing operations and idempotent updates have no effect --------------------------------------------------- *)
Theorem C01_error_no_effect : forall ops o, snd (step (run ops) o) = RErr -> fst (step (run ops) o) = run ops.
Proof. intros ops o. apply error_no_effect. Qed.
Print Assumptions C01_error_no_effect.

Theorem C01_which_fail : forall ops n,
  (In n (keys (binds (run ops))) -> step (run ops) (ONew n) = (run ops, RErr)) /\
  (~ In n (keys (binds (run ops))) ->
     step (run ops) (OGet n) = (run ops, RErr) /\ step (run ops) (ODrop n) = (run ops, RErr)).
Proof. intros ops n. split; [apply create_existing_fails|apply get_drop_missing_fail]. Qed.
Print Assumptions C01_which_fail.

Theorem C01_readd_no_effect : forall ops h g ts, graph_of (run ops) h = Some g ->
  (forall t, In t ts -> aget tkey_eqb (tkey_of t) (idx g) = Some t) ->
  step (run ops) (OAdd h ts) = (run ops, ROk).
Proof. exact readd_no_effect. Qed.
Print Assumptions C01_readd_no_effect.

Theorem C01_remove_absent_no_effect : forall ops h g ts, graph_of (run ops) h = Some g ->
  (forall t, In t ts -> aget tkey_eqb (tkey_of t) (idx g) = None) ->
  step (run ops) (ORemove h ts) = (run ops, ROk).
Proof. exact remove_absent_no_effect. Qed.
Print Assumptions C01_remove_absent_no_effect.

(* ---- a dropped and re-created graph starts empty; the old handle keeps the old object, not the new one --------- *)
Theorem C01_recreate_empty : forall ops n h, aget N.eqb n (binds (run ops)) = Some h ->
  let s' := run (ops ++ [ODrop n; ONew n]) in
  exists h', step s' (OGet n) = (s', RHandle h') /\ h' <> h /\
             graph_of s' h' = Some empty_graph /\
             step s' (OList h') = (s', RTriples []) /\
             graph_of s' h = graph_of (run ops) h.
Proof. exact recreate_empty. Qed.
Print Assumptions C01_recreate_empty.

(* ---- identity: two triples have the same key exactly when subject, predicate (id, kind, instant) and object agree
        in kind and value.  The key is the pre-image of the UUID memory.go uses; that different keys have different
        UUIDs is property C06 (checked by the harness on every generated universe), so this clause is proved on keys.
        The instant enters the key as [uns] = Time.UnixNano() as Go computes it, which is the instant itself between
        1677-09-21 and 2262-04-11 and wraps outside (two such instants 2^64 ns apart are the same key: a C06 matter). *)
Theorem C01_identity_on_keys : forall t1 t2,
  tkey_of t1 = tkey_of t2 <->
  tsub t1 = tsub t2 /\
  (pid (tpred t1) = pid (tpred t2) /\
   match panchor (tpred t1), panchor (tpred t2) with
   | None, None => True | Some a, Some b => uns a = uns b | _, _ => False end) /\
  same_obj (tobj t1) (tobj t2).
Proof. exact tkey_identity. Qed.
Print Assumptions C01_identity_on_keys.

(* ---- non-vacuity: a concrete history with duplicates, a zone variant, a drop and a re-creation ------------------ *)
Definition ex_t1 := {| tsub := 0; tpred := {| pid := 0; panchor := None |}; tobj := ONode 1; trank := 0 |}.
Definition ex_t2 := {| tsub := 0; tpred := {| pid := 0; panchor := Some {| ns := 5; off := 0; uns := 5 |} |}; tobj := ONode 1; trank := 1 |}.
Definition ex_t2z := {| tsub := 0; tpred := {| pid := 0; panchor := Some {| ns := 5; off := 3600; uns := 5 |} |}; tobj := ONode 1; trank := 2 |}.
Example C01_nonvacuous :
  snd (step (run [ONew 7; OAdd 0 [ex_t1; ex_t2; ex_t1]; OAdd 0 [ex_t2z]; ORemove 0 [ex_t1]]) (OList 0)) = RTriples [ex_t2z]
  /\ snd (step (run [ONew 7; OAdd 0 [ex_t1]; ODrop 7; ONew 7]) (OGet 7)) = RHandle 1
  /\ snd (step (run [ONew 7; OAdd 0 [ex_t1]; ODrop 7; ONew 7]) (OList 1)) = RTriples []
  /\ snd (step (run [ONew 7; OAdd 0 [ex_t1]; ODrop 7; ONew 7]) (OList 0)) = RTriples [ex_t1].
Proof. vm_compute. repeat split. Qed.

(* ---- history independence: the existence test and the full listing of a graph object depend only on the set it
        holds (the rank hypothesis says that the order of Triple.String() identifies the stored triple) ------------- *)
Theorem C01_history_independent : forall ops1 ops2 h1 h2 g1 g2,
  graph_of (run ops1) h1 = Some g1 -> graph_of (run ops2) h2 = Some g2 ->
  (forall k, aget tkey_eqb k (idx g1) = aget tkey_eqb k (idx g2)) ->
  (forall a b, In a (listing g1) -> In b (listing g1) -> trank a = trank b -> a = b) ->
  (forall t, snd (step (run ops1) (OExist h1 t)) = snd (step (run ops2) (OExist h2 t))) /\
  snd (step (run ops1) (OList h1)) = snd (step (run ops2) (OList h2)).
Proof. exact observers_history_independent. Qed.
Print Assumptions C01_history_independent.
