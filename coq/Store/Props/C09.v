(* placeholder until the proofs are in: keeps the check runnable while the model is validated *)
From BWStore Require Import Store Lookup LookupSpec.
