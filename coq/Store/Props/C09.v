(* C09 — lookup options: time window, filter functions and paging select as defined.
   Model: the options-dependent half of BWStore.Lookup (checker.CheckGlobalTimeBounds, isImmutable/isTemporal/latest
   filters, LatestAnchor, the CheckLimitAndUpdate counters); Spec: BWStore.LookupSpec.
   [lookup] = working tree (after fixes F6, F19); [lookup_v] with v_inst = false = the filter functions before F19. *)
From Coq Require Import List NArith ZArith Bool Permutation.
Import ListNotations.
From BWStore Require Import AMap Store StoreSpec StoreProofs Lookup LookupSpec PageProofs LookupProofs LookupMain.

(* ---- window: closed interval, absent side unbounded, immutable always kept ---------------------------------------- *)
Theorem C09_in_window_meaning : forall lo p,
  in_window lo p = true <->
  match panchor p with
  | None => True
  | Some t => (forall l, lo_lower lo = Some l -> (l <= ns t)%Z) /\ (forall u, lo_upper lo = Some u -> (ns t <= u)%Z)
  end.
Proof.
  intros lo p. unfold in_window. destruct (panchor p) as [t|]; [|tauto].
  rewrite andb_true_iff. destruct (lo_lower lo) as [l|]; destruct (lo_upper lo) as [u|];
    rewrite ?Z.leb_le; split; intros H.
  - destruct H. split; intros x E; inversion E; now subst.
  - destruct H as [H1 H2]. split; auto.
  - destruct H. split; intros x E; inversion E; now subst.
  - destruct H as [H1 H2]. split; auto.
  - destruct H. split; intros x E; inversion E; now subst.
  - destruct H as [H1 H2]. split; auto.
  - split; intros x E; inversion E.
  - auto.
Qed.
Print Assumptions C09_in_window_meaning.

(* the bounds step of the code is the window filter; with a predicate argument it additionally demands the same
   kind and, for temporal predicates, the same instant *)
Theorem C09_window : forall lo l,
  apply_bounds current None lo l = filter (fun t => in_window lo (tpred t)) l.
Proof. exact window_is_bounds. Qed.
Print Assumptions C09_window.

Theorem C09_window_with_predicate : forall q lo p,
  check_bounds current (Some q) lo p =
  (Bool.eqb (is_temporal q) (is_temporal p) &&
   match panchor q, panchor p with Some a, Some b => Z.eqb (ns a) (ns b) | _, _ => true end) && in_window lo p.
Proof. intros. apply (check_bounds_split (Some q)). Qed.
Print Assumptions C09_window_with_predicate.

(* ---- isImmutable / isTemporal: exactly the candidates whose predicate (or predicate-valued object) has that kind -- *)
Theorem C09_kind_filters : forall qp temporal f X t,
  (forall x, In x X -> query_pred_ok current qp x = true) ->
  (In t (kind_filter current temporal qp f X) <->
   In t X /\ exists p, fsel f t = Some p /\ is_temporal p = temporal).
Proof.
  intros qp temporal f X t Hq. rewrite (kind_filter_In qp temporal f X t Hq). unfold has_kind.
  split; intros [Hin H]; split; auto.
  - destruct (fsel f t) as [p|]; [|discriminate]. exists p. split; auto. now apply Bool.eqb_prop.
  - destruct H as [p [E Ek]]. rewrite E, Ek. apply Bool.eqb_reflx.
Qed.
Print Assumptions C09_kind_filters.

(* ---- latest: per predicate id the temporal candidates with the greatest anchor; every tie is kept; nothing else -- *)
Theorem C09_latest : forall qp f X t,
  NoDup X -> (forall x, In x X -> query_pred_ok current qp x = true) ->
  (In t (latest_filter current qp f X) <->
   In t X /\ exists p a, fsel f t = Some p /\ panchor p = Some a /\
     forall t' p' a', In t' X -> fsel f t' = Some p' -> panchor p' = Some a' -> pid p' = pid p -> (ns a' <= ns a)%Z).
Proof.
  intros qp f X t Hnd Hq. rewrite (latest_filter_In qp f X t Hnd Hq). now rewrite is_latest_iff.
Qed.
Print Assumptions C09_latest.

(* after the bucket and the bounds the "is it the query predicate" test inside the filter functions is redundant *)
Theorem C09_filter_query_test_redundant : forall q t,
  matches q t = true -> query_pred_ok current (q_flt_pred q) t = true.
Proof. exact query_pred_redundant. Qed.
Print Assumptions C09_filter_query_test_redundant.

(* LatestAnchor is the latest filter on the predicate field; together with FilterOptions it is an error *)
Theorem C09_latest_anchor : forall lo,
  lo_latest lo = true ->
  effective_filter lo = match lo_filter lo with Some _ => inr ELatestAndFilter | None => inl (Some (FLatest, FPredicate)) end.
Proof. intros lo H. unfold effective_filter. now rewrite H. Qed.
Print Assumptions C09_latest_anchor.

(* ---- the whole pipeline, in the documented order (bounds, then filter, then limit), equals the specification for
        every reachable graph, every lookup kind, every argument tuple and every options value (errors included) ---- *)
Theorem C09_pipeline : forall U ops h g q lo,
  (forall a b, In a U -> In b U -> trank a = trank b -> a = b) ->
  (forall o t, In o ops -> In t (match o with OAdd _ ts => ts | _ => [] end) -> In t U) ->
  graph_of (run ops) h = Some g ->
  lookup q lo g =
  match (let w := filter (fun t => in_window lo (tpred t)) (filter (matches q) (listing g)) in
         match effective_filter lo with
         | inr e => inr e
         | inl None => inl w
         | inl (Some fo) => spec_filter fo w
         end) with
  | inr e => LErr e
  | inl l => LOk (map (q_proj q) (spec_page lo l))
  end.
Proof. intros U ops h g q lo Hf Hw Hg. exact (lookup_eq_spec_reachable U ops h g q lo Hf Hw Hg). Qed.
Print Assumptions C09_pipeline.

(* ---- paging ------------------------------------------------------------------------------------------------------- *)
(* the counters of the checker implement the declarative page for ALL integer values of MaxElements and Offset;
   skip_count is newChecker's paddedPageSize (after fix F23: saturated when the product of two positive ints overflows) *)
Theorem C09_page_characterised : forall (A : Type) lo (l : list A),
  page lo l =
  if (lo_max lo >? 0)%Z then firstn (Z.to_nat (lo_max lo)) (skipn (Z.to_nat (skip_count (lo_max lo) (lo_offset lo))) l)
  else skipn (Z.to_nat (skip_count (lo_max lo) (lo_offset lo))) l.
Proof. exact page_is_spec_page. Qed.
Print Assumptions C09_page_characterised.

(* what the skip count is for a positive page size and a non-negative offset (both in the range of Go's int):
   n * k when that fits in an int, and MaxInt - beyond the end of every possible result - when it does not *)
Theorem C09_skip_count_meaning : forall n k,
  (0 < n < 9223372036854775808)%Z -> (0 <= k < 9223372036854775808)%Z ->
  ((n * k < 9223372036854775808)%Z -> skip_count n k = (n * k)%Z) /\
  ((9223372036854775808 <= n * k)%Z -> skip_count n k = 9223372036854775807%Z).
Proof. exact skip_count_spec. Qed.
Print Assumptions C09_skip_count_meaning.

(* page size n > 0, offset k: the k-th block of n elements of the unpaged result - for EVERY page size and offset that
   a Go int can hold and every result shorter than 2^63 *)
Theorem C09_page_block : forall q lo g l (n : Z) (k : nat),
  (0 < n < 9223372036854775808)%Z -> (Z.of_nat k < 9223372036854775808)%Z ->
  (Z.of_nat (length l) < 9223372036854775808)%Z ->
  lookup q (unpaged lo) g = LOk l ->
  lookup q (with_page lo n (Z.of_nat k)) g = LOk (firstn (Z.to_nat n) (skipn (Z.to_nat n * k) l)).
Proof. exact page_of_unpaged. Qed.
Print Assumptions C09_page_block.

(* consecutive pages are disjoint segments and their concatenation is the unpaged result, for every n > 0 and every
   number of pages K that covers the result *)
Theorem C09_pages_partition : forall q lo g l (n : Z) (K : nat),
  (0 < n < 9223372036854775808)%Z -> (Z.of_nat K < 9223372036854775808)%Z ->
  (Z.of_nat (length l) < 9223372036854775808)%Z ->
  lookup q (unpaged lo) g = LOk l -> (length l <= Z.to_nat n * K)%nat ->
  concat (map (fun k => results (lookup q (with_page lo n (Z.of_nat k)) g)) (seq 0 K)) = l.
Proof. exact pages_partition. Qed.
Print Assumptions C09_pages_partition.

(* before fix F23 the product MaxElements * Offset simply wrapped: MaxElements = Offset = 2^32 gave skip count 0, so
   page number 2^32 of a one-element result returned that element.  With the fix that page is empty: *)
Theorem C09_page_overflow_fixed :
  wrap64 (4294967296 * 4294967296) = 0%Z /\
  page (with_page default_lo 4294967296 4294967296) [7%N] = [].
Proof. vm_compute. split; reflexivity. Qed.
Print Assumptions C09_page_overflow_fixed.

(* paging never changes whether the lookup fails *)
Theorem C09_paged_error_iff : forall q lo g n k e,
  lookup q (with_page lo n k) g = LErr e <-> lookup q (unpaged lo) g = LErr e.
Proof. exact paged_error_iff. Qed.
Print Assumptions C09_paged_error_iff.

(* ---- before fix F19 (commit e13c36f): the filter functions compared Predicate.String() --------------------------- *)
Definition z_stored := {| tsub := 0; tpred := {| pid := 0; panchor := Some {| ns := 5; off := 10800; uns := 5 |} |}; tobj := ONode 2; trank := 0 |}.
Definition z_ops := [ONew 0; OAdd 0 [z_stored]].
Definition z_query := QTrP {| pid := 0; panchor := Some {| ns := 5; off := 0; uns := 5 |} |}.   (* same instant, written in UTC *)
Definition z_lo := {| lo_max := 0; lo_lower := None; lo_upper := None; lo_latest := false;
                      lo_filter := Some (FIsTemporal, FPredicate); lo_offset := 0 |}.

Theorem C09_unfixed_zone_refuted : exists ops h g q lo,
  graph_of (run ops) h = Some g /\
  lookup_v {| v_kind := true; v_inst := false |} q default_lo g = LOk [RsTriple z_stored] /\
  lookup_v {| v_kind := true; v_inst := false |} q lo g = LOk [] /\
  spec_lookup q lo g = LOk [RsTriple z_stored].
Proof.
  exists z_ops, 0%N. eexists. exists z_query, z_lo.
  split; [vm_compute; reflexivity|]. vm_compute. auto.
Qed.
Print Assumptions C09_unfixed_zone_refuted.

(* ---- non-vacuity: window boundary, latest with a tie, LatestAnchor, pages ------------------------------------------ *)
Definition e1 := {| tsub := 0; tpred := {| pid := 0; panchor := Some {| ns := 5; off := 0; uns := 5 |} |}; tobj := ONode 1; trank := 0 |}.
Definition e2 := {| tsub := 0; tpred := {| pid := 0; panchor := Some {| ns := 9; off := 0; uns := 9 |} |}; tobj := ONode 1; trank := 1 |}.
Definition e3 := {| tsub := 0; tpred := {| pid := 0; panchor := Some {| ns := 9; off := 3600; uns := 9 |} |}; tobj := ONode 2; trank := 2 |}.
Definition e4 := {| tsub := 0; tpred := {| pid := 1; panchor := None |}; tobj := ONode 1; trank := 3 |}.
Definition e_ops := [ONew 0; OAdd 0 [e3; e1; e4; e2]].
Definition mk (m : Z) (l u : option Z) (la : bool) (f : option (fop * ffield)) (o : Z) := Build_lopts m l u la f o.
Example C09_nonvacuous : forall g, graph_of (run e_ops) 0 = Some g ->
  lookup QAll (mk 0 (Some 5%Z) (Some 8%Z) false None 0) g = LOk [RsTriple e1; RsTriple e4] /\
  lookup QAll (mk 0 (Some 9%Z) (Some 5%Z) false None 0) g = LOk [RsTriple e4] /\
  lookup QAll (mk 0 None None false (Some (FLatest, FPredicate)) 0) g = LOk [RsTriple e2; RsTriple e3] /\
  lookup QAll (mk 0 None (Some 8%Z) true None 0) g = LOk [RsTriple e1] /\
  lookup QAll (mk 0 None None true (Some (FLatest, FPredicate)) 0) g = LErr ELatestAndFilter /\
  lookup QAll (mk 0 None None false (Some (FLatest, FSubject)) 0) g = LErr EBadField /\
  lookup QAll (mk 3 None None false None 1) g = LOk [RsTriple e4] /\
  lookup QAll (mk (-1) None None false None (-1)) g = LOk [RsTriple e2; RsTriple e3; RsTriple e4] /\
  (* second page of size 3 *)
  lookup QAll (with_page (mk 0 None None false None 0) 3 (Z.of_nat 1)) g = LOk [RsTriple e4].
Proof. intros g Hg. vm_compute in Hg. inversion Hg. subst g. vm_compute. repeat split. Qed.

(* the latest filter ranges over a Go map in the code and over a list in the model: the selected set is the same
   for every order of the candidates *)
Theorem C09_latest_order_independent : forall qp f X X' t,
  Permutation X X' -> NoDup X -> (forall x, In x X -> query_pred_ok current qp x = true) ->
  (In t (latest_filter current qp f X) <-> In t (latest_filter current qp f X')).
Proof. exact latest_order_independent. Qed.
Print Assumptions C09_latest_order_independent.

(* the order of the pipeline matters: taking the latest BEFORE applying the window is a different function, so
   C09_pipeline (window first) is a real constraint *)
Theorem C09_order_matters : exists lo X,
  window lo (filter (is_latest FPredicate X) X) <>
  filter (is_latest FPredicate (window lo X)) (window lo X).
Proof.
  exists (mk 0 None (Some 8%Z) false None 0), [e1; e2]. vm_compute. discriminate.
Qed.
Print Assumptions C09_order_matters.
