(* C02 — every indexed lookup returns exactly what a scan of the graph would return.
   Model: BWStore.Lookup (the ten lookups of storage/memory/memory.go + Triples(), one parametrised function);
   Spec:  BWStore.LookupSpec.  [lookup] is the behaviour of the working tree (after fix F6: CheckGlobalTimeBounds
   compares kinds); [lookup_v legacy] is the behaviour before the fix and is refuted below. *)
From Coq Require Import List NArith ZArith Bool Permutation.
Import ListNotations.
From BWStore Require Import AMap Store StoreSpec StoreProofs Lookup LookupSpec PageProofs LookupProofs LookupMain.

(* what "a predicate handed to a lookup matches a stored predicate" means *)
Theorem C02_pmatch_meaning : forall q p,
  pmatch q p = true <->
  pid q = pid p /\ is_temporal q = is_temporal p /\
  (forall a b, panchor q = Some a -> panchor p = Some b -> ns a = ns b).
Proof.
  intros q p. unfold pmatch, is_temporal. rewrite andb_true_iff, N.eqb_eq.
  destruct (panchor q) as [a|]; destruct (panchor p) as [b|]; split; intros H.
  - destruct H as [H1 H2]. apply Z.eqb_eq in H2. repeat split; auto. intros a' b' Ea Eb. inversion Ea. inversion Eb. now subst.
  - destruct H as [H1 [_ H3]]. split; auto. apply Z.eqb_eq. now apply H3.
  - destruct H; discriminate.
  - destruct H as [_ [H _]]. discriminate.
  - destruct H; discriminate.
  - destruct H as [_ [H _]]. discriminate.
  - destruct H. repeat split; auto. intros; discriminate.
  - destruct H. auto.
Qed.
Print Assumptions C02_pmatch_meaning.

(* the main statement: in every state reachable by any history over a universe on which the rank (order of
   Triple.String()) identifies the triple, every lookup kind with every argument tuple returns, with default options,
   exactly the projections of the stored triples whose fixed components equal the given ones, in listing order *)
Theorem C02_lookup_is_scan : forall U ops h g q,
  (forall a b, In a U -> In b U -> trank a = trank b -> a = b) ->
  (forall o t, In o ops -> In t (match o with OAdd _ ts => ts | _ => [] end) -> In t U) ->
  graph_of (run ops) h = Some g ->
  lookup q default_lo g = LOk (map (q_proj q) (filter (matches q) (listing g))).
Proof.
  intros U ops h g q Hf Hw Hg. apply lookup_default_is_scan.
  - eapply GInv_reachable; eauto.
  - eapply rank_inj_reachable; eauto.
Qed.
Print Assumptions C02_lookup_is_scan.

(* the same for any graph that satisfies the index invariant (C01_inv_reachable) *)
Theorem C02_lookup_is_scan_inv : forall g q, GInv g ->
  (forall a b, In a (listing g) -> In b (listing g) -> trank a = trank b -> a = b) ->
  lookup q default_lo g = LOk (map (q_proj q) (filter (matches q) (listing g))).
Proof. exact lookup_default_is_scan. Qed.
Print Assumptions C02_lookup_is_scan_inv.

(* as multisets, for every reachable graph and WITHOUT any hypothesis on the rank (the order of Triple.String()) *)
Theorem C02_lookup_is_scan_multiset : forall ops h g q, graph_of (run ops) h = Some g ->
  exists l, lookup q default_lo g = LOk l /\
            Permutation l (map (q_proj q) (filter (matches q) (listing g))).
Proof. intros ops h g q Hg. apply lookup_default_perm. eapply GInv_reachable; eauto. Qed.
Print Assumptions C02_lookup_is_scan_multiset.

(* history independence: two reachable graphs (of any two histories) holding the same set answer every lookup, with
   every options value, identically *)
Theorem C02_history_independent : forall U ops1 h1 g1 ops2 h2 g2 q lo,
  (forall a b, In a U -> In b U -> trank a = trank b -> a = b) ->
  (forall o t, In o ops1 -> In t (match o with OAdd _ ts => ts | _ => [] end) -> In t U) ->
  graph_of (run ops1) h1 = Some g1 -> graph_of (run ops2) h2 = Some g2 ->
  (forall k, aget tkey_eqb k (idx g1) = aget tkey_eqb k (idx g2)) ->
  lookup q lo g1 = lookup q lo g2.
Proof.
  intros U ops1 h1 g1 ops2 h2 g2 q lo Hf Hw Hg1 Hg2 Hsame. apply lookup_history_independent; auto.
  - eapply GInv_reachable; eauto.
  - eapply GInv_reachable; eauto.
  - eapply rank_inj_reachable; eauto.
Qed.
Print Assumptions C02_history_independent.

(* one result per stored matching triple: the results are in bijection (by position) with the matching members of
   the listing, and the listing holds each stored triple once *)
Theorem C02_one_result_per_triple : forall U ops h g q l,
  (forall a b, In a U -> In b U -> trank a = trank b -> a = b) ->
  (forall o t, In o ops -> In t (match o with OAdd _ ts => ts | _ => [] end) -> In t U) ->
  graph_of (run ops) h = Some g ->
  lookup q default_lo g = LOk l ->
  length l = length (filter (matches q) (listing g)) /\ NoDup (listing g) /\
  (forall t, In t (listing g) <-> aget tkey_eqb (tkey_of t) (idx g) = Some t).
Proof.
  intros U ops h g q l Hf Hw Hg Hl.
  rewrite (C02_lookup_is_scan U ops h g q Hf Hw Hg) in Hl. inversion Hl. subst l.
  pose proof (GInv_reachable ops h g Hg) as HI.
  split; [now rewrite map_length|]. split; [now apply NoDup_listing|]. intros t. now apply listing_In.
Qed.
Print Assumptions C02_one_result_per_triple.

(* no ghosts, with ANY options: every result is the projection of a triple that is stored now and matches *)
Theorem C02_no_ghosts : forall U ops h g q lo r,
  (forall a b, In a U -> In b U -> trank a = trank b -> a = b) ->
  (forall o t, In o ops -> In t (match o with OAdd _ ts => ts | _ => [] end) -> In t U) ->
  graph_of (run ops) h = Some g ->
  In r (results (lookup q lo g)) ->
  exists t, r = q_proj q t /\ aget tkey_eqb (tkey_of t) (idx g) = Some t /\ matches q t = true.
Proof.
  intros U ops h g q lo r Hf Hw Hg. apply no_ghosts.
  - eapply GInv_reachable; eauto.
  - eapply rank_inj_reachable; eauto.
Qed.
Print Assumptions C02_no_ghosts.

(* "...or is no longer stored": after RemoveTriples(ts), for every lookup kind, argument tuple and options value, no
   result comes from a triple with the key of a removed one *)
Theorem C02_removed_never_returned : forall U ops h g0 g ts t q lo r,
  (forall a b, In a U -> In b U -> trank a = trank b -> a = b) ->
  (forall o x, In o ops -> In x (match o with OAdd _ ts => ts | _ => [] end) -> In x U) ->
  graph_of (run ops) h = Some g0 ->
  graph_of (run (ops ++ [ORemove h ts])) h = Some g ->
  In t ts -> In r (results (lookup q lo g)) ->
  exists t', r = q_proj q t' /\ aget tkey_eqb (tkey_of t') (idx g) = Some t' /\ tkey_of t' <> tkey_of t.
Proof. exact removed_never_returned. Qed.
Print Assumptions C02_removed_never_returned.

(* the bucket chosen by each lookup is exactly the part of the master index with those key components *)
Theorem C02_bucket_is_projection : forall ops h g q k, graph_of (run ops) h = Some g ->
  aget tkey_eqb k (q_bucket q g) = if kmatch q k then aget tkey_eqb k (idx g) else None.
Proof. intros ops h g q k Hg. apply bucket_get. eapply GInv_reachable; eauto. Qed.
Print Assumptions C02_bucket_is_projection.

(* ---- before fix F6 (commit 4c0004f in /repo): the kind of the given predicate was ignored ------------------------ *)
Definition w_temporal := {| tsub := 0; tpred := {| pid := 0; panchor := Some {| ns := 5; off := 0; uns := 5 |} |}; tobj := ONode 2; trank := 0 |}.
Definition w_immutable := {| tsub := 0; tpred := {| pid := 0; panchor := None |}; tobj := ONode 3; trank := 1 |}.
Definition w_ops := [ONew 0; OAdd 0 [w_temporal; w_immutable]].

Theorem C02_unfixed_kind_refuted : exists ops h g q,
  graph_of (run ops) h = Some g /\
  lookup_v legacy q default_lo g <> LOk (map (q_proj q) (filter (matches q) (listing g))).
Proof.
  exists w_ops, 0%N. eexists. exists (QObjects 0 {| pid := 0; panchor := None |}).
  split; [vm_compute; reflexivity|]. vm_compute. discriminate.
Qed.
Print Assumptions C02_unfixed_kind_refuted.

(* non-vacuity: the hypotheses hold for a concrete universe and history, and the lookups distinguish the kinds *)
Example C02_nonvacuous :
  (forall a b, In a [w_temporal; w_immutable] -> In b [w_temporal; w_immutable] -> trank a = trank b -> a = b) /\
  (forall o t, In o w_ops -> In t (match o with OAdd _ ts => ts | _ => [] end) -> In t [w_temporal; w_immutable]) /\
  (forall g, graph_of (run w_ops) 0 = Some g ->
     lookup (QObjects 0 {| pid := 0; panchor := None |}) default_lo g = LOk [RsObj (ONode 3)] /\
     lookup (QObjects 0 {| pid := 0; panchor := Some {| ns := 5; off := 7200; uns := 5 |} |}) default_lo g = LOk [RsObj (ONode 2)] /\
     lookup (QTrS 0) default_lo g = LOk [RsTriple w_temporal; RsTriple w_immutable]).
Proof.
  split; [|split].
  - intros a b [Ha|[Ha|[]]] [Hb|[Hb|[]]] E; subst; auto; discriminate.
  - intros o t [Ho|[Ho|[]]] Ht; subst; cbn in *; tauto.
  - intros g Hg. vm_compute in Hg. inversion Hg. subst g. vm_compute. auto.
Qed.
