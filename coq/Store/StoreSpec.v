(* SPEC for C01: a store is a map from graph names to independent sets of triples.
   A set of triples is a partial function from triple keys to the stored representative (at most one per key);
   graph objects are addressed by a generation number so that "a handle obtained before a drop no longer reaches the
   re-created graph" can be said.  Operations are map update, union and difference; outputs are specified
   declaratively (names and listings as sets, the listing in rank order). *)
From Coq Require Import List NArith ZArith Bool Sorted.
Import ListNotations.
From BWStore Require Import AMap Store.

Definition sgraph := tkey -> option triple.
Record sstore := { sbinds : N -> option N; sheap : N -> option sgraph; snext : N }.

Definition sempty : sgraph := fun _ => None.
Definition sinit : sstore := {| sbinds := fun _ => None; sheap := fun _ => None; snext := 0%N |}.

Definition nupd {A : Type} (f : N -> A) (k : N) (v : A) : N -> A := fun k' => if N.eqb k' k then v else f k'.
Definition supd (g : sgraph) (k : tkey) (v : option triple) : sgraph := fun k' => if tkey_eqb k' k then v else g k'.

(* union with a batch (the last representative of a key wins) / difference *)
Definition sadd (ts : list triple) (g : sgraph) : sgraph := fold_left (fun g t => supd g (tkey_of t) (Some t)) ts g.
Definition sremove (ts : list triple) (g : sgraph) : sgraph := fold_left (fun g t => supd g (tkey_of t) None) ts g.

Definition sstep (a : sstore) (o : op) : sstore :=
  match o with
  | ONew n => match sbinds a n with
              | Some _ => a
              | None => {| sbinds := nupd (sbinds a) n (Some (snext a));
                           sheap := nupd (sheap a) (snext a) (Some sempty);
                           snext := N.succ (snext a) |}
              end
  | ODrop n => match sbinds a n with
               | Some _ => {| sbinds := nupd (sbinds a) n None; sheap := sheap a; snext := snext a |}
               | None => a
               end
  | OAdd h ts => match sheap a h with
                 | Some g => {| sbinds := sbinds a; sheap := nupd (sheap a) h (Some (sadd ts g)); snext := snext a |}
                 | None => a
                 end
  | ORemove h ts => match sheap a h with
                    | Some g => {| sbinds := sbinds a; sheap := nupd (sheap a) h (Some (sremove ts g)); snext := snext a |}
                    | None => a
                    end
  | OGet _ | ONames | OExist _ _ | OList _ => a
  end.

Definition srun_from (a : sstore) (ops : list op) : sstore := fold_left sstep ops a.
Definition srun (ops : list op) : sstore := srun_from sinit ops.

Definition ranked (l : list triple) : Prop := StronglySorted (fun a b => (trank a <= trank b)%N) l.

(* l is the listing of the set g: exactly its members, each once, in rank order *)
Definition is_listing (g : sgraph) (l : list triple) : Prop :=
  NoDup (map tkey_of l) /\ (forall t, In t l <-> g (tkey_of t) = Some t) /\ ranked l.

Definition is_some {A : Type} (o : option A) : bool := match o with Some _ => true | None => false end.

(* r is a correct answer to o in state a *)
Definition sout (a : sstore) (o : op) (r : result) : Prop :=
  match o with
  | ONew n => match sbinds a n with Some _ => r = RErr | None => r = RHandle (snext a) end
  | OGet n => match sbinds a n with Some h => r = RHandle h | None => r = RErr end
  | ODrop n => match sbinds a n with Some _ => r = ROk | None => r = RErr end
  | ONames => exists l, r = RNames l /\ NoDup l /\ forall n, In n l <-> sbinds a n <> None
  | OAdd h _ | ORemove h _ => match sheap a h with Some _ => r = ROk | None => r = RNoHandle end
  | OExist h t => match sheap a h with Some g => r = RBool (is_some (g (tkey_of t))) | None => r = RNoHandle end
  | OList h => match sheap a h with
               | Some g => exists l, r = RTriples l /\ is_listing g l
               | None => r = RNoHandle
               end
  end.

(* the reading of the property text: name -> set of triples *)
Definition sview (a : sstore) (n : N) : option sgraph :=
  match sbinds a n with Some h => sheap a h | None => None end.

(* abstraction relation between a model state and a spec state *)
Definition Rg (g : graph) (sg : sgraph) : Prop := forall k, aget tkey_eqb k (idx g) = sg k.
Definition R (s : store) (a : sstore) : Prop :=
  (forall n, aget N.eqb n (binds s) = sbinds a n) /\
  (forall h, match aget N.eqb h (heap s), sheap a h with
             | Some g, Some sg => Rg g sg
             | None, None => True
             | _, _ => False
             end) /\
  next s = snext a.
