(* Executable comparison of the parser model with observations of the real parser (written by the harness). *)
From Coq Require Import List NArith Bool Arith.
Import ListNotations.
From BWGrammar Require Import Grammar.
Open Scope N_scope.

(* the real parser's probes (ProcessStart) cannot see empty alternatives: drop them from the model trace *)
Definition nonempty_trace (g : grammar) (tr : list (N * nat)) : list (N * nat) :=
  filter (fun p => negb (is_empty (nth (snd p) (rules g (fst p)) [T 0]))) tr.

Definition pair_eqb (a b : N * nat) : bool := N.eqb (fst a) (fst b) && Nat.eqb (snd a) (snd b).

(* one observation: token kinds as lexed (incl. the final EOF/Error token), accepted?, probe trace *)
Definition obs := (list N * bool * list (N * nat))%type.

Definition agrees (g : grammar) (start eof : N) (o : obs) : bool :=
  match o with
  | (toks, acc, tr) =>
      match parse g eof start toks with
      | Ok _ mtr => acc && list_eqb pair_eqb (nonempty_trace g mtr) tr
      | Reject => negb acc
      | OutOfFuel => false
      end
  end.

Fixpoint mismatches_from (g : grammar) (start eof : N) (i : N) (l : list obs) : list N :=
  match l with
  | [] => []
  | o :: r => if agrees g start eof o then mismatches_from g start eof (i + 1) r
              else i :: mismatches_from g start eof (i + 1) r
  end.

Definition accepts (g : grammar) (start eof : N) (toks : list N) : bool :=
  match parse g eof start toks with Ok _ _ => true | _ => false end.

(* ---------- closure machines vs the real hook closures (driven directly by the harness) ---------- *)
From BWGrammar Require Import Hooks.

Fixpoint da_trace (st : da_state) (inp : list (N * bool)) : list N :=
  match inp with
  | [] => []
  | (k, ok) :: r => let (st', o) := da_step st k ok in
                    (match o with DaNone => 0 | DaEmit => 1 | DaErr => 2 end) :: da_trace st' r
  end.

Fixpoint gb_trace (st : gb_state) (inp : list (N * bool)) : list N :=
  match inp with
  | [] => []
  | (k, ok) :: r => let (st', o) := gb_step st k ok in
                    (match o with GbNone => 0 | GbLower => 1 | GbUpper => 2 | GbBoth => 3 | GbErr => 4 | GbPanic => 5 end)
                      :: gb_trace st' r
  end.

(* observation: (which machine: 0 = dataAccumulator, 1 = collectGlobalBounds, inputs, observed outputs) *)
Definition hook_obs := (N * list (N * bool) * list N)%type.
Definition hook_agrees (o : hook_obs) : bool :=
  match o with
  | (w, inp, outs) =>
      list_eqb N.eqb (if N.eqb w 0 then da_trace DA0 inp else gb_trace (None, None) inp) outs
  end.
Fixpoint hook_mismatches (i : N) (l : list hook_obs) : list N :=
  match l with
  | [] => []
  | o :: r => if hook_agrees o then hook_mismatches (i + 1) r else i :: hook_mismatches (i + 1) r
  end.

(* ---------- the look-ahead window of llk.go vs the real LLk (driven directly by the harness) ---------- *)
From BWGrammar Require Import LLk.

(* a token is (kind, hash of its text); the pad token is lexer.Token{Type: ItemEOF} (empty text, hash 0) *)
Definition ltok := (N * N)%type.
Definition observe2 (l : llk ltok) : list N :=
  flat_map (fun j => match nth_error (win ltok l) j with Some (k, h) => [k; h] | None => [] end) (seq 0 (S (la ltok l))).

Fixpoint llk_run (eofk : N) (l : llk ltok) (tys : list N) : list (bool * list N) :=
  match tys with
  | [] => []
  | ty :: r => let (l', b) := consume_tok ltok (eofk, 0) fst l ty in (b, observe2 l') :: llk_run eofk l' r
  end.

Definition step_eqb (a b : bool * list N) : bool := Bool.eqb (fst a) (fst b) && list_eqb N.eqb (snd a) (snd b).

(* observation: tokens as lexed, k, window after NewLLk, Consume attempts, (result, window) after each *)
Definition llk_obs := (list ltok * nat * list N * list N * list (bool * list N))%type.
Definition llk_agrees (eofk : N) (o : llk_obs) : bool :=
  match o with
  | (toks, k, w0, tys, steps) =>
      let l := new_llk ltok (eofk, 0) toks k in
      list_eqb N.eqb (observe2 l) w0 && list_eqb step_eqb (llk_run eofk l tys) steps
  end.

Fixpoint llk_mismatches (eofk : N) (i : N) (l : list llk_obs) : list N :=
  match l with
  | [] => []
  | o :: r => if llk_agrees eofk o then llk_mismatches eofk (i + 1) r else i :: llk_mismatches eofk (i + 1) r
  end.
