(* Instantiation of the visible-token theorems (HookLogProofs) on the generated tables, and the link to the closure
   machines: whatever earlier statements left in the closures, the outputs of the dataAccumulator and
   collectGlobalBounds machines over the tokens they see during ANY parse from START do not depend on it. *)
From Coq Require Import List NArith Bool Arith String.
Import ListNotations.
From BWGrammar Require Import Grammar HookParser HookLog HookLogProofs Hooks HooksProofs.
From BWGrammar.Gen Require Import GrammarGen.
Open Scope N_scope.

Definition attached_by (name : string) (s : N) (i : nat) : bool :=
  String.eqb (nth i (hook_names_of s) EmptyString) name.

Definition hrule_of (name : string) (s : N) : bool := existsb (String.eqb name) (hook_names_of s).

Lemma attached_hrule name s i : name <> EmptyString -> attached_by name s i = true -> hrule_of name s = true.
Proof.
  unfold attached_by, hrule_of. intros Hne H. apply String.eqb_eq in H.
  apply existsb_exists. exists name. split; [|apply String.eqb_refl].
  destruct (Nat.lt_ge_cases i (List.length (hook_names_of s))) as [Hlt|Hge].
  - rewrite <- H. apply nth_In. exact Hlt.
  - rewrite nth_overflow in H by exact Hge. exfalso. apply Hne. symmetry. exact H.
Qed.

(* the three table conditions as booleans over sbql *)
Definition gb_cond : bool :=
  table_check sbql (fun s i a =>
    if attached_by "collectGlobalBounds" s i
    then match a with [] => true | T t :: _ => is_bound_op t | _ => false end else true).

Definition da_start_cond : bool :=
  alts_check (fun i a => if attached_by "dataAccumulator" START i
                         then match a with T t :: _ => is_stmt_open t | _ => false end else true) 0 (rules sbql START).

Definition da_guard_cond : bool :=
  table_check sbql (fun s i a =>
    if attached_by "dataAccumulator" s i then true
    else forallb (fun r => negb (hrule_of "dataAccumulator" r) && negb (N.eqb r START)) (elem_syms a)).

Section Inst.
  Variables Tok USt : Type.
  Variable kind : Tok -> N.
  Variable eof_tok : Tok.
  Variable ustart uend : N -> nat -> USt -> USt * bool.
  Variable uelem : N -> nat -> elem -> Tok -> USt -> USt * bool.
  Variable okf : Tok -> bool.      (* does the token text parse (node.Parse, time.Parse, ...) *)

  Definition run_log (f : nat) (ts : list Tok) (u0 : USt) :=
    hconsume sbql Tok (LSt Tok USt) kind eof_tok (lstart Tok USt ustart) (lend Tok USt uend) (lelem Tok USt uelem)
             f START ts (u0, []).

  Definition inputs (v : list Tok) : list (N * bool) := map (fun t => (kind t, okf t)) v.

  Lemma elem_syms_In r a : In (NT r) a -> In r (elem_syms a).
  Proof. intros H. unfold elem_syms. apply in_flat_map. exists (NT r). split; [exact H | left; reflexivity]. Qed.

  Theorem data_accumulator_sees_reset_first :
    da_start_cond = true -> da_guard_cond = true ->
    forall f ts u0, ext Tok USt (attached_by "dataAccumulator") (okd Tok kind is_stmt_open) (u0, []) (run_log f ts u0).
  Proof.
    intros H1 H2 f ts u0. unfold run_log.
    apply (start_visible_starts_with_reset sbql Tok USt kind eof_tok ustart uend uelem
             (attached_by "dataAccumulator") is_stmt_open START (hrule_of "dataAccumulator")).
    - intros s i. apply attached_hrule. discriminate.
    - intros i a Hn Ha. pose proof (alts_check_nth _ _ 0%nat H1 i a Hn) as H. cbn [Nat.add] in H. rewrite Ha in H.
      destruct a as [|[t|r] es]; try discriminate. exists t, es. split; [reflexivity | exact H].
    - intros s i a Hn Ha r Hr. pose proof (table_check_spec sbql _ H2 s i a Hn) as H. cbn beta in H. rewrite Ha in H.
      rewrite forallb_forall in H. specialize (H r (elem_syms_In r a Hr)).
      apply andb_true_iff in H. destruct H as [Ha1 Ha2]. split.
      + apply negb_true_iff in Ha1. exact Ha1.
      + apply negb_true_iff in Ha2. apply N.eqb_neq in Ha2. exact Ha2.
  Qed.

  Theorem global_bounds_sees_reset_first :
    gb_cond = true ->
    forall f ts u0, ext Tok USt (attached_by "collectGlobalBounds") (okd Tok kind is_bound_op) (u0, []) (run_log f ts u0).
  Proof.
    intros H f ts u0. unfold run_log.
    apply (visible_starts_with_reset sbql Tok USt kind eof_tok ustart uend uelem (attached_by "collectGlobalBounds") is_bound_op).
    intros s i a Hn Ha. pose proof (table_check_spec sbql _ H s i a Hn) as Hc. cbn beta in Hc. rewrite Ha in Hc.
    destruct a as [|[t|r] es]; [left; reflexivity | right; exists t, es; split; [reflexivity | exact Hc] | discriminate].
  Qed.

  Lemma okd_da_outputs v : okd Tok kind is_stmt_open v ->
    forall s0, fst (da_run da_step s0 (inputs v)) = fst (da_run da_step DA0 (inputs v)).
  Proof.
    intros [->|[t [r [-> Ht]]]] s0; [reflexivity|]. cbn [inputs map]. rewrite (da_stateless s0 (kind t) (okf t) _ Ht). reflexivity.
  Qed.

  Lemma okd_gb_outputs v : okd Tok kind is_bound_op v ->
    forall s0, fst (gb_run gb_step s0 (inputs v)) = fst (gb_run gb_step (None, None) (inputs v)).
  Proof.
    intros [->|[t [r [-> Ht]]]] s0; [reflexivity|]. cbn [inputs map]. rewrite (gb_stateless s0 (kind t) (okf t) _ Ht). reflexivity.
  Qed.
End Inst.

(* ---------- which closures keep variables at all (facts regenerated from bql/semantic/hooks.go, parser.go, llk.go) ---- *)
(* exactly the two closures whose machines are modelled write captured variables, and exactly the modelled variables;
   every other hook closure writes no captured or package-level variable, and no method of Parser / Grammar assigns a
   field: the only state that outlives a Parse call is the one covered by the reset theorems *)
Definition closure_state_ok : bool :=
  forallb (fun c =>
    match snd c with
    | [] => true
    | vs => (String.eqb (fst c) "dataAccumulator" && list_eqb String.eqb vs ["o"; "p"; "s"]%string)
            || (String.eqb (fst c) "collectGlobalBounds" && list_eqb String.eqb vs ["lastToken"; "opToken"]%string)
    end) closure_writes
  && match parser_field_writes with [] => true | _ => false end
  && existsb (fun c => String.eqb (fst c) "whereSubjectClause") closure_writes
  && existsb (fun c => String.eqb (fst c) "dataAccumulator") closure_writes.

(* ---------- the token kinds the two stateful closures can be handed (from the regenerated attachment table) lie inside the
   alphabets over which their machines are validated against the real closures (h_parse -mode hooks drives exactly these
   kinds): a grammar edit that lets another kind of token reach one of the closures leaves the machine without a tie *)
Definition toks_attached (name : string) : list N :=
  flat_map (fun s => flat_map (fun ia => if attached_by name s (fst ia)
                                          then flat_map (fun e => match e with T t => [t] | _ => [] end) (snd ia) else [])
                              (combine (seq 0 (List.length (rules sbql s))) (rules sbql s))) (keys sbql).

Definition da_alphabet : list N :=
  [tk_INSERT; tk_DELETE; tk_NODE; tk_PREDICATE; tk_LITERAL; tk_DATA; tk_DOT; tk_LEFT_BRACKET; tk_BINDING;
   tk_INTO; tk_FROM; tk_RIGHT_BRACKET; tk_SEMICOLON].
Definition gb_alphabet : list N :=
  [tk_BEFORE; tk_AFTER; tk_BETWEEN; tk_COMMA; tk_TIME; tk_PREDICATE_BOUND; tk_SEMICOLON].

Definition closure_alphabet_ok : bool :=
  forallb (fun t => existsb (N.eqb t) da_alphabet) (toks_attached "dataAccumulator")
  && forallb (fun t => existsb (N.eqb t) gb_alphabet) (toks_attached "collectGlobalBounds")
  && negb (match toks_attached "dataAccumulator" with [] => true | _ => false end)
  && negb (match toks_attached "collectGlobalBounds" with [] => true | _ => false end).
