(* C18 — the parser accepts exactly whole grammar statements and keeps no state between statements.
   bql / sbql / the hook attachment tables are regenerated from /repo on every run. *)
From Coq Require Import List NArith Bool String.
Import ListNotations.
From BWGrammar Require Import Grammar GrammarProofs HookParser HookParserProofs HookLog HookLogProofs Hooks HooksProofs HooksInst LLk LLkProofs.
From BWGrammar.Gen Require Import GrammarGen.
Open Scope list_scope.
Open Scope N_scope.

Lemma bql_ok : ll1_ok bql START tok_eof = true.
Proof. vm_compute. reflexivity. Qed.

(* accepted ==> the token sequence, up to end of input, is a statement derivable from START; what is left is
   nothing or starts with the EOF token (the lexer emits nothing after EOF: C16) *)
Theorem C18_sound_whole_input : forall ts rest tr,
  parse bql tok_eof START ts = Ok rest tr ->
  exists w, der bql START w /\ ts = w ++ rest /\ (rest = [] \/ exists more, rest = tok_eof :: more).
Proof. apply parse_sound_whole. apply (ll1_ok_parts bql START tok_eof bql_ok). Qed.
Print Assumptions C18_sound_whole_input.

(* every derivable statement in which an optional part is present whenever its first token is the next token
   (greedy derivation: an empty alternative only when the next token starts no alternative of the rule) is accepted *)
Theorem C18_complete_greedy : forall w rest,
  gder bql tok_eof START w rest -> cur tok_eof rest = tok_eof ->
  exists tr, parse bql tok_eof START (w ++ rest) = Ok rest tr.
Proof.
  apply parse_complete_greedy; apply (ll1_ok_parts bql START tok_eof bql_ok).
Qed.
Print Assumptions C18_complete_greedy.

(* the parser model never runs out of the fuel it gives itself: it terminates on every token sequence *)
Theorem C18_terminates : forall ts, parse bql tok_eof START ts <> OutOfFuel.
Proof.
  intros ts H. unfold parse in H.
  destruct (consume bql tok_eof (fuel_for ts) START ts) eqn:E; try discriminate.
  - destruct (N.eqb (cur tok_eof rest) tok_eof); discriminate.
  - eapply consume_fuel_enough; [apply (ll1_ok_parts bql START tok_eof bql_ok) | | exact E]. unfold fuel_for. auto.
Qed.
Print Assumptions C18_terminates.

(* the token source: the parser does not read the list the theorems above speak of but the look-ahead window of
   llk.go (NewLLk / Current / Peek / Consume over the lexer's channel).  For EVERY look-ahead k, token list and run of
   Consume attempts: the outcomes are those of matching the list head by head ([lconsumes]); the state reached is a
   view ([R]) of the list that remains, and in every such state Current is the head of that list (the EOF pad once it
   is exhausted), Peek(j) its j-th element for 1 <= j <= k, an error otherwise.  No token is lost, duplicated or
   reordered however long the statement is. *)
Theorem C18_llk_window_is_the_token_list :
  forall (Tok : Type) (pad : Tok) (kind : Tok -> N) (toks : list Tok) (k : nat),
    R Tok pad (new_llk Tok pad toks k) toks /\
    (forall tys, let l := new_llk Tok pad toks k in
       snd (consumes Tok pad kind l tys) = snd (lconsumes Tok pad kind toks tys) /\
       R Tok pad (fst (consumes Tok pad kind l tys)) (fst (lconsumes Tok pad kind toks tys))) /\
    (forall l ts, R Tok pad l ts ->
       current Tok l = Some (lcur Tok pad ts) /\
       option_map kind (current Tok l) = Some (cur (kind pad) (map kind ts)) /\
       (forall j, (1 <= j <= la Tok l)%nat -> peek Tok l j = Some (lnth Tok pad ts j)) /\
       (forall j, (j = 0 \/ la Tok l < j)%nat -> peek Tok l j = None)).
Proof.
  intros Tok pad kind toks k. split; [apply new_R|]. split.
  - intros tys l. apply consumes_spec. apply new_R.
  - intros l ts H. split; [apply current_spec; exact H|]. split; [apply current_is_parser_cur; exact H|].
    split; [intros j Hj; apply peek_spec; assumption | intros j Hj; apply peek_out_of_range; exact Hj].
Qed.
Print Assumptions C18_llk_window_is_the_token_list.

Example C18_llk_nonvacuous :
  fst (lconsumes N 0 (fun x => x) [5; 7; 9] [5; 8; 7]) = [9] /\
  snd (consumes N 0 (fun x => x) (new_llk N 0 [5; 7; 9] 2) [5; 8; 7]) = [true; false; true] /\
  win N (fst (consumes N 0 (fun x => x) (new_llk N 0 [5; 7; 9] 2) [5; 8; 7])) = [9; 0; 0].
Proof. vm_compute. repeat split. Qed.

(* the semantic layer may reject more but never accepts more: WHATEVER the hooks do (any state type, any hook
   functions), acceptance by the parser with hooks over the semantic grammar implies acceptance by the plain parser
   over the plain grammar, leaving the same tokens *)
Theorem C18_semantic_subset :
  forall (Tok St : Type) (kind : Tok -> N) (eof_tok : Tok)
         (hstart hend : N -> nat -> St -> St * bool) (helem : N -> nat -> elem -> Tok -> St -> St * bool)
         ts st rest st',
    kind eof_tok = tok_eof ->
    hparse sbql Tok St kind eof_tok hstart hend helem START tok_eof ts st = HOk rest st' ->
    exists tr, parse bql tok_eof START (map kind ts) = Ok (map kind rest) tr.
Proof.
  intros Tok St kind eof_tok hs he hl ts st rest st' Hk H.
  assert (E : sbql = bql) by (apply grammar_eqb_eq; vm_compute; reflexivity).
  rewrite E in H. rewrite <- Hk in *. eapply hparse_subset. exact H.
Qed.
Print Assumptions C18_semantic_subset.

(* ---- no state between statements: the closures that keep variables between calls ---- *)

(* (partial: two of the six closures with variables) For ANY user hooks, ANY token list and ANY fuel, run the parser
   with hooks over the semantic grammar from START, logging every ProcessedElement call (also failing ones).  The
   tokens the dataAccumulator closure sees are the token entries of the alternatives it is attached to (table
   regenerated from SemanticBQL()); likewise collectGlobalBounds.  Whatever state s0 earlier statements - accepted
   or rejected - left in the closure, the outputs of the closure machine over these tokens are those from the initial
   state: the closure contributes nothing of the history to the meaning or the acceptance of this statement. *)
Theorem C18_stateless_data_bounds_partial :
  forall (Tok USt : Type) (kind : Tok -> N) (eof_tok : Tok)
         (ustart uend : N -> nat -> USt -> USt * bool) (uelem : N -> nat -> elem -> Tok -> USt -> USt * bool)
         (okf : Tok -> bool) f ts u0,
    match run_log Tok USt kind eof_tok ustart uend uelem f ts u0 with
    | HOutOfFuel => True
    | HOk _ st | HReject st | HHookErr st =>
        (forall s0, fst (da_run da_step s0 (inputs Tok kind okf (visible Tok (attached_by "dataAccumulator"%string) (snd st))))
                  = fst (da_run da_step DA0 (inputs Tok kind okf (visible Tok (attached_by "dataAccumulator"%string) (snd st)))))
        /\
        (forall s0, fst (gb_run gb_step s0 (inputs Tok kind okf (visible Tok (attached_by "collectGlobalBounds"%string) (snd st))))
                  = fst (gb_run gb_step (None, None) (inputs Tok kind okf (visible Tok (attached_by "collectGlobalBounds"%string) (snd st)))))
    end.
Proof.
  intros Tok USt kind eof_tok us ue ul okf f ts u0.
  assert (C1 : da_start_cond = true) by (vm_compute; reflexivity).
  assert (C2 : da_guard_cond = true) by (vm_compute; reflexivity).
  assert (C3 : gb_cond = true) by (vm_compute; reflexivity).
  pose proof (data_accumulator_sees_reset_first Tok USt kind eof_tok us ue ul C1 C2 f ts u0) as Hd.
  pose proof (global_bounds_sees_reset_first Tok USt kind eof_tok us ue ul C3 f ts u0) as Hg.
  destruct (run_log Tok USt kind eof_tok us ue ul f ts u0) as [rest st|st|st|]; [| | |exact I];
    cbn [ext] in Hd, Hg; destruct Hd as [d1 [E1 O1]]; destruct Hg as [d2 [E2 O2]]; cbn [snd app] in E1, E2;
    (split; [rewrite E1; apply okd_da_outputs; exact O1 | rewrite E2; apply okd_gb_outputs; exact O2]).
Qed.
Print Assumptions C18_stateless_data_bounds_partial.

(* the closure that dereferences a pointer it may not have: never nil, for every token sequence *)
Theorem C18_global_bounds_no_nil_deref : forall inp, ~ In GbPanic (fst (gb_run gb_step (None, None) inp)).
Proof. intros inp. apply gb_no_panic. intros H. cbn in H. contradiction. Qed.
Print Assumptions C18_global_bounds_no_nil_deref.

(* no OTHER state outlives a Parse call: regenerated with go/ast from bql/semantic/hooks.go, bql/grammar/parser.go and
   llk.go on every run.  Exactly the two closures above write captured variables (and exactly the modelled ones); every
   other hook closure writes no captured or package-level variable; no method of Parser or Grammar assigns a field.
   Together with C18_stateless_data_bounds_partial: what a statement means depends on its tokens only (the Statement
   the hooks write into is fresh for every parse).  The translator is in the trusted base. *)
Theorem C18_no_other_closure_state : closure_state_ok = true.
Proof. vm_compute. reflexivity. Qed.
Print Assumptions C18_no_other_closure_state.

(* the machines of the two closures are validated against the real closures over fixed alphabets of token kinds (what
   h_parse -mode hooks drives); on the regenerated attachment table every token kind that can reach dataAccumulator /
   collectGlobalBounds lies inside its alphabet, so C18_stateless_data_bounds_partial speaks about tokens the machines
   are tied for *)
Theorem C18_closure_alphabet : closure_alphabet_ok = true.
Proof. vm_compute. reflexivity. Qed.
Print Assumptions C18_closure_alphabet.

(* (what fix 6a45f92 repaired) the lastNopToken variables of the WHERE / projection hooks used to live in the closures:
   a statement that stopped after "type" made the next statement's subject binding a TYPE alias.  [ws_run] is the OLD
   closure machine (state carried across statements). *)
Theorem C18_old_lastnop_closure_refuted : exists prefix last inp,
  snd (ws_run None prefix) = last /\ fst (ws_run last inp) <> fst (ws_run None inp).
Proof. exact ws_stateless_refuted. Qed.
Print Assumptions C18_old_lastnop_closure_refuted.

(* what the two fix: commits repaired (kept as theorems about the OLD step functions) *)
Theorem C18_old_data_accumulator_refuted : exists prefix s0 inp,
  da_run da_step_old DA0 prefix = ([DaNone; DaNone; DaErr], s0) /\
  (exists k ok r, inp = (k, ok) :: r /\ is_stmt_open k = true) /\
  fst (da_run da_step_old s0 inp) <> fst (da_run da_step_old DA0 inp).
Proof. exact da_old_refuted. Qed.
Print Assumptions C18_old_data_accumulator_refuted.

Example C18_nonvacuous_greedy :
  exists w, gder bql tok_eof START w [tok_eof] /\ List.length w = 3%nat.
Proof.
  (* show graphs ; *)
  exists [tk_SHOW; tk_GRAPHS; tk_SEMICOLON]. split; [|reflexivity].
  eapply gder_alt with (a := [T tk_SHOW; NT sy_GRAPH_SHOW; T tk_SEMICOLON]).
  - vm_compute. tauto.
  - discriminate.
  - apply gders_T. apply (gders_NT bql tok_eof sy_GRAPH_SHOW [T tk_SEMICOLON] [tk_GRAPHS] [tk_SEMICOLON]).
    + eapply gder_alt with (a := [T tk_GRAPHS]); [vm_compute; tauto | discriminate |].
      apply gders_T. apply gders_nil.
    + apply gders_T. apply gders_nil.
Qed.
