(* C17 — every alternative of every BQL grammar rule is live and chosen by one token.
   The object of these theorems, GrammarGen.bql / sbql / witnesses, is regenerated from /repo's
   grammar.BQL() and grammar.SemanticBQL() on every run. *)
From Coq Require Import List NArith.
Import ListNotations.
From BWGrammar Require Import Grammar GrammarProofs.
From BWGrammar.Gen Require Import GrammarGen.
Open Scope N_scope.

(* the boolean certificate, complete over the finite table *)
Theorem C17_bql_ll1 : ll1_ok bql START tok_eof = true.
Proof. vm_compute. reflexivity. Qed.
Print Assumptions C17_bql_ll1.

(* what the certificate means: rule names are unique; within each rule the non-empty alternatives start with
   pairwise different tokens (none starts with a symbol); an empty alternative can only be the last one; every
   referenced rule exists; every rule is reachable from START; every rule derives a finite token string. *)
Theorem C17_structure :
  NoDup (keys bql) /\ distinct_first bql /\ empty_last bql /\ closed bql /\
  all_reachable bql START /\ all_productive bql /\ In START (keys bql).
Proof. exact (ll1_ok_sound bql START tok_eof C17_bql_ll1). Qed.
Print Assumptions C17_structure.

(* for each alternative (s,i) of each rule there is a concrete token statement w, derivable from START, which the
   parser accepts as a whole (nothing left) and whose parse takes alternative i of rule s *)
Theorem C17_all_alternatives_live :
  forall s i, In (s, i) (all_alternatives bql) ->
    exists w tr, parse bql tok_eof START w = Ok [] tr /\ In (s, i) tr /\ der bql START w.
Proof.
  apply (witnesses_cover_sound bql START tok_eof witnesses).
  - vm_compute. reflexivity.
  - vm_compute. reflexivity.
Qed.
Print Assumptions C17_all_alternatives_live.

(* all_alternatives really lists every (rule, index): *)
Theorem C17_all_alternatives_complete :
  forall s i, In s (keys bql) -> (i < length (rules bql s))%nat -> In (s, i) (all_alternatives bql).
Proof.
  intros s i Hs Hi. apply all_alternatives_In; [|exact Hi].
  apply in_map_iff in Hs. destruct Hs as [[s' als] [E Hin]]. cbn in E. subst s'.
  assert (Hnd : NoDup (keys bql)) by (apply C17_structure).
  rewrite (rules_of_in bql s als Hnd Hin). exact Hin.
Qed.
Print Assumptions C17_all_alternatives_complete.

(* the grammar with semantic hooks has exactly the rules and alternatives of the plain grammar *)
Theorem C17_semantic_same_shape : sbql = bql.
Proof. apply grammar_eqb_eq. vm_compute. reflexivity. Qed.
Print Assumptions C17_semantic_same_shape.

(* non-vacuity: the table is the real one (73 rules / 178 alternatives on the pinned tree are checked by the
   harness against the live grammar value; here: it is not empty and START has alternatives) *)
Example C17_nonvacuous : (length (all_alternatives bql) > 100)%nat /\ (length (rules bql START) >= 8)%nat.
Proof. vm_compute. split; repeat constructor. Qed.
