(* Closure state of the semantic hooks that keep variables between calls (bql/semantic/hooks.go), as Mealy machines
   over token kinds.  Whether the text of a token parses (node.Parse, time.Parse, ...) is an input of the machine.
   Only the part of each hook that reads or writes its closure variables is modelled; what the hooks write into the
   Statement (fresh for every parse) is summarised by the output symbol. *)
From Coq Require Import List NArith Bool String.
Open Scope string_scope.
Import ListNotations.
From BWGrammar Require Import Grammar.
From BWGrammar.Gen Require Import GrammarGen.
Open Scope N_scope.

(* ---------- dataAccumulator: s, p, o ---------- *)
Inductive da_state := DA0 | DA1 | DA2.      (* nothing | subject held | subject and predicate held *)
Inductive da_out := DaNone | DaEmit | DaErr.

Definition is_data_tok (k : N) : bool := N.eqb k tk_NODE || N.eqb k tk_PREDICATE || N.eqb k tk_LITERAL.
Definition is_stmt_open (k : N) : bool := N.eqb k tk_INSERT || N.eqb k tk_DELETE.

(* the accumulator as it is in the repo now (with the reset at INSERT/DELETE) *)
Definition da_step (st : da_state) (k : N) (ok : bool) : da_state * da_out :=
  if is_stmt_open k then (DA0, DaNone)
  else if negb (is_data_tok k) then (st, DaNone)
  else match st with
       | DA0 => if N.eqb k tk_NODE && ok then (DA1, DaNone) else (DA0, DaErr)
       | DA1 => if N.eqb k tk_PREDICATE && ok then (DA2, DaNone) else (DA1, DaErr)
       | DA2 => if ok then (DA0, DaEmit) else (DA2, DaErr)
       end.

(* the accumulator before the fix: no reset *)
Definition da_step_old (st : da_state) (k : N) (ok : bool) : da_state * da_out :=
  if negb (is_data_tok k) then (st, DaNone)
  else match st with
       | DA0 => if N.eqb k tk_NODE && ok then (DA1, DaNone) else (DA0, DaErr)
       | DA1 => if N.eqb k tk_PREDICATE && ok then (DA2, DaNone) else (DA1, DaErr)
       | DA2 => if ok then (DA0, DaEmit) else (DA2, DaErr)
       end.

(* a hook error aborts the parse: the run stops at the first error *)
Fixpoint da_run (step : da_state -> N -> bool -> da_state * da_out) (st : da_state) (inp : list (N * bool))
  : list da_out * da_state :=
  match inp with
  | [] => ([], st)
  | (k, ok) :: r =>
      match step st k ok with
      | (st', DaErr) => ([DaErr], st')
      | (st', o) => let (os, st'') := da_run step st' r in (o :: os, st'')
      end
  end.

(* ---------- collectGlobalBounds: opToken, lastToken ---------- *)
Definition gb_state := (option N * option N)%type.
Inductive gb_out := GbNone | GbLower | GbUpper | GbBoth | GbErr | GbPanic.

Definition is_bound_op (k : N) : bool := N.eqb k tk_BEFORE || N.eqb k tk_AFTER || N.eqb k tk_BETWEEN.

Definition gb_step (st : gb_state) (k : N) (ok : bool) : gb_state * gb_out :=
  let (op, last) := st in
  if is_bound_op k then ((Some k, Some k), GbNone)
  else if N.eqb k tk_COMMA then
    match last, op with
    | None, _ => (st, GbErr)
    | Some _, None => (st, GbPanic)                         (* opToken.Type with opToken == nil *)
    | Some _, Some o => if N.eqb o tk_BETWEEN then ((op, Some tk_COMMA), GbNone) else (st, GbErr)
    end
  else if N.eqb k tk_TIME then
    match last with
    | None => (st, GbErr)
    | Some l =>
        if negb ok then (st, GbErr)
        else if N.eqb l tk_COMMA || N.eqb l tk_BEFORE then ((None, None), GbUpper)
        else match op with
             | None => (st, GbPanic)
             | Some o => if N.eqb o tk_BETWEEN then (st, GbLower) else ((None, None), GbLower)
             end
    end
  else if N.eqb k tk_PREDICATE_BOUND then
    if ok then ((None, None), GbBoth) else (st, GbErr)
  else (st, GbErr).

(* before the fix: an op token with lastToken set is an error, and a complete BETWEEN leaves the state set *)
Definition gb_step_old (st : gb_state) (k : N) (ok : bool) : gb_state * gb_out :=
  let (op, last) := st in
  if is_bound_op k then match last with Some _ => (st, GbErr) | None => ((Some k, Some k), GbNone) end
  else if N.eqb k tk_PREDICATE_BOUND then if ok then (st, GbBoth) else (st, GbErr)
  else gb_step st k ok.

Fixpoint gb_run (step : gb_state -> N -> bool -> gb_state * gb_out) (st : gb_state) (inp : list (N * bool))
  : list gb_out * gb_state :=
  match inp with
  | [] => ([], st)
  | (k, ok) :: r =>
      match step st k ok with
      | (st', GbErr) => ([GbErr], st')
      | (st', GbPanic) => ([GbPanic], st')
      | (st', o) => let (os, st'') := gb_run step st' r in (o :: os, st'')
      end
  end.

(* ---------- lastNopToken of whereSubjectClause (the predicate / object / projection hooks have the same shape) --- *)
Inductive nop_out := NoNone | NoSetBinding | NoSetAlias | NoSetTypeAlias | NoSetIdAlias | NoSetNode | NoErr.

(* [fresh]: the statement-side guard of the branch taken holds (field not set yet; node parses) *)
Definition ws_step (last : option N) (k : N) (fresh : bool) : option N * nop_out :=
  if N.eqb k tk_LEFT_BRACKET || N.eqb k tk_RIGHT_BRACKET || N.eqb k tk_OPTIONAL then (None, NoNone)
  else if N.eqb k tk_NODE then if fresh then (None, NoSetNode) else (last, NoErr)
  else if N.eqb k tk_BINDING then
    match last with
    | None => if fresh then (None, NoSetBinding) else (last, NoErr)
    | Some l =>
        if N.eqb l tk_AS then if fresh then (None, NoSetAlias) else (last, NoErr)
        else if N.eqb l tk_TYPE then if fresh then (None, NoSetTypeAlias) else (last, NoErr)
        else if N.eqb l tk_ID && fresh then (None, NoSetIdAlias)
        else (Some k, NoNone)
    end
  else (Some k, NoNone).

Fixpoint ws_run (last : option N) (inp : list (N * bool)) : list nop_out * option N :=
  match inp with
  | [] => ([], last)
  | (k, fr) :: r =>
      match ws_step last k fr with
      | (l', NoErr) => ([NoErr], l')
      | (l', o) => let (os, l'') := ws_run l' r in (o :: os, l'')
      end
  end.

(* ---------- facts about where the hooks are attached, over the generated tables ---------- *)
Definition hook_names_of (s : N) : list String.string :=
  match find (fun r => N.eqb (fst r) s) sbql_elem_hook_names with Some r => snd r | None => [] end.

Definition hooked_alts (name : String.string) : list (N * alt) :=
  flat_map (fun r => map (fun p => (fst r, fst p))
                         (filter (fun p => String.eqb (snd p) name) (combine (snd r) (hook_names_of (fst r)))))
           sbql.

Definition tokens_only (a : alt) : bool := forallb (fun e => match e with T _ => true | NT _ => false end) a.

(* every alternative the global-bounds hook is attached to is a token string that starts with BEFORE/AFTER/BETWEEN
   (or is empty: no hook call at all) *)
Definition gb_guard : bool :=
  forallb (fun sa => tokens_only (snd sa) &&
                     match snd sa with [] => true | T t :: _ => is_bound_op t | _ => false end)
          (hooked_alts "collectGlobalBounds").

(* the data accumulator is attached to START alternatives that begin with INSERT/DELETE, and to rules that are only
   referenced from alternatives it is itself attached to (so INSERT/DELETE is the first token it sees) *)
Definition da_rules : list N := map fst (hooked_alts "dataAccumulator").
Definition da_guard : bool :=
  forallb (fun sa => if N.eqb (fst sa) START
                     then match snd sa with T t :: _ => is_stmt_open t | _ => false end
                     else true) (hooked_alts "dataAccumulator")
  && forallb (fun r =>
       forallb (fun p =>   (* p = (alternative, hook name) of rule r *)
         let refs := existsb (fun s => negb (N.eqb s START) && memb s da_rules) (elem_syms (fst p)) in
         negb refs || String.eqb (snd p) "dataAccumulator")
         (combine (snd r) (hook_names_of (fst r)))) sbql
  && match hooked_alts "dataAccumulator" with [] => false | _ => true end.
