(* Hooks can only add error paths: whatever the hooks are, acceptance by the parser with hooks implies acceptance
   by the plain parser, with the same tokens left. *)
From Coq Require Import List NArith Bool Arith Lia.
Import ListNotations.
From BWGrammar Require Import Grammar HookParser.
Open Scope N_scope.

Section Subset.
  Variable g : grammar.
  Variables Tok St : Type.
  Variable kind : Tok -> N.
  Variable eof_tok : Tok.
  Let eof : N := kind eof_tok.
  Variable hstart hend : N -> nat -> St -> St * bool.
  Variable helem : N -> nat -> elem -> Tok -> St -> St * bool.

  Notation hexpect_elems := (hexpect_elems Tok St kind eof_tok helem).
  Notation hexpect := (hexpect Tok St kind eof_tok hstart hend helem).
  Notation halts := (halts Tok St kind eof_tok hstart hend helem).
  Notation hconsume := (hconsume g Tok St kind eof_tok hstart hend helem).

  Lemma cur_map ts : cur eof (map kind ts) = kind (hcur Tok eof_tok ts).
  Proof. destruct ts; reflexivity. Qed.

  Lemma adv_map ts : adv (map kind ts) = map kind (tl ts).
  Proof. destruct ts; reflexivity. Qed.

  Definition rec_rel (hrec : N -> list Tok -> St -> hres Tok St) (rec : N -> list N -> pres) : Prop :=
    forall s ts st rest st', hrec s ts st = HOk rest st' -> exists tr, rec s (map kind ts) = Ok (map kind rest) tr.

  Lemma hexpect_elems_subset hrec rec s i :
    rec_rel hrec rec ->
    forall es ts st rest st', hexpect_elems hrec s i es ts st = HOk rest st' ->
      exists tr, expect eof rec es (map kind ts) = Ok (map kind rest) tr.
  Proof.
    intros Hrec. induction es as [|e es IH]; intros ts st rest st' H; cbn [HookParser.hexpect_elems expect] in H |- *.
    - inversion H; subst. eexists. reflexivity.
    - destruct e as [t|s'].
      + rewrite cur_map. destruct (N.eqb (kind (hcur Tok eof_tok ts)) t); [|discriminate].
        destruct (helem s i (T t) (hcur Tok eof_tok ts) st) as [st2 [|]]; [|discriminate].
        rewrite adv_map. eapply IH. exact H.
      + destruct (hrec s' ts st) as [ts1 st1| | |] eqn:Er; try discriminate.
        destruct (helem s i (NT s') (hcur Tok eof_tok ts) st1) as [st2 [|]]; [|discriminate].
        destruct (Hrec _ _ _ _ _ Er) as [tr1 Hr1]. rewrite Hr1.
        destruct (IH _ _ _ _ H) as [tr2 Hr2]. rewrite Hr2. eexists. reflexivity.
  Qed.

  Lemma halts_subset hrec rec s :
    rec_rel hrec rec ->
    forall als i ts st rest st', halts hrec s i als ts st = HOk rest st' ->
      exists tr, alts eof rec s i als (map kind ts) = Ok (map kind rest) tr.
  Proof.
    intros Hrec. induction als as [|a als IH]; intros i ts st rest st' H; cbn [HookParser.halts alts] in H |- *; [discriminate|].
    destruct a as [|[t|s'] es].
    - inversion H; subst. eexists. reflexivity.
    - rewrite cur_map. destruct (N.eqb (kind (hcur Tok eof_tok ts)) t) eqn:E.
      + unfold HookParser.hexpect in H. destruct (hstart s i st) as [st1 [|]]; [|discriminate].
        destruct (hexpect_elems hrec s i (T t :: es) ts st1) as [ts' st2| | |] eqn:Ee; try discriminate.
        destruct (hend s i st2) as [st3 [|]]; [|discriminate]. inversion H; subst.
        destruct (hexpect_elems_subset hrec rec s i Hrec _ _ _ _ _ Ee) as [tr Ht]. rewrite Ht. eexists. reflexivity.
      + eapply IH. exact H.
    - discriminate.
  Qed.

  Theorem hconsume_subset :
    forall fuel s ts st rest st', hconsume fuel s ts st = HOk rest st' ->
      exists tr, consume g eof fuel s (map kind ts) = Ok (map kind rest) tr.
  Proof.
    induction fuel as [|f IH]; intros s ts st rest st' H; cbn [HookParser.hconsume consume] in H |- *; [discriminate|].
    eapply halts_subset; [|exact H]. exact IH.
  Qed.

  Theorem hparse_subset start :
    forall ts st rest st', hparse g Tok St kind eof_tok hstart hend helem start eof ts st = HOk rest st' ->
      exists tr, parse g eof start (map kind ts) = Ok (map kind rest) tr.
  Proof.
    intros ts st rest st' H. unfold hparse in H. unfold parse.
    destruct (hconsume (fuel_for (map kind ts)) start ts st) as [rest' st2| | |] eqn:Ec; try discriminate.
    destruct (N.eqb (kind (hcur Tok eof_tok rest')) eof) eqn:E; [|discriminate]. inversion H; subst.
    destruct (hconsume_subset _ _ _ _ _ _ Ec) as [tr Ht]. rewrite Ht, cur_map, E. eexists. reflexivity.
  Qed.

  (* with hooks that never fail and never change anything, the two parsers coincide on acceptance *)
End Subset.
