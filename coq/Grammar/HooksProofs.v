From Coq Require Import List NArith Bool.
Import ListNotations.
From BWGrammar Require Import Grammar Hooks.
From BWGrammar.Gen Require Import GrammarGen.
Open Scope N_scope.

(* ---------- dataAccumulator ---------- *)
Theorem da_stateless : forall s0 k ok r,
  is_stmt_open k = true ->
  da_run da_step s0 ((k, ok) :: r) = da_run da_step DA0 ((k, ok) :: r).
Proof. intros s0 k ok r H. cbn [da_run]. unfold da_step. rewrite H. reflexivity. Qed.

(* what the fix repaired: a statement that stops after the subject leaves a state under which the next INSERT fails *)
Theorem da_old_refuted : exists prefix s0 inp,
  da_run da_step_old DA0 prefix = ([DaNone; DaNone; DaErr], s0) /\
  (exists k ok r, inp = (k, ok) :: r /\ is_stmt_open k = true) /\
  fst (da_run da_step_old s0 inp) <> fst (da_run da_step_old DA0 inp).
Proof.
  exists [(tk_INSERT, true); (tk_NODE, true); (tk_LITERAL, true)], DA1,
         [(tk_INSERT, true); (tk_NODE, true); (tk_PREDICATE, true); (tk_NODE, true)].
  split; [vm_compute; reflexivity|]. split; [do 3 eexists; split; reflexivity|].
  vm_compute. discriminate.
Qed.

(* ---------- collectGlobalBounds ---------- *)
Theorem gb_stateless : forall s0 k ok r,
  is_bound_op k = true ->
  gb_run gb_step s0 ((k, ok) :: r) = gb_run gb_step (None, None) ((k, ok) :: r).
Proof. intros [op last] k ok r H. cbn [gb_run]. unfold gb_step. rewrite H. reflexivity. Qed.

Definition gb_inv (st : gb_state) : Prop := snd st <> None -> fst st <> None.

Lemma gb_step_inv st k ok : gb_inv st -> gb_inv (fst (gb_step st k ok)) /\ snd (gb_step st k ok) <> GbPanic.
Proof.
  destruct st as [op last]. unfold gb_inv, gb_step. cbn [fst snd]. intros H.
  destruct (is_bound_op k); [cbn; split; [intros _|]; discriminate|].
  destruct (N.eqb k tk_COMMA).
  { destruct last as [l|]; [|cbn; split; [exact H | discriminate]].
    destruct op as [o|]; [|exfalso; apply H; [discriminate | reflexivity]].
    destruct (N.eqb o tk_BETWEEN); cbn; split; try discriminate; intros _; discriminate. }
  destruct (N.eqb k tk_TIME).
  { destruct last as [l|]; [|cbn; split; [exact H | discriminate]].
    destruct (negb ok); [cbn; split; [exact H | discriminate]|].
    destruct (N.eqb l tk_COMMA || N.eqb l tk_BEFORE); [cbn; split; [intros C; exfalso; apply C; reflexivity | discriminate]|].
    destruct op as [o|]; [|exfalso; apply H; [discriminate | reflexivity]].
    destruct (N.eqb o tk_BETWEEN); cbn; split; try discriminate; try (intros _; discriminate).
    intros C; exfalso; apply C; reflexivity. }
  destruct (N.eqb k tk_PREDICATE_BOUND).
  { destruct ok; cbn; split; try discriminate; [intros C; exfalso; apply C; reflexivity | exact H]. }
  cbn. split; [exact H | discriminate].
Qed.

Theorem gb_no_panic : forall inp st, gb_inv st -> ~ In GbPanic (fst (gb_run gb_step st inp)).
Proof.
  induction inp as [|[k ok] r IH]; intros st Hinv; cbn [gb_run]; [intros []|].
  destruct (gb_step_inv st k ok Hinv) as [Hinv' Hnp].
  destruct (gb_step st k ok) as [st' o] eqn:E. cbn [fst snd] in Hinv', Hnp.
  specialize (IH st' Hinv').
  destruct o.
  1-4: destruct (gb_run gb_step st' r) as [os st''] eqn:Er; cbn [fst] in *; intros [C|C]; [discriminate | contradiction].
  - cbn. intros [C|[]]. discriminate.
  - exfalso. apply Hnp. reflexivity.
Qed.

(* after each complete global bound clause the grammar admits, the closure state is the initial one *)
Theorem gb_complete_resets : forall s0 t,
  snd (gb_run gb_step s0 [(tk_BEFORE, true); (tk_TIME, t)]) = (if t then (None, None) else (Some tk_BEFORE, Some tk_BEFORE)) /\
  snd (gb_run gb_step s0 [(tk_AFTER, true); (tk_TIME, true)]) = (None, None) /\
  snd (gb_run gb_step s0 [(tk_BETWEEN, true); (tk_PREDICATE_BOUND, true)]) = (None, None).
Proof. intros [op last] [|]; vm_compute; repeat split. Qed.

Theorem gb_old_refuted : exists s0 inp,
  snd (gb_run gb_step_old (None, None) [(tk_BETWEEN, true); (tk_PREDICATE_BOUND, true)]) = s0 /\
  fst (gb_run gb_step_old s0 inp) <> fst (gb_run gb_step_old (None, None) inp).
Proof.
  exists (Some tk_BETWEEN, Some tk_BETWEEN), [(tk_BEFORE, true); (tk_TIME, true)].
  split; vm_compute; [reflexivity | discriminate].
Qed.

(* ---------- lastNopToken: still kept across statements (known finding) ---------- *)
Theorem ws_stateless_refuted : exists prefix last inp,
  snd (ws_run None prefix) = last /\ fst (ws_run last inp) <> fst (ws_run None inp).
Proof.
  (* "... { /u<joe> type" then the next statement's first subject binding becomes a TYPE alias *)
  exists [(tk_NODE, true); (tk_TYPE, true)], (Some tk_TYPE), [(tk_BINDING, true)].
  split; vm_compute; [reflexivity | discriminate].
Qed.

(* on kinds that reset it the state is irrelevant afterwards *)
Theorem ws_reset_kinds : forall last k fr r,
  (k = tk_LEFT_BRACKET \/ k = tk_RIGHT_BRACKET \/ k = tk_OPTIONAL) ->
  ws_run last ((k, fr) :: r) = ws_run None ((k, fr) :: r).
Proof. intros last k fr r [H|[H|H]]; subst k; reflexivity. Qed.
