(* bql/grammar/llk.go: the token source of the parser.  NewLLk fills a window of k+1 tokens from the lexer's channel
   (padding with EOF tokens once the channel is closed); Current / Peek look into the window; Consume drops the first
   token and appends the next one.  The channel itself (goroutine, capacity, close) is coq/Engine/Chan.v; here the
   stream is the list of tokens the lexer delivers.  The parser model (Grammar.v) works on that list directly
   ([cur] = head or EOF, [adv] = tail); LLkProofs.v shows that the window is a faithful view of it for every k. *)
From Coq Require Import List NArith Bool Arith.
Import ListNotations.

Section LLk.
  Variable Tok : Type.
  Variable pad : Tok.               (* lexer.Token{Type: ItemEOF}: what appendNextToken appends on a closed channel *)
  Variable kind : Tok -> N.

  Record llk := mkLLk {
    la : nat;                       (* k *)
    stream : list Tok;              (* tokens the lexer has still to deliver *)
    win : list Tok                  (* l.tkns *)
  }.

  (* appendNextToken *)
  Definition append_next (l : llk) : llk :=
    match stream l with
    | [] => mkLLk (la l) [] (win l ++ [pad])
    | t :: r => mkLLk (la l) r (win l ++ [t])
    end.

  Fixpoint fill (n : nat) (l : llk) : llk :=
    match n with O => l | S n' => fill n' (append_next l) end.

  (* NewLLk: k+1 calls of appendNextToken *)
  Definition new_llk (toks : list Tok) (k : nat) : llk := fill (S k) (mkLLk k toks []).

  (* Current: &l.tkns[0] (would panic on an empty window: None) *)
  Definition current (l : llk) : option Tok := nth_error (win l) 0.

  (* Peek(j): error unless 1 <= j <= k; then &l.tkns[j] *)
  Definition peek (l : llk) (j : nat) : option Tok :=
    if (1 <=? j)%nat && (j <=? la l)%nat then nth_error (win l) j else None.

  (* CanAccept(ty) *)
  Definition can_accept (l : llk) (ty : N) : bool :=
    match current l with Some t => N.eqb (kind t) ty | None => false end.

  (* Consume(ty): false and no change if the current token is of another type; else drop it and append the next *)
  Definition consume_tok (l : llk) (ty : N) : llk * bool :=
    if can_accept l ty then (append_next (mkLLk (la l) (stream l) (tl (win l))), true) else (l, false).

  (* a run of Consume attempts *)
  Fixpoint consumes (l : llk) (tys : list N) : llk * list bool :=
    match tys with
    | [] => (l, [])
    | ty :: r => let (l', b) := consume_tok l ty in let (l'', bs) := consumes l' r in (l'', b :: bs)
    end.

  (* ---- the list view the parser model uses *)
  Definition lcur (ts : list Tok) : Tok := match ts with [] => pad | t :: _ => t end.
  Definition lnth (ts : list Tok) (j : nat) : Tok := nth j ts pad.

  (* observation of a state for the correspondence run: current kind, kinds at Peek(1..k) *)
  Definition observe (l : llk) : list N :=
    map (fun j => match nth_error (win l) j with Some t => kind t | None => 0%N end) (seq 0 (S (la l))).
End LLk.
