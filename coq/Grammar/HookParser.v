(* The parser with semantic hooks (Parser.expect calls ProcessStart, ProcessedElement after every element,
   ProcessEnd), generic in the hook functions and in the state they act on.  Tokens are abstract values with a kind.
   A hook returns the new state and whether it succeeded; every outcome carries the state reached, because a hook
   that fails has still been called (its closure has seen the token). *)
From Coq Require Import List NArith Bool Arith.
Import ListNotations.
From BWGrammar Require Import Grammar.
Open Scope N_scope.

Inductive hres (Tok St : Type) :=
| HOk (rest : list Tok) (st : St)
| HReject (st : St)          (* syntax error: the plain parser rejects as well *)
| HHookErr (st : St)         (* a hook returned an error *)
| HOutOfFuel.
Arguments HOk {Tok St}. Arguments HReject {Tok St}. Arguments HHookErr {Tok St}. Arguments HOutOfFuel {Tok St}.

Section HookParser.
  Variable g : grammar.
  Variables Tok St : Type.
  Variable kind : Tok -> N.
  Variable eof_tok : Tok.                       (* LLk pads with Token{Type: ItemEOF} *)
  (* hooks of alternative i of rule s; (st', false) = the hook returned an error; an absent hook is (st, true) *)
  Variable hstart hend : N -> nat -> St -> St * bool.
  Variable helem : N -> nat -> elem -> Tok -> St -> St * bool.   (* element, token current BEFORE it was consumed *)

  Definition hcur (ts : list Tok) : Tok := match ts with [] => eof_tok | t :: _ => t end.

  Section Inner.
    Variable rec : N -> list Tok -> St -> hres Tok St.

    Fixpoint hexpect_elems (s : N) (i : nat) (es : alt) (ts : list Tok) (st : St) : hres Tok St :=
      match es with
      | [] => HOk ts st
      | e :: es' =>
          let tkn := hcur ts in
          let after :=
            match e with
            | T t => if N.eqb (kind tkn) t then HOk (tl ts) st else HReject st
            | NT s' => rec s' ts st
            end in
          match after with
          | HOk ts' st' =>
              match helem s i e tkn st' with
              | (st'', true) => hexpect_elems s i es' ts' st''
              | (st'', false) => HHookErr st''
              end
          | r => r
          end
      end.

    Definition hexpect (s : N) (i : nat) (a : alt) (ts : list Tok) (st : St) : hres Tok St :=
      match hstart s i st with
      | (st1, false) => HHookErr st1
      | (st1, true) =>
          match hexpect_elems s i a ts st1 with
          | HOk ts' st2 => match hend s i st2 with (st3, true) => HOk ts' st3 | (st3, false) => HHookErr st3 end
          | r => r
          end
      end.

    Fixpoint halts (s : N) (i : nat) (als : list alt) (ts : list Tok) (st : St) : hres Tok St :=
      match als with
      | [] => HReject st
      | a :: rest =>
          match a with
          | [] => HOk ts st                         (* empty clause: no hook runs *)
          | NT _ :: _ => HReject st
          | T t :: _ => if N.eqb (kind (hcur ts)) t then hexpect s i a ts st else halts s (S i) rest ts st
          end
      end.
  End Inner.

  Fixpoint hconsume (fuel : nat) (s : N) (ts : list Tok) (st : St) : hres Tok St :=
    match fuel with
    | O => HOutOfFuel
    | S f => halts (hconsume f) s 0%nat (rules g s) ts st
    end.

  Definition hparse (start : N) (eof : N) (ts : list Tok) (st : St) : hres Tok St :=
    match hconsume (fuel_for (map kind ts)) start ts st with
    | HOk rest st' => if N.eqb (kind (hcur rest)) eof then HOk rest st' else HReject st'
    | r => r
    end.

  (* the state reached, whatever the outcome *)
  Definition final_state (r : hres Tok St) (dflt : St) : St :=
    match r with HOk _ st => st | HReject st => st | HHookErr st => st | HOutOfFuel => dflt end.
End HookParser.
